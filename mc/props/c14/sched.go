package c14

import (
	"fmt"
	"os"
	"sort"
	"strconv"
	"strings"

	"github.com/zenon-network/go-zenon/chain/nom"
	"github.com/zenon-network/go-zenon/common/db"
	"github.com/zenon-network/go-zenon/common/types"
	"github.com/zenon-network/go-zenon/common/vsync"

	"verifmc/internal/ops"
	"verifmc/internal/sched"
	"verifmc/internal/vnode"
	"verifmc/internal/xs"
)

// Part C — schedule exploration on a real node under the controlled scheduler.
//
//	S1  inserter [gossip X1; InsertChain(Ma confirming X1)]            vs two readers
//	S2  producing pillar (generate, release insert lock, insert own)   vs sync InsertChain of a competing momentum at the
//	    same height vs a reader
//	S3  RollbackTo (one momentum)                                       vs two readers
//
// Readers take single-call snapshots (frontier account store of an account; frontier momentum store) and record tuples
// that must be mutually consistent, i.e. equal to the tuple of some state of the sequential execution.

type tuple struct{ who, val string }

func accountTuple(n *vnode.Node, a types.Address) string {
	st := n.Chain.GetFrontierAccountStore(a)
	bal, _ := st.GetBalance(types.ZnnTokenStandard)
	fr, _ := st.Frontier()
	h := ""
	if fr != nil {
		h = fr.Hash.String()[:8]
	}
	return fmt.Sprintf("acc(h=%d,bal=%v,front=%s)", st.Identifier().Height, bal, h)
}

func momentumTuple(n *vnode.Node, a types.Address) string {
	ms := n.Chain.GetFrontierMomentumStore()
	fm, _ := ms.GetFrontierMomentum()
	as := ms.GetAccountStore(a)
	bal, _ := as.GetBalance(types.ZnnTokenStandard)
	return fmt.Sprintf("mom(H=%d,acc=%d,bal=%v)", fm.Height, as.Identifier().Height, bal)
}

// poolTuple renders one call of GetUncommittedAccountBlocksByAddress. The statement demands that the pooled blocks form
// one chain extending a confirmed frontier; which confirmed frontier a concurrent reader sees is not fixed (during a
// rollback the store is rolled back before the pool is reset, and the previously confirmed block legitimately shows up
// as unconfirmed again). The tuple is therefore "base identifier the chain extends + whether it links", not the list.
func poolTuple(n *vnode.Node, a types.Address) string {
	bs := n.Chain.GetUncommittedAccountBlocksByAddress(a)
	if len(bs) == 0 {
		return "pool(empty)"
	}
	ok := true
	for i := 1; i < len(bs); i++ {
		if bs[i].Height != bs[i-1].Height+1 || bs[i].PreviousHash != bs[i-1].Hash {
			ok = false
		}
	}
	return fmt.Sprintf("pool(extends=%d:%s,links=%v)", bs[0].Height-1, bs[0].PreviousHash.String()[:8], ok)
}

type schedEnv struct {
	c *xs.Ctx
	r *xs.Result
	f *family
	// S2
	competing *nom.DetailedMomentum
}

func newSchedEnv(c *xs.Ctx, r *xs.Result) *schedEnv {
	e := &schedEnv{c: c, r: r, f: buildFamily(c)}
	// competing momentum for S2: another producer at the same height, next slot, with a transfer inside
	q := vnode.New(vnode.Options{Dir: c.TempDir()})
	if _, err, pan := q.InsertChain(vnode.CloneBatch(e.f.base)); err != nil || pan != nil {
		panic(fmt.Sprintf("%v %v", err, pan))
	}
	insertOwn(q, e.f.blocks["Y1"])
	if _, err := q.Produce(1); err != nil {
		panic(err)
	}
	e.competing = q.Detailed(q.Height())
	q.Destroy()
	return e
}

// admissible tuples are computed by running the same operations sequentially on a fresh node
func (e *schedEnv) sequentialTuples(steps []func(n *vnode.Node), obs func(n *vnode.Node) []string) map[string]bool {
	n := e.freshNode(true)
	defer n.Destroy()
	out := map[string]bool{}
	for _, t := range obs(n) {
		out[t] = true
	}
	for _, s := range steps {
		s(n)
		for _, t := range obs(n) {
			out[t] = true
		}
	}
	return out
}

func (e *schedEnv) freshNode(pillars bool) *vnode.Node {
	n := vnode.New(vnode.Options{Dir: e.c.TempDir(), NoPillars: !pillars})
	if _, err, pan := n.InsertChain(vnode.CloneBatch(e.f.base)); err != nil || pan != nil {
		panic(fmt.Sprintf("%v %v", err, pan))
	}
	return n
}

func (e *schedEnv) scenario(name string) sched.Scenario {
	f := e.f
	a, b := f.addrA, f.addrB
	obsAll := func(n *vnode.Node) []string {
		return []string{accountTuple(n, a), momentumTuple(n, a), poolTuple(n, a), accountTuple(n, b), momentumTuple(n, b)}
	}
	switch name {
	case "S1-inserter-vs-readers":
		steps := []func(n *vnode.Node){
			func(n *vnode.Node) { insertOwn(n, f.blocks["X1"]) },
			func(n *vnode.Node) { mustInsert(n, f.moms["Ma"]) },
		}
		adm := e.sequentialTuples(steps, obsAll)
		return func(s *vsync.Sched) func(x *sched.Exec) {
			n := e.freshNode(false)
			var seen []tuple
			db.VerifWriteHook = func(site string) { vsync.Yield(site) }
			s.Go("inserter", func() {
				for _, st := range steps {
					st(n)
				}
			})
			s.Go("reader-account", func() {
				for i := 0; i < 2; i++ {
					seen = append(seen, tuple{"acc", accountTuple(n, a)}, tuple{"pool", poolTuple(n, a)})
				}
			})
			s.Go("reader-momentum", func() {
				for i := 0; i < 2; i++ {
					seen = append(seen, tuple{"mom", momentumTuple(n, a)})
				}
			})
			return e.after(name, n, adm, &seen, nil)
		}
	case "S3-rollback-vs-readers":
		steps := []func(n *vnode.Node){
			func(n *vnode.Node) {
				ins := n.Chain.AcquireInsert("c14 s3")
				err := n.Chain.RollbackTo(ins, f.base[len(f.base)-1].Momentum.Identifier())
				ins.Unlock()
				if err != nil {
					panic(err)
				}
			},
		}
		prep := func(n *vnode.Node) {
			insertOwn(n, f.blocks["X1"])
			mustInsert(n, f.moms["Ma"])
			insertOwn(n, f.blocks["X2"])
		}
		nn := e.freshNode(false)
		prep(nn)
		adm := map[string]bool{}
		for _, t := range obsAll(nn) {
			adm[t] = true
		}
		steps[0](nn)
		for _, t := range obsAll(nn) {
			adm[t] = true
		}
		nn.Destroy()
		return func(s *vsync.Sched) func(x *sched.Exec) {
			n := e.freshNode(false)
			prep(n)
			var seen []tuple
			db.VerifWriteHook = func(site string) { vsync.Yield(site) }
			s.Go("rollback", func() { steps[0](n) })
			s.Go("reader-account", func() {
				for i := 0; i < 2; i++ {
					seen = append(seen, tuple{"acc", accountTuple(n, a)}, tuple{"pool", poolTuple(n, a)})
				}
			})
			s.Go("reader-momentum", func() {
				for i := 0; i < 2; i++ {
					seen = append(seen, tuple{"mom", momentumTuple(n, a)})
				}
			})
			return e.after(name, n, adm, &seen, nil)
		}
	case "S4-gossip-vs-switch":
		// a block that acknowledges the node's frontier momentum Ma arrives by gossip while sync hands the node a longer branch
		// without Ma: whichever wins the insert lock, afterwards the pool holds no block a node on the final chain refuses
		// (checked by after(): pool-holds-unacceptable-block)
		helper := e.freshNode(false)
		mustInsert(helper, f.moms["Ma"])
		tx, err := helper.Generate(&nom.AccountBlock{BlockType: nom.BlockTypeUserSend, Address: ops.Users[9].Address, ToAddress: ops.Users[8].Address,
			TokenStandard: types.ZnnTokenStandard, Amount: ops.Big(3)})
		if err != nil {
			panic(err)
		}
		gossiped := vnode.CloneBlock(tx.Block)
		helper.Destroy()
		q := e.freshNode(true)
		h0 := q.Height()
		for _, skip := range []int{1, 0} {
			if err := q.ProduceMomentumOnly(skip); err != nil {
				panic(err)
			}
		}
		branch := q.Range(h0+1, q.Height())
		q.Destroy()
		return func(s *vsync.Sched) func(x *sched.Exec) {
			n := e.freshNode(false)
			mustInsert(n, f.moms["Ma"])
			var seen []tuple
			var syncPanic interface{}
			db.VerifWriteHook = func(site string) { vsync.Yield(site) }
			s.Go("gossip", func() {
				n.AddAccountBlocks([]*nom.AccountBlock{vnode.CloneBlock(gossiped)})
			})
			s.Go("sync", func() {
				_, _, syncPanic = n.InsertChain(vnode.CloneBatch(branch))
			})
			return e.after(name, n, nil, &seen, func() string {
				if syncPanic != nil {
					return fmt.Sprintf("sync InsertChain panicked: %v", syncPanic)
				}
				return ""
			})
		}
	case "S2-pillar-vs-sync":
		return func(s *vsync.Sched) func(x *sched.Exec) {
			n := e.freshNode(true)
			insertOwn(n, f.blocks["X1"]) // something for the pillar to confirm
			var seen []tuple
			var syncErr error
			var syncPanic interface{}
			db.VerifWriteHook = func(site string) { vsync.Yield(site) }
			s.Go("pillar", func() {
				n.Produce(0)
			})
			s.Go("sync", func() {
				_, syncErr, syncPanic = n.InsertChain(vnode.CloneBatch([]*nom.DetailedMomentum{e.competing}))
			})
			s.Go("reader", func() {
				for i := 0; i < 2; i++ {
					seen = append(seen, tuple{"mom", momentumTuple(n, a)})
				}
			})
			return e.after(name, n, nil, &seen, func() string {
				if syncPanic != nil {
					return fmt.Sprintf("sync InsertChain panicked: %v", syncPanic)
				}
				_ = syncErr
				// "after each momentum the pool holds exactly the previously pooled blocks that were not confirmed by it and
				// still link": X1 was pooled before; whichever momentum won the height, X1 is either confirmed by the chain
				// the node is on or still pooled (it links to a confirmed frontier both momentums leave untouched)
				x1 := f.blocks["X1"]
				confirmed := false
				if b, err := n.Chain.GetFrontierMomentumStore().GetAccountBlockByHash(x1.Hash); err == nil && b != nil {
					confirmed = true
				}
				pooled := false
				for _, b := range n.PoolBlocks() {
					if b.Hash == x1.Hash {
						pooled = true
					}
				}
				if !confirmed && !pooled {
					return fmt.Sprintf("block X1 was pooled before the two momentums competed; the node is on momentum %v, which does not confirm X1, and X1 is gone from the pool", n.Frontier().Hash)
				}
				return ""
			})
		}
	}
	panic("unknown scenario " + name)
}

// poolExtendsAdmissible: a linking pooled chain is admissible if it extends a confirmed account frontier that some
// sequential state shows (acc tuples carry "h=<height>,...,front=<hash>").
func poolExtendsAdmissible(t tuple, adm map[string]bool) bool {
	if t.who != "pool" || !strings.Contains(t.val, "links=true") {
		return false
	}
	for k := range adm {
		if strings.HasPrefix(k, "mom(") {
			continue
		}
		var h int
		var bal, front string
		if _, err := fmt.Sscanf(strings.NewReplacer("(", " ", ")", " ", ",", " ", "=", " ").Replace(k), "acc h %d bal %s front %s", &h, &bal, &front); err == nil {
			if strings.Contains(t.val, fmt.Sprintf("extends=%d:%s", h, front)) {
				return true
			}
		}
	}
	return false
}

func mustInsert(n *vnode.Node, d *nom.DetailedMomentum) {
	if _, err, pan := n.InsertChain(vnode.CloneBatch([]*nom.DetailedMomentum{d})); err != nil || pan != nil {
		panic(fmt.Sprintf("%v %v", err, pan))
	}
}

func (e *schedEnv) after(name string, n *vnode.Node, adm map[string]bool, seen *[]tuple, extra func() string) func(x *sched.Exec) {
	r := e.r
	return func(x *sched.Exec) {
		db.VerifWriteHook = nil
		defer n.Destroy()
		if x.Skipped {
			return
		}
		rep := map[string]interface{}{"part": "sched", "scenario": name, "schedule": x.Choices}
		if x.Deadlock {
			r.Violate(schedPrefix+":sched:"+name+":deadlock", "deadlock", rep)
			return
		}
		for i, p := range x.Panics {
			if p != nil {
				r.Violate(schedPrefix+":sched:"+name+":panic", fmt.Sprintf("thread %d panicked: %v", i, p), rep)
				return
			}
		}
		if extra != nil {
			if s := extra(); s != "" {
				key := "sync-panic"
				if !strings.Contains(s, "panicked") {
					key = "pooled-block-lost"
				}
				r.Violate(schedPrefix+":sched:"+name+":"+key, s, rep)
				return
			}
		}
		var out []string
		for _, t := range *seen {
			out = append(out, t.val)
			if adm != nil && !adm[t.val] && !poolExtendsAdmissible(t, adm) {
				var al []string
				for k := range adm {
					al = append(al, k)
				}
				sort.Strings(al)
				r.Violate(schedPrefix+":sched:"+name+":reader-saw-non-sequential-state", fmt.Sprintf("reader observed %s which no state of the sequential execution shows (admissible: %s)", t.val, strings.Join(al, " ")), rep)
			}
		}
		// final state: the node must be exactly what a fresh node fed the chain it reports would be
		fnode := vnode.New(vnode.Options{Dir: e.c.TempDir(), NoPillars: true})
		defer fnode.Destroy()
		if _, err, pan := fnode.InsertChain(vnode.CloneBatch(n.Range(2, n.Height()))); err != nil || pan != nil {
			r.Violate(schedPrefix+":sched:"+name+":reported-chain-not-replayable", fmt.Sprintf("a fresh node refuses the chain the node reports: %v %v", err, pan), rep)
			return
		}
		if n.FullDigest() != fnode.FullDigest() {
			r.Violate(schedPrefix+":sched:"+name+":store-differs-from-replay", "final raw store differs from a fresh node's replay of the chain the node reports: "+vnode.DiffKV(n.Raw(nil, true), fnode.Raw(nil, true)), rep)
		}
		if a, b := n.ConsensusDigest(4), fnode.ConsensusDigest(4); a != b {
			r.Violate(schedPrefix+":sched:"+name+":consensus-differs-from-replay", fmt.Sprintf("consensus answers differ from a fresh node's:\n N %s\n F %s", a, b), rep)
		}
		if inv := checkInvariants(n, e.f); inv != "" {
			r.Violate(schedPrefix+":sched:"+name+":pool-not-a-single-chain", inv, rep)
		}
		for _, b := range n.PoolBlocks() {
			if err, pan := fnode.AddAccountBlocks([]*nom.AccountBlock{vnode.CloneBlock(b)}); err != nil || pan != nil {
				r.Violate(schedPrefix+":sched:"+name+":pool-holds-unacceptable-block", fmt.Sprintf("pooled block %v@%d is refused by a fresh node on the same chain: %v %v", b.Address, b.Height, err, pan), rep)
			}
		}
		r.Add("sched_outcomes", fmt.Sprintf("%s H=%d tip=%s pool=%d obs=%s", name, n.Height(), n.Frontier().Hash.String()[:6], len(n.PoolBlocks()), strings.Join(out, ";")))
	}
}

// schedPrefix: the property under which schedule violations are reported (C03 runs S4 under its own name)
var schedPrefix = "C14"

// RunScenario explores one schedule scenario up to the preemption bound, reporting violations under the given property.
func RunScenario(c *xs.Ctx, r *xs.Result, name, property string, bound int) {
	schedPrefix = property
	defer func() { schedPrefix = "C14" }()
	e := newSchedEnv(c, r)
	ex := &sched.Explorer{Scenario: e.scenario(name), Bound: bound, Deadline: c.Deadline}
	ex.Explore()
	r.Count("sched_executions", ex.Stats.Executions)
	r.Count("sched_points", ex.Stats.Points)
	if ex.Stats.Incomplete || ex.Stats.DivergentSkipped > 0 {
		r.Incomplete = true
		r.Note("%s sched %s: not completed at preemption bound %d (%d executions, %d divergent prefixes skipped)", property, name, bound, ex.Stats.Executions, ex.Stats.DivergentSkipped)
	} else {
		r.Add("sched_bound_completed", fmt.Sprintf("%s:%d", name, bound))
	}
}

// ReplayScenario re-executes one recorded schedule of a scenario under the given property.
func ReplayScenario(c *xs.Ctx, r *xs.Result, name, property string, choices []int) {
	schedPrefix = property
	defer func() { schedPrefix = "C14" }()
	replaySched(c, r, name, choices)
}

var schedNames = []string{"S1-inserter-vs-readers", "S3-rollback-vs-readers", "S4-gossip-vs-switch", "S2-pillar-vs-sync"}

func runSched(c *xs.Ctx, r *xs.Result) {
	e := newSchedEnv(c, r)
	if k, _ := strconv.Atoi(os.Getenv("VERIF_C14_PROBE")); k > 0 { // development aid: determinism self-test of the scenarios
		for _, name := range schedNames {
			ex := &sched.Explorer{Scenario: e.scenario(name)}
			fmt.Fprintf(os.Stderr, "PROBE %s: %q\n", name, ex.Probe(k))
		}
		return
	}
	bound := 1
	if c.Thorough() {
		bound = 2
	}
	for _, name := range schedNames {
		ex := &sched.Explorer{Scenario: e.scenario(name), Bound: bound, Deadline: c.Deadline, Shard: c.Shard, NShards: c.NShards}
		ex.Explore()
		r.Count("sched_executions", ex.Stats.Executions)
		r.Count("sched_points", ex.Stats.Points)
		r.Count("sched_deadlocks", ex.Stats.Deadlocks)
		if ex.Stats.DivergentSkipped > 0 {
			r.Incomplete = true
			r.Count("sched_divergent_prefixes_skipped", ex.Stats.DivergentSkipped)
			r.Note("C14 sched %s: %d choice prefixes did not reproduce their recorded execution after 5 retries and were skipped (last: %s)", name, ex.Stats.DivergentSkipped, ex.Stats.LastDivergence)
		}
		r.Count("sched_divergence_retries", ex.Stats.DivergenceRetries)
		if ex.Stats.Incomplete {
			r.Incomplete = true
			r.Note("C14 sched %s: deadline before preemption bound %d was completed (%d executions in this shard)", name, bound, ex.Stats.Executions)
		} else {
			r.Add("sched_bound_completed", fmt.Sprintf("%s:%d", name, bound))
		}
		if c.Shard == 0 {
			r.Note("C14 sched %s: max %d scheduling points per execution", name, ex.Stats.MaxPoints)
		}
	}
	_ = ops.Users
}

func replaySched(c *xs.Ctx, r *xs.Result, name string, choices []int) {
	e := newSchedEnv(c, r)
	ex := &sched.Explorer{Scenario: e.scenario(name)}
	if _, err := ex.Replay(choices); err != nil {
		panic(err)
	}
	r.Count("sched_executions", ex.Stats.Executions)
	r.Count("sched_points", ex.Stats.Points)
}
