package c20

// Generation of genesis configurations that are consistent by construction, deep copies, list permutations, the
// independent consistency predicate, and the enumeration of single-entry perturbations.

import (
	"crypto/sha256"
	"fmt"
	"math/big"

	"github.com/zenon-network/go-zenon/chain/genesis"
	g "github.com/zenon-network/go-zenon/chain/genesis/mock"
	"github.com/zenon-network/go-zenon/common/types"
	"github.com/zenon-network/go-zenon/vm/embedded/definition"
)

// Shape selects one generated configuration.
type Shape struct {
	Acc   int `json:"acc"`   // user accounts
	Tok   int `json:"tok"`   // tokens besides ZNN and QSR
	Pil   int `json:"pil"`   // pillars
	Fus   int `json:"fus"`   // plasma fusion entries
	Swap  int `json:"swap"`  // swap entries
	Spork int `json:"spork"` // 0: no SporkConfig, 1: empty list, 2: two sporks (one inactive unknown id, one active implemented id)
	Del   int `json:"del"`   // delegations
	Leg   int `json:"leg"`   // legacy pillar entries
	TS0   int `json:"ts0,omitempty"` // 1: the configuration names no genesis time (GenesisTimestampSec 0 = the field omitted from the file)
}

func (s Shape) Name() string {
	n := fmt.Sprintf("a%dt%dp%df%ds%dk%dd%dl%d", s.Acc, s.Tok, s.Pil, s.Fus, s.Swap, s.Spork, s.Del, s.Leg)
	if s.TS0 != 0 {
		n += "z"
	}
	return n
}

const genesisTimestamp = 1000000000
const zexp = 100000000

func addrOf(name string) types.Address {
	h := sha256.Sum256([]byte("c20/addr/" + name))
	var a types.Address
	a[0] = types.UserAddrByte
	copy(a[1:], h[:types.AddressCoreSize])
	return a
}

func hashOf(name string) types.Hash {
	return types.Hash(sha256.Sum256([]byte("c20/hash/" + name)))
}

func extraZts(k int) types.ZenonTokenStandard {
	return types.NewZenonTokenStandard([]byte(fmt.Sprintf("c20/token/%d", k)))
}

func userAddr(u int) types.Address { return addrOf(fmt.Sprintf("user/%d", u)) }

func bi(v int64) *big.Int { return big.NewInt(v) }

// build returns the configuration of a shape. All keys under which entries are stored (pillar names, producing
// addresses, delegation backers, legacy/swap key-id hashes, (owner, id) of fusions, token standards, spork ids, block
// addresses) are pairwise distinct, so no list of the configuration carries an order.
func build(s Shape) *genesis.GenesisConfig {
	sporkAddr := addrOf("spork-admin")
	cfg := &genesis.GenesisConfig{
		ChainIdentifier:     100,
		ExtraData:           "c20 generated genesis " + s.Name(),
		GenesisTimestampSec: genesisTimestamp,
		SporkAddress:        &sporkAddr,
		PillarConfig:        &genesis.PillarContractConfig{Pillars: []*definition.PillarInfo{}, Delegations: []*definition.DelegationInfo{}, LegacyEntries: []*definition.LegacyPillarEntry{}},
		TokenConfig:         &genesis.TokenContractConfig{},
		PlasmaConfig:        &genesis.PlasmaContractConfig{Fusions: []*definition.FusionInfo{}},
		SwapConfig:          &genesis.SwapContractConfig{Entries: []*definition.SwapAssets{}},
		GenesisBlocks:       &genesis.GenesisBlocksConfig{},
	}
	pillarTotal := new(big.Int)
	for i := 0; i < s.Pil; i++ {
		amount := bi(15000*zexp + int64(i))
		pillarTotal.Add(pillarTotal, amount)
		cfg.PillarConfig.Pillars = append(cfg.PillarConfig.Pillars, &definition.PillarInfo{
			Name:                         fmt.Sprintf("c20-pillar-%d", i),
			BlockProducingAddress:        g.PillarKeys[i].Address,
			StakeAddress:                 g.PillarKeys[i].Address,
			RewardWithdrawAddress:        g.PillarKeys[i].Address,
			Amount:                       amount,
			RegistrationTime:             genesisTimestamp,
			GiveBlockRewardPercentage:    uint8(i),
			GiveDelegateRewardPercentage: 100,
			PillarType:                   definition.LegacyPillarType,
		})
	}
	if s.Pil == 0 && s.Del > 0 {
		panic("delegations need pillars")
	}
	for j := 0; j < s.Del; j++ {
		backer := userAddr(j)
		if j >= s.Acc {
			backer = g.PillarKeys[j-s.Acc].Address
		}
		cfg.PillarConfig.Delegations = append(cfg.PillarConfig.Delegations, &definition.DelegationInfo{Name: fmt.Sprintf("c20-pillar-%d", j%s.Pil), Backer: backer})
	}
	for j := 0; j < s.Leg; j++ {
		cfg.PillarConfig.LegacyEntries = append(cfg.PillarConfig.LegacyEntries, &definition.LegacyPillarEntry{KeyIdHash: hashOf(fmt.Sprintf("legacy/%d", j)), PillarCount: uint8(j + 1)})
	}
	fusionTotal := new(big.Int)
	for f := 0; f < s.Fus; f++ {
		amount := bi(100*zexp + int64(f))
		fusionTotal.Add(fusionTotal, amount)
		cfg.PlasmaConfig.Fusions = append(cfg.PlasmaConfig.Fusions, &definition.FusionInfo{
			Owner:       userAddr(f % s.Acc),
			Id:          hashOf(fmt.Sprintf("fusion/%d", f)),
			Amount:      amount,
			Beneficiary: g.PillarKeys[f%2].Address, // with 3 fusions two of them share a beneficiary
		})
	}
	for e := 0; e < s.Swap; e++ {
		cfg.SwapConfig.Entries = append(cfg.SwapConfig.Entries, &definition.SwapAssets{KeyIdHash: hashOf(fmt.Sprintf("swap/%d", e)), Znn: bi(500 + int64(e)), Qsr: bi(5000 + int64(e))})
	}
	switch s.Spork {
	case 1:
		cfg.SporkConfig = &genesis.SporkConfig{Sporks: []*definition.Spork{}}
	case 2:
		cfg.SporkConfig = &genesis.SporkConfig{Sporks: []*definition.Spork{
			{Id: hashOf("spork/unknown"), Name: "c20-unknown", Description: "not activated, not implemented", Activated: false, EnforcementHeight: 0},
			{Id: types.AcceleratorSpork.SporkId, Name: "c20-accelerator", Description: "activated, implemented", Activated: true, EnforcementHeight: 1},
		}}
	}

	// balances
	blocks := []*genesis.GenesisBlockConfig{}
	if s.Pil > 0 {
		blocks = append(blocks, &genesis.GenesisBlockConfig{Address: types.PillarContract, BalanceList: map[types.ZenonTokenStandard]*big.Int{types.ZnnTokenStandard: new(big.Int).Set(pillarTotal)}})
	}
	if s.Fus > 0 {
		blocks = append(blocks, &genesis.GenesisBlockConfig{Address: types.PlasmaContract, BalanceList: map[types.ZenonTokenStandard]*big.Int{types.QsrTokenStandard: new(big.Int).Set(fusionTotal)}})
	}
	for u := 0; u < s.Acc; u++ {
		bl := map[types.ZenonTokenStandard]*big.Int{
			types.ZnnTokenStandard: bi(1000*zexp + 17*int64(u)),
			types.QsrTokenStandard: bi(5000*zexp + 13*int64(u)),
		}
		for k := 0; k < s.Tok; k++ {
			if (u+k)%2 == 0 {
				bl[extraZts(k)] = bi(100*int64(k+1) + int64(u))
			}
		}
		blocks = append(blocks, &genesis.GenesisBlockConfig{Address: userAddr(u), BalanceList: bl})
	}
	cfg.GenesisBlocks.Blocks = blocks

	// declared tokens, supplies = sums
	sum := func(zts types.ZenonTokenStandard) *big.Int {
		t := new(big.Int)
		for _, b := range blocks {
			if v, ok := b.BalanceList[zts]; ok {
				t.Add(t, v)
			}
		}
		return t
	}
	max := new(big.Int).Lsh(big.NewInt(1), 62)
	cfg.TokenConfig.Tokens = []*definition.TokenInfo{
		{Owner: types.PillarContract, TokenName: "Zenon Coin", TokenSymbol: "ZNN", TokenDomain: "zenon.network", TotalSupply: sum(types.ZnnTokenStandard), MaxSupply: new(big.Int).Set(max), Decimals: 8, IsMintable: true, IsBurnable: true, IsUtility: true, TokenStandard: types.ZnnTokenStandard},
		{Owner: types.StakeContract, TokenName: "QuasarCoin", TokenSymbol: "QSR", TokenDomain: "zenon.network", TotalSupply: sum(types.QsrTokenStandard), MaxSupply: new(big.Int).Set(max), Decimals: 8, IsMintable: true, IsBurnable: true, IsUtility: true, TokenStandard: types.QsrTokenStandard},
	}
	for k := 0; k < s.Tok; k++ {
		cfg.TokenConfig.Tokens = append(cfg.TokenConfig.Tokens, &definition.TokenInfo{
			Owner: userAddr(k % s.Acc), TokenName: fmt.Sprintf("C20 Token %d", k), TokenSymbol: fmt.Sprintf("CT%d", k), TokenDomain: "c20.test",
			TotalSupply: sum(extraZts(k)), MaxSupply: new(big.Int).Set(max), Decimals: uint8(8 - k), IsMintable: k%2 == 0, IsBurnable: k%2 == 1, IsUtility: false, TokenStandard: extraZts(k),
		})
	}
	if s.TS0 != 0 {
		cfg.GenesisTimestampSec = 0
	}
	return cfg
}

// ---------------------------------------------------------------------------------------------------------------------
// deep copy

func cpInt(v *big.Int) *big.Int {
	if v == nil {
		return nil
	}
	return new(big.Int).Set(v)
}

func clone(c *genesis.GenesisConfig) *genesis.GenesisConfig {
	o := &genesis.GenesisConfig{ChainIdentifier: c.ChainIdentifier, ExtraData: c.ExtraData, GenesisTimestampSec: c.GenesisTimestampSec}
	if c.SporkAddress != nil {
		a := *c.SporkAddress
		o.SporkAddress = &a
	}
	if c.PillarConfig != nil {
		o.PillarConfig = &genesis.PillarContractConfig{}
		for _, p := range c.PillarConfig.Pillars {
			q := *p
			q.Amount = cpInt(p.Amount)
			o.PillarConfig.Pillars = append(o.PillarConfig.Pillars, &q)
		}
		for _, p := range c.PillarConfig.Delegations {
			q := *p
			o.PillarConfig.Delegations = append(o.PillarConfig.Delegations, &q)
		}
		for _, p := range c.PillarConfig.LegacyEntries {
			q := *p
			o.PillarConfig.LegacyEntries = append(o.PillarConfig.LegacyEntries, &q)
		}
	}
	if c.TokenConfig != nil {
		o.TokenConfig = &genesis.TokenContractConfig{}
		for _, p := range c.TokenConfig.Tokens {
			q := *p
			q.TotalSupply, q.MaxSupply = cpInt(p.TotalSupply), cpInt(p.MaxSupply)
			o.TokenConfig.Tokens = append(o.TokenConfig.Tokens, &q)
		}
	}
	if c.PlasmaConfig != nil {
		o.PlasmaConfig = &genesis.PlasmaContractConfig{}
		for _, p := range c.PlasmaConfig.Fusions {
			q := *p
			q.Amount = cpInt(p.Amount)
			o.PlasmaConfig.Fusions = append(o.PlasmaConfig.Fusions, &q)
		}
	}
	if c.SwapConfig != nil {
		o.SwapConfig = &genesis.SwapContractConfig{}
		for _, p := range c.SwapConfig.Entries {
			q := *p
			q.Znn, q.Qsr = cpInt(p.Znn), cpInt(p.Qsr)
			o.SwapConfig.Entries = append(o.SwapConfig.Entries, &q)
		}
	}
	if c.SporkConfig != nil {
		o.SporkConfig = &genesis.SporkConfig{Sporks: []*definition.Spork{}}
		for _, p := range c.SporkConfig.Sporks {
			q := *p
			o.SporkConfig.Sporks = append(o.SporkConfig.Sporks, &q)
		}
	}
	if c.GenesisBlocks != nil {
		o.GenesisBlocks = &genesis.GenesisBlocksConfig{}
		for _, b := range c.GenesisBlocks.Blocks {
			o.GenesisBlocks.Blocks = append(o.GenesisBlocks.Blocks, cloneBlock(b))
		}
	}
	return o
}

func cloneBlock(b *genesis.GenesisBlockConfig) *genesis.GenesisBlockConfig {
	q := &genesis.GenesisBlockConfig{Address: b.Address, BalanceList: map[types.ZenonTokenStandard]*big.Int{}}
	for k, v := range b.BalanceList {
		q.BalanceList[k] = cpInt(v)
	}
	return q
}

// ---------------------------------------------------------------------------------------------------------------------
// the lists that carry no order

var listNames = []string{"pillars", "delegations", "legacy", "tokens", "fusions", "swap", "sporks", "blocks"}

func listLen(c *genesis.GenesisConfig, list string) int {
	switch list {
	case "pillars":
		return len(c.PillarConfig.Pillars)
	case "delegations":
		return len(c.PillarConfig.Delegations)
	case "legacy":
		return len(c.PillarConfig.LegacyEntries)
	case "tokens":
		return len(c.TokenConfig.Tokens)
	case "fusions":
		return len(c.PlasmaConfig.Fusions)
	case "swap":
		return len(c.SwapConfig.Entries)
	case "sporks":
		if c.SporkConfig == nil {
			return 0
		}
		return len(c.SporkConfig.Sporks)
	case "blocks":
		return len(c.GenesisBlocks.Blocks)
	}
	panic("unknown list " + list)
}

func permuted[T any](in []T, p []int) []T {
	out := make([]T, len(in))
	for i, j := range p {
		out[i] = in[j]
	}
	return out
}

// permute reorders one list of c in place: new[i] = old[p[i]].
func permute(c *genesis.GenesisConfig, list string, p []int) {
	switch list {
	case "pillars":
		c.PillarConfig.Pillars = permuted(c.PillarConfig.Pillars, p)
	case "delegations":
		c.PillarConfig.Delegations = permuted(c.PillarConfig.Delegations, p)
	case "legacy":
		c.PillarConfig.LegacyEntries = permuted(c.PillarConfig.LegacyEntries, p)
	case "tokens":
		c.TokenConfig.Tokens = permuted(c.TokenConfig.Tokens, p)
	case "fusions":
		c.PlasmaConfig.Fusions = permuted(c.PlasmaConfig.Fusions, p)
	case "swap":
		c.SwapConfig.Entries = permuted(c.SwapConfig.Entries, p)
	case "sporks":
		c.SporkConfig.Sporks = permuted(c.SporkConfig.Sporks, p)
	case "blocks":
		c.GenesisBlocks.Blocks = permuted(c.GenesisBlocks.Blocks, p)
	default:
		panic("unknown list " + list)
	}
}

// allPerms returns every permutation of 0..n-1 in lexicographic order (identity first).
func allPerms(n int) [][]int {
	var out [][]int
	cur := make([]int, 0, n)
	used := make([]bool, n)
	var rec func()
	rec = func() {
		if len(cur) == n {
			out = append(out, append([]int{}, cur...))
			return
		}
		for i := 0; i < n; i++ {
			if !used[i] {
				used[i] = true
				cur = append(cur, i)
				rec()
				cur = cur[:len(cur)-1]
				used[i] = false
			}
		}
	}
	rec()
	return out
}

func reversal(n int) []int {
	p := make([]int, n)
	for i := range p {
		p[i] = n - 1 - i
	}
	return p
}

func rotation(n int) []int {
	p := make([]int, n)
	for i := range p {
		p[i] = (i + 1) % n
	}
	return p
}

// ---------------------------------------------------------------------------------------------------------------------
// independent consistency predicate (configuration level, exactly what the statement names):
//   * every token that has a balance is declared, and the balances of every declared token add up to its total supply;
//   * the pillar contract holds, in ZNN, the sum of the pillars' amounts; the plasma contract holds, in QSR, the sum of
//     the fusion amounts; the swap contract holds nothing.
// A missing section counts as an empty one.

func refConsistent(c *genesis.GenesisConfig) (bool, string) {
	held := map[types.Address]map[types.ZenonTokenStandard]*big.Int{}
	total := map[types.ZenonTokenStandard]*big.Int{}
	if c.GenesisBlocks != nil {
		for _, b := range c.GenesisBlocks.Blocks {
			if b == nil {
				continue
			}
			for zts, v := range b.BalanceList {
				if v == nil {
					continue
				}
				if held[b.Address] == nil {
					held[b.Address] = map[types.ZenonTokenStandard]*big.Int{}
				}
				if held[b.Address][zts] == nil {
					held[b.Address][zts] = new(big.Int)
				}
				held[b.Address][zts].Add(held[b.Address][zts], v)
				if total[zts] == nil {
					total[zts] = new(big.Int)
				}
				total[zts].Add(total[zts], v)
			}
		}
	}
	declared := map[types.ZenonTokenStandard]bool{}
	if c.TokenConfig != nil {
		for _, t := range c.TokenConfig.Tokens {
			declared[t.TokenStandard] = true
			have := total[t.TokenStandard]
			if have == nil {
				have = new(big.Int)
			}
			if t.TotalSupply == nil || t.TotalSupply.Cmp(have) != 0 {
				return false, "supply-mismatch"
			}
		}
	}
	for zts, v := range total {
		if !declared[zts] && v.Sign() != 0 {
			return false, "undeclared-token"
		}
	}
	holding := func(a types.Address, zts types.ZenonTokenStandard) *big.Int {
		if held[a] != nil && held[a][zts] != nil {
			return held[a][zts]
		}
		return new(big.Int)
	}
	want := new(big.Int)
	if c.PillarConfig != nil {
		for _, p := range c.PillarConfig.Pillars {
			if p.Amount != nil {
				want.Add(want, p.Amount)
			}
		}
	}
	if holding(types.PillarContract, types.ZnnTokenStandard).Cmp(want) != 0 {
		return false, "pillar-holdings-mismatch"
	}
	want = new(big.Int)
	if c.PlasmaConfig != nil {
		for _, f := range c.PlasmaConfig.Fusions {
			if f != nil && f.Amount != nil {
				want.Add(want, f.Amount)
			}
		}
	}
	if holding(types.PlasmaContract, types.QsrTokenStandard).Cmp(want) != 0 {
		return false, "plasma-holdings-mismatch"
	}
	if holding(types.SwapContract, types.ZnnTokenStandard).Sign() != 0 || holding(types.SwapContract, types.QsrTokenStandard).Sign() != 0 {
		return false, "swap-holdings-nonzero"
	}
	return true, ""
}

// ---------------------------------------------------------------------------------------------------------------------
// single-entry perturbations

type pert struct {
	Name  string // unique within the configuration
	Class string // kind of edit (used in violation keys)
	Apply func(c *genesis.GenesisConfig)
}

func removeAt[T any](in []T, i int) []T {
	out := append([]T{}, in[:i]...)
	return append(out, in[i+1:]...)
}

func sortedZts(m map[types.ZenonTokenStandard]*big.Int) []types.ZenonTokenStandard {
	var ks []types.ZenonTokenStandard
	for k := range m {
		ks = append(ks, k)
	}
	for i := range ks {
		for j := i + 1; j < len(ks); j++ {
			if string(ks[j][:]) < string(ks[i][:]) {
				ks[i], ks[j] = ks[j], ks[i]
			}
		}
	}
	return ks
}

func perturbations(base *genesis.GenesisConfig) []pert {
	var out []pert
	add := func(class, name string, f func(c *genesis.GenesisConfig)) {
		out = append(out, pert{Name: name, Class: class, Apply: f})
	}
	hasBlock := func(a types.Address) bool {
		for _, b := range base.GenesisBlocks.Blocks {
			if b.Address == a {
				return true
			}
		}
		return false
	}
	blockKind := func(a types.Address) string {
		switch a {
		case types.PillarContract:
			return "pillar-contract"
		case types.PlasmaContract:
			return "plasma-contract"
		case types.SwapContract:
			return "swap-contract"
		}
		return "user"
	}
	for _, d := range []int64{+1, -1} {
		d := d
		sg := map[int64]string{1: "+1", -1: "-1"}[d]
		for i, b := range base.GenesisBlocks.Blocks {
			for _, zts := range sortedZts(b.BalanceList) {
				i, zts := i, zts
				add("balance"+sg+":"+blockKind(b.Address), fmt.Sprintf("block[%d].%v%s", i, zts, sg), func(c *genesis.GenesisConfig) {
					v := c.GenesisBlocks.Blocks[i].BalanceList[zts]
					v.Add(v, bi(d))
				})
			}
		}
		for i := range base.PlasmaConfig.Fusions {
			i := i
			add("fusion-amount"+sg, fmt.Sprintf("fusion[%d].amount%s", i, sg), func(c *genesis.GenesisConfig) {
				v := c.PlasmaConfig.Fusions[i].Amount
				v.Add(v, bi(d))
			})
		}
		for i := range base.PillarConfig.Pillars {
			i := i
			add("pillar-amount"+sg, fmt.Sprintf("pillar[%d].amount%s", i, sg), func(c *genesis.GenesisConfig) {
				v := c.PillarConfig.Pillars[i].Amount
				v.Add(v, bi(d))
			})
		}
		for i := range base.TokenConfig.Tokens {
			i := i
			add("total-supply"+sg, fmt.Sprintf("token[%d].totalSupply%s", i, sg), func(c *genesis.GenesisConfig) {
				v := c.TokenConfig.Tokens[i].TotalSupply
				v.Add(v, bi(d))
			})
		}
		for i := range base.SwapConfig.Entries {
			i := i
			add("swap-entry-znn"+sg, fmt.Sprintf("swap[%d].znn%s", i, sg), func(c *genesis.GenesisConfig) {
				v := c.SwapConfig.Entries[i].Znn
				v.Add(v, bi(d))
			})
			add("swap-entry-qsr"+sg, fmt.Sprintf("swap[%d].qsr%s", i, sg), func(c *genesis.GenesisConfig) {
				v := c.SwapConfig.Entries[i].Qsr
				v.Add(v, bi(d))
			})
		}
	}
	// remove / duplicate every entry
	for i, b := range base.GenesisBlocks.Blocks {
		i := i
		add("remove-block:"+blockKind(b.Address), fmt.Sprintf("remove block[%d]", i), func(c *genesis.GenesisConfig) {
			c.GenesisBlocks.Blocks = removeAt(c.GenesisBlocks.Blocks, i)
		})
		add("duplicate-block:"+blockKind(b.Address), fmt.Sprintf("duplicate block[%d]", i), func(c *genesis.GenesisConfig) {
			c.GenesisBlocks.Blocks = append(c.GenesisBlocks.Blocks, cloneBlock(c.GenesisBlocks.Blocks[i]))
		})
		for _, zts := range sortedZts(b.BalanceList) {
			zts := zts
			add("drop-balance-entry:"+blockKind(b.Address), fmt.Sprintf("block[%d] without %v", i, zts), func(c *genesis.GenesisConfig) {
				delete(c.GenesisBlocks.Blocks[i].BalanceList, zts)
			})
		}
	}
	// one entry is re-addressed to a contract (per-token totals unchanged): the contract then holds more than its
	// configuration section accounts for; with the contract's own entry before or after the re-addressed one
	nre := 0
	for i, b := range base.GenesisBlocks.Blocks {
		if blockKind(b.Address) != "user" || nre >= 2 {
			continue
		}
		nre++
		for _, target := range []types.Address{types.PillarContract, types.PlasmaContract, types.SwapContract} {
			i, target := i, target
			add("readdress-block-to:"+blockKind(target), fmt.Sprintf("block[%d].address = %s", i, blockKind(target)), func(c *genesis.GenesisConfig) {
				c.GenesisBlocks.Blocks[i].Address = target
			})
			add("readdress-block-to:"+blockKind(target)+":moved-to-front", fmt.Sprintf("block[%d].address = %s, moved to the front", i, blockKind(target)), func(c *genesis.GenesisConfig) {
				b := c.GenesisBlocks.Blocks[i]
				b.Address = target
				c.GenesisBlocks.Blocks = append([]*genesis.GenesisBlockConfig{b}, removeAt(c.GenesisBlocks.Blocks, i)...)
			})
		}
	}
	for i := range base.PillarConfig.Pillars {
		i := i
		add("remove-pillar", fmt.Sprintf("remove pillar[%d]", i), func(c *genesis.GenesisConfig) { c.PillarConfig.Pillars = removeAt(c.PillarConfig.Pillars, i) })
		add("duplicate-pillar", fmt.Sprintf("duplicate pillar[%d]", i), func(c *genesis.GenesisConfig) {
			q := *c.PillarConfig.Pillars[i]
			q.Amount = cpInt(q.Amount)
			c.PillarConfig.Pillars = append(c.PillarConfig.Pillars, &q)
		})
	}
	for i := range base.PlasmaConfig.Fusions {
		i := i
		add("remove-fusion", fmt.Sprintf("remove fusion[%d]", i), func(c *genesis.GenesisConfig) { c.PlasmaConfig.Fusions = removeAt(c.PlasmaConfig.Fusions, i) })
		add("duplicate-fusion", fmt.Sprintf("duplicate fusion[%d]", i), func(c *genesis.GenesisConfig) {
			q := *c.PlasmaConfig.Fusions[i]
			q.Amount = cpInt(q.Amount)
			c.PlasmaConfig.Fusions = append(c.PlasmaConfig.Fusions, &q)
		})
	}
	for i := range base.TokenConfig.Tokens {
		i := i
		add("remove-token", fmt.Sprintf("remove token[%d]", i), func(c *genesis.GenesisConfig) { c.TokenConfig.Tokens = removeAt(c.TokenConfig.Tokens, i) })
		add("duplicate-token", fmt.Sprintf("duplicate token[%d]", i), func(c *genesis.GenesisConfig) {
			q := *c.TokenConfig.Tokens[i]
			q.TotalSupply, q.MaxSupply = cpInt(q.TotalSupply), cpInt(q.MaxSupply)
			c.TokenConfig.Tokens = append(c.TokenConfig.Tokens, &q)
		})
	}
	for i := range base.SwapConfig.Entries {
		i := i
		add("remove-swap-entry", fmt.Sprintf("remove swap[%d]", i), func(c *genesis.GenesisConfig) { c.SwapConfig.Entries = removeAt(c.SwapConfig.Entries, i) })
	}
	for i := range base.PillarConfig.Delegations {
		i := i
		add("remove-delegation", fmt.Sprintf("remove delegation[%d]", i), func(c *genesis.GenesisConfig) {
			c.PillarConfig.Delegations = removeAt(c.PillarConfig.Delegations, i)
		})
	}
	if base.SporkConfig != nil {
		for i := range base.SporkConfig.Sporks {
			i := i
			add("remove-spork", fmt.Sprintf("remove spork[%d]", i), func(c *genesis.GenesisConfig) { c.SporkConfig.Sporks = removeAt(c.SporkConfig.Sporks, i) })
		}
	}
	// add one new entry
	add("add-fusion:"+map[bool]string{true: "plasma-block-present", false: "no-plasma-block"}[hasBlock(types.PlasmaContract)], "add fusion", func(c *genesis.GenesisConfig) {
		c.PlasmaConfig.Fusions = append(c.PlasmaConfig.Fusions, &definition.FusionInfo{Owner: userAddr(0), Id: hashOf("fusion/added"), Amount: bi(7 * zexp), Beneficiary: userAddr(1)})
	})
	add("add-pillar:"+map[bool]string{true: "pillar-block-present", false: "no-pillar-block"}[hasBlock(types.PillarContract)], "add pillar", func(c *genesis.GenesisConfig) {
		k := len(c.PillarConfig.Pillars)
		c.PillarConfig.Pillars = append(c.PillarConfig.Pillars, &definition.PillarInfo{Name: "c20-pillar-added", BlockProducingAddress: g.PillarKeys[k].Address, StakeAddress: g.PillarKeys[k].Address,
			RewardWithdrawAddress: g.PillarKeys[k].Address, Amount: bi(15000 * zexp), RegistrationTime: genesisTimestamp, GiveDelegateRewardPercentage: 100, PillarType: definition.LegacyPillarType})
	})
	add("add-block:user", "add user block", func(c *genesis.GenesisConfig) {
		c.GenesisBlocks.Blocks = append(c.GenesisBlocks.Blocks, &genesis.GenesisBlockConfig{Address: addrOf("user/added"), BalanceList: map[types.ZenonTokenStandard]*big.Int{types.ZnnTokenStandard: bi(5)}})
	})
	if !hasBlock(types.PlasmaContract) {
		add("add-block:plasma-contract", "add plasma contract block", func(c *genesis.GenesisConfig) {
			c.GenesisBlocks.Blocks = append(c.GenesisBlocks.Blocks, &genesis.GenesisBlockConfig{Address: types.PlasmaContract, BalanceList: map[types.ZenonTokenStandard]*big.Int{types.QsrTokenStandard: bi(5)}})
		})
	}
	add("add-block:swap-contract", "add swap contract block", func(c *genesis.GenesisConfig) {
		c.GenesisBlocks.Blocks = append(c.GenesisBlocks.Blocks, &genesis.GenesisBlockConfig{Address: types.SwapContract, BalanceList: map[types.ZenonTokenStandard]*big.Int{types.ZnnTokenStandard: bi(5)}})
	})
	add("add-undeclared-token-balance", "user 0 gets an undeclared token", func(c *genesis.GenesisConfig) {
		for _, b := range c.GenesisBlocks.Blocks {
			if b.Address == userAddr(0) {
				b.BalanceList[extraZts(99)] = bi(3)
			}
		}
	})
	add("add-token-without-balance", "declare a token nobody holds", func(c *genesis.GenesisConfig) {
		c.TokenConfig.Tokens = append(c.TokenConfig.Tokens, &definition.TokenInfo{Owner: userAddr(0), TokenName: "Ghost", TokenSymbol: "GHO", TokenDomain: "c20.test", TotalSupply: bi(9), MaxSupply: bi(9), Decimals: 0, TokenStandard: extraZts(98)})
	})
	add("add-swap-entry", "add swap entry", func(c *genesis.GenesisConfig) {
		c.SwapConfig.Entries = append(c.SwapConfig.Entries, &definition.SwapAssets{KeyIdHash: hashOf("swap/added"), Znn: bi(1), Qsr: bi(1)})
	})
	// whole sections
	add("nil-GenesisBlocks", "GenesisBlocks = nil", func(c *genesis.GenesisConfig) { c.GenesisBlocks = nil })
	add("nil-TokenConfig", "TokenConfig = nil", func(c *genesis.GenesisConfig) { c.TokenConfig = nil })
	add("nil-PillarConfig", "PillarConfig = nil", func(c *genesis.GenesisConfig) { c.PillarConfig = nil })
	add("nil-PlasmaConfig:"+map[bool]string{true: "plasma-block-present", false: "no-plasma-block"}[hasBlock(types.PlasmaContract)], "PlasmaConfig = nil", func(c *genesis.GenesisConfig) { c.PlasmaConfig = nil })
	add("nil-SwapConfig", "SwapConfig = nil", func(c *genesis.GenesisConfig) { c.SwapConfig = nil })
	add("nil-SporkAddress", "SporkAddress = nil", func(c *genesis.GenesisConfig) { c.SporkAddress = nil })
	add("nil-SporkConfig", "SporkConfig = nil", func(c *genesis.GenesisConfig) { c.SporkConfig = nil })
	add("empty-blocks", "GenesisBlocks.Blocks = []", func(c *genesis.GenesisConfig) { c.GenesisBlocks.Blocks = nil })
	add("empty-tokens", "TokenConfig.Tokens = []", func(c *genesis.GenesisConfig) { c.TokenConfig.Tokens = nil })
	add("empty-pillars", "PillarConfig.Pillars = []", func(c *genesis.GenesisConfig) { c.PillarConfig.Pillars = nil })
	return out
}
