package c18

import (
	"time"

	"github.com/zenon-network/go-zenon/consensus"
)

// setGlobals fixes the process-global configuration of the worker process (each worker is a fresh process).
func setGlobals() {
	consensus.EpochDuration = time.Hour // as the repository's own embedded tests: several epochs within a few hundred momentums
}
