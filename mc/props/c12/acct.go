package c12

import (
	"encoding/binary"
	"fmt"
	"math/big"
	"sort"
	"strings"

	g "github.com/zenon-network/go-zenon/chain/genesis/mock"
	"github.com/zenon-network/go-zenon/chain/nom"
	"github.com/zenon-network/go-zenon/common/db"
	"github.com/zenon-network/go-zenon/common/types"
	"github.com/zenon-network/go-zenon/vm"
	"github.com/zenon-network/go-zenon/vm/constants"
	"github.com/zenon-network/go-zenon/vm/embedded/definition"
	"github.com/zenon-network/go-zenon/wallet"

	"verifmc/internal/vnode"
	"verifmc/internal/xs"
)

// ---------------------------------------------------------------------------------------------------------------------
// Part (b): plasma accounting on a real node, explored as an explicit-state search.
//
// Reference model of one account: F = QSR fused for it (confirmed), P = plasma(F) = min(F/1 QSR, 5000) * 2100,
// committed = Σ fused plasma of its confirmed blocks, unconf = fused plasma of its unconfirmed blocks (in order).
// A block (kind, fused f, difficulty d, nonce) may be accepted only if
//     d == 0 or the nonce is valid for d by the reference of part (a)            (PoW honoured only when proven)
//     f + powPlasma(d) >= base(kind)                                             (pays its base cost)
//     f <= P − Σ unconf                                                          (fused part within what is left)
//     f + powPlasma(d) <= 10 500 000                                             (per-block cap)
// and accepting it appends f to unconf; a momentum moves Σ unconf into committed.

func testUser() *wallet.KeyPair   { return g.User6 } // no fusion at genesis
func fuserUser() *wallet.KeyPair  { return g.User1 } // fuses for the test account (has the maximum plasma itself)
func senderUser() *wallet.KeyPair { return g.User2 } // provides receivable transfers

type acctCfg struct {
	Name string `json:"name"`
	QSR  int64  `json:"qsr"` // whole QSR fused for the test account
}

func acctCfgs(thorough bool) []acctCfg {
	cfgs := []acctCfg{{"F0", 0}, {"F1", 1}, {"F10", 10}, {"F11", 11}, {"F25", 25}, {"F5000", 5000}, {"F5001", 5001}}
	if thorough {
		cfgs = append(cfgs, acctCfg{"F541", 541}, acctCfg{"F4999", 4999})
	}
	return cfgs
}

type kindDef struct {
	Name     string
	Class    string // send | recv | call
	Base     uint64 // reference base cost, written down from vm/constants/plasma.go and the method tables
	Thorough bool   // only in the thorough tier
	fill     func(e *env, st *mstate, b *nom.AccountBlock)
}

var (
	big0      = big.NewInt(0)
	dataOne   = []byte{0x7f}
	dataLarge = patterned(refMaxData)
	dataXL    = patterned(refMaxData + 1)
	kinds     []kindDef
)

func patterned(n int) []byte {
	b := make([]byte, n)
	for i := range b {
		b[i] = byte(i % 251)
	}
	return b
}

func init() {
	send := func(data []byte) func(e *env, st *mstate, b *nom.AccountBlock) {
		return func(e *env, st *mstate, b *nom.AccountBlock) {
			b.BlockType = nom.BlockTypeUserSend
			b.ToAddress = senderUser().Address
			b.Amount = big.NewInt(0)
			b.Data = append([]byte{}, data...)
		}
	}
	call := func(to types.Address, zts types.ZenonTokenStandard, amount int64, data func() []byte) func(e *env, st *mstate, b *nom.AccountBlock) {
		return func(e *env, st *mstate, b *nom.AccountBlock) {
			b.BlockType = nom.BlockTypeUserSend
			b.ToAddress = to
			b.Amount = big.NewInt(amount)
			b.TokenStandard = zts
			b.Data = data()
		}
	}
	kinds = []kindDef{
		{Name: "send/0", Class: "send", Base: refBasePlasma, fill: send(nil)},
		{Name: "send/1", Class: "send", Base: refBasePlasma + refBytePlasma, fill: send(dataOne)},
		{Name: "send/16384", Class: "send", Base: refBasePlasma + refMaxData*refBytePlasma, fill: send(dataLarge)},
		{Name: "receive", Class: "recv", Base: refBasePlasma, fill: func(e *env, st *mstate, b *nom.AccountBlock) {
			b.BlockType = nom.BlockTypeUserReceive
			b.Amount = big.NewInt(0)
			b.FromBlockHash = e.pending[st.RecvUsed]
		}},
		{Name: "call/pillar.Delegate", Class: "call", Base: refEmbeddedSimple, fill: call(types.PillarContract, types.ZeroTokenStandard, 0, func() []byte {
			return definition.ABIPillars.PackMethodPanic(definition.DelegateMethodName, g.Pillar1Name)
		})},
		{Name: "call/sentinel.Revoke", Class: "call", Base: refEmbeddedDouble, fill: call(types.SentinelContract, types.ZeroTokenStandard, 0, func() []byte {
			return definition.ABISentinel.PackMethodPanic(definition.RevokeSentinelMethodName)
		})},
		{Name: "call/plasma.CancelFuse", Class: "call", Base: refEmbeddedWith, Thorough: true, fill: call(types.PlasmaContract, types.ZeroTokenStandard, 0, func() []byte {
			return definition.ABIPlasma.PackMethodPanic(definition.CancelFuseMethodName, types.HexToHashPanic("00000000000000000000000000000000000000000000000000000000000000aa"))
		})},
		{Name: "call/stake.CollectReward", Class: "call", Base: refEmbeddedCollect, Thorough: true, fill: call(types.StakeContract, types.ZeroTokenStandard, 0, func() []byte {
			return definition.ABIStake.PackMethodPanic(definition.CollectRewardMethodName)
		})},
		{Name: "send/16385", Class: "send", Base: refBasePlasma + (refMaxData+1)*refBytePlasma, Thorough: true, fill: send(dataXL)},
	}
}

// proof-of-work options of a candidate
const (
	powNone     = iota // difficulty 0
	pow1               // difficulty 1500 (1 plasma), valid nonce
	pow4               // difficulty 6000 (4 plasma), valid nonce
	pow3               // difficulty 5999 (3 plasma), valid nonce
	pow4Bad            // difficulty 6000, least nonce that does NOT meet it
	pow63Bad           // difficulty 2^63, least nonce that does NOT meet it
	powFull            // difficulty W*1500 for a large W (512 or a whole base block, 21000), valid nonce; only in "heavy" items
	powFullLess        // difficulty W*1500 − 1 (W−1 plasma), same nonce
	powFullBad         // difficulty W*1500, least nonce that does not meet it
	powMaxBad          // difficulty 2^64−1, least nonce that does NOT meet it
	nPowOptions
)

var powNames = []string{"none", "d1500", "d6000", "d5999", "d6000/badnonce", "d2^63/badnonce", "dW*1500", "dW*1500-1", "dW*1500/badnonce", "d2^64-1/badnonce"}

type cand struct {
	K int    `json:"k"`
	F uint64 `json:"f,string"` // as a string: results travel through float64 JSON numbers otherwise
	P int    `json:"p"`
	// C: the block arrives with this value in its BasePlasma field (0 = unset, as an honest wallet leaves it). The field
	// is on the wire but not covered by the hash: the node must compute the base cost itself whatever a sender claims.
	C uint64 `json:"c,string,omitempty"`
}

func (cd cand) String() string {
	s := fmt.Sprintf("%s,f=%d,pow=%s", kinds[cd.K].Name, cd.F, powNames[cd.P])
	if cd.C != 0 {
		s += fmt.Sprintf(",claimed-base=%d", cd.C)
	}
	return s
}

type step struct {
	C *cand `json:"c,omitempty"`
	M bool  `json:"m,omitempty"`
}

func pathString(p []step) string {
	var s []string
	for _, st := range p {
		if st.M {
			s = append(s, "MOMENTUM")
		} else {
			s = append(s, "["+st.C.String()+"]")
		}
	}
	return strings.Join(s, " ")
}

type mstate struct {
	Committed uint64
	Unconf    []uint64
	RecvUsed  int
	Prev      types.HashHeight
	Blocks    int // blocks accepted on the path
	MUsed     int
	// LastRel is the fused amount of the latest unconfirmed block if that amount is in every state's extension domain.
	// The model is commutative in the fused amounts, so of the orders in which a multiset of such amounts can be
	// spent only the non-decreasing one is continued (the others lead to the same model state).
	LastRel uint64
	// LastClass is the class (send/recv/call) of the latest block; representatives prefer to alternate classes.
	LastClass string
}

func (s *mstate) used() uint64 {
	u := uint64(0)
	for _, f := range s.Unconf {
		u += f
	}
	return u
}
func (s *mstate) clone() *mstate {
	c := *s
	c.Unconf = append([]uint64{}, s.Unconf...)
	return &c
}

type stateNonces struct {
	dh       [32]byte
	valid    uint64 // least nonce valid for 6000 (hence for 5999 and 1500)
	bad4     uint64
	bad63    uint64
	badMax   uint64
	heavyW   uint64 // plasma the heavy PoW options buy (0 = not available in this state)
	full     uint64
	badFull  uint64
	searched uint64
}

type env struct {
	c       *xs.Ctx
	n       *vnode.Node
	cfg     acctCfg
	kp      *wallet.KeyPair
	addr    types.Address
	pending []types.Hash
	ack     types.HashHeight
	chainID uint64
	plasma  uint64 // reference plasma of the configuration
}

func mustOK(err error, what string) {
	if err != nil {
		panic(fmt.Sprintf("harness: %s: %v", what, err))
	}
}

const nReceivable = 6

// ownGlobals sets the process-global configuration this check relies on.
func ownGlobals() {
	// lets "small" fusions (1 QSR = 2100 plasma, a tenth of a base block) exist; mainnet's minimum is 10 QSR
	constants.FuseMinAmount = big.NewInt(1 * refUnitCost)
	// lets a fusion be cancelled two momentums after it was made (mainnet: 10 hours); used by stale.go only
	constants.FuseExpiration = 2
}

func newEnv(c *xs.Ctx, cfg acctCfg) *env {
	ownGlobals()
	n := vnode.New(vnode.Options{Dir: c.TempDir()})
	e := &env{c: c, n: n, cfg: cfg, kp: testUser(), addr: testUser().Address, chainID: n.Chain.ChainIdentifier()}
	if cfg.QSR > 0 {
		_, err := n.Submit(&nom.AccountBlock{BlockType: nom.BlockTypeUserSend, Address: fuserUser().Address, ToAddress: types.PlasmaContract,
			TokenStandard: types.QsrTokenStandard, Amount: big.NewInt(cfg.QSR * g.Zexp),
			Data: definition.ABIPlasma.PackMethodPanic(definition.FuseMethodName, e.addr)})
		mustOK(err, "fuse")
	}
	for i := 0; i < nReceivable; i++ {
		b, err := n.Send(senderUser().Address, e.addr, types.ZnnTokenStandard, big.NewInt(int64(1+i)), nil)
		mustOK(err, "transfer to the test account")
		e.pending = append(e.pending, b.Hash)
	}
	for i := 0; i < 3; i++ {
		_, err := n.Produce(0)
		mustOK(err, "setup momentum")
	}
	e.refreshAck()
	fused, err := n.Chain.GetFrontierMomentumStore().GetStakeBeneficialAmount(e.addr)
	mustOK(err, "fused amount")
	if fused.Cmp(big.NewInt(cfg.QSR*g.Zexp)) != 0 {
		panic(fmt.Sprintf("harness: fused amount for the test account is %v, wanted %d QSR", fused, cfg.QSR))
	}
	e.plasma = refFusedPlasma(fused)
	if len(n.PoolBlocks()) != 0 {
		panic("harness: setup left unconfirmed blocks")
	}
	return e
}

// reset replaces the node by a fresh one in the same configuration (identical by construction: the setup is
// deterministic). Needed where the pool cannot replace a sibling: blocks at height 1 have no previous block to roll
// back to (accountPool.canRollback answers "missing previous").
func (e *env) reset() {
	old := e.pending
	e.n.Destroy()
	*e = *newEnv(e.c, e.cfg)
	for i := range old {
		if old[i] != e.pending[i] {
			panic("harness: setup is not deterministic")
		}
	}
}

// clean makes sure no sibling sits where a block on top of st would go, when the pool could not replace it.
func (e *env) clean(st *mstate) {
	if st.Prev.Height == 0 && e.n.Chain.GetFrontierAccountStore(e.addr).Identifier().Height != 0 {
		e.reset()
	}
}

// availRef is the reference model's available plasma: plasma of the fused QSR minus what the unconfirmed blocks took
// (0 if the implementation already let the account overspend, which is reported where it happens).
func (e *env) availRef(st *mstate) uint64 {
	if st.used() > e.plasma {
		return 0
	}
	return e.plasma - st.used()
}

func (e *env) refreshAck() {
	e.ack = e.n.Frontier().Identifier()
}

func (e *env) rootState() *mstate {
	id := e.n.Chain.GetFrontierAccountStore(e.addr).Identifier()
	st := &mstate{Prev: id}
	c, u, _ := e.counters()
	if c != 0 || u != 0 {
		panic("harness: fresh test account has a non-zero plasma counter")
	}
	return st
}

// counters reads the committed counter (frontier momentum store), the uncommitted one (frontier account store) and what
// the plasma API would report as available.
func (e *env) counters() (committed, uncommitted uint64, avail int64) {
	ms := e.n.Chain.GetFrontierMomentumStore()
	cb, err := ms.GetAccountStore(e.addr).GetChainPlasma()
	mustOK(err, "GetChainPlasma committed")
	as := e.n.Chain.GetFrontierAccountStore(e.addr)
	ub, err := as.GetChainPlasma()
	mustOK(err, "GetChainPlasma uncommitted")
	a, err := vm.AvailablePlasma(ms, as)
	avail = int64(a)
	if err != nil {
		avail = -1
	}
	return cb.Uint64(), ub.Uint64(), avail
}

func (e *env) nonces(st *mstate, heavyW uint64) *stateNonces {
	nn := &stateNonces{dh: refDataHash(e.addr, st.Prev.Hash)}
	v, ok, tries := refSearch(6000, &nn.dh, 1<<24)
	if !ok {
		panic("harness: no nonce for difficulty 6000 within 2^24 tries")
	}
	nn.valid, nn.searched = v, tries
	firstBad := func(d uint64) uint64 {
		for n := uint64(0); ; n++ {
			if !refValid(d, refWork(n, &nn.dh)) {
				return n
			}
		}
	}
	nn.bad4 = firstBad(6000)
	nn.bad63 = firstBad(1 << 63)
	nn.badMax = firstBad(^uint64(0))
	if heavyW > 0 {
		v, ok, tries := refSearch(heavyW*refDiffPerPlasma, &nn.dh, 1<<34)
		if !ok {
			panic("harness: heavy PoW search failed")
		}
		nn.full, nn.heavyW = v, heavyW
		nn.badFull = firstBad(heavyW * refDiffPerPlasma)
		nn.searched += tries
	}
	return nn
}

func (nn *stateNonces) option(p int) (d uint64, nonce uint64) {
	switch p {
	case powNone:
		return 0, 0
	case pow1:
		return 1 * refDiffPerPlasma, nn.valid
	case pow4:
		return 4 * refDiffPerPlasma, nn.valid
	case pow3:
		return 4*refDiffPerPlasma - 1, nn.valid
	case pow4Bad:
		return 4 * refDiffPerPlasma, nn.bad4
	case pow63Bad:
		return 1 << 63, nn.bad63
	case powFull:
		return nn.heavyW * refDiffPerPlasma, nn.full
	case powFullLess:
		return nn.heavyW*refDiffPerPlasma - 1, nn.full
	case powFullBad:
		return nn.heavyW * refDiffPerPlasma, nn.badFull
	case powMaxBad:
		return ^uint64(0), nn.badMax
	}
	panic("bad pow option")
}

func (e *env) build(st *mstate, cd cand, nn *stateNonces) *nom.AccountBlock {
	b := &nom.AccountBlock{
		Version: 1, ChainIdentifier: e.chainID, Address: e.addr,
		PreviousHash: st.Prev.Hash, Height: st.Prev.Height + 1, MomentumAcknowledged: e.ack,
		FusedPlasma: cd.F, BasePlasma: cd.C,
	}
	kinds[cd.K].fill(e, st, b)
	d, nonce := nn.option(cd.P)
	b.Difficulty = d
	binary.LittleEndian.PutUint64(b.Nonce.Data[:], nonce)
	b.Hash = b.ComputeHash()
	b.Signature = e.kp.Sign(b.Hash.Bytes())
	b.PublicKey = e.kp.Public
	return b
}

// apply runs the real acceptance path's deciding step (vm.Supervisor.ApplyBlock: verifier + plasma + VM) on b.
func (e *env) apply(b *nom.AccountBlock) (*nom.AccountBlockTransaction, error) {
	tx, err := e.n.Sup.ApplyBlock(b)
	if err != nil {
		return nil, err
	}
	tx.Block.ChangesHash = db.PatchHash(tx.Changes) // what an honest sender fills in; not part of the block hash
	return tx, nil
}

// insert puts an accepted transaction into the unconfirmed pool. On top of the frontier this is the ordinary path
// (AddAccountBlockTransaction); to replace a sibling explored before, the pool's own rollback-and-insert is used.
func (e *env) insert(tx *nom.AccountBlockTransaction) error {
	ins := e.n.Chain.AcquireInsert("c12 insert")
	defer ins.Unlock()
	if e.n.Chain.GetFrontierAccountStore(e.addr).Identifier() == tx.Block.Previous() {
		return e.n.Chain.AddAccountBlockTransaction(ins, tx)
	}
	return e.n.Chain.ForceAddAccountBlockTransaction(ins, tx)
}

func errReason(err error) string {
	s := err.Error()
	if i := strings.Index(s, " - expected"); i > 0 {
		s = s[:i]
	}
	if len(s) > 70 {
		s = s[:70]
	}
	return s
}

// fusedDomain is the boundary domain of FusedPlasma for a block kind in a model state.
func fusedDomain(base, avail, heavyW uint64, rich bool) []uint64 {
	set := map[uint64]bool{}
	add := func(v int64) {
		if v >= 0 {
			set[uint64(v)] = true
		}
	}
	b, a := int64(base), int64(avail)
	for _, v := range []int64{0, b - 4, b - 3, b - 1, b, b + 1, a, a + 1, refBlockCap, refBlockCap + 1} {
		add(v)
	}
	if rich {
		for _, v := range []int64{1, a - 1, refBlockCap - 1} {
			add(v)
		}
		// amounts whose sum with the PoW plasma wraps around 64 bits
		set[^uint64(0)] = true
		set[^uint64(0)-3] = true
	}
	if heavyW > 0 {
		add(b - int64(heavyW))
		add(b - int64(heavyW) + 1)
	}
	out := make([]uint64, 0, len(set))
	for v := range set {
		out = append(out, v)
	}
	sort.Slice(out, func(i, j int) bool { return out[i] < out[j] })
	return out
}

type explorer struct {
	c      *xs.Ctx
	r      *xs.Result
	cfgIdx int
	cfg    acctCfg
	kinds  []int
	depth  int
	mMax   int
	seen   map[string]bool
	seenM  map[string]bool
	// leafMomentum: also confirm full-length sequences (one rebuilt node each)
	leafMomentum bool
	// richFrom: states with at least this many blocks still to go get the rich candidate domain, deeper ones the basic one
	richFrom int
	// extPlusOne: "base+1" blocks may be followed by further blocks, too
	extPlusOne bool
	// postMDepth: how many more blocks are explored after a confirming momentum
	postMDepth int
	// noInsert: decide candidates only (used by shards that recompute a root they do not own)
	noInsert bool
}

type acctReplay struct {
	Part  string  `json:"part"`
	Cfg   acctCfg `json:"cfg"`
	Path  []step  `json:"path"`
	Cand  *cand   `json:"cand,omitempty"`
	Heavy uint64  `json:"heavy,omitempty"`
}

func (x *explorer) violate(key, what string, path []step, cd *cand, full uint64) {
	desc := fmt.Sprintf("account with %d QSR fused (plasma %d); unconfirmed history %s", x.cfg.QSR, refFusedPlasma(big.NewInt(x.cfg.QSR*refUnitCost)), pathString(path))
	if cd != nil {
		desc += "; block [" + cd.String() + "]"
	}
	x.r.Violate(key, desc+": "+what, acctReplay{Part: "acct", Cfg: x.cfg, Path: append([]step{}, path...), Cand: cd, Heavy: full})
}

// judge applies the oracle to one candidate evaluated in model state st. Returns whether the model allows the block.
func (x *explorer) judge(e *env, st *mstate, path []step, cd cand, b *nom.AccountBlock, nn *stateNonces, accepted bool, full uint64) (modelOK bool) {
	k := kinds[cd.K]
	d, nonce := nn.option(cd.P)
	powOK := refValid(d, refWork(nonce, &nn.dh))
	powPlasma := uint64(0)
	if d != 0 {
		powPlasma = refPowPlasma(d)
	}
	total := new(big.Int).Add(new(big.Int).SetUint64(cd.F), new(big.Int).SetUint64(powPlasma))
	avail := e.availRef(st)
	okBase := total.Cmp(new(big.Int).SetUint64(k.Base)) >= 0
	okAvail := cd.F <= avail
	okCap := total.Cmp(big.NewInt(refBlockCap)) <= 0
	modelOK = powOK && okBase && okAvail && okCap
	// vacuity counters on the model side (properties of the enumerated space, whatever the code answers)
	if modelOK {
		x.r.Count("model_allows", 1)
	}
	if !powOK {
		x.r.Count("model_refuses:pow-not-proven", 1)
	}
	if !okBase {
		x.r.Count("model_refuses:below-base-cost", 1)
	}
	if !okAvail {
		x.r.Count("model_refuses:fused-exceeds-available", 1)
	}
	if !okCap {
		x.r.Count("model_refuses:above-per-block-cap", 1)
	}
	if !accepted {
		return
	}
	if !powOK {
		x.r.Count("acct_accepted_with_unproven_pow", 1)
		key := "C12:acct:accepted-with-unproven-pow:difficulty<2^63"
		if d >= 1<<63 {
			key = keyPow63 // same root cause as the threshold computation found in part (a)
		}
		x.violate(key, fmt.Sprintf("accepted although nonce %d does not meet difficulty %d (work 0x%016x < threshold %v); the claim is worth %d plasma", nonce, d, refWork(nonce, &nn.dh), refThreshold(d), powPlasma), path, &cd, full)
	}
	if !okBase && powOK {
		x.violate("C12:acct:"+k.Class+":accepted-below-base-cost", fmt.Sprintf("accepted with total plasma %v (fused %d + PoW %d) below the base cost %d of %s", total, cd.F, powPlasma, k.Base, k.Name), path, &cd, full)
	}
	if !okAvail {
		x.violate("C12:acct:fused-exceeds-available", fmt.Sprintf("accepted with fused plasma %d although only %d is left (plasma of fused QSR %d − %d committed to unconfirmed predecessors)", cd.F, avail, e.plasma, st.used()), path, &cd, full)
	}
	if !okCap && powOK {
		x.violate("C12:acct:total-exceeds-per-block-cap", fmt.Sprintf("accepted with total plasma %v above the per-block cap %d", total, refBlockCap), path, &cd, full)
	}
	if modelOK {
		if b.BasePlasma != k.Base || b.TotalPlasma != total.Uint64() {
			x.violate("C12:acct:recorded-plasma-differs", fmt.Sprintf("accepted block records base=%d total=%d, reference base=%d total=%v", b.BasePlasma, b.TotalPlasma, k.Base, total), path, &cd, full)
		}
	}
	return
}

func (x *explorer) candidates(e *env, st *mstate, pset []int, heavyW uint64, rich bool) []cand {
	var out []cand
	avail := e.availRef(st)
	for _, ki := range x.kinds {
		if kinds[ki].Class == "recv" && st.RecvUsed >= len(e.pending) {
			continue
		}
		for _, f := range fusedDomain(kinds[ki].Base, avail, heavyW, rich) {
			for _, p := range pset {
				out = append(out, cand{K: ki, F: f, P: p})
			}
			if f < kinds[ki].Base {
				// pays less than the base cost and claims, in the unhashed BasePlasma field, a cost it does pay
				out = append(out, cand{K: ki, F: f, P: powNone, C: 1})
				if f > 1 {
					out = append(out, cand{K: ki, F: f, P: powNone, C: f})
				}
			}
		}
	}
	return out
}

// extends tells whether an accepted candidate may be followed by further blocks (the "extension domain"): blocks that pay
// exactly / one more than their base cost from fused plasma, 4 below it topped up by PoW, or everything that is left.
func extends(cd cand, avail uint64, plusOne bool) bool {
	if cd.P != powNone && cd.P != pow4 {
		return false
	}
	return kindRelative(cd, plusOne) || cd.F == avail
}

// kindRelative: the fused amount is one of the values that are in the extension domain of every state.
func kindRelative(cd cand, plusOne bool) bool {
	b := kinds[cd.K].Base
	return cd.F == b || (plusOne && cd.F == b+1) || cd.F+4 == b
}

var normalPow = []int{powNone, pow1, pow4, pow3, pow4Bad, pow63Bad, powMaxBad}
var basicPow = []int{powNone, pow4, pow3, pow4Bad, pow63Bad}
var fullPow = []int{powFull, powFullLess, powFullBad}

func stateKey(st *mstate, depthLeft int) string {
	return fmt.Sprintf("c%d|u%d|n%d|d%d|m%d", st.Committed, st.used(), len(st.Unconf), depthLeft, st.MUsed)
}

// evalOne evaluates candidate cd in state st on the node (which must hold st's blocks, possibly with one sibling on
// top), applies the oracle, and when accepted inserts it and checks the counters. Returns the successor state.
func (x *explorer) evalOne(e *env, st *mstate, path []step, cd cand, nn *stateNonces, full uint64) (child *mstate, accepted bool) {
	r := x.r
	e.clean(st)
	b := e.build(st, cd, nn)
	if d, nonce := nn.option(cd.P); d != 0 && !refValid(d, refWork(nonce, &nn.dh)) {
		// a block whose proof of work does not hold is first preceded by a decoy arriving under the same hash: the same
		// block claiming difficulty 1 (which every nonce meets). The decoy's contents do not hash to the hash it carries,
		// so it must be refused, and having seen it must not change what the node answers to the block itself
		// ("no block is accepted without paying its cost", whatever the node was offered before).
		dec := *b
		dec.Difficulty = 1
		r.Count("acct_decoys_offered", 1)
		if _, derr := e.apply(&dec); derr == nil {
			x.violate("C12:acct:decoy-under-foreign-hash-accepted", "a copy of the block claiming difficulty 1 under the hash of the original was accepted", path, &cd, full)
		} else {
			r.Count("acct_decoys_refused:"+errReason(derr), 1)
		}
	}
	tx, err := e.apply(b)
	accepted = err == nil
	r.Count("acct_candidates", 1)
	modelOK := x.judge(e, st, path, cd, b, nn, accepted, full)
	if !accepted {
		reason := errReason(err)
		r.Count("acct_rejected", 1)
		r.Count("acct_rejected:"+reason, 1)
		if modelOK {
			r.Count("acct_rejected_though_model_allows:"+reason, 1)
			r.Add("model_allows_but_rejected", kinds[cd.K].Name+":"+reason)
		}
		return nil, false
	}
	r.Count("acct_accepted", 1)
	r.Count("acct_accepted:"+kinds[cd.K].Name, 1)
	if cd.P != powNone {
		r.Count("acct_accepted_with_pow", 1)
		if cd.F < kinds[cd.K].Base {
			r.Count("acct_accepted_needing_pow", 1)
		}
	}
	child = st.clone()
	child.Unconf = append(child.Unconf, cd.F)
	child.Prev = tx.Block.Identifier()
	child.Blocks++
	child.LastClass = kinds[cd.K].Class
	if kinds[cd.K].Class == "recv" {
		child.RecvUsed++
	}
	if x.noInsert {
		return child, true
	}
	if err := e.insert(tx); err != nil {
		x.violate("C12:acct:accepted-block-refused-by-pool", fmt.Sprintf("ApplyBlock accepted the block but the pool refused it: %v", err), path, &cd, full)
		return nil, false
	}
	x.checkCounters(e, child, path, &cd, full, "after the block was accepted")
	return child, true
}

func (x *explorer) checkCounters(e *env, st *mstate, path []step, cd *cand, full uint64, when string) {
	committed, uncommitted, avail := e.counters()
	wantAvail := int64(e.plasma) - int64(st.used())
	x.r.Count("acct_counter_checks", 1)
	if committed != st.Committed || uncommitted != st.Committed+st.used() {
		x.violate("C12:acct:chain-plasma-counter-differs", fmt.Sprintf("%s: committed counter %d (reference %d), counter incl. unconfirmed %d (reference %d)", when, committed, st.Committed, uncommitted, st.Committed+st.used()), path, cd, full)
	}
	if avail != wantAvail {
		x.violate("C12:acct:available-plasma-differs", fmt.Sprintf("%s: vm.AvailablePlasma reports %d, reference %d − %d = %d", when, avail, e.plasma, st.used(), wantAvail), path, cd, full)
	}
}

type rep struct {
	cd    cand
	child *mstate
}

// evaluate runs every candidate of the domain in state st through the real acceptance path and the oracle; every
// accepted one is inserted (replacing the sibling tried before) and the counters are compared with the model. Returns
// one representative per distinct successor model state, in enumeration order.
func (x *explorer) evaluate(e *env, st *mstate, path []step, depthLeft int, pset []int, full uint64, extOnly bool) (reps []rep, nn *stateNonces) {
	r := x.r
	nn = e.nonces(st, full)
	r.Count("acct_nonce_search_hashes", int64(nn.searched))
	rich := x.richFrom <= depthLeft || full > 0
	if !rich && full == 0 {
		pset = basicPow
	}
	cands := x.candidates(e, st, pset, full, rich)
	avail := e.availRef(st)
	plusOne := x.extPlusOne
	if extOnly {
		var ext []cand
		for _, cd := range cands {
			if extends(cd, avail, plusOne) {
				ext = append(ext, cd)
			}
		}
		cands = ext
	}
	repIdx := map[string]int{}
	nAcc, nRej := 0, 0
	for _, cd := range cands {
		child, ok := x.evalOne(e, st, path, cd, nn, full)
		r.Count("transitions", 1)
		if !ok {
			nRej++
			continue
		}
		nAcc++
		if !extends(cd, avail, plusOne) {
			continue
		}
		if kindRelative(cd, plusOne) {
			if cd.F < st.LastRel {
				r.Count("acct_successors_left_to_the_sorted_order", 1)
				continue
			}
			child.LastRel = cd.F
		} else {
			child.LastRel = 0
		}
		k := stateKey(child, depthLeft-1)
		if i, ok := repIdx[k]; !ok {
			repIdx[k] = len(reps)
			reps = append(reps, rep{cd, child})
		} else if old := reps[i].cd; kinds[old.K].Class == st.LastClass && kinds[cd.K].Class != st.LastClass && old.F == cd.F && old.P == cd.P {
			// same model successor through a block of another class than the previous block's: prefer it, so that the
			// explored histories mix sends, receives and contract calls
			reps[i] = rep{cd, child}
		}
	}
	r.Count("acct_states_expanded", 1)
	r.Count(fmt.Sprintf("acct_states_expanded:%s", x.cfg.Name), 1)
	r.Count(fmt.Sprintf("acct_states_expanded:blocks=%d,momentums=%d", st.Blocks, st.MUsed), 1)
	r.Count(fmt.Sprintf("acct_candidates:%s", x.cfg.Name), int64(len(cands)))
	skey := fmt.Sprintf("%s|%s", x.cfg.Name, stateKey(st, depthLeft))
	if full > 0 {
		skey += fmt.Sprintf("|heavypow%d", full)
	}
	r.Add("acct_states", skey)
	if nAcc > 0 && nRej > 0 {
		r.Add("nontrivial", "acct:"+skey)
	}
	if (len(path) == 0 && x.cfg.QSR == 5000) || len(path) >= 2 {
		r.Sample(map[string]interface{}{"part": "acct", "cfg": x.cfg, "history": pathString(path), "candidates": len(cands), "accepted": nAcc, "rejected": nRej,
			"some_candidates": fmt.Sprint(cands[:min(3, len(cands))])})
	}
	return
}

// expand = evaluate, then descend into one representative per distinct successor model state not expanded before, then
// (optionally) confirm the unconfirmed blocks with a momentum on a rebuilt node and continue from there.
func (x *explorer) expand(e *env, st *mstate, path []step, depthLeft int) {
	if x.c.Expired() {
		x.r.Incomplete = true
		return
	}
	reps, nn := x.evaluate(e, st, path, depthLeft, normalPow, 0, false)
	x.descend(e, st, path, depthLeft, reps, nn, nil)
}

func (x *explorer) descend(e *env, st *mstate, path []step, depthLeft int, reps []rep, nn *stateNonces, only func(i int) bool) {
	r := x.r
	for i, rp := range reps {
		if only != nil && !only(i) {
			continue
		}
		if x.c.Expired() {
			r.Incomplete = true
			return
		}
		cd := rp.cd
		childPath := append(append([]step{}, path...), step{C: &cd})
		gk := stateKey(rp.child, depthLeft-1)
		if x.seen[gk] {
			r.Count("acct_states_revisited", 1)
			continue
		}
		x.seen[gk] = true
		if depthLeft-1 > 0 {
			// put the representative back (a sibling may be on top) and go one block deeper
			e.clean(st)
			b := e.build(st, cd, nn)
			tx, err := e.apply(b)
			if err != nil {
				panic(fmt.Sprintf("harness: representative %v no longer accepted: %v", cd, err))
			}
			mustOK(e.insert(tx), "re-insert representative")
			if tx.Block.Identifier() != rp.child.Prev {
				panic("harness: representative block is not deterministic")
			}
			x.expand(e, rp.child, childPath, depthLeft-1)
		}
		if rp.child.MUsed < x.mMax && (depthLeft-1 > 0 || x.leafMomentum) {
			x.momentum(rp.child, childPath, depthLeft-1)
		}
	}
}

func min(a, b int) int {
	if a < b {
		return a
	}
	return b
}

// replayPath rebuilds a node and re-executes path on it (every block must be accepted again, all checks run again).
func (x *explorer) replayPath(path []step, recordAll bool) (*env, *mstate) {
	e := newEnv(x.c, x.cfg)
	st := e.rootState()
	real := x.r
	defer func() { x.r = real }()
	for i, s := range path {
		x.r = real
		if !recordAll && i < len(path)-1 {
			x.r = xs.NewResult() // the prefix was recorded when it was first explored
		}
		if s.M {
			st = x.produce(e, st, path[:i+1])
			continue
		}
		nn := e.nonces(st, 0)
		child, ok := x.evalOne(e, st, path[:i], *s.C, nn, 0)
		if !ok {
			panic(fmt.Sprintf("harness: history is not reproducible: %s refused at step %d", pathString(path), i))
		}
		st = child
	}
	return e, st
}

// produce lets the elected pillar confirm the pool with one momentum and checks the committed counter.
func (x *explorer) produce(e *env, st *mstate, path []step) *mstate {
	before, _, _ := e.counters()
	created, err := e.n.Produce(0)
	mustOK(err, "momentum")
	var confirmed uint64
	nconf := 0
	for _, c := range created {
		if c.Momentum != nil {
			for _, b := range c.Momentum.AccountBlocks {
				if b.Address == e.addr {
					confirmed += b.FusedPlasma
					nconf++
				}
			}
		}
	}
	e.refreshAck()
	after := st.clone()
	after.Committed = st.Committed + st.used()
	after.Unconf = nil
	after.LastRel = 0
	after.MUsed++
	x.r.Count("acct_momentums", 1)
	x.r.Count("transitions", 1)
	committed, _, _ := e.counters()
	if nconf != len(st.Unconf) || confirmed != st.used() {
		x.violate("C12:acct:momentum-did-not-confirm-the-unconfirmed-blocks", fmt.Sprintf("momentum confirmed %d blocks of the account with fused plasma %d, the pool held %d with %d", nconf, confirmed, len(st.Unconf), st.used()), path, nil, 0)
	}
	if committed-before != confirmed {
		x.violate("C12:acct:committed-counter-wrong-after-momentum", fmt.Sprintf("committed counter moved from %d to %d but the momentum confirmed blocks with fused plasma %d", before, committed, confirmed), path, nil, 0)
	}
	x.checkCounters(e, after, path, nil, 0, "after the confirming momentum")
	return after
}

func (x *explorer) momentum(st *mstate, path []step, depthLeft int) {
	mpath := append(append([]step{}, path...), step{M: true})
	e, after := x.replayPath(mpath, false)
	defer e.n.Destroy()
	// the model state after a momentum does not depend on how the committed amount was reached: expand one
	// representative per (number of confirmed blocks, remaining depth) and per distinct committed amount class
	if depthLeft > x.postMDepth {
		depthLeft = x.postMDepth
	}
	if depthLeft <= 0 {
		return
	}
	mk := fmt.Sprintf("b%d|d%d|z%v", after.Blocks, depthLeft, after.Committed == 0)
	if x.seenM[mk] {
		return
	}
	x.seenM[mk] = true
	x.expand(e, after, mpath, depthLeft)
}
