package c10

import (
	"encoding/base64"
	"fmt"
	"math/big"

	ecrypto "github.com/ethereum/go-ethereum/crypto"

	g "github.com/zenon-network/go-zenon/chain/genesis/mock"
	"github.com/zenon-network/go-zenon/chain/nom"
	"github.com/zenon-network/go-zenon/common/types"
	"github.com/zenon-network/go-zenon/vm/constants"
	"github.com/zenon-network/go-zenon/vm/embedded/definition"
	"github.com/zenon-network/go-zenon/vm/embedded/implementation"

	"verifmc/internal/hx"
	"verifmc/internal/ledger"
	"verifmc/internal/ops"
	"verifmc/internal/vnode"
)

// Liquidity stakes and bridge unwrap requests (the two remaining kinds of locked funds in the statement).
//
// The base prefix is one composite operation (BLSetup) that does what an administrator does once: creates and activates
// the bridge-and-liquidity spork, initialises the bridge (orchestrator info, guardians, TSS key, one network, the
// non-owned ZNN token pair with a redeem delay of 2 momentums), lets user 1 wrap 100000 units of ZNN so that the bridge
// holds funds to redeem from, and initialises the liquidity contract (guardians, token tuples for ZNN and QSR).
// Administrator delays are shrunk to 2 / 1 momentums.

const (
	blTssPub        = "AsAQx1M3LVXCuozDOqO5b9adj/PItYgwZFG/xTDBiZzT" // the key pair the repository's bridge tests use
	blTssPriv       = "tuSwrTEUyJI1/3y5J8L8DSjzT/AQG2IK3JG+93qhhhI="
	blNetClass      = uint32(2)
	blNetChain      = uint32(123)
	blNetAddr       = "0x323b5d4c32345ced77393b3530b1eed0f346429d"
	blTokAddr       = "0x5fbdb2315678afecb367f032d93f642f64180aa3"
	blEvmDest       = "0xb794f5ea0ba39494ce839613fffba74279579268"
	blTokAddrLocked = "0x5bbbb2315678afecb367f032d93f642f64180aa3"
	blDelay         = uint32(2) // redeem delay of the pair, in momentums
	blAdmin         = 4         // ops.Users index of the bridge / liquidity administrator (User5)
)

// lockedToken: the token of the mis-configured pair (set by BLSetup; the same in every execution of a worker)
var lockedToken types.ZenonTokenStandard

func pendingFor(n *vnode.Node, a types.Address) []types.Hash {
	hs, err := n.Chain.GetFrontierMomentumStore().GetAccountMailbox(a).GetUnreceivedAccountBlockHashes(16)
	if err != nil {
		panic(err)
	}
	return hs
}

func blSign(msg []byte) string {
	raw, err := base64.StdEncoding.DecodeString(blTssPriv)
	if err != nil {
		panic(err)
	}
	key, err := ecrypto.ToECDSA(raw)
	if err != nil {
		panic(err)
	}
	sig, err := ecrypto.Sign(msg, key)
	if err != nil {
		panic(err)
	}
	return base64.StdEncoding.EncodeToString(sig)
}

// the unwrap requests of the alphabet: (transaction hash, log index) -> recipient, amount
type unwrapReq struct {
	tx     types.Hash
	log    uint32
	to     int // ops.Users index
	amount int64
}

var unwrapReqs = []unwrapReq{
	{types.HexToHashPanic("00000000000000000000000000000000000000000000000000000000000c1001"), 70003, 1, 5000}, // a log index that needs more than 16 bits
	{types.HexToHashPanic("00000000000000000000000000000000000000000000000000000000000c1002"), 0, 2, 700},
	{types.HexToHashPanic("00000000000000000000000000000000000000000000000000000000000c10ff"), 9, 3, 100}, // never requested
}

func unwrapParam(r unwrapReq) *definition.UnwrapTokenParam {
	return &definition.UnwrapTokenParam{NetworkClass: blNetClass, ChainId: blNetChain, TransactionHash: r.tx, LogIndex: r.log,
		ToAddress: ops.Users[r.to].Address, TokenAddress: blTokAddr, Amount: big.NewInt(r.amount)}
}

func unwrapSig(p *definition.UnwrapTokenParam) string {
	msg, err := implementation.GetUnwrapTokenRequestMessage(p)
	if err != nil {
		panic(err)
	}
	return blSign(msg)
}

func blCall(n *vnode.Node, from types.Address, to types.Address, zts types.ZenonTokenStandard, amount *big.Int, data []byte) string {
	_, err := n.Submit(&nom.AccountBlock{BlockType: nom.BlockTypeUserSend, Address: from, ToAddress: to, TokenStandard: zts, Amount: amount, Data: data})
	if err != nil {
		return "err:" + err.Error()
	}
	return "ok"
}

func initBridgeOps() {
	constants.MinAdministratorDelay = 2
	constants.MinSoftDelay = 1
	constants.MinUnhaltDurationInMomentums = 1
	constants.MinGuardians = 2
	constants.InitialBridgeAdministrator = g.User5.Address
	ops.Extra["BLSetup"] = func(n *vnode.Node, o ops.Op) string {
		admin := ops.Users[blAdmin].Address
		zero := big.NewInt(0)
		znn := types.ZnnTokenStandard
		fail := ""
		send := func(from, to types.Address, zts types.ZenonTokenStandard, amount *big.Int, data []byte) *nom.AccountBlock {
			b, err := n.Submit(&nom.AccountBlock{BlockType: nom.BlockTypeUserSend, Address: from, ToAddress: to, TokenStandard: zts, Amount: amount, Data: data})
			if err != nil && fail == "" {
				fail = fmt.Sprintf("setup call to %v refused: %v", to, err)
			}
			return b
		}
		step := func(k int) {
			for i := 0; i < k; i++ {
				if out := ops.Apply(n, M); out[0] != 'm' && fail == "" {
					fail = "setup momentum: " + out
				}
			}
		}
		twice := func(to types.Address, data []byte, delay int) {
			send(admin, to, znn, zero, data)
			step(delay + 2)
			send(admin, to, znn, zero, data)
			step(1)
		}
		sp := send(g.Spork.Address, types.SporkContract, znn, zero, definition.ABISpork.PackMethodPanic(definition.SporkCreateMethodName, "spork-bridge", "bridge and liquidity spork for verification"))
		if fail != "" {
			return "err:" + fail
		}
		types.BridgeAndLiquiditySpork.SporkId = sp.Hash
		types.ImplementedSporksMap[sp.Hash] = true
		step(2)
		send(g.Spork.Address, types.SporkContract, znn, zero, definition.ABISpork.PackMethodPanic(definition.SporkActivateMethodName, sp.Hash))
		step(4)
		guardians := []types.Address{ops.Users[0].Address, ops.Users[1].Address, ops.Users[2].Address, ops.Users[3].Address, ops.Users[4].Address}
		send(admin, types.BridgeContract, znn, zero, definition.ABIBridge.PackMethodPanic(definition.SetOrchestratorInfoMethodName, uint64(6), uint32(3), uint32(15), uint32(10)))
		step(1)
		twice(types.BridgeContract, definition.ABIBridge.PackMethodPanic(definition.NominateGuardiansMethodName, guardians), 2)
		twice(types.BridgeContract, definition.ABIBridge.PackMethodPanic(definition.ChangeTssECDSAPubKeyMethodName, blTssPub, "", ""), 1)
		send(admin, types.BridgeContract, znn, zero, definition.ABIBridge.PackMethodPanic(definition.SetNetworkMethodName, blNetClass, blNetChain, "Ethereum", blNetAddr, "{}"))
		step(1)
		twice(types.BridgeContract, definition.ABIBridge.PackMethodPanic(definition.SetTokenPairMethod, blNetClass, blNetChain, znn, blTokAddr, true, true, false, big.NewInt(100), uint32(15), blDelay, "{}"), 1)
		send(ops.Users[0].Address, types.BridgeContract, znn, big.NewInt(100000), definition.ABIBridge.PackMethodPanic(definition.WrapTokenMethodName, blNetClass, blNetChain, blEvmDest))
		step(1)
		// an administrator mistake the contract does not prevent: a pair flagged Owned for a token the bridge neither owns nor
		// may burn (user 2's non-mintable, non-burnable token). Wrapping it makes the bridge ask the token contract for a burn
		// that fails: a failing contract-to-contract call that carries an amount
		lt := send(ops.Users[1].Address, types.TokenContract, znn, new(big.Int).Set(constants.TokenIssueAmount),
			definition.ABIToken.PackMethodPanic(definition.IssueMethodName, "c10-locked", "LOCK", "", big.NewInt(500000), big.NewInt(500000), uint8(0), false, false, false))
		step(2)
		if lt != nil {
			lockedToken = types.NewZenonTokenStandard(lt.Hash.Bytes())
			for _, h := range pendingFor(n, ops.Users[1].Address) {
				n.Receive(ops.Users[1].Address, h)
			}
			step(1)
			twice(types.BridgeContract, definition.ABIBridge.PackMethodPanic(definition.SetTokenPairMethod, blNetClass, blNetChain, lockedToken, blTokAddrLocked, true, true, true, big.NewInt(10), uint32(100), blDelay, "{}"), 1)
		}
		twice(types.LiquidityContract, definition.ABILiquidity.PackMethodPanic(definition.NominateGuardiansMethodName, guardians), 2)
		twice(types.LiquidityContract, definition.ABILiquidity.PackMethodPanic(definition.SetTokenTupleMethodName,
			[]string{znn.String(), types.QsrTokenStandard.String()}, []uint32{5000, 5000}, []uint32{5000, 5000}, []*big.Int{big.NewInt(1000), big.NewInt(10)}), 1)
		step(2)
		if fail != "" {
			return "err:" + fail
		}
		// the set-up must have taken effect, otherwise the family explores nothing
		st := n.Chain.GetFrontierMomentumStore().GetAccountStore(types.BridgeContract).Storage()
		if ni, err := definition.GetNetworkInfoVariable(st, blNetClass, blNetChain); err != nil || len(ni.TokenPairs) != 2 {
			return fmt.Sprintf("err:bridge set-up did not take effect (%v, %d pairs)", err, func() int {
				if ni == nil {
					return -1
				}
				return len(ni.TokenPairs)
			}())
		}
		li, err := definition.GetLiquidityInfo(n.Chain.GetFrontierMomentumStore().GetAccountStore(types.LiquidityContract).Storage())
		if err != nil || len(li.TokenTuples) != 2 {
			return fmt.Sprintf("err:liquidity set-up did not take effect (%v)", err)
		}
		return "ok"
	}
	// LiqStake: A stakes V units of QSR for B staking units
	ops.Extra["LiqStake"] = func(n *vnode.Node, o ops.Op) string {
		zts := types.QsrTokenStandard
		if o.T == 1 {
			zts = types.ZnnTokenStandard
		}
		return blCall(n, ops.Users[o.A].Address, types.LiquidityContract, zts, big.NewInt(o.V),
			definition.ABILiquidity.PackMethodPanic(definition.LiquidityStakeMethodName, int64(o.B)*constants.StakeTimeUnitSec))
	}
	// LiqCancel: A cancels the B-th liquidity stake ever created
	ops.Extra["LiqCancel"] = func(n *vnode.Node, o ops.Op) string {
		return blCall(n, ops.Users[o.A].Address, types.LiquidityContract, types.ZnnTokenStandard, big.NewInt(0),
			definition.ABILiquidity.PackMethodPanic(definition.CancelLiquidityStakeMethodName, nthLiqStake(n, o.B)))
	}
	// Unwrap: A submits unwrap request B; S "" = signed by the TSS key, "badsig" = signature over another recipient
	ops.Extra["Unwrap"] = func(n *vnode.Node, o ops.Op) string {
		p := unwrapParam(unwrapReqs[o.B])
		sig := unwrapSig(p)
		if o.S == "badsig" {
			q := *p
			q.ToAddress = ops.Users[o.A].Address // the TSS signed a request paying somebody else
			sig = unwrapSig(&q)
			if q.ToAddress == p.ToAddress {
				q.Amount = big.NewInt(p.Amount.Int64() + 1)
				sig = unwrapSig(&q)
			}
		}
		return blCall(n, ops.Users[o.A].Address, types.BridgeContract, types.ZnnTokenStandard, big.NewInt(0),
			definition.ABIBridge.PackMethodPanic(definition.UnwrapTokenMethodName, p.NetworkClass, p.ChainId, p.TransactionHash, p.LogIndex, p.ToAddress, p.TokenAddress, p.Amount, sig))
	}
	// Redeem: A redeems request B (anyone may call; the funds go to the recipient named in the request)
	ops.Extra["Redeem"] = func(n *vnode.Node, o ops.Op) string {
		r := unwrapReqs[o.B]
		return blCall(n, ops.Users[o.A].Address, types.BridgeContract, types.ZnnTokenStandard, big.NewInt(0),
			definition.ABIBridge.PackMethodPanic(definition.RedeemUnwrapMethodName, r.tx, r.log))
	}
	// WrapLocked: the holder of the mis-configured token wraps V units of it
	ops.Extra["WrapLocked"] = func(n *vnode.Node, o ops.Op) string {
		return blCall(n, ops.Users[o.A].Address, types.BridgeContract, lockedToken, big.NewInt(o.V),
			definition.ABIBridge.PackMethodPanic(definition.WrapTokenMethodName, blNetClass, blNetChain, blEvmDest))
	}
	// RevokeUnwrap: A (the administrator or not) revokes request B
	ops.Extra["RevokeUnwrap"] = func(n *vnode.Node, o ops.Op) string {
		r := unwrapReqs[o.B]
		return blCall(n, ops.Users[o.A].Address, types.BridgeContract, types.ZnnTokenStandard, big.NewInt(0),
			definition.ABIBridge.PackMethodPanic(definition.RevokeUnwrapRequestMethodName, r.tx, r.log))
	}
}

func liqSel(name string, args ...interface{}) string {
	return string(definition.ABILiquidity.PackMethodPanic(name, args...)[:4])
}
func bridgeSel(name string, args ...interface{}) string {
	return string(definition.ABIBridge.PackMethodPanic(name, args...)[:4])
}

func nthLiqStake(n *vnode.Node, k int) types.Hash {
	v := ledger.WithPool(n, ledger.Confirmed(n))
	a := newAudit(n, v)
	selStake := liqSel(definition.LiquidityStakeMethodName, int64(0))
	i := 0
	for _, rc := range a.receives(types.LiquidityContract) {
		if rc.sel4 == selStake && len(rc.d) == 0 {
			if i == k {
				return rc.s.Hash
			}
			i++
		}
	}
	return types.HexToHashPanic("00000000000000000000000000000000000000000000000000000000000000ee")
}

type liqEntry struct {
	owner    types.Address
	token    types.ZenonTokenStandard
	amount   *big.Int
	exp      int64
	released bool
}

// liquidity audits the liquidity contract's stake entries; returns liabilities per token (ledger-derived) and checks
// them against the entries in storage.
func (a *audit) liquidity() map[types.ZenonTokenStandard]*big.Int {
	liab := map[types.ZenonTokenStandard]*big.Int{}
	add := func(z types.ZenonTokenStandard, v *big.Int) {
		if liab[z] == nil {
			liab[z] = new(big.Int)
		}
		liab[z].Add(liab[z], v)
	}
	entries := map[types.Hash]*liqEntry{}
	selStake := liqSel(definition.LiquidityStakeMethodName, int64(0))
	selCancel := liqSel(definition.CancelLiquidityStakeMethodName, types.ZeroHash)
	selCollect := liqSel(definition.CollectRewardMethodName)
	for _, rc := range a.receives(types.LiquidityContract) {
		var pay []*nom.AccountBlock
		for _, d := range rc.d {
			if d.Amount.Sign() > 0 && !types.IsEmbeddedAddress(d.ToAddress) {
				pay = append(pay, d)
			}
		}
		switch {
		case isRefund(rc.s, rc.d):
			a.refused++
		case rc.sel4 == selStake:
			if len(pay) != 0 {
				a.bad("liquidity:payout-on-deposit", "LiquidityStake pays out")
				continue
			}
			var dur int64
			if err := definition.ABILiquidity.UnpackMethod(&dur, definition.LiquidityStakeMethodName, rc.s.Data); err != nil {
				panic(err)
			}
			if rc.s.Amount.Sign() > 0 {
				entries[rc.s.Hash] = &liqEntry{owner: rc.s.Address, token: rc.s.TokenStandard, amount: new(big.Int).Set(rc.s.Amount), exp: rc.t + dur}
				add(rc.s.TokenStandard, rc.s.Amount)
			}
		case rc.sel4 == selCancel:
			id := new(types.Hash)
			if err := definition.ABILiquidity.UnpackMethod(id, definition.CancelLiquidityStakeMethodName, rc.s.Data); err != nil {
				panic(err)
			}
			e := entries[*id]
			entitled := e != nil && e.owner == rc.s.Address && !e.released && rc.t >= e.exp
			if len(pay) == 0 {
				if entitled {
					a.bad("liquidity:matured-withdrawal-refused", "CancelLiquidityStake(%v) by its owner %v at t=%d (expiration %d) pays nothing", id, rc.s.Address, rc.t, e.exp)
				}
				a.refused++
				continue
			}
			a.payouts++
			switch {
			case e == nil:
				a.bad("liquidity:payout-without-entry", "CancelLiquidityStake(%v) pays although no such stake exists", id)
			case e.owner != rc.s.Address:
				a.bad("liquidity:released-to-non-owner-caller", "CancelLiquidityStake(%v) by %v pays although the stake belongs to %v", id, rc.s.Address, e.owner)
			case e.released:
				a.bad("liquidity:released-twice", "CancelLiquidityStake(%v) pays a second time", id)
			case rc.t < e.exp:
				a.bad("liquidity:released-before-expiration", "CancelLiquidityStake(%v) pays at t=%d, expiration %d", id, rc.t, e.exp)
			}
			if len(pay) != 1 || (e != nil && (pay[0].Amount.Cmp(e.amount) != 0 || pay[0].ToAddress != e.owner || pay[0].TokenStandard != e.token)) {
				a.bad("liquidity:payout-amount-or-recipient-wrong", "CancelLiquidityStake(%v) pays %d sends, first %v of %v to %v", id, len(pay), pay[0].Amount, pay[0].TokenStandard, pay[0].ToAddress)
			}
			if e != nil && !e.released {
				e.released = true
				add(e.token, new(big.Int).Neg(e.amount))
			}
		case rc.sel4 == selCollect:
			// rewards are not locked funds (C11 owns them)
		default:
			if len(pay) != 0 {
				a.bad("liquidity:payout-by-other-method", "call %x of %v makes the liquidity contract pay %v of %v to %v", rc.sel4, rc.s.Address, pay[0].Amount, pay[0].TokenStandard, pay[0].ToAddress)
			}
		}
	}
	// storage: the sum of the entries' amounts per token equals the ledger-derived liabilities
	sto := map[types.ZenonTokenStandard]*big.Int{}
	for _, e := range definition.GetAllLiquidityStakeEntries(a.store(types.LiquidityContract)) {
		if sto[e.TokenStandard] == nil {
			sto[e.TokenStandard] = new(big.Int)
		}
		sto[e.TokenStandard].Add(sto[e.TokenStandard], e.Amount)
	}
	for z, l := range liab {
		s := sto[z]
		if s == nil {
			s = new(big.Int)
		}
		if s.Cmp(l) != 0 {
			a.bad("liquidity:storage-liabilities-differ-from-ledger", "liquidity stakes of %v: %v derived from the ledger, %v recorded in storage", z, l, s)
		}
	}
	for z, s := range sto {
		if liab[z] == nil && s.Sign() != 0 {
			a.bad("liquidity:storage-liabilities-differ-from-ledger", "liquidity stakes of %v: none derived from the ledger, %v recorded in storage", z, s)
		}
	}
	return liab
}

type unwrapState struct {
	p        *definition.UnwrapTokenParam
	regH     uint64
	redeemed bool
	revoked  bool
}

// bridge audits unwrap requests: a request is registered only with the TSS signature over exactly its content, and is
// paid only once, only to the recipient it names, only the amount it names, and not before the pair's redeem delay.
func (a *audit) bridge() {
	reqs := map[string]*unwrapState{}
	key := func(tx types.Hash, log uint32) string { return fmt.Sprintf("%v/%d", tx, log) }
	selUnwrap := bridgeSel(definition.UnwrapTokenMethodName, uint32(0), uint32(0), types.ZeroHash, uint32(0), types.ZeroAddress, "", big.NewInt(0), "")
	selRedeem := bridgeSel(definition.RedeemUnwrapMethodName, types.ZeroHash, uint32(0))
	selRevoke := bridgeSel(definition.RevokeUnwrapRequestMethodName, types.ZeroHash, uint32(0))
	admin := ops.Users[blAdmin].Address
	for _, rc := range a.receives(types.BridgeContract) {
		var pay []*nom.AccountBlock
		for _, d := range rc.d {
			if d.Amount.Sign() > 0 && !types.IsEmbeddedAddress(d.ToAddress) {
				pay = append(pay, d)
			}
		}
		switch {
		case isRefund(rc.s, rc.d):
			a.refused++
		case rc.sel4 == selUnwrap:
			if len(pay) != 0 {
				a.bad("bridge:payout-on-request", "UnwrapToken pays out at once")
				continue
			}
			p := new(definition.UnwrapTokenParam)
			if err := definition.ABIBridge.UnpackMethod(p, definition.UnwrapTokenMethodName, rc.s.Data); err != nil {
				panic(err)
			}
			k := key(p.TransactionHash, p.LogIndex)
			if reqs[k] != nil {
				continue // (tx, log) already known: the second request must change nothing
			}
			if p.Signature == unwrapSig(&definition.UnwrapTokenParam{NetworkClass: p.NetworkClass, ChainId: p.ChainId, TransactionHash: p.TransactionHash,
				LogIndex: p.LogIndex, ToAddress: p.ToAddress, TokenAddress: p.TokenAddress, Amount: p.Amount}) {
				reqs[k] = &unwrapState{p: p, regH: rc.h}
			}
		case rc.sel4 == selRevoke:
			p := new(definition.RevokeUnwrapParam)
			if err := definition.ABIBridge.UnpackMethod(p, definition.RevokeUnwrapRequestMethodName, rc.s.Data); err != nil {
				panic(err)
			}
			if r := reqs[key(p.TransactionHash, p.LogIndex)]; r != nil && rc.s.Address == admin {
				r.revoked = true
			}
			if len(pay) != 0 {
				a.bad("bridge:payout-by-other-method", "RevokeUnwrapRequest pays out")
			}
		case rc.sel4 == selRedeem:
			p := new(definition.RedeemParam)
			if err := definition.ABIBridge.UnpackMethod(p, definition.RedeemUnwrapMethodName, rc.s.Data); err != nil {
				panic(err)
			}
			r := reqs[key(p.TransactionHash, p.LogIndex)]
			entitled := r != nil && !r.redeemed && !r.revoked && rc.h-r.regH >= uint64(blDelay)
			if len(pay) == 0 {
				if entitled {
					a.bad("bridge:matured-withdrawal-refused", "Redeem(%v,%d) %d momentums after registration (delay %d) pays nothing", p.TransactionHash, p.LogIndex, rc.h-r.regH, blDelay)
				}
				a.refused++
				continue
			}
			a.payouts++
			switch {
			case r == nil:
				a.bad("bridge:payout-without-request", "Redeem(%v,%d) pays although no request with a valid TSS signature was registered", p.TransactionHash, p.LogIndex)
			case r.redeemed:
				a.bad("bridge:released-twice", "Redeem(%v,%d) pays a second time", p.TransactionHash, p.LogIndex)
			case r.revoked:
				a.bad("bridge:released-after-revocation", "Redeem(%v,%d) pays although the administrator revoked the request", p.TransactionHash, p.LogIndex)
			case rc.h-r.regH < uint64(blDelay):
				a.bad("bridge:released-before-delay", "Redeem(%v,%d) pays %d momentums after registration, the pair's delay is %d", p.TransactionHash, p.LogIndex, rc.h-r.regH, blDelay)
			}
			if r != nil && (len(pay) != 1 || pay[0].ToAddress != r.p.ToAddress || pay[0].Amount.Cmp(r.p.Amount) != 0 || pay[0].TokenStandard != types.ZnnTokenStandard) {
				a.bad("bridge:payout-amount-or-recipient-wrong", "Redeem(%v,%d) pays %v of %v to %v, the signed request names %v for %v", p.TransactionHash, p.LogIndex,
					pay[0].Amount, pay[0].TokenStandard, pay[0].ToAddress, r.p.Amount, r.p.ToAddress)
			}
			if r != nil {
				r.redeemed = true
			}
		default:
			if len(pay) != 0 {
				a.bad("bridge:payout-by-other-method", "call %x of %v makes the bridge pay %v of %v to %v", rc.sel4, rc.s.Address, pay[0].Amount, pay[0].TokenStandard, pay[0].ToAddress)
			}
		}
	}
	// storage agrees with the ledger-derived request states
	st := a.store(types.BridgeContract)
	for _, u := range unwrapReqs {
		r := reqs[key(u.tx, u.log)]
		sr, err := definition.GetUnwrapTokenRequestByTxHashAndLog(st, u.tx, u.log)
		exists := err == nil && sr != nil
		if exists != (r != nil) {
			a.bad("bridge:storage-differs-from-ledger", "unwrap request (%v,%d): registered per ledger = %v, present in storage = %v", u.tx, u.log, r != nil, exists)
			continue
		}
		if r != nil && ((sr.Redeemed > 0) != r.redeemed || (sr.Revoked > 0) != r.revoked || sr.ToAddress != r.p.ToAddress || sr.Amount.Cmp(r.p.Amount) != 0) {
			a.bad("bridge:storage-differs-from-ledger", "unwrap request (%v,%d): ledger says redeemed=%v revoked=%v to=%v amount=%v, storage redeemed=%d revoked=%d to=%v amount=%v",
				u.tx, u.log, r.redeemed, r.revoked, r.p.ToAddress, r.p.Amount, sr.Redeemed, sr.Revoked, sr.ToAddress, sr.Amount)
		}
	}
}

func bridgeFamilies() []family {
	setup := []ops.Op{{K: "BLSetup"}}
	liq := family{name: "liquidity-stake", alpha: []ops.Op{
		M,
		{K: "LiqStake", A: 1, V: 30, B: 1},
		{K: "LiqStake", A: 2, V: 20, B: 2},
		{K: "LiqStake", A: 1, V: 5, B: 1}, // below the tuple's minimum amount: refunded
		{K: "LiqCancel", A: 1, B: 0},
		{K: "LiqCancel", A: 2, B: 0}, // stranger (or owner, depending on who created entry 0)
		{K: "LiqCancel", A: 2, B: 1},
		{K: "LiqCancel", A: 1, B: 7}, // unknown id
	}}
	liq.bases = []hx.Base{
		{Name: "liquidity-stake/initialised", Prefix: setup},
		// one entry already mature, one not
		{Name: "liquidity-stake/entries", Prefix: append(append([]ops.Op{}, setup...),
			ops.Op{K: "LiqStake", A: 1, V: 30, B: 1}, M, M, ops.Op{K: "LiqStake", A: 2, V: 20, B: 6}, M, M, M)},
	}
	br := family{name: "bridge-unwrap", alpha: []ops.Op{
		M,
		{K: "Unwrap", A: 3, B: 0},              // submitted by anybody, signed by the TSS key
		{K: "Unwrap", A: 3, B: 1, S: "badsig"}, // TSS signature over different content
		{K: "Unwrap", A: 2, B: 1},
		{K: "Redeem", A: 1, B: 0}, // by the recipient
		{K: "Redeem", A: 3, B: 0}, // by somebody else: the funds still go to the recipient
		{K: "Redeem", A: 2, B: 1},
		{K: "Redeem", A: 3, B: 2},             // a request nobody made
		{K: "RevokeUnwrap", A: blAdmin, B: 0}, // administrator
		{K: "RevokeUnwrap", A: 3, B: 1},       // not the administrator
		{K: "WrapLocked", A: 1, V: 500},       // a wrap whose burn the token contract refuses (contract-to-contract failure with an amount)
	}}
	br.bases = []hx.Base{
		{Name: "bridge-unwrap/initialised", Prefix: setup},
		// request 0 registered and past its delay, request 1 just registered
		{Name: "bridge-unwrap/requests", Prefix: append(append([]ops.Op{}, setup...),
			ops.Op{K: "Unwrap", A: 3, B: 0}, M, M, M, ops.Op{K: "Unwrap", A: 2, B: 1}, M)},
	}
	return []family{liq, br}
}

// ---------------------------------------------------------------------------------------------------------------------
// exported for C18's bridge chain (a chain with the bridge-and-liquidity spork active and populated request lists)

const (
	BridgeNetClass = blNetClass
	BridgeNetChain = blNetChain
	BridgeEvmDest  = blEvmDest
)

// BridgeSetup runs the administrator prefix (Setup must have been called in this process).
func BridgeSetup(n *vnode.Node) string { return ops.Apply(n, ops.Op{K: "BLSetup"}) }

// SubmitWrap: from wraps amount units of ZNN for the destination address dest on the configured network.
func SubmitWrap(n *vnode.Node, from types.Address, amount int64, dest string) string {
	return blCall(n, from, types.BridgeContract, types.ZnnTokenStandard, big.NewInt(amount),
		definition.ABIBridge.PackMethodPanic(definition.WrapTokenMethodName, blNetClass, blNetChain, dest))
}

// SubmitUnwrap: from submits the TSS-signed unwrap request (tx, log) paying amount units of ZNN to the address to.
func SubmitUnwrap(n *vnode.Node, from types.Address, tx types.Hash, log uint32, to types.Address, amount int64) string {
	p := &definition.UnwrapTokenParam{NetworkClass: blNetClass, ChainId: blNetChain, TransactionHash: tx, LogIndex: log,
		ToAddress: to, TokenAddress: blTokAddr, Amount: big.NewInt(amount)}
	return blCall(n, from, types.BridgeContract, types.ZnnTokenStandard, big.NewInt(0),
		definition.ABIBridge.PackMethodPanic(definition.UnwrapTokenMethodName, p.NetworkClass, p.ChainId, p.TransactionHash, p.LogIndex, p.ToAddress, p.TokenAddress, p.Amount, unwrapSig(p)))
}

// SubmitRedeem / SubmitRevokeUnwrap: the follow-up calls on request (tx, log).
func SubmitRedeem(n *vnode.Node, from types.Address, tx types.Hash, log uint32) string {
	return blCall(n, from, types.BridgeContract, types.ZnnTokenStandard, big.NewInt(0),
		definition.ABIBridge.PackMethodPanic(definition.RedeemUnwrapMethodName, tx, log))
}
func SubmitRevokeUnwrap(n *vnode.Node, tx types.Hash, log uint32) string {
	return blCall(n, ops.Users[blAdmin].Address, types.BridgeContract, types.ZnnTokenStandard, big.NewInt(0),
		definition.ABIBridge.PackMethodPanic(definition.RevokeUnwrapRequestMethodName, tx, log))
}

// SubmitLiquidityStake: from stakes amount units of zts (ZNN or QSR, the configured tuples) for units staking periods.
func SubmitLiquidityStake(n *vnode.Node, from types.Address, zts types.ZenonTokenStandard, amount int64, units int) string {
	return blCall(n, from, types.LiquidityContract, zts, big.NewInt(amount),
		definition.ABILiquidity.PackMethodPanic(definition.LiquidityStakeMethodName, int64(units)*constants.StakeTimeUnitSec))
}
