#!/usr/bin/env python3
"""Generates /verif/MANIFEST.json from the table below (one entry per built check)."""
import json, subprocess

HOOK_COMMITS = ["b1c913c", "c8ae78c"]

# id -> (level, technique, text, note, design_ref)
CHECKS = {
    "C02": ("model_checking",
            "explicit-state BFS over follower delivery schedules of real nodes, exact-digest dedup",
            "For every producer history of a bounded family (4 scripted, incl. one where an account cancels its own plasma fusion and then sends blocks acknowledging the momentum before the cancellation + all depth-2/3 sequences over a 7-op alphabet) the follower's whole delivery-schedule space (batch boundaries, gossip of account blocks before their momentum incl. lag, re-delivery, restart with kept/wiped consensus cache, warmed historical views) is enumerated breadth-first on real nodes; after every transition the follower's raw store, undo/redo patches, frontier and historical views must equal the producer's at the same height.",
            "Trusted: goleveldb, the harness's raw dump; bounds: histories of <=7 momentums, batch <=3/4, gossip window 1/2; fetcher/downloader timers not explored.",
            "5/C02"),
    "C07": ("model_checking",
            "explicit-state BFS over store operation sequences vs map-per-version reference + preemption-bounded schedule exploration (writer vs readers) under a controlled scheduler",
            "Part A: every sequence of <=6 (quick) / <=7 (thorough) operations (commit on frontier with 4/6 write sets incl. empty values, deletes, re-creations and prefix-sharing keys; commit on stale and on rolled-back parents; rollback; open view at any commit / frontier / rolled-back commit; snapshot; write through view) on the real leveldb-backed and memory-backed managers, exact-state dedup (raw bytes + cache overlays + open views); after every transition every open view's Get/Has for every key, every prefix scan and Changes() are compared with a map-per-version reference. Part A2: long histories of 366 commits (views straddling the 360-commit boundary of the second view cache warmed pairwise, 1-3 rollbacks, 0-2 different commits, all views reopened). Part B: writer [Add,Add,Pop,Add] / [Pop,Pop,Add] against two historical-view readers (one with a single late read) and a frontier reader, all schedules with <=1 (quick) / <=2 (thorough) preemptions, scheduling points at every mutex acquisition and before every leveldb write.",
            "Trusted: goleveldb snapshots/iterators, the cooperative scheduler shim (vsync overlay); unsynchronised accesses invisible to lock-level scheduling are outside this check.",
            "5/C07"),
    "C08": ("fault_enumeration",
            "exhaustive crash-point enumeration: stop before every leveldb write of every commit/rollback (directory image + child-process kill), reopen, compare with pre/post state, continue",
            "For 4 (quick) / 5 (thorough) histories of commits followed by a reorganisation (rollbacks + commits of a competing branch: transfers, contract calls with auto-receives and refunds, empty momentums, momentums of about 160 KiB, fork depth 1-5) delivered through InsertChain to a real node, the process is stopped before every leveldb write call-out of every ldbManager.Add / Pop and between operations (quick: database directory imaged inside the call-out; thorough: additionally a child process that os.Exit(137)s inside the call-out without closing, for every point). Every image must open as a node, hold exactly the pre- or post-state of the interrupted operation over the whole raw key space (ledger, redo, undo) and reach the crash-free final state after re-delivery.",
            "Process stops between leveldb writes only; goleveldb's own journal atomicity for a single Write is trusted; fsync/power loss out of scope.",
            "5/C08"),
    "C05": ("model_checking",
            "exhaustive single-field mutation of valid next momentums in several chain situations against an independent predicate + exhaustive comparison of the election schedule of every slot across node kinds and against a reference election",
            "(a) at 18 (quick) / more (thorough) chain situations (heights 1-2, tick boundary, last slot of a tick, skipped slot, after a delegation change) the real producer's next momentum x 48 field values over 12 fields x 4 sealing modes (untouched; re-signed by the producer / another pillar / the pillar elected for the mutated slot), delivered through Supervisor.ApplyMomentum and InsertChain: accepted => hash commits to content and changes hash (own pre-image), directly extends the frontier with a strictly later timestamp, signed by the pillar a reference election elects for its slot. (b) for 166 (quick) / 2873 (thorough) histories (skipped slots, re-delegation, transfers moving weights, exact ties, pillar registration and revocation; 2-7 pillars from generated genesis configs; (NodeCount,RandCount) in {(3,1),(4,2),(30,15)} by worker) GetMomentumProducer for every slot from genesis to frontier + 2 ticks on the live producer, a one-batch follower, a one-by-one follower at every prefix, restarted followers with kept and wiped consensus cache, and a follower before/after a reorg and restarted: all equal each other and the reference election (weights at the proof momentum, ordering, group split, seeded permutation), every elected pillar active at the proof momentum.",
            "math/rand's seeded permutation is the specification and is trusted; the +10 s future bound uses real time (only 'year 2100 rejected' is asserted); zero active pillars not reached.",
            "5/C05"),
    "C06": ("model_checking",
            "exhaustive enumeration of reorganisation scenarios on real nodes (fork depth x content x warmed-view subsets x pool contents x delivery shape x follow-up) with a differential oracle against a fresh node",
            "Two real producers fork at depth 1-3 (thorough: also 29, 30, 31) with different content on both sides (transfers, contract calls, refunds, delegation changes, skipped slots). Node N adopts branch A and is then handed the longer branch B through InsertChain. Every combination of: subset of historical views requested before the switch (ids on the common prefix and on the abandoned branch), pool contents at switch time (block valid only on A, block valid on both), delivery shape (from fork point / overlapping / re-delivered singly) and follow-up (nothing / next momentum / gossip acknowledging a pre-fork momentum) is executed; N must equal a fresh node fed only the adopted branch in raw store (ledger+undo+redo), every historical view, absence of views for abandoned ids, pool acceptability, consensus statistics and election results. Additionally every single-momentum rollback must restore the exact raw store recorded before that momentum was added.",
            "Election tick and epoch shrunk (3 slots / 2 ticks) so boundaries fall inside short chains; pool oracle is acceptability by the reference node.",
            "5/C06"),
    "C16": ("model_checking",
            "exhaustive enumeration of delivered batch shapes against local chains of 3 lengths, reference decision by construction + differential oracle against a fresh node",
            "Local chains of 3, 8 and 35 momentums; every batch of the stated family (longer side chains whose last momentum, produced by a misbehaving elected pillar, cements a block acknowledging the abandoned tip - with and without that block pooled beforehand; extensions 1-3, known prefix + extension, duplicates, forks at depth 1,2,3,30,31 (thorough also 29) with shorter/equal/longer side chains, longer side chains with an invalid element at every position, gaps, alien chains, forged heights on a known parent, empty batch, each of 12 kinds of invalid element at every position of a 3-momentum extension followed by an overlapping valid re-delivery) is delivered through the real InsertChain. The node's final frontier and raw store must equal a fresh node fed the chain the reference decision prescribes, the returned index must be the position of the first failing momentum, nothing may panic.",
            "Validity of batch elements is known by construction; InsertChain is the seam below fetcher/downloader.",
            "5/C16"),
    "C14": ("model_checking",
            "explicit-state BFS over pool operation sequences vs list-per-account reference + exhaustive group-order enumeration for momentum content + preemption-bounded schedule exploration of real node threads under a controlled scheduler",
            "Part A: all sequences of <=4 (quick) / <=6 (thorough) pool operations (add, competing add with higher/equal plasma ratio and smaller/larger hash, forced add, competitor of a confirmed block, orphan, four competing momentums confirming different subsets, re-delivery, rollback) on a real node; accept/refuse verdict, pooled chain per account and confirmed frontier compared with a list-per-account reference after every step, plus the single-chain invariant evaluated independently. Part B: real pools of 0..101 (thorough ..130) user blocks plus 0-4 contract batches (refund send + receive created by the real producer path); ALL orders of the per-account groups are fed to the real filter; result must respect the 100-block limit, be a per-account prefix and never split a batch. Part C: three thread scenarios on a real node (inserter vs readers; producing pillar vs sync InsertChain of a competing momentum at the same height vs reader; rollback vs readers), all schedules with <=1 (quick) / <=2 (thorough) preemptions over ~150-450 scheduling points per execution; no deadlock/panic, reader tuples must equal a state of the sequential execution, final raw store and consensus answers must equal a fresh node's replay of the chain the node reports.",
            "Scheduling at lock/leveldb-write granularity via the vsync overlay. The 'no data races' clause is covered by a separate, NON-exhaustive auxiliary: the same scenario bodies run free-running under a -race build (10 / 100 iterations); a race report is a violation, silence is not a proof.",
            "5/C14"),
    "C01": ("model_checking",
            "bounded-history explicit-state exploration on a real node (lexicographic DFS with exact-state prefix pruning) with a whole-ledger invariant evaluated after every transition",
            "All histories of depth 3 (quick) / depth 4 plus an extended 25-op alphabet at depth 3 (thorough) over 16 operations (transfers incl. whole balance and balance+1, custom-token transfers, receives: valid / by the wrong account / repeated, token issue / mint within and over max / mint by non-owner / burn, refunded and successful contract calls, momentums) from 2 (quick) / 3 (thorough, incl. pending rewards) base states. After every transition an independent scan of the raw ledger (all account chains and balances) checks at the confirmed ledger and at the pool view, for every token: recorded supply == sum of balances + sum of sends without a receive, supply <= max supply, no negative balance; and that recorded supplies changed only when a token-contract receive block was added.",
            "Live-network receiver-enforcement regime; amounts from a boundary set; epochs shrunk to 6 momentums.",
            "5/C01"),
    "C03": ("model_checking",
            "exhaustive single- and double-field mutation closure of valid candidate blocks of every type from reachable ledger states, submitted through the real acceptance path, against an independent validity predicate",
            "8 ledger states (4 situations: confirmed predecessors with contract inboxes holding two entries; all predecessors unconfirmed in the pool; genesis predecessors; confirming momentum below the frontier with a pending refund; each under the enforced and the legacy receiver regime) x 16 valid candidates (user send, user receive, first block of an account, contract receive, contract receive carrying a refund descendant = the only way a contract send travels) x all 22 fields x 449 (type, field, value) points x 3 sealing modes (hash/signature untouched; recomputed and re-signed by the owner; signed by a foreign key): quick all single mutations + the full two-field closure in one state, thorough the complete two-field closure (359k candidates), each delivered through ChainBridge.AddAccountBlocks on a scratch node. accepted => an independent predicate holds (own hash pre-image, own address derivation, ed25519 by the account key or keyless and equal to the regenerated contract block, height/previous, acknowledged momentum rules, 0 <= amount < 2^255, amount <= balance, receive of a confirmed unreceived send addressed to the receiver when enforced). Rejection reasons are counted; reasons never hit are listed.",
            "The converse (valid => accepted) is not demanded; triple mutations and PoW-only first blocks not covered.",
            "5/C03"),
    "C04": ("model_checking",
            "bounded-history explicit-state exploration on a real node with whole-ledger receive-once / FIFO invariants recomputed independently after every transition",
            "All histories of depth 3 (quick) / 4 + extended alphabet (thorough) over 18 operations (calls to 3 contracts from 4 accounts, momentum with and without the producer's auto-receive phase so inboxes grow, user receives in and out of order, repeated receive of a confirmed / of a still unconfirmed receive / acknowledging an older momentum, receive by the wrong account, competing higher-plasma receives replacing pooled ones, a hand-generated contract receive for inbox entry #2 while #1 is pending, a reorganisation onto a branch that confirms the pooled sends first, restart) from 3 base states. After every transition, at the confirmed ledger and the pool view: every send has at most one receiving block and it is made by the addressee; every contract's receive sequence equals a prefix of the queue recomputed from the confirmed chain (momentum order, content order, block before descendants).",
            "Live-network receiver-enforcement regime; reorganisations of fork depth 1.",
            "5/C04"),
    "C09": ("model_checking",
            "bounded exhaustive product enumeration of contract x method x argument/amount/token domains (and non-canonical encodings) in 5 spork regimes and 3 base states; every send the real node accepts is driven through the real receive generation, a follower and a probe call",
            "Method tables by reflection over the 11 ABI definitions cross-checked with GetEmbeddedMethod in 5 spork regimes (76 of 77 ABI methods reachable; sends to methods absent from a regime are all refused at send time). For every method: product of per-type boundary domains for every argument x amounts x tokens x relevant senders (quick: 2 values per argument, capped per group, plus the full 'star' of single-value deviations from an accepted centre call; thorough: full domains, depth-2 chains) in base states genesis / entries (stake, fusion, delegation, deposits, sentinel, tokens, projects with phases, HTLCs, an initialised bridge with wrap/unwrap requests, liquidity stake) / matured (26 h later). Each accepted send is confirmed and Supervisor.GenerateAutoReceive is driven for the inbox head: no panic, no internal error; success, or a receive whose only descendant returns exactly (amount, token) to the sender with contract storage and balances unchanged; the receive is inserted, second-order inboxes drained, a probe call to the same contract is received within one producer step, and a follower replaying the momentums through InsertChain accepts them.",
            "Time windows rescaled; per-group caps cut the product (every cut group is listed in the evidence notes); sender combinations beyond six actors not covered.",
            "5/C09"),
    "C10": ("model_checking",
            "bounded-history explicit-state exploration per contract family on a real node with an independent ledger auditor (liabilities and entitlements recomputed from the ledger) evaluated after every transition",
            "Per family (stake; plasma fusions; sentinel collateral + QSR deposit; pillar QSR deposit; HTLC with the spork activated by the base prefix) all histories of depth 3 (quick) / 4 (thorough) over 7-13 operations (deposits of two accounts and durations, deposit attempts in the wrong token, withdrawal attempts by owner / stranger / beneficiary, with known and unknown ids, before and after maturity, repeated; HTLC unlock with right / wrong / oversized preimage by beneficiary and by proxy, reclaim by depositor and stranger, deny/allow proxy unlock; reward collection; momentums as time) from 2-3 base states each (genesis; entries existing: one mature, one not; proxy unlock denied), with lock periods shrunk to 2-4 momentums. After every transition, at the confirmed ledger and the pool view, an auditor replays each contract's receive blocks from the ledger alone and checks: ledger-derived liabilities == liabilities in contract storage <= contract balance (per contract and token); every payout matched by an entitlement (entitled party, not before the lock allows, not twice, exact amount and recipient); a matured withdrawal by the entitled party pays out.",
            "Liquidity stake, bridge unwrap and pillar registration/revocation are not covered; lock constants shrunk (logic is parametric in them).",
            "5/C10"),
    "C11": ("model_checking",
            "bounded-history explicit-state exploration on a real node with short epochs; per-epoch reward invariants evaluated after every transition + follower differential at the end of every history",
            "Epochs of 6 momentums. All histories of depth 3 (quick) / 4 + extended alphabet (thorough) over 11 (quick) / 18 (thorough) operations (momentum, 3 momentums, skipped slot = missed momentum, delegate / undelegate, stake entering, stake leaving, explicit Update calls, CollectReward by staker / pillar / delegator, a read-only consensus query in the middle of an epoch, revocation of a pillar) from 3 base states (pillar 3 revoked, inside the second period of the next epoch; just before the first epoch end with a stake and a delegation; two epochs in with a registered sentinel and pending rewards). The explored state is ledger + pool bytes + the heights at which read-only queries were made (they touch in-memory consensus caches). After every transition for pillar, sentinel, stake and liquidity contracts: credited ZNN/QSR per epoch <= the contract's emission share recomputed from the tables; last rewarded epoch never decreases; an epoch's reward history never changes once written and none exists beyond the last rewarded epoch; for every address credited == collected (minted through CollectReward) + pending. At the end of every history a follower fed in one batch and a follower fed half / restarted with a wiped consensus cache / fed the rest must be byte-identical to the producer.",
            "Shrunk epoch/tick/update constants (mutually consistent); reward history read for all accounts that act in the histories.",
            "5/C11"),
    "C12": ("exploration",
            "exhaustive enumeration of difficulties x nonces against a big.Int reference + explicit-state exploration of unconfirmed block sequences with boundary plasma/PoW fields on real nodes against a reference plasma model",
            "(a) 4269 difficulties ({1..4096} + 2^k-1,2^k,2^k+1 for k=1..64 + plasma-table boundaries +-1) x 256 (quick) / 4096 (thorough) nonces x 2 subjects through pow.CheckPoWNonce vs accept <=> LE64(sha3(nonce||H))>= 2^64 - floor(2^64/d) in big.Int; least-valid-nonce searches for d <= 2^20/2^23; target/comparison helpers at threshold +-1; DifficultyToPlasma on all 142.8M values of its range (+ sparse 64-bit set), GetDifficultyForPlasma on every plasma value, fused-amount conversion at every unit boundary. (b) on real nodes: accounts with fused QSR in {0,1,10,11,25,5000,5001} (+2 thorough), sequences of <=3/4 unconfirmed blocks of 6-9 kinds x 10-15 FusedPlasma values x 5-7 PoW claims (incl. real nonces), every candidate hand-built, hashed, signed and decided by Supervisor.ApplyBlock: accepted => total >= base cost of its kind, fused <= plasma of fused QSR minus fused plasma of unconfirmed predecessors, total <= cap, PoW honoured only per (a); committed/uncommitted counters and AvailablePlasma compared with the model after every insertion and every confirming momentum; stale-acknowledgement scenarios evaluated as of the acknowledged momentum.",
            "Deep sequences go through one representative history per model state; fuse minimum/expiration constants lowered in the workers.",
            "5/C12"),
    "C13": ("model_checking",
            "exhaustive enumeration of (accepted block, field alteration, sealing flavour) variants delivered to a follower before the producer's momentum + exhaustive codec round trips",
            "(b) every pooled block of 3 (quick) / 52 (thorough) real histories x every alteration of every field of the block and of each descendant (inside and outside the hash pre-image; ChangesHash/PublicKey/Signature bit flips, S+L encodings, plasma fields, descendant add/drop/duplicate/swap/nest, 49 non-canonical ABI encodings of call data) in three flavours (hash kept / recomputed / re-signed), delivered through the TxMsg RLP round trip to a follower's AddAccountBlocks and inside a DetailedMomentum through InsertChain while the producer keeps the original: the follower must refuse the variant, or store bytes equal to the producer's, accept the producer's momentum and stay byte-identical; accepted variants are escalated to a second producer and a fresh node. Momentum variants likewise. (a) protobuf, RLP (the three wire forms), nom JSON, rpc JSON and Copy() round trips of all real blocks/momentums plus 625 generated shapes and 36k JSON number/string spellings: same protobuf bytes and hash.",
            "One field (or one named pair) altered per variant; only fused-plasma blocks; contract methods that occur in the histories.",
            "5/C13"),
    "C15": ("exploration",
            "exhaustive enumeration of protocol sessions over a 304-letter message alphabet on the real ProtocolManager (child processes), of every single-byte corruption/truncation/reordering of rlpx frames, and of every corruption of discovery packets",
            "(a) all sessions of <=2 messages (quick; thorough: <=3 over a reduced 75-letter alphabet) over 304 letters (9 message codes + unknown codes x empty / wrong RLP kind / truncated / boundary parameters, forged momentums and blocks, oversize messages) before and after the handshake on chains of 600 and 5 momentums, plus scripted downloader/fetcher dialogues, on the real ProtocolManager over p2p.MsgPipe in re-exec'd child processes: no panic (recovered panics are confirmed by a raw child dying), sentinel request answered by the same and a witness peer after every message, replies <=512 hashes / <=128 momentums / <=10 MiB, oversize dropped unread. (b) 3 real rlpx frames: every byte x {^0xFF,+1} (thorough all 255 masks), every truncation, all sequences of <=4 frames, crafted valid-MAC frames: error or exactly the sent message. (c) real discovery udp/Table on an in-memory conn: every single-byte corruption and truncation of 4 packet kinds (raw and re-hashed), expiry/version/oversize variants, bonded-sender flow: rejected, no panic, no datagram to an unverified sender.",
            "Grammar-bounded alphabet, not all byte strings; p2p.Server/rlpx handshake not in the session loop; only the 400 ms / 100 ms timer paths of fetcher/downloader are exercised.",
            "5/C15"),
    "C17": ("model_checking",
            "exhaustive enumeration of spork activation orders x acknowledged heights x delivery modes on a producer with three followers, against a by-construction gating oracle; child processes for the halt on an unimplemented spork",
            "Every single spork, ordered pair and all 6 permutations of the three sporks (quick: spacing 4 + 3 permutations with spacing 1 / reversed creation; thorough: x creation order x spacing 1..5), in live and lag timing (probes acknowledging an older momentum while the frontier is past the last enforcement height). At every acknowledged height from 3 to maxE+1: four real gated calls (htlc.Create, liquidity.SetIsHalted, bridge.WrapToken, accelerator.CreateProject) through the own-block and the foreign-block path on producer and gossip follower, plus a lookup sweep of all 44 gated and 5 ungated methods: accepted <=> acknowledged height >= enforcement height of its OWN spork, accepted calls execute at the confirming momentum, send-time and receive-time verdicts agree, gossip / momentum-only-with-restarts / one-batch followers stay byte-identical. Administration: creation/activation by non-admin keys, unknown ids, repeated activation have no effect; enforcement height == activation momentum + delay. Halt: child processes lacking a spork exit 2 exactly at the momentum of height E on produce / follow-step / follow-batch paths and at Init on databases at and past E, survive E-1.",
            "SporkMinHeightDelay as shipped (6); spork ids bound per worker as the repository's tests do.",
            "5/C17"),
    "C18": ("exploration",
            "exhaustive product enumeration of paging arguments for every paged RPC method against ground truth from the stores + JSON round trips of all blocks + grammar-enumerated JSON-RPC requests against an in-process server",
            "29 paged methods (302 method/argument instances) on 4 real chains: full product of 9+ page indices x 7+ page sizes (incl. limit, limit+1, 2^16..2^32-1 and the first indices whose offset needs >32 bits), heights/counts up to 2^64-1; concatenation of all pages of every legal size must list each element exactly once in store order with correct totals, no page above the limit, out-of-range pages empty, no panic. Every block/momentum round-trips through nom and rpc JSON types to identical protobuf bytes and hash (plus 7 synthetic variants each). ~2300 (quick) / ~7000 (thorough) JSON-RPC requests (wrong types at every parameter position, missing/extra/null params, huge numbers, deep nesting, 5 MiB strings, batches, invalid UTF-8, unknown methods, every truncation of valid requests) over ServeHTTP and ServeCodec: always an error response or a correct result, a sentinel call still answered, process (child) survives.",
            "Grammar-bounded, not all byte strings; websocket/IPC transports and bridge/liquidity lists with data not covered.",
            "5/C18"),
    "C19": ("fault_enumeration",
            "exhaustive single-bit and length corruption of key files + bounded exhaustive input enumeration against an independent SLIP-0010/BIP-39/argon2id+AES-GCM reference",
            "60 round trips (15 entropies of the 5 allowed sizes x 4 passwords) through Encrypt/Write/Read/Decrypt with cipher text compared to an independent reference on the wallet's own salt/nonce; 555 wrong passwords; every single-bit flip of cipher text, nonce and salt and 21 length edits of 2 (quick) / 60 (thorough) files, plus every single-bit flip of whole key-file bytes: decrypt must fail with an error (never panic) unless the fields decode to the original bytes; derivation for 7 indices x 15 entropies vs the reference (validated against SLIP-0010 vector 1 and BIP-39 vectors in every worker); sign/verify incl. all single-bit flips of signature and public key; every derivation path of <=6/7 tokens over a 9-token alphabet accepted iff hardened and well formed.",
            "Salt/nonce come from the system CSPRNG (outputs compared modulo those); argon2/AES/ed25519 primitives trusted.",
            "5/C19"),
    "C20": ("exploration",
            "bounded exhaustive enumeration of generated genesis configurations: all permutations of order-free lists, all single-entry perturbations, all ordered config pairs, across child processes",
            "66 (quick) / 1298 (thorough) generated consistent configurations: hash, content and full raw initial state equal across rebuilds, every permutation of every order-free list, JSON round trip and 2/5 fresh child processes; every single-entry perturbation (55 classes: +-1 on every amount, remove/duplicate/add entries, nil/empty sections) must be rejected whenever an independent sum predicate fails; all 81 ordered pairs of 9 configurations on stores at height 1 and 3: chain.Init errors iff the genesis hashes differ and leaves every key of the store untouched.",
            "Configurations are generated by construction from small domains.",
            "5/C20"),
}

NOT_BUILT_REASON = "check not built yet in this round (work in progress; see DESIGN.md section 5 for the planned model-checking formulation)"

# extensions made after the table above was written (second seeding round and self-review)
ADDED = {
    "C01": "part 2 explores, under the same supply oracle, the deposit / withdrawal alphabets of C10 (stake, plasma, sentinel, pillar QSR and collateral, HTLC, liquidity stake, bridge wrap / unwrap) and the reward alphabet of C11 (epoch updates after missed slots and a 23-epoch outage, collects) from their base states at depth 2 (quick) / 3 (thorough); operation Tneg hands the node a transfer whose in-memory amount is negative through the raw publication path.",
    "C02": "a fifth scripted history deletes and re-creates a ledger key (fusion cancelled, re-fused) and then sends a block acknowledging the momentum before: historical views below the deletion are compared at every later frontier. A sixth one has a block that exists three momentums before the producer pools it (operations Thold / Rel) while the plasma fused for its account changes: followers may be handed it at any frontier from the momentum it acknowledges on.",
    "C03": "the world contains a data-only send (zero token standard, amount 0) that was received once; 'already-received-zero-amount-send' is a FromBlockHash domain value.",
    "C04": "the alphabet and the first base state use a data-only transfer (zero token standard, amount 0).",
    "C06": "two 'tick-gap' scenarios: the abandoned branch misses the rest of the fork point's election tick (at an epoch end and in mid-epoch) and continues in the next tick, the adopted branch fills the skipped slots.",
    "C07": "the zero-length key is part of the alphabet; after every transition every open view is also read through Subset(p) (Get/Has/scans/Changes relative to p) and through a written Subset(p).Snapshot() for p in {k, ka}; thorough adds an operation that opens Subset(p).Snapshot() views.",
    "C10": "three more families: pillar collateral (Register with / without deposit, Revoke by owner / stranger inside and outside the window, UpdatePillar; genesis pillars and a newly registered one), liquidity stakes (stake, below-minimum stake, cancel by owner / stranger / early / twice / unknown id) and bridge unwrap requests (TSS-signed and wrongly signed requests, Redeem by recipient / stranger / before the delay / twice / unknown, revocation by administrator / stranger), each audited from the ledger alone; base prefixes are executed once per worker and copied (hx SnapshotBases).",
    "C11": "oracle (2'): the cursor moves only past rewarded epochs (liquidity: minted total == sum of the shares up to the cursor; stake / sentinel: an entry active in the epoch implies the whole share was distributed; pillar: momentums produced in the epoch imply credited ZNN); base state after an outage of 23 epochs explored with a 5-operation alphabet.",
    "C12": "acknowledged-momentum part: 1-2 unconfirmed blocks that acknowledged the last momentum with the fusion active, then every candidate on top acknowledging that or any later momentum; accepted implies fused <= plasma(at the acknowledged momentum) - unconfirmed.",
    "C13": "warm-follower pass: every same-hash variant is also delivered to a follower that verified and pooled the unaltered block and lost it again in a rollback of its last momentum.",
    "C14": "the pooled child X2 of X1 carries three times the base plasma (a competitor with twice the base plasma beats X1 but not X2); the checker's build iterates the account pool's per-address map in sorted order so that schedules replay deterministically; a schedule prefix that does not reproduce its recorded execution is retried and then skipped with exhaustive=false.",
}


def main():
    props = [json.loads(l) for l in open('/verif/properties.jsonl')]
    checks = []
    na = []
    for p in props:
        pid = p['id']
        if pid in CHECKS:
            level, tech, text, note, ref = CHECKS[pid]
            if pid in ADDED:
                text += " Added later: " + ADDED[pid]
            checks.append({
                "property_id": pid,
                "quick_cmd": f"./run.sh {pid} quick",
                "thorough_cmd": f"./run.sh {pid} thorough",
                "evidence_file": f"/verif/evidence/{pid}.json",
                "replay_cmd_template": f"./run.sh {pid} --replay {{path}}",
                "engine": "zmc",
                "level_claimed": {"category": level, "text": text, "design_ref": ref},
                "level_note": note,
                "technique": tech,
            })
        else:
            na.append({"property_id": pid, "reason": NOT_BUILT_REASON})
    m = {
        "version": 1,
        "setup_cmd": "./setup.sh",
        "hooks": {
            "guard": "verif",
            "enable": "go build -tags verif [-overlay /verif/.work/overlay.json] (see /verif/build.sh)",
            "baseline_off_cmd": "cd /repo && GOFLAGS=-mod=mod go test -json -vet=off -count=1 -timeout 25m ./...",
            "source_commits": HOOK_COMMITS,
            "add_only": True,
        },
        "engines": [
            {"name": "zmc", "path": "/verif/mc", "serves_properties": sorted(CHECKS),
             "kind_free_text": "hand-written explicit-state / schedule / fault / bounded-input explorers driving the real go-zenon packages in worker subprocesses"},
        ],
        "checks": checks,
        "not_applicable": na,
        "notes": "All checks rebuild /verif/mc against /repo's working tree (build.sh) before running. Exit 2 = check broken, never a verdict.",
    }
    json.dump(m, open('/verif/MANIFEST.json', 'w'), indent=1)
    print(f"{len(checks)} checks, {len(na)} not claimed")

main()
