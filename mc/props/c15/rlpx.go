package c15

import (
	"bytes"
	"crypto/aes"
	"crypto/cipher"
	"fmt"
	"hash"
	"io"

	"github.com/ethereum/go-ethereum/crypto"
	"github.com/ethereum/go-ethereum/rlp"
	"golang.org/x/crypto/sha3"

	"github.com/zenon-network/go-zenon/p2p"

	"verifmc/internal/xs"
)

// Part (b): a real rlpxFrameRW pair (writer and reader with the same session secrets, as after the encryption
// handshake). Three frames are written by the real WriteMsg; every mutated stream is read by a fresh real reader.
// Oracle: the messages ReadMsg returns are exactly the sent messages of the positions before the first damaged
// position (same code, same payload) and the read at the damaged position is an error — never a panic, never a message
// that was not sent in that position.

type sentMsg struct {
	code    uint64
	payload []byte
}

var (
	rlpxAES = crypto.Keccak256([]byte("verif-c15-aes-secret"))
	rlpxMAC = crypto.Keccak256([]byte("verif-c15-mac-secret"))
)

func seededMAC() hash.Hash {
	h := sha3.NewLegacyKeccak256()
	h.Write(crypto.Keccak256([]byte("verif-c15-mac-seed")))
	return h
}

type rwPair struct {
	io.Reader
	io.Writer
}

func rlpxMessages() []sentMsg {
	return []sentMsg{
		{3, enc(getBlockHashesData{unknownHash, 512})}, // 1 + 43 bytes: padded
		{16, nil},                              // empty payload
		{1000, bytes.Repeat([]byte{0xC0}, 13)}, // 3-byte code + 13 = 16: no padding
	}
}

// writeFrames returns the concatenated stream and the end offset of every frame.
func writeFrames(msgs []sentMsg) (stream []byte, frames [][]byte) {
	var buf bytes.Buffer
	w := p2p.VerifNewFrameRW(rwPair{nil, &buf}, rlpxAES, rlpxMAC, seededMAC(), seededMAC())
	for _, m := range msgs {
		before := buf.Len()
		if err := w.WriteMsg(p2p.Msg{Code: m.code, Size: uint32(len(m.payload)), Payload: bytes.NewReader(m.payload)}); err != nil {
			panic(err)
		}
		frames = append(frames, append([]byte{}, buf.Bytes()[before:]...))
	}
	return append([]byte{}, buf.Bytes()...), frames
}

type readOutcome struct {
	ok       int    // messages returned before the first error
	wrong    string // non-empty: a returned message differs from the sent one in that position
	panicked string
	lastErr  string
}

func readStream(stream []byte, sent []sentMsg, maxReads int) (o readOutcome) {
	defer func() {
		if r := recover(); r != nil {
			o.panicked = fmt.Sprint(r)
		}
	}()
	rd := p2p.VerifNewFrameRW(rwPair{bytes.NewReader(stream), io.Discard}, rlpxAES, rlpxMAC, seededMAC(), seededMAC())
	for i := 0; i < maxReads; i++ {
		msg, err := rd.ReadMsg()
		if err != nil {
			o.lastErr = err.Error()
			return
		}
		payload, _ := io.ReadAll(msg.Payload)
		if i >= len(sent) {
			o.wrong = fmt.Sprintf("read %d returned a message (code %d, %d bytes) although only %d were sent", i, msg.Code, len(payload), len(sent))
			return
		}
		if msg.Code != sent[i].code || !bytes.Equal(payload, sent[i].payload) || int(msg.Size) != len(sent[i].payload) {
			o.wrong = fmt.Sprintf("read %d returned code %d size %d payload %x, sent was code %d payload %x", i, msg.Code, msg.Size, payload, sent[i].code, sent[i].payload)
			return
		}
		o.ok++
	}
	return
}

// crafter is an independent implementation of the writer side, used for frames that the real WriteMsg cannot produce
// (an authenticated peer controls the plaintext of its frames). It is validated against the real writer byte for byte.
type crafter struct {
	enc       cipher.Stream
	macCipher cipher.Block
	egress    hash.Hash
}

func newCrafter() *crafter {
	macc, _ := aes.NewCipher(rlpxMAC)
	encc, _ := aes.NewCipher(rlpxAES)
	return &crafter{enc: cipher.NewCTR(encc, make([]byte, encc.BlockSize())), macCipher: macc, egress: seededMAC()}
}

func (c *crafter) updateMAC(seed []byte) []byte {
	aesbuf := make([]byte, aes.BlockSize)
	c.macCipher.Encrypt(aesbuf, c.egress.Sum(nil))
	for i := range aesbuf {
		aesbuf[i] ^= seed[i]
	}
	c.egress.Write(aesbuf)
	return c.egress.Sum(nil)[:16]
}

// frame builds one frame whose header announces fsize and whose (padded) plaintext content is given.
func (c *crafter) frame(fsize uint32, content []byte) []byte {
	head := make([]byte, 32)
	head[0], head[1], head[2] = byte(fsize>>16), byte(fsize>>8), byte(fsize)
	copy(head[3:], []byte{0xC2, 0x80, 0x80})
	c.enc.XORKeyStream(head[:16], head[:16])
	copy(head[16:], c.updateMAC(head[:16]))
	body := append([]byte{}, content...)
	if pad := len(body) % 16; pad > 0 {
		body = append(body, make([]byte, 16-pad)...)
	}
	c.enc.XORKeyStream(body, body)
	c.egress.Write(body)
	seed := c.egress.Sum(nil)
	mac := c.updateMAC(seed)
	return append(append(head, body...), mac...)
}

func partB(c *xs.Ctx, r *xs.Result, only string) {
	sent := rlpxMessages()
	stream, frames := writeFrames(sent)
	ends := make([]int, len(frames))
	off := 0
	for i, f := range frames {
		off += len(f)
		ends[i] = off
	}
	frameOf := func(pos int) int {
		for i, e := range ends {
			if pos < e {
				return i
			}
		}
		return len(ends)
	}
	caseNo := 0
	eval := func(name, family string, mutated []byte, wantOK int) {
		i := caseNo
		caseNo++
		if only != "" {
			if name != only {
				return
			}
		} else if !c.Mine(i) {
			return
		}
		o := readStream(mutated, sent, len(sent)+3)
		r.Count("b_cases", 1)
		r.Count("b_cases_"+family, 1)
		r.Count("b_accepted_prefix_frames", int64(o.ok))
		rep := map[string]string{"part": "b", "case": name}
		switch {
		case o.panicked != "":
			r.Violate("C15:rlpx:"+family+":panic", fmt.Sprintf("rlpx frame stream mutation %s: ReadMsg panicked: %s", name, o.panicked), rep)
		case o.wrong != "":
			r.Violate("C15:rlpx:"+family+":wrong-message-delivered", fmt.Sprintf("rlpx frame stream mutation %s: %s", name, o.wrong), rep)
		case o.ok > wantOK:
			r.Violate("C15:rlpx:"+family+":damaged-frame-accepted", fmt.Sprintf("rlpx frame stream mutation %s: %d messages were delivered, only the first %d positions are undamaged", name, o.ok, wantOK), rep)
		case o.ok < wantOK:
			r.Violate("C15:rlpx:"+family+":intact-frame-rejected", fmt.Sprintf("rlpx frame stream mutation %s: only %d of the %d undamaged leading frames were delivered (%s)", name, o.ok, wantOK, o.lastErr), rep)
		}
		if o.lastErr != "" {
			r.Count("b_rejected", 1)
		}
		r.Add("b_outcomes", fmt.Sprintf("%s/ok=%d/%s", family, o.ok, shortErr(o.lastErr)))
	}

	// identity (vacuity: the unmodified stream is read back in full)
	eval("identity", "identity", stream, len(sent))

	// single-byte corruption
	var masks []byte
	if c.Thorough() {
		for m := 1; m < 256; m++ {
			masks = append(masks, byte(m))
		}
	}
	for pos := range stream {
		if c.Thorough() {
			for _, m := range masks {
				mut := append([]byte{}, stream...)
				mut[pos] ^= m
				eval(fmt.Sprintf("corrupt:pos=%d:xor=%#02x", pos, m), "corrupt", mut, frameOf(pos))
			}
		} else {
			mut := append([]byte{}, stream...)
			mut[pos] = ^mut[pos]
			eval(fmt.Sprintf("corrupt:pos=%d:xor=0xff", pos), "corrupt", mut, frameOf(pos))
			mut = append([]byte{}, stream...)
			mut[pos]++
			eval(fmt.Sprintf("corrupt:pos=%d:plus1", pos), "corrupt", mut, frameOf(pos))
		}
	}
	// truncation at every point
	for n := 0; n < len(stream); n++ {
		want := 0
		for _, e := range ends {
			if e <= n {
				want++
			}
		}
		eval(fmt.Sprintf("truncate:len=%d", n), "truncate", stream[:n], want)
	}
	// every sequence of 1..4 of the three frames: the 6 orders, every duplication, omission and replay
	var seqs func(prefix []int)
	seqs = func(prefix []int) {
		if len(prefix) > 0 {
			var mut []byte
			want := 0
			prefixOK := true
			name := "sequence:"
			for i, f := range prefix {
				mut = append(mut, frames[f]...)
				if prefixOK && f == i {
					want++
				} else {
					prefixOK = false
				}
				name += fmt.Sprint(f)
			}
			family := "reorder"
			if len(prefix) == len(frames) {
				seen := map[int]bool{}
				for _, f := range prefix {
					seen[f] = true
				}
				if len(seen) == len(frames) {
					family = "permutation"
				}
			}
			eval(name, family, mut, want)
		}
		if len(prefix) == 4 {
			return
		}
		for f := range frames {
			seqs(append(append([]int{}, prefix...), f))
		}
	}
	seqs(nil)

	// crafted frames with valid MACs (what an authenticated peer can send): validated against the real writer first
	cr := newCrafter()
	var rebuilt []byte
	for _, m := range sent {
		ptype, _ := rlp.EncodeToBytes(m.code)
		content := append(ptype, m.payload...)
		rebuilt = append(rebuilt, cr.frame(uint32(len(content)), content)...)
	}
	if !bytes.Equal(rebuilt, stream) {
		panic("harness: the independent frame writer disagrees with rlpxFrameRW.WriteMsg")
	}
	type crafted struct {
		name    string
		fsize   uint32
		content []byte
		cut     int // bytes removed from the end of the stream
		wantErr bool
	}
	big := make([]byte, 1<<16)
	crafts := []crafted{
		{"fsize=0", 0, nil, 0, true},
		{"code=empty-list", 1, []byte{0xC0}, 0, true},
		{"code=non-canonical", 2, []byte{0x81, 0x05}, 0, true},
		{"code=9-byte-integer", 10, append([]byte{0x89}, bytes.Repeat([]byte{0xFF}, 9)...), 0, true},
		{"code=leading-zero", 3, []byte{0x82, 0x00, 0x01}, 0, true},
		{"code=truncated-string", 1, []byte{0x83}, 0, true},
		{"fsize-smaller-than-content", 1, []byte{0x05, 0xC0, 0xC0, 0xC0}, 0, false},
		{"fsize=2^24-1,stream-ends", 0xFFFFFF, []byte{0x05}, 0, true},
		{"fsize-larger-than-content", 40, []byte{0x05, 0xC0}, 0, true},
		{"code-ok,payload-garbage", uint32(1 + len(big)), append([]byte{0x05}, big...), 0, false},
	}
	for _, cf := range crafts {
		i := caseNo
		caseNo++
		name := "crafted:" + cf.name
		if only != "" {
			if name != only {
				continue
			}
		} else if !c.Mine(i) {
			continue
		}
		cr := newCrafter()
		data := cr.frame(cf.fsize, cf.content)
		o := readStream(data, []sentMsg{{5, nil}}, 1)
		r.Count("b_cases", 1)
		r.Count("b_cases_crafted", 1)
		rep := map[string]string{"part": "b", "case": name}
		if o.panicked != "" {
			r.Violate("C15:rlpx:crafted:"+cf.name+":panic", fmt.Sprintf("crafted frame %s: ReadMsg panicked: %s", name, o.panicked), rep)
		}
		gotErr := o.lastErr != ""
		// readStream compares with {code 5, empty payload}: a returned message shows up as ok==1 or as "wrong" (payload differs)
		if cf.wantErr && !gotErr {
			r.Violate("C15:rlpx:crafted:"+cf.name+":accepted", fmt.Sprintf("crafted frame %s was delivered as a message (%s)", name, o.wrong), rep)
		}
		if gotErr {
			r.Count("b_rejected", 1)
		}
		r.Add("b_outcomes", fmt.Sprintf("crafted:%s/err=%v/%s", cf.name, gotErr, shortErr(o.lastErr)))
	}
	if c.Shard == 0 || only != "" {
		r.Count("b_stream_bytes", int64(len(stream)))
		r.Count("b_cases_in_bound", int64(caseNo))
	}
}

// shortErr normalises an error text into an outcome class (digits dropped so that "unknown type: 251" and
// "unknown type: 5" are one class).
func shortErr(s string) string {
	if len(s) > 28 {
		s = s[:28]
	}
	b := []byte(s)
	for i, c := range b {
		if c >= '0' && c <= '9' {
			b[i] = '#'
		}
	}
	return string(b)
}
