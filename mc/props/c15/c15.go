// Package c15 checks property C15: untrusted peers cannot crash, stall or bloat the node.
//
// (a) protocol sessions: every sequence of <= 2 (quick) / <= 3 (thorough, reduced alphabet) messages over a boundary
// alphabet of all nine message codes and two unknown codes, before and after the handshake, on a 600-momentum and on a
// 5-momentum chain, against the real ProtocolManager over p2p.MsgPipe, plus scripted sessions in which the peer answers
// the node's own synchronisation requests; (b) every single-byte corruption, truncation, permutation and duplication of
// three real RLPx frames; (c) every single-byte corruption and truncation (with and without a recomputed packet hash) of
// real discovery packets against decodePacket and the udp transport's packet handler.
package c15

import (
	"encoding/json"
	"fmt"
	"os"
	"path/filepath"
	"sort"
	"strings"
	"time"

	"verifmc/internal/xs"
)

func init() {
	xs.Register(&xs.Check{
		ID:    "C15",
		Level: "exploration",
		Shards: func(tier string) int {
			if tier == "thorough" {
				return 48
			}
			return 16
		},
		Budget: func(tier string) time.Duration {
			if tier == "thorough" {
				return 14 * time.Minute
			}
			return 115 * time.Second
		},
		Rule: "exhaustive enumeration, no sampling: (a) all message sequences up to the stated length over the stated boundary alphabet x {before, after handshake} x {600-momentum chain, 5-momentum chain}, each executed on the real protocol.ProtocolManager over p2p.MsgPipe with a sentinel request from the same peer and from a second peer after every message; all scripted synchronisation dialogues of the stated reply grid; (b) all single-byte corruptions (x2 or x255 values), truncations, permutations and duplications of 3 real RLPx frames; (c) all single-byte corruptions and truncations of 4 real discovery packets, raw and with recomputed hash, plus the stated semantic variants",
		Assumptions: []string{
			"mock genesis (chain id 100, 3 pillars); the node's chain is 600 or 5 momentums produced by its own pillars and never changes during a session (checked)",
			"the peer's protocol Run function is driven over p2p.MsgPipe with p2p.NewPeer (the rlpx transport and the p2p.Server are not in the loop for part a); p2p.Peer.startProtocols runs Run on a bare goroutine, hence a panic in Run or on a fetcher/downloader goroutine is judged as termination of the node process, and each distinct one is confirmed by letting it take its real course in a sacrificial process",
			"behaviour that only happens after a real-time timer of the fetcher/downloader fires is not explored, except the fetcher's 400 ms announce timer in the scripted announce sessions; no verdict depends on elapsed time (a missing required reply is re-run once and reported only if it reproduces)",
			"process globals owned: common.Clock (vnode logical clock), loggers silenced; nothing else is modified",
			"10 MiB limit: judged at the protocol layer (the message must end the session before any of its payload is read); the rlpx transport's own 24-bit frame buffer is outside the stated limit",
			"discovery: expiration checks use the real clock; valid packets carry an expiration in the year 2100, expired ones 0 / 1 / 2^64-1",
		},
		Run:    run,
		Finish: finish,
	})
}

// ---------------------------------------------------------------------------------------------------------------------
// enumeration of part (a)

var chains = []string{"big", "small"}

// reduced alphabet for 3-message sessions (thorough)
var alpha3Names = []string{
	"StatusMsg(td=0)", "StatusMsg(td=H+10,head=unknown)", "StatusMsg:empty", "StatusMsg(wrong-genesis)",
	"NewBlockHashesMsg(unknown*1)", "NewBlockHashesMsg(unknown*129)", "NewBlockHashesMsg(known*600)", "NewBlockHashesMsg:truncated", "NewBlockHashesMsg:oversize(10MiB+1)",
	"TxMsg(unsigned-send)", "TxMsg(nested-descendants)", "TxMsg(contract-send-huge)", "TxMsg:wrong-kind", "TxMsg(element-empty-list)",
	"GetBlockHashesMsg(frontier,0)", "GetBlockHashesMsg(frontier,1)", "GetBlockHashesMsg(frontier,512)", "GetBlockHashesMsg(frontier,513)", "GetBlockHashesMsg(frontier,2^64-1)",
	"GetBlockHashesMsg(genesis,0)", "GetBlockHashesMsg(genesis,1)", "GetBlockHashesMsg(genesis,512)", "GetBlockHashesMsg(genesis,513)", "GetBlockHashesMsg(genesis,2^64-1)",
	"GetBlockHashesMsg(unknown,0)", "GetBlockHashesMsg(unknown,1)", "GetBlockHashesMsg(unknown,512)", "GetBlockHashesMsg(unknown,513)", "GetBlockHashesMsg(unknown,2^64-1)",
	"GetBlockHashesMsg:truncated", "GetBlockHashesMsg:empty",
	"BlockHashesMsg(unknown*1)", "BlockHashesMsg(known*129)", "BlockHashesMsg(unknown*600)", "BlockHashesMsg:wrong-kind",
	"GetBlocksMsg(known*1)", "GetBlocksMsg(known*129)", "GetBlocksMsg(known*600)", "GetBlocksMsg(unknown*1)", "GetBlocksMsg(unknown*129)", "GetBlocksMsg:empty", "GetBlocksMsg:truncated",
	"BlocksMsg(forged:h=H+1,parent=frontier)", "BlocksMsg(forged:h=0,parent=frontier)", "BlocksMsg(forged:h=1,parent=genesis)", "BlocksMsg(none)", "BlocksMsg(own-frontier)", "BlocksMsg(forged*129)",
	"BlocksMsg:truncated", "BlocksMsg(momentum-empty-list)",
	"NewBlockMsg(forged:h=0,parent=frontier)", "NewBlockMsg(forged:h=1,parent=genesis)", "NewBlockMsg(forged:h=H,parent=frontier)", "NewBlockMsg(forged:h=H+1,parent=frontier)",
	"NewBlockMsg(forged:h=H+2,parent=frontier)", "NewBlockMsg(forged:h=H+1,parent=unknown)", "NewBlockMsg(own-frontier)", "NewBlockMsg(forged:h=H+1,parent=frontier,garbage-signature)",
	"NewBlockMsg:wrong-kind", "NewBlockMsg(momentum-empty-string)",
	"GetBlockHashesFromNumberMsg(0,0)", "GetBlockHashesFromNumberMsg(0,1)", "GetBlockHashesFromNumberMsg(1,0)", "GetBlockHashesFromNumberMsg(1,1)", "GetBlockHashesFromNumberMsg(1,512)",
	"GetBlockHashesFromNumberMsg(1,513)", "GetBlockHashesFromNumberMsg(H,1)", "GetBlockHashesFromNumberMsg(H,513)", "GetBlockHashesFromNumberMsg(H+1,1)",
	"GetBlockHashesFromNumberMsg(2^64-1,2^64-1)", "GetBlockHashesFromNumberMsg(2^63,2^63)", "GetBlockHashesFromNumberMsg(0,2^64-1)", "GetBlockHashesFromNumberMsg:empty",
	"Code9:empty", "Code1099511627776:hash-list",
}

// scripted sessions: the peer makes the node synchronise with it (a propagated block above the peer's advertised
// height) and answers the node's hash and block requests from a grid of replies; or it announces a hash and answers the
// fetcher's block request.
func scriptedSessions() []sessionSpec {
	var out []sessionSpec
	r1 := []string{"R:hashes[]", "R:hashes[unknown]", "R:hashes[genesis]", "R:hashes[frontier]"}
	r2 := []string{"R:hashes[]", "R:hashes[genesis]"}
	bl := []string{"R:blocks[]", "R:blocks[own-frontier]"}
	for _, t := range forgedTags {
		r2 = append(r2, "R:hashes[forged:"+t+"]")
		bl = append(bl, "R:blocks[forged:"+t+"]")
	}
	for _, chain := range chains {
		for _, a := range r1 {
			for _, b := range r2 {
				for _, c := range bl {
					out = append(out, sessionSpec{Part: "a", Chain: chain, Letters: []string{"NewBlockMsg(forged:h=H+2,parent=frontier)"},
						Resp: &respSpec{OnHashesFromNumber: []string{a, b, "R:hashes[]"}, OnGetBlocks: []string{c}}})
				}
			}
		}
		// session lifecycle: the same identity connects again while its first session is still being served
		out = append(out, sessionSpec{Part: "a", Chain: chain, Dup: true, Letters: []string{"NewBlockMsg(own-frontier)"}})
		for _, t := range forgedTags {
			for _, u := range forgedTags {
				out = append(out, sessionSpec{Part: "a", Chain: chain, Letters: []string{"NewBlockHashesMsg([forged:" + t + "])"},
					Resp: &respSpec{OnGetBlocks: []string{"R:blocks[forged:" + u + "]"}, WaitRequests: 1}})
			}
		}
	}
	return out
}

var scripted = scriptedSessions()

// Sessions that start before the handshake: the first letter either is a well-formed status (the session goes on as a
// handshaken one) or must get the peer dropped. A session (x, y, ..) whose x is not a well-formed status is, message for
// message, the one-letter session (x): y is never sent. Those are not executed again for every y; they are counted as
// pruned, and the premise (x alone gets the peer dropped before the handshake) is executed for every x and checked.
type enumBlock struct {
	chain string
	pre   bool
	n     int // letters per session
	first []string
	rest  []string
	size  int
}

type enumLayout struct {
	blocks []enumBlock
	total  int
	pruned int
}

func statusOK(names []string) []string {
	var out []string
	for _, n := range names {
		if lookupLetter(n).Status {
			out = append(out, n)
		}
	}
	return out
}

var layouts = map[string]*enumLayout{}

func layout(tier string) *enumLayout {
	if l := layouts[tier]; l != nil {
		return l
	}
	var all []string
	for _, l := range alpha {
		all = append(all, l.Name)
	}
	l := &enumLayout{}
	pow := func(b, e int) int {
		r := 1
		for ; e > 0; e-- {
			r *= b
		}
		return r
	}
	for _, chain := range chains {
		for _, pre := range []bool{false, true} {
			maxLen := 2
			if tier == "thorough" {
				maxLen = 3
			}
			for n := 1; n <= maxLen; n++ {
				letters := all
				if n == 3 {
					letters = alpha3Names
				}
				first := letters
				if pre && n > 1 {
					first = statusOK(letters)
					l.pruned += (len(letters) - len(first)) * pow(len(letters), n-1)
				}
				b := enumBlock{chain: chain, pre: pre, n: n, first: first, rest: letters, size: len(first) * pow(len(letters), n-1)}
				l.blocks = append(l.blocks, b)
				l.total += b.size
			}
		}
	}
	l.total += len(scripted)
	layouts[tier] = l
	return l
}

func numSessions(tier string) int { return layout(tier).total }

// sessionAt decodes a flat index: scripted sessions first (they involve a real-time wait), then block after block; in
// a block consecutive indices differ in the last letter first, so that i % nshards spreads every kind of session evenly.
func sessionAt(tier string, i int) sessionSpec {
	if i < len(scripted) {
		return scripted[i]
	}
	i -= len(scripted)
	for _, b := range layout(tier).blocks {
		if i >= b.size {
			i -= b.size
			continue
		}
		s := sessionSpec{Part: "a", Chain: b.chain, Pre: b.pre, Letters: make([]string, b.n)}
		for k := b.n - 1; k >= 1; k-- {
			s.Letters[k] = b.rest[i%len(b.rest)]
			i /= len(b.rest)
		}
		s.Letters[0] = b.first[i]
		return s
	}
	panic("session index out of range")
}

// ---------------------------------------------------------------------------------------------------------------------

func run(c *xs.Ctx, r *xs.Result) {
	if os.Getenv(childEnvVar) != "" {
		childMain()
		os.Exit(0)
	}
	if c.Replay != nil {
		replay(c, r)
		return
	}
	for _, n := range alpha3Names {
		lookupLetter(n)
	}
	if only := os.Getenv("VERIF_C15_PARTS"); only != "" { // development aid
		if strings.Contains(only, "b") {
			runPartB(c, r, "")
		}
		if strings.Contains(only, "c") {
			runPartC(c, r, "")
		}
		if strings.Contains(only, "d") {
			partD(c, r, "")
		}
		if strings.Contains(only, "e") {
			partE(c, r, "")
		}
		if strings.Contains(only, "a") {
			runPartA(c, r)
		}
		return
	}
	partD(c, r, "")
	partE(c, r, "")
	runPartB(c, r, "")
	runPartC(c, r, "")
	runPartA(c, r)
}

func mergeSession(r *xs.Result, s sessionSpec, res *sessResult) {
	if dbg := os.Getenv("VERIF_C15_DEBUG"); dbg != "" { // development aid: one line per session
		if f, err := os.OpenFile(dbg, os.O_APPEND|os.O_CREATE|os.O_WRONLY, 0o644); err == nil {
			js, _ := json.Marshal(map[string]interface{}{"session": s.String(), "outcomes": res.Outcomes, "counters": res.Counters, "notes": res.Notes, "blocked": res.Blocked})
			f.Write(append(js, '\n'))
			f.Close()
		}
	}
	r.Count("a_sessions", 1)
	r.Count(fmt.Sprintf("a_sessions_len%d", len(s.Letters)), 1)
	if s.Resp != nil {
		r.Count("a_sessions_scripted", 1)
	}
	if s.Pre {
		r.Count("a_sessions_before_handshake", 1)
		if len(s.Letters) == 1 && !lookupLetter(s.Letters[0]).Status && len(res.Outcomes) == 1 && strings.HasPrefix(res.Outcomes[0], "dropped:") {
			r.Count("a_pruning_premise_established", 1) // this first letter alone ends a not yet handshaken session
		}
	}
	r.Count("a_sessions_chain_"+s.Chain, 1)
	for k, v := range res.Counters {
		r.Count(k, v)
	}
	for set, elems := range res.Sets {
		for _, e := range elems {
			r.Add(set, e)
		}
	}
	for _, n := range res.Notes {
		r.Note("%s", n)
	}
	for _, v := range res.Viol {
		r.Violate(v.Key, v.What, s)
	}
	interesting := false
	for _, o := range res.Outcomes {
		if strings.HasPrefix(o, "reply:") || strings.HasPrefix(o, "panic") {
			interesting = true
		}
	}
	if interesting && len(s.Letters) > 1 {
		r.Sample(map[string]interface{}{"session": s.String(), "outcomes": res.Outcomes})
	}
}

func runPartA(c *xs.Ctx, r *xs.Result) {
	total := numSessions(c.Tier)
	r.Count("a_alphabet_letters", 0)
	if c.Shard == 0 {
		r.Count("a_alphabet_letters", int64(len(alpha)))
		r.Count("a_alphabet3_letters", int64(len(alpha3Names)))
		r.Count("a_sessions_executed_in_bound", int64(total))
		r.Count("a_sessions_pruned_equivalent_to_dead_prefix", int64(layout(c.Tier).pruned))
		r.Count("a_sessions_in_bound", int64(total+layout(c.Tier).pruned))
	}
	start := 0
	respawns := 0
	var blocked []int
	chainDir := c.TempDir() // kept across respawns: a respawned child reopens the chains instead of rebuilding them
	defer os.RemoveAll(chainDir)
	confirmedCrash := map[string]bool{}
	for start < total {
		if c.Expired() {
			r.Incomplete = true
			r.Note("part a: deadline reached at session %d of %d (shard %d)", start, total, c.Shard)
			break
		}
		spec := childSpec{Mode: "range", Tier: c.Tier, Shard: c.Shard, NShards: c.NShards, Start: start, Dir: chainDir, Deadline: c.Deadline.UnixNano()}
		cr := spawnChild(c.TempDir(), spec, c.Deadline.Add(30*time.Second), func(idx int, res *sessResult) {
			s := sessionAt(c.Tier, idx)
			if res.Blocked != "" {
				blocked = append(blocked, idx) // candidate: judged after a re-run
				r.Count("a_blocked_candidates", 1)
				return
			}
			mergeSession(r, s, res)
		})
		if cr.expired >= 0 {
			r.Incomplete = true
			r.Note("part a: deadline reached at session %d of %d (shard %d)", cr.expired, total, c.Shard)
			break
		}
		if cr.done {
			break
		}
		// the child died
		respawns++
		r.Count("a_child_deaths", 1)
		if cr.inflight < 0 {
			if respawns > 3 {
				panic(fmt.Sprintf("session child keeps dying outside any session: %v\n%s", cr.exitErr, tail(cr.stderr, 2000)))
			}
			os.RemoveAll(chainDir)
			chainDir = c.TempDir()
			continue
		}
		idx := cr.inflight
		s := sessionAt(c.Tier, idx)
		reason, site := crashSignature(cr.stderr)
		sig := panicKind(reason) + "@" + site
		r.Count("a_sessions", 1)
		if reason != "" && confirmedCrash[sig] {
			// the same crash (reason and site) was already reproduced alone in a fresh process by this worker
			r.Count("a_child_deaths_same_signature", 1)
			r.Violate("C15:process-crash:"+sig, fmt.Sprintf("session {%s} terminates the node process: %s", s.String(), reason), s)
		} else {
			// confirm: the same session alone in a fresh process
			again := runSingle(c, s, false)
			if again.cr.inflight == 0 && !again.cr.done {
				if reason2, site2 := crashSignature(again.cr.stderr); reason2 != "" {
					reason, site = reason2, site2
					sig = panicKind(reason) + "@" + site
				}
				confirmedCrash[sig] = true
				r.Violate("C15:process-crash:"+sig,
					fmt.Sprintf("session {%s} terminates the node process (reproduced alone in a fresh process): %s\n%s", s.String(), reason, tail(again.cr.stderr, 3000)), s)
			} else {
				r.Count("a_child_death_not_reproduced", 1)
				r.Note("child died during session %d {%s} (%v: %s at %s) but the session alone does not reproduce it", idx, s.String(), cr.exitErr, reason, site)
				if again.res != nil {
					mergeSession(r, s, again.res)
				}
			}
		}
		if respawns > 400 {
			r.Incomplete = true
			r.Note("part a: too many child deaths, stopping at session %d", idx)
			break
		}
		start = idx + 1
	}
	// Sessions in which a required reply did not arrive: once more, alone, with a generous timeout. This is the deciding
	// step for the "blocks its message loop" clause, so it is not abandoned when the exploration deadline has passed: the
	// candidates are judged shortest session first, one confirmed violation per key is enough (further candidates with
	// the same message codes are counted, not re-run), and the step may use up to four minutes beyond the deadline.
	// Candidates that are still unjudged then make the run incomplete and are listed.
	sort.SliceStable(blocked, func(i, j int) bool {
		return len(sessionAt(c.Tier, blocked[i]).Letters) < len(sessionAt(c.Tier, blocked[j]).Letters)
	})
	grace := c.Deadline.Add(4 * time.Minute)
	confirmedKey := map[string]bool{}
	var unjudged []string
	for _, idx := range blocked {
		s := sessionAt(c.Tier, idx)
		key := fmt.Sprintf("C15:%s:blocked", codeNamesOf(s))
		if confirmedKey[key] {
			r.Count("a_blocked_same_key_as_confirmed", 1)
			continue
		}
		if !c.Deadline.IsZero() && time.Now().After(grace) {
			unjudged = append(unjudged, s.String())
			continue
		}
		os.Setenv("C15_BLOCK_TIMEOUT_S", "60")
		again := runSingle(c, s, false)
		os.Unsetenv("C15_BLOCK_TIMEOUT_S")
		if again.res == nil {
			r.Note("re-run of blocked session %d {%s} died: %v", idx, s.String(), again.cr.exitErr)
			r.Count("a_blocked_rerun_died", 1)
			continue
		}
		if again.res.Blocked == "" {
			r.Count("a_blocked_not_reproduced", 1)
			mergeSession(r, s, again.res)
			continue
		}
		mergeSession(r, s, again.res)
		confirmedKey[key] = true
		r.Violate(key, fmt.Sprintf("session {%s}: %s (reproduced in a second, separate run)", s.String(), again.res.Blocked), s)
	}
	if len(unjudged) > 0 {
		r.Incomplete = true
		r.Count("a_blocked_unjudged", int64(len(unjudged)))
		if len(unjudged) > 5 {
			unjudged = unjudged[:5]
		}
		r.Note("part a: %d sessions in which a required reply did not arrive could not be re-run in time (first: %s)", len(unjudged), strings.Join(unjudged, " | "))
	}
}

func codeNamesOf(s sessionSpec) string {
	var n []string
	if s.Dup {
		n = append(n, "same-identity-reconnect")
	}
	for _, l := range s.Letters {
		n = append(n, lookupLetter(l).CodeName+"/"+lookupLetter(l).Class)
	}
	return strings.Join(n, "+")
}

type singleRun struct {
	cr  childRun
	res *sessResult
}

func runSingle(c *xs.Ctx, s sessionSpec, raw bool) singleRun {
	dir := c.TempDir()
	defer os.RemoveAll(dir)
	return runSingleIn(dir, c.Tier, s, raw, time.Now().Add(3*time.Minute))
}

func runSingleIn(dir string, tier string, s sessionSpec, raw bool, hard time.Time) singleRun {
	spec := childSpec{Mode: "single", Tier: tier, Raw: raw, Session: &s, Dir: filepath.Join(dir, "chain"), Deadline: hard.UnixNano()}
	var out singleRun
	out.cr = spawnChild(filepath.Join(dir, "child"), spec, hard, func(idx int, res *sessResult) { out.res = res })
	return out
}

func tail(s string, n int) string {
	if len(s) > n {
		return s[:n] + "..."
	}
	return s
}

// ---------------------------------------------------------------------------------------------------------------------

func replay(c *xs.Ctx, r *xs.Result) {
	var probe struct {
		Part string `json:"part"`
		Case string `json:"case"`
	}
	if err := json.Unmarshal(c.Replay, &probe); err != nil {
		panic(err)
	}
	switch probe.Part {
	case "a":
		var s sessionSpec
		if err := json.Unmarshal(c.Replay, &s); err != nil {
			panic(err)
		}
		out := runSingle(c, s, false)
		if out.res == nil {
			reason, site := crashSignature(out.cr.stderr)
			r.Count("a_sessions", 1)
			r.Violate(fmt.Sprintf("C15:process-crash:%s@%s", panicKind(reason), site),
				fmt.Sprintf("session {%s} terminates the node process: %s\n%s", s.String(), reason, tail(out.cr.stderr, 3000)), s)
			return
		}
		if out.res.Blocked != "" {
			r.Violate(fmt.Sprintf("C15:%s:blocked", codeNamesOf(s)), fmt.Sprintf("session {%s}: %s", s.String(), out.res.Blocked), s)
		}
		mergeSession(r, s, out.res)
	case "b":
		runPartB(c, r, probe.Case)
	case "c":
		runPartC(c, r, probe.Case)
	case "d":
		partD(c, r, probe.Case)
	case "e":
		partE(c, r, probe.Case)
	default:
		panic("unknown replay part " + probe.Part)
	}
}

// ---------------------------------------------------------------------------------------------------------------------

func finish(tier string, m *xs.Result, ev *xs.Evidence) {
	// every distinct panic that the harness recovered is now allowed to take its real course once, in a sacrificial
	// process without any recover: the process must die, otherwise the judgement "terminates the node" would be wrong.
	confirmPanics(tier, m, ev)

	evals := m.Counters["a_letters_sent"] + m.Counters["b_cases"] + m.Counters["c_cases"] + m.Counters["d_cases"] + m.Counters["e_cases"]
	ev.Coverage["evaluations"] = evals
	nontrivial := 0
	var sets []string
	for name, s := range m.Sets {
		switch name {
		case "a_outcomes", "b_outcomes", "c_outcomes", "d_outcomes", "e_outcomes":
			nontrivial += len(s)
			sets = append(sets, name)
		}
	}
	sort.Strings(sets)
	ev.Coverage["distinct_nontrivial"] = nontrivial
	for _, part := range []string{"a", "b", "c", "d", "e"} {
		sub := map[string]int64{}
		for k, v := range m.Counters {
			if strings.HasPrefix(k, part+"_") {
				sub[k] = v
			}
		}
		ev.Coverage["part_"+part] = sub
	}
	for k, v := range m.Counters {
		if strings.HasPrefix(k, "harness_") && v > 0 {
			m.Note("harness anomaly counter %s = %d", k, v)
		}
	}
	if v := m.Counters["a_quiesce_timeout"]; v > 0 {
		m.Note("%d waits for quiescence of the node's goroutines ran into their 5 s limit (informational)", v)
	}
	ev.Coverage["distinct_nontrivial_explanation"] = "number of distinct (message code, payload kind, observed outcome class) triples in part a + distinct (mutation family, reader outcome) pairs in part b + distinct (packet type, mutation family, decode/handle outcome) triples in part c"
	for _, name := range []string{"a_outcomes", "b_outcomes", "c_outcomes", "a_malformed_tolerated", "a_well_formed_dropped"} {
		var l []string
		for e := range m.Sets[name] {
			l = append(l, e)
		}
		sort.Strings(l)
		ev.Coverage["set_"+name] = l
	}
	// vacuity guards (full runs only: not replays, not development runs of single parts, not runs cut by the deadline)
	{
		var failed []string
		guard := func(name string, min int64) {
			if m.Counters[name] < min {
				failed = append(failed, fmt.Sprintf("%s = %d < %d", name, m.Counters[name], min))
			}
		}
		if m.Counters["a_sessions"] > 1000 && os.Getenv("VERIF_C15_PARTS") == "" && !m.Incomplete {
			guard("a_pruning_premise_established", int64(len(chains)*(len(alpha)-len(statusOK(alphaNames())))))
			guard("a_replies_exactly_at_hash_cap", 1)
			guard("a_replies_exactly_at_momentum_cap", 1)
			guard("a_peer_dropped_with_error", 100)
			guard("a_sentinel_replies_ok", 1000)
			guard("a_witness_replies_ok", 1000)
			guard("a_bridge_calls_InsertChain", 1)
			guard("a_bridge_calls_AddAccountBlocks", 1)
			guard("a_responder_requests_served", 1)
			guard("b_accepted_prefix_frames", 1)
			guard("b_rejected", 100)
			guard("c_decode_ok", 10)
			guard("c_decode_rejected", 100)
			guard("c_replies_to_verified_senders", 1)
		}
		if len(failed) > 0 {
			panic("C15 vacuity guards failed (nothing interesting explored): " + strings.Join(failed, "; "))
		}
	}
}

func runPartB(c *xs.Ctx, r *xs.Result, only string) { partB(c, r, only) }

// runPartC runs part (c) in a child process: accepted pings start bonding goroutines inside the discovery table, and a
// panic there (or on any other goroutine of the package) must be an observation, not the end of the worker.
func runPartC(c *xs.Ctx, r *xs.Result, only string) {
	spec := childSpec{Mode: "partc", Tier: c.Tier, Shard: c.Shard, NShards: c.NShards, Only: only, Dir: c.TempDir(), Deadline: c.Deadline.UnixNano()}
	if only != "" {
		spec.Shard, spec.NShards = 0, 1
	}
	cr := spawnChild(c.TempDir(), spec, c.Deadline.Add(30*time.Second), func(int, *sessResult) {})
	if cr.result != nil {
		var res xs.Result
		if err := json.Unmarshal(cr.result, &res); err != nil {
			panic(err)
		}
		r.Merge(&res)
		return
	}
	reason, site := crashSignature(cr.stderr)
	if reason == "" {
		panic(fmt.Sprintf("part c child failed without a Go crash: %v\n%s", cr.exitErr, tail(cr.stderr, 2000)))
	}
	r.Count("c_cases", 1)
	r.Violate(fmt.Sprintf("C15:discover:process-crash:%s@%s", panicKind(reason), site),
		fmt.Sprintf("the process died while discovery packet case %q was being handled (or shortly after, on a goroutine it started): %s\n%s", cr.progress, reason, tail(cr.stderr, 3000)),
		map[string]string{"part": "c", "case": cr.progress})
}

func alphaNames() []string {
	var all []string
	for _, l := range alpha {
		all = append(all, l.Name)
	}
	return all
}
