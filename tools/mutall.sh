#!/bin/bash
# tools/mutall.sh <ID> : run every mutant in mc/props/<id>/mutants against check <ID> (quick) and summarise.
ID=$1; d=/verif/mc/props/$(echo $ID | tr A-Z a-z)/mutants
for m in $d/*.diff; do
  out=$(/verif/tools/mutcheck.sh $ID $m ${2:-quick} 2>&1); code=$?
  echo "$(basename $m .diff): exit=$code $(echo "$out" | grep -c '^VIOLATION') violations; first: $(echo "$out" | grep '^VIOLATION' | head -1 | sed 's#.*replays/[^/]*/##')"
done
