package c09

import (
	"fmt"
	"math/big"

	g "github.com/zenon-network/go-zenon/chain/genesis/mock"
	"github.com/zenon-network/go-zenon/chain/nom"
	"github.com/zenon-network/go-zenon/common/types"
	"github.com/zenon-network/go-zenon/vm/constants"
	"github.com/zenon-network/go-zenon/vm/embedded"
	"github.com/zenon-network/go-zenon/vm/vm_context"

	"verifmc/internal/vnode"
	"verifmc/internal/xs"
)

// NRegimes: number of spork regimes (method tables) this package knows how to reach.
func NRegimes() int { return len(regimes) }

// RegimeName of regime ri.
func RegimeName(ri int) string { return regimes[ri].Name }

// MethodPrices (used by C12) builds regime ri on a fresh producer - this sets the process globals of this package, so the
// caller must be a worker process that does nothing else - and calls f for every method of the regime's table with the
// plasma price the implementation reports for it and a function that lets a funded user (User1, large genesis fusion)
// generate a call to that method (selector only, no arguments) carrying exactly `fused` plasma and no proof of work; the
// function returns the node's verdict (nothing is inserted). Returns a non-empty message if the regime cannot be built.
func MethodPrices(c *xs.Ctx, ri int, f func(contract, method string, price uint64, priceErr error, try func(fused uint64) error)) string {
	setGlobals()
	p := &pair{P: vnode.New(vnode.Options{Dir: c.TempDir()}), F: vnode.New(vnode.Options{Dir: c.TempDir(), NoPillars: true})}
	defer p.P.Destroy()
	defer p.F.Destroy()
	if _, msg := buildRegime(p, ri); msg != "" {
		return msg
	}
	n := p.P
	avail, _ := methodTable(n)
	if want := expectedAvail[regimes[ri].Name]; len(avail) != want {
		return fmt.Sprintf("regime %s: %d methods available, %d expected from reading the tables", regimes[ri].Name, len(avail), want)
	}
	st := n.Chain.GetFrontierMomentumStore()
	fm, err := st.GetFrontierMomentum()
	must(err)
	for _, mr := range avail {
		mr := mr
		ctx := vm_context.NewAccountContext(st, n.Chain.GetFrontierAccountStore(mr.C.Addr), n.Cons.FixedPillarReader(fm.Identifier()))
		impl, err := embedded.GetEmbeddedMethod(ctx, mr.C.Addr, mr.M.Id())
		must(err)
		price, perr := impl.GetPlasma(&constants.AlphanetPlasmaTable)
		f(mr.C.Name, mr.M.Name, price, perr, func(fused uint64) error {
			_, err := n.Generate(&nom.AccountBlock{BlockType: nom.BlockTypeUserSend, Address: g.User1.Address, ToAddress: mr.C.Addr,
				TokenStandard: types.ZnnTokenStandard, Amount: big.NewInt(0), Data: mr.M.Id(), FusedPlasma: fused})
			return err
		})
	}
	return ""
}
