package c12

import (
	"encoding/binary"
	"fmt"
	"io"
	"math/big"
	"sort"

	"golang.org/x/crypto/sha3"

	"github.com/zenon-network/go-zenon/chain/nom"
	"github.com/zenon-network/go-zenon/common/types"
	"github.com/zenon-network/go-zenon/pow"
	"github.com/zenon-network/go-zenon/vm"

	"verifmc/internal/xs"
)

// ---------------------------------------------------------------------------------------------------------------------
// Part (a): proof-of-work. Reference model (arithmetic in math/big only; the hash primitive and the byte conventions are
// the ones pow/pow.go uses: work = LE64(sha3-256(nonce[8] ‖ sha3-256(address ‖ previousHash))[:8])).
//
//	claim of difficulty d >= 1 with nonce n is valid  ⇔  work(n) >= 2^64 − ⌊2^64 / d⌋

// reference constants, written down independently of vm/constants (compared with it in sanityConstants)
const (
	refBasePlasma      = 21000
	refBytePlasma      = 68
	refDiffPerPlasma   = 1500
	refMaxPowPlasma    = 94500 // 4.5 * base
	refUnitCost        = 100000000
	refUnitPlasma      = 2100 // base / 10
	refMaxUnits        = 5000
	refBlockCap        = refMaxUnits * refUnitPlasma // 10 500 000
	refMaxData         = 16384
	refEmbeddedSimple  = 52500  // 2.5 * base
	refEmbeddedWith    = 73500  // 3.5 * base
	refEmbeddedDouble  = 94500  // 4.5 * base
	refEmbeddedCollect = 126000 // simple + withdraw (collect-reward of pillar/sentinel/stake before the accelerator spork)
)

var (
	two64  = new(big.Int).Lsh(big.NewInt(1), 64)
	bigOne = big.NewInt(1)
)

const keyPow63 = "C12:pow:difficulty>=2^63:nonce-accepted-below-threshold"

// refThreshold returns 2^64 − ⌊2^64/d⌋ for d >= 1 (always in [0, 2^64−1]).
func refThreshold(d uint64) *big.Int {
	q := new(big.Int).Quo(two64, new(big.Int).SetUint64(d))
	return new(big.Int).Sub(two64, q)
}

func refThreshold64(d uint64) uint64 {
	t := refThreshold(d)
	if !t.IsUint64() {
		panic(fmt.Sprintf("reference threshold for d=%d does not fit 64 bits: %v", d, t))
	}
	return t.Uint64()
}

func refDataHash(addr types.Address, prev types.Hash) [32]byte {
	buf := make([]byte, 0, 64)
	buf = append(buf, addr.Bytes()...)
	buf = append(buf, prev.Bytes()...)
	return sha3.Sum256(buf)
}

// one reusable sha3-256 state (workers are single-threaded); squeezing through io.Reader avoids the clone Sum makes
var (
	workHasher = sha3.New256()
	workReader = workHasher.(io.Reader)
)

func refWork(nonce uint64, dh *[32]byte) uint64 {
	var buf [40]byte
	var out [8]byte
	binary.LittleEndian.PutUint64(buf[:8], nonce)
	copy(buf[8:], dh[:])
	workHasher.Reset()
	workHasher.Write(buf[:])
	workReader.Read(out[:])
	return binary.LittleEndian.Uint64(out[:])
}

func init() {
	// self-check of the fast path against the plain one-shot function
	dh := sha3.Sum256([]byte("c12"))
	for n := uint64(0); n < 4; n++ {
		var buf [40]byte
		binary.LittleEndian.PutUint64(buf[:8], n)
		copy(buf[8:], dh[:])
		h := sha3.Sum256(buf[:])
		if refWork(n, &dh) != binary.LittleEndian.Uint64(h[:8]) {
			panic("c12: streaming sha3 differs from sha3.Sum256")
		}
	}
}

// refValid decides the claim with big integers.
func refValid(d uint64, work uint64) bool {
	if d == 0 {
		return true // no claim made
	}
	return new(big.Int).SetUint64(work).Cmp(refThreshold(d)) >= 0
}

// refSearch returns the smallest nonce >= 0 whose work meets difficulty d (deterministic, counts hashes).
func refSearch(d uint64, dh *[32]byte, limit uint64) (nonce uint64, found bool, tries uint64) {
	t := refThreshold64(d)
	for n := uint64(0); n < limit; n++ {
		if refWork(n, dh) >= t {
			return n, true, n + 1
		}
		if n&(1<<22-1) == 0 {
			xs.Tick() // a long reference search records nothing: tell the driver's stall watchdog that it is alive
		}
	}
	return 0, false, limit
}

func refPowPlasma(d uint64) uint64 {
	q := new(big.Int).Quo(new(big.Int).SetUint64(d), big.NewInt(refDiffPerPlasma))
	if q.Cmp(big.NewInt(refMaxPowPlasma)) > 0 {
		return refMaxPowPlasma
	}
	return q.Uint64()
}

func refFusedPlasma(amount *big.Int) uint64 {
	if amount == nil || amount.Sign() <= 0 {
		return 0
	}
	units := new(big.Int).Quo(amount, big.NewInt(refUnitCost))
	if units.Cmp(big.NewInt(refMaxUnits)) > 0 {
		units = big.NewInt(refMaxUnits)
	}
	return units.Uint64() * refUnitPlasma
}

// powDifficulties is the enumerated difficulty domain.
func powDifficulties() []uint64 {
	set := map[uint64]bool{}
	for d := uint64(1); d <= 4096; d++ {
		set[d] = true
	}
	for k := uint(1); k <= 64; k++ {
		p := new(big.Int).Lsh(bigOne, k)
		for _, delta := range []int64{-1, 0, 1} {
			v := new(big.Int).Add(p, big.NewInt(delta))
			if v.Sign() > 0 && v.IsUint64() {
				set[v.Uint64()] = true
			}
		}
	}
	// plasma-table boundaries expressed as difficulties: the least difficulty that buys each base cost, ±1
	for _, p := range []uint64{refBasePlasma, refBasePlasma + refBytePlasma, refEmbeddedSimple, refEmbeddedWith, refEmbeddedDouble, refEmbeddedCollect} {
		for _, delta := range []int64{-1, 0, 1} {
			set[uint64(int64(p*refDiffPerPlasma)+delta)] = true
		}
	}
	out := make([]uint64, 0, len(set))
	for d := range set {
		out = append(out, d)
	}
	sort.Slice(out, func(i, j int) bool { return out[i] < out[j] })
	return out
}

type powSubject struct {
	Addr types.Address
	Prev types.Hash
	dh   [32]byte
	work []uint64 // work[n] for the enumerated nonces
}

func powSubjects(nNonces int) []*powSubject {
	subs := []*powSubject{
		{Addr: testUser().Address, Prev: types.ZeroHash},
		{Addr: fuserUser().Address, Prev: types.HexToHashPanic("a1b2c3d4e5f60718293a4b5c6d7e8f90112233445566778899aabbccddeeff00")},
	}
	for _, s := range subs {
		s.dh = refDataHash(s.Addr, s.Prev)
		s.work = make([]uint64, nNonces)
		for n := 0; n < nNonces; n++ {
			s.work[n] = refWork(uint64(n), &s.dh)
		}
	}
	return subs
}

// powReplay carries 64-bit values as decimal strings (results travel through JSON numbers, i.e. float64, otherwise).
type powReplay struct {
	Part  string `json:"part"`
	D     string `json:"d"`
	Nonce string `json:"nonce"`
	Subj  int    `json:"subj"`
}

func mkPowReplay(d, nonce uint64, subj int) powReplay {
	return powReplay{Part: "pow", D: fmt.Sprint(d), Nonce: fmt.Sprint(nonce), Subj: subj}
}

func le8(v uint64) []byte {
	var b [8]byte
	binary.LittleEndian.PutUint64(b[:], v)
	return b[:]
}

func codeCheck(s *powSubject, d uint64, nonce uint64) bool {
	b := &nom.AccountBlock{Address: s.Addr, PreviousHash: s.Prev, Difficulty: d}
	binary.LittleEndian.PutUint64(b.Nonce.Data[:], nonce)
	return pow.CheckPoWNonce(b)
}

func powMismatch(r *xs.Result, si int, s *powSubject, d, nonce uint64, code, ref bool) {
	work := refWork(nonce, &s.dh)
	what := fmt.Sprintf("pow.CheckPoWNonce(address=%v previous=%v difficulty=%d nonce(LE)=%d) = %v but work=%d (0x%016x) vs reference threshold 2^64-floor(2^64/d)=%v gives %v",
		s.Addr, s.Prev, d, nonce, code, work, work, refThreshold(d), ref)
	if code && !ref {
		tgt := pow.VerifC12TargetByDifficulty(d)
		what += fmt.Sprintf("; the verifier's own target for this difficulty is %d; vm.DifficultyToPlasma(%d) = %d plasma is granted for the claim (see counter acct_accepted_with_unproven_pow for whole blocks accepted this way)",
			binary.LittleEndian.Uint64(tgt[:]), d, vm.DifficultyToPlasma(d))
	}
	key := ""
	switch {
	case code && !ref && d >= 1<<63:
		key = keyPow63
	case code && !ref:
		key = "C12:pow:difficulty<2^63:nonce-accepted-below-threshold"
	case !code && ref && d >= 1<<63:
		key = "C12:pow:difficulty>=2^63:valid-nonce-rejected"
	default:
		key = "C12:pow:difficulty<2^63:valid-nonce-rejected"
	}
	r.Violate(key, what, mkPowReplay(d, nonce, si))
}

// powOne runs everything for one difficulty.
func powOne(r *xs.Result, subs []*powSubject, d uint64, searchMax uint64) {
	refT := refThreshold64(d)
	// (1) the verifier's own target and comparison at the boundary (unexported functions reached through the overlay)
	tgt := pow.VerifC12TargetByDifficulty(d)
	codeT := binary.LittleEndian.Uint64(tgt[:])
	r.Count("pow_target_evaluations", 1)
	if codeT != refT {
		what := fmt.Sprintf("pow.getTargetByDifficulty(%d) = %d (0x%016x, little endian) but 2^64-floor(2^64/d) = %d (0x%016x)", d, codeT, codeT, refT, refT)
		key := "C12:pow:difficulty<2^63:target-differs-from-reference"
		if d >= 1<<63 {
			if codeT < refT {
				key = keyPow63
			} else {
				key = "C12:pow:difficulty>=2^63:target-above-reference"
			}
		}
		r.Violate(key, what, mkPowReplay(d, 0, 0))
	}
	for _, x := range boundaryWorks(refT) {
		got := pow.VerifC12GreaterDifficulty(le8(x), le8(refT))
		want := new(big.Int).SetUint64(x).Cmp(new(big.Int).SetUint64(refT)) >= 0
		r.Count("pow_compare_evaluations", 1)
		if got != want {
			r.Violate("C12:pow:threshold-comparison-wrong", fmt.Sprintf("pow.greaterDifficulty(work=0x%016x, target=0x%016x) = %v, want %v (difficulty %d)", x, refT, got, want, d),
				mkPowReplay(d, 0, 0))
		}
	}
	// (2) every enumerated nonce through the public entry point
	acc, rej := 0, 0
	for si, s := range subs {
		for n, w := range s.work {
			ref := refValid(d, w)
			code := codeCheck(s, d, uint64(n))
			if code {
				acc++
			} else {
				rej++
			}
			if code != ref {
				powMismatch(r, si, s, d, uint64(n), code, ref)
			}
		}
	}
	r.Count("pow_evaluations", int64(acc+rej))
	// (3) for difficulties small enough to be met by search: the least valid nonce must be honoured
	if d <= searchMax {
		for si, s := range subs {
			n, found, tries := refSearch(d, &s.dh, 64*d+1024)
			r.Count("pow_search_hashes", int64(tries))
			if !found {
				r.Count("pow_search_not_found", 1)
				continue
			}
			r.Count("pow_searched_nonces", 1)
			r.Count("pow_evaluations", 1)
			code := codeCheck(s, d, n)
			if code {
				acc++
			} else {
				rej++
				powMismatch(r, si, s, d, n, code, true)
			}
			// the claim one notch harder than the nonce actually meets must be refused: the largest d' the work supports
			w := refWork(n, &s.dh)
			if dd, ok := leastUnsupported(w); ok {
				code2 := codeCheck(s, dd, n)
				r.Count("pow_evaluations", 1)
				r.Count("pow_just_too_hard_claims", 1)
				if code2 {
					powMismatch(r, si, s, dd, n, true, false)
				}
				// ... and the claim just below it must be honoured
				if dd > 1 {
					r.Count("pow_evaluations", 1)
					if !codeCheck(s, dd-1, n) {
						powMismatch(r, si, s, dd-1, n, false, true)
					}
				}
			}
		}
	}
	r.Count("pow_accepted_by_code", int64(acc))
	r.Count("pow_rejected_by_code", int64(rej))
	if acc > 0 && rej > 0 {
		r.Add("nontrivial", fmt.Sprintf("pow:d=%d", d))
		r.Count("pow_difficulties_with_both_outcomes", 1)
	}
	r.Count("pow_difficulties", 1)
}

// leastUnsupported returns the least difficulty d' (if it fits 64 bits) whose threshold exceeds work, i.e. the least
// claim the nonce does NOT support: work < 2^64 − ⌊2^64/d'⌋ ⇔ ⌊2^64/d'⌋ < 2^64 − work =: gap ⇔ d' > 2^64/gap.
func leastUnsupported(work uint64) (uint64, bool) {
	gap := new(big.Int).Sub(two64, new(big.Int).SetUint64(work)) // >= 1
	d := new(big.Int).Quo(two64, gap)
	d.Add(d, bigOne)
	if !d.IsUint64() {
		return 0, false
	}
	dd := d.Uint64()
	if refValid(dd, work) || (dd > 1 && !refValid(dd-1, work)) {
		panic(fmt.Sprintf("reference self-check failed: least unsupported claim for work %d computed as %d", work, dd))
	}
	return dd, true
}

func boundaryWorks(t uint64) []uint64 {
	set := map[uint64]bool{0: true, ^uint64(0): true, t: true}
	if t > 0 {
		set[t-1] = true
	}
	if t < ^uint64(0) {
		set[t+1] = true
	}
	// values whose byte-reversed reading orders differently than their little-endian reading
	rev := func(v uint64) uint64 {
		var b [8]byte
		binary.LittleEndian.PutUint64(b[:], v)
		return binary.BigEndian.Uint64(b[:])
	}
	set[rev(t)] = true
	if t > 0 {
		set[rev(t-1)] = true
	}
	if t < ^uint64(0) {
		set[rev(t+1)] = true
	}
	out := make([]uint64, 0, len(set))
	for v := range set {
		out = append(out, v)
	}
	sort.Slice(out, func(i, j int) bool { return out[i] < out[j] })
	return out
}

// ---------------------------------------------------------------------------------------------------------------------
// conversions

// convDifficultyRange checks vm.DifficultyToPlasma on [lo, hi): equal to the reference, capped, monotone.
func convDifficultyRange(r *xs.Result, lo, hi uint64) {
	prev := uint64(0)
	if lo > 0 {
		prev = vm.DifficultyToPlasma(lo - 1)
	}
	q := new(big.Int)
	div := big.NewInt(refDiffPerPlasma)
	capBig := big.NewInt(refMaxPowPlasma)
	for d := lo; d < hi; d++ {
		got := vm.DifficultyToPlasma(d)
		q.SetUint64(d)
		q.Quo(q, div)
		want := uint64(refMaxPowPlasma)
		if q.Cmp(capBig) < 0 {
			want = q.Uint64()
		}
		convCheck(r, d, got, want, prev)
		prev = got
	}
	r.Count("conv_difficulty_evaluations", int64(hi-lo))
}

func convCheck(r *xs.Result, d, got, want, prev uint64) {
	if got != want {
		r.Violate("C12:conv:DifficultyToPlasma-differs-from-reference", fmt.Sprintf("vm.DifficultyToPlasma(%d) = %d, reference min(floor(d/1500), 94500) = %d", d, got, want), map[string]interface{}{"part": "conv", "d": fmt.Sprint(d)})
	}
	if got < prev {
		r.Violate("C12:conv:DifficultyToPlasma-not-monotone", fmt.Sprintf("vm.DifficultyToPlasma(%d) = %d < value at %d-1 = %d", d, got, d, prev), map[string]interface{}{"part": "conv", "d": fmt.Sprint(d)})
	}
	if got > refMaxPowPlasma {
		r.Violate("C12:conv:DifficultyToPlasma-above-cap", fmt.Sprintf("vm.DifficultyToPlasma(%d) = %d > 94500", d, got), map[string]interface{}{"part": "conv", "d": fmt.Sprint(d)})
	}
	if d == 0 && got != 0 {
		r.Violate("C12:conv:DifficultyToPlasma-nonzero-at-zero", fmt.Sprintf("vm.DifficultyToPlasma(0) = %d", got), map[string]interface{}{"part": "conv", "d": fmt.Sprint(d)})
	}
}

// convPoints checks the conversion functions on the sparse domains (difficulty set, every plasma step ±1, inverse
// function, fused amounts).
func convPoints(r *xs.Result, ds []uint64) {
	// sparse difficulties incl. the 64-bit range
	all := append([]uint64{0}, ds...)
	prev := uint64(0)
	for _, d := range all {
		got := vm.DifficultyToPlasma(d)
		convCheck(r, d, got, refPowPlasma(d), prev)
		prev = got
		r.Add("conv_outputs", fmt.Sprintf("plasma=%d", got))
	}
	r.Count("conv_difficulty_evaluations", int64(len(all)))
	// inverse: the difficulty the node asks for a given plasma is the least one that buys it
	for p := uint64(0); p <= refMaxPowPlasma+2; p++ {
		d, err := vm.GetDifficultyForPlasma(p)
		r.Count("conv_inverse_evaluations", 1)
		if p > refMaxPowPlasma {
			if err == nil {
				r.Violate("C12:conv:GetDifficultyForPlasma-above-cap-accepted", fmt.Sprintf("GetDifficultyForPlasma(%d) = %d without error", p, d), map[string]interface{}{"part": "conv", "p": p})
			}
			continue
		}
		if err != nil {
			r.Violate("C12:conv:GetDifficultyForPlasma-error", fmt.Sprintf("GetDifficultyForPlasma(%d): %v", p, err), map[string]interface{}{"part": "conv", "p": p})
			continue
		}
		if got := vm.DifficultyToPlasma(d); got != p {
			r.Violate("C12:conv:inverse-does-not-buy-requested-plasma", fmt.Sprintf("GetDifficultyForPlasma(%d) = %d but DifficultyToPlasma gives %d", p, d, got), map[string]interface{}{"part": "conv", "p": p})
		}
		if p > 0 {
			if got := vm.DifficultyToPlasma(d - 1); got != p-1 {
				r.Violate("C12:conv:inverse-not-least", fmt.Sprintf("DifficultyToPlasma(GetDifficultyForPlasma(%d)-1) = %d, want %d", p, got, p-1), map[string]interface{}{"part": "conv", "p": p})
			}
		}
	}
	// fused amount -> plasma
	var amounts []*big.Int
	amounts = append(amounts, nil, big.NewInt(-1), big.NewInt(-refUnitCost), big.NewInt(0))
	for k := int64(0); k <= refMaxUnits+2; k++ {
		for _, delta := range []int64{-1, 0, 1} {
			v := k*refUnitCost + delta
			if v > 0 {
				amounts = append(amounts, big.NewInt(v))
			}
		}
	}
	for _, k := range []uint{62, 63, 64, 65, 70, 128} {
		p := new(big.Int).Lsh(bigOne, k)
		amounts = append(amounts, new(big.Int).Sub(p, bigOne), p, new(big.Int).Add(p, big.NewInt(3*refUnitCost)))
	}
	prevP := uint64(0)
	var prevA *big.Int
	for _, a := range amounts {
		var arg *big.Int
		if a != nil {
			arg = new(big.Int).Set(a)
		}
		got := vm.FussedAmountToPlasma(arg)
		want := refFusedPlasma(a)
		r.Count("conv_fused_evaluations", 1)
		r.Add("conv_outputs", fmt.Sprintf("fusedplasma=%d", got))
		if got != want {
			r.Violate("C12:conv:FussedAmountToPlasma-differs-from-reference", fmt.Sprintf("FussedAmountToPlasma(%v) = %d, reference %d", a, got, want), map[string]interface{}{"part": "conv", "amount": fmt.Sprint(a)})
		}
		if got > refBlockCap {
			r.Violate("C12:conv:FussedAmountToPlasma-above-cap", fmt.Sprintf("FussedAmountToPlasma(%v) = %d", a, got), map[string]interface{}{"part": "conv", "amount": fmt.Sprint(a)})
		}
		if a != nil && prevA != nil && a.Cmp(prevA) >= 0 && got < prevP {
			r.Violate("C12:conv:FussedAmountToPlasma-not-monotone", fmt.Sprintf("FussedAmountToPlasma(%v) = %d < %d at %v", a, got, prevP, prevA), map[string]interface{}{"part": "conv", "amount": fmt.Sprint(a)})
		}
		if a != nil {
			prevA, prevP = a, got
		}
	}
}

// PowNonce returns a nonce that the reference accepts for (address, previous hash, difficulty): the hint when it is
// valid (checked, never trusted), otherwise the least valid nonce found by the deterministic reference search.
func PowNonce(addr types.Address, prev types.Hash, difficulty uint64, hint uint64) (nonce uint64, searched uint64) {
	dh := refDataHash(addr, prev)
	if refValid(difficulty, refWork(hint, &dh)) {
		return hint, 0
	}
	n, ok, tries := refSearch(difficulty, &dh, 1<<36)
	if !ok {
		panic("harness: reference PoW search failed")
	}
	return n, tries
}
