package c17

import (
	"fmt"
	"math/big"

	g "github.com/zenon-network/go-zenon/chain/genesis/mock"
	"github.com/zenon-network/go-zenon/common/types"
	"github.com/zenon-network/go-zenon/vm/abi"
	cabi "github.com/zenon-network/go-zenon/vm/embedded/definition"
)

// Every method a spork guards (and a few that no spork guards, as controls), looked up at every probed height with a
// block that carries just the 4-byte selector: the answer "method not found" / "contract doesn't exist" versus anything
// else (unpack error, permission denied, valid) is the availability of the method at the acknowledged momentum. The
// block is only generated (GenerateFromTemplate on P and on follower F1), never inserted.

type gated struct {
	Contract string
	Address  types.Address
	ABI      abi.ABIContract
	Method   string
	Spork    int // -1: guarded by no spork (available at every height)
}

func gatedMethods() []gated {
	var out []gated
	add := func(contract string, addr types.Address, a abi.ABIContract, spork int, names ...string) {
		for _, n := range names {
			if _, ok := a.Methods[n]; !ok {
				panic("no method " + n + " in the ABI of " + contract)
			}
			out = append(out, gated{contract, addr, a, n, spork})
		}
	}
	add("htlc", types.HtlcContract, cabi.ABIHtlc, fHTLC,
		cabi.CreateHtlcMethodName, cabi.ReclaimHtlcMethodName, cabi.UnlockHtlcMethodName, cabi.DenyHtlcProxyUnlockMethodName, cabi.AllowHtlcProxyUnlockMethodName)
	add("bridge", types.BridgeContract, cabi.ABIBridge, fBL,
		cabi.WrapTokenMethodName, cabi.UpdateWrapRequestMethodName, cabi.RedeemUnwrapMethodName, cabi.UnwrapTokenMethodName, cabi.RevokeUnwrapRequestMethodName,
		cabi.SetNetworkMethodName, cabi.RemoveNetworkMethodName, cabi.SetTokenPairMethod, cabi.RemoveTokenPairMethodName, cabi.HaltMethodName,
		cabi.NominateGuardiansMethodName, cabi.UnhaltMethodName, cabi.ProposeAdministratorMethodName, cabi.EmergencyMethodName,
		cabi.ChangeTssECDSAPubKeyMethodName, cabi.ChangeAdministratorMethodName, cabi.SetAllowKeygenMethodName, cabi.SetOrchestratorInfoMethodName,
		cabi.SetBridgeMetadataMethodName, cabi.SetNetworkMetadataMethodName)
	add("liquidity", types.LiquidityContract, cabi.ABILiquidity, fBL,
		cabi.SetTokenTupleMethodName, cabi.LiquidityStakeMethodName, cabi.CancelLiquidityStakeMethodName, cabi.UnlockLiquidityStakeEntriesMethodName,
		cabi.CollectRewardMethodName, cabi.SetIsHaltedMethodName, cabi.SetAdditionalRewardMethodName, cabi.ChangeAdministratorMethodName,
		cabi.ProposeAdministratorMethodName, cabi.NominateGuardiansMethodName, cabi.EmergencyMethodName)
	add("liquidity", types.LiquidityContract, cabi.ABILiquidity, fACC, cabi.FundMethodName, cabi.BurnZnnMethodName)
	add("accelerator", types.AcceleratorContract, cabi.ABIAccelerator, fACC,
		cabi.CreateProjectMethodName, cabi.AddPhaseMethodName, cabi.UpdateMethodName, cabi.UpdatePhaseMethodName, cabi.VoteByNameMethodName, cabi.VoteByProdAddressMethodName)
	// controls: never gated
	add("liquidity", types.LiquidityContract, cabi.ABILiquidity, -1, cabi.UpdateMethodName, cabi.DonateMethodName)
	add("accelerator", types.AcceleratorContract, cabi.ABIAccelerator, -1, cabi.DonateMethodName)
	add("plasma", types.PlasmaContract, cabi.ABIPlasma, -1, cabi.FuseMethodName)
	add("spork", types.SporkContract, cabi.ABISpork, -1, cabi.SporkCreateMethodName)
	return out
}

var sweepList = gatedMethods()

func (x *cluster) sweep(ackH uint64, E []uint64) {
	if x.failed {
		return
	}
	ack := x.ackAt(ackH)
	frontier := x.P.Height()
	for _, m := range sweepList {
		cl := call{g.Pillar5, m.Address, znn, big.NewInt(0), m.ABI.Methods[m.Method].Id()}
		_, errP := x.P.Generate(cl.template(ack))
		_, errF := x.F1.Generate(cl.template(ack))
		x.r.Count("transitions", 2)
		x.r.Count("sweep_lookups", 1)
		avail, availF := !isGatingError(errP), !isGatingError(errF)
		name := m.Contract + "." + m.Method
		if avail != availF {
			x.violate("C17:producer-and-follower-disagree-on-method-availability",
				fmt.Sprintf("%s acknowledging height %d (frontier %d): producer says %v, follower says %v", name, ackH, frontier, errP, errF))
			continue
		}
		if m.Spork < 0 {
			if !avail {
				x.violate("C17:ungated-method-unavailable:"+name, fmt.Sprintf("%s acknowledging height %d: %v", name, ackH, errP))
			}
			x.r.Count("sweep_controls", 1)
			continue
		}
		own := E[m.Spork]
		expected := own != 0 && ackH >= own
		ownStr := fmt.Sprintf("enforced from %d", own)
		if own == 0 {
			ownStr = "not activated on this chain"
		}
		what := fmt.Sprintf("method %s looked up at acknowledged height %d (frontier %d; guarded by the %s spork, %s)", name, ackH, frontier, featNames[m.Spork], ownStr)
		switch {
		case avail && expected:
			x.r.Count("sweep_available", 1)
			x.r.Add("sweep_methods_seen_available", name)
		case !avail && !expected:
			x.r.Count("sweep_unavailable", 1)
			x.r.Add("sweep_methods_seen_unavailable", name)
		case avail && !expected:
			x.tooEarly(m.Spork, name, ackH, E, what)
		default:
			x.violate("C17:gated-call-refused-at-or-after-enforcement-height:"+featNames[m.Spork]+":ack=E"+relStr(ackH, own), fmt.Sprintf("%s is NOT available: %v", what, errP))
		}
	}
}

// tooEarly reports a method that is available although its own spork is not enforced at the acknowledged height,
// attributing it to its root cause: a spork consulted earlier by GetEmbeddedMethod is enforced and its table is a
// superset, or nothing explains it.
func (x *cluster) tooEarly(spork int, name string, ackH uint64, E []uint64, what string) {
	x.r.Count("available_while_own_spork_not_enforced", 1)
	enabler := -1
	for t := range E {
		if t != spork && E[t] != 0 && ackH >= E[t] && tableRank[t] > tableRank[spork] {
			enabler = t
		}
	}
	if enabler >= 0 {
		x.r.Add("cumulative_table_manifestations", fmt.Sprintf("%s spork enforced, %s spork not => %s available", featNames[enabler], featNames[spork], name))
		x.violate(keyCumulative, fmt.Sprintf("%s is AVAILABLE: the %s spork is enforced (from %d) and the method table selected for it contains the methods guarded by the %s spork",
			what, featNames[enabler], E[enabler], featNames[spork]))
		return
	}
	x.violate("C17:spork-active-before-enforcement-height:"+featNames[spork],
		fmt.Sprintf("%s is AVAILABLE although no spork that could make it available is enforced at the acknowledged height (ack = E%s)", what, relStr(ackH, E[spork])))
}
