#!/bin/bash
# Runs the repository's pinned suite (guard off) in directory ${1:-/repo} and compares with BASELINE.json's stable_pass list.
DIR=${1:-/repo}
OUT=${2:-/tmp/suite.$$.json}
export GOFLAGS=-mod=mod GOPROXY=off GOSUMDB=off GOTOOLCHAIN=local
(cd $DIR && go test -json -vet=off -count=1 -timeout 25m ./... > $OUT 2>/dev/null)
python3 - "$OUT" <<'PY'
import json,sys,ast
base=json.load(open('/root/.vp/BASELINE.json'))
stable=base['stable_pass']
if isinstance(stable,str): stable=ast.literal_eval(stable)
res={}
for l in open(sys.argv[1]):
    try: e=json.loads(l)
    except: continue
    if e.get('Test') and e.get('Action') in('pass','fail','skip'):
        res[e['Package']+'::'+e['Test']]=e['Action']
bad=[t for t in stable if res.get(t)!='pass']
print(f"suite: {sum(1 for v in res.values() if v=='pass')} passed, {sum(1 for v in res.values() if v=='fail')} failed; baseline tests not passing: {len(bad)}")
for t in bad: print("  NOT-PASSING", t, res.get(t))
PY
