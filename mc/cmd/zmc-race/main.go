// zmc-race is built with -race and runs the bodies of C14's thread scenarios (and, with a third argument c05, C05's
// concurrent-elections scenario) free-running (real goroutines, no
// controlled scheduler): the cooperative scheduler's hand-offs are happens-before edges and would blind the detector.
// Exit status 66 = the race detector reported a data race (GORACE exitcode), 0 = none seen in this many iterations.
package main

import (
	"fmt"
	"os"
	"strconv"

	"verifmc/props/c05"
	"verifmc/props/c07"
	"verifmc/props/c14"
)

func main() {
	iters := 20
	if len(os.Args) > 1 {
		if v, err := strconv.Atoi(os.Args[1]); err == nil {
			iters = v
		}
	}
	dir := "/dev/shm/verif-scratch/c14-race-" + strconv.Itoa(os.Getpid())
	if len(os.Args) > 2 {
		dir = os.Args[2]
	}
	os.MkdirAll(dir, 0o755)
	defer os.RemoveAll(dir)
	if len(os.Args) > 3 && os.Args[3] == "c05" {
		cfi := 0
		if len(os.Args) > 4 {
			cfi, _ = strconv.Atoi(os.Args[4])
		}
		n, mismatch := c05.RacePass(dir, iters, cfi)
		fmt.Printf("race-pass executions=%d\n", n)
		if mismatch != "" {
			fmt.Printf("SCHEDULE MISMATCH: %s\n", mismatch)
			os.RemoveAll(dir)
			os.Exit(67)
		}
		return
	}
	if len(os.Args) > 3 && os.Args[3] == "c07" {
		n, mismatch := c07.RacePass(dir, iters)
		fmt.Printf("race-pass executions=%d\n", n)
		if mismatch != "" {
			fmt.Printf("VIEW MISMATCH: %s\n", mismatch)
			os.RemoveAll(dir)
			os.Exit(67)
		}
		return
	}
	n := c14.RacePass(dir, iters)
	fmt.Printf("race-pass executions=%d\n", n)
}
