// Package c09 — every accepted call to an embedded contract completes or refunds.
//
// For every spork regime (method table) the tree has, every contract and method of the regime's table (enumerated by
// reflection over the ABI definitions and cross-checked with embedded.GetEmbeddedMethod), the product of small boundary
// domains for every ABI argument x amount x token x sender is generated; the real node decides which calls it accepts as
// send blocks (Supervisor.GenerateFromTemplate; non-canonical encodings also as relayed self-signed blocks through the
// chain bridge). Every accepted call is executed on a scratch copy of a base state: confirmed, then the producer path
// (Supervisor.GenerateAutoReceive for the inbox head) is driven with the panic captured, the result is checked (success,
// or failure with exactly one refund of (amount, token) to the sender and an unchanged contract state), inserted,
// confirmed, replayed by a follower node (ApplyBlock must agree), and a probe call to the same contract must be received
// within one producer step.
package c09

import (
	"encoding/json"
	"fmt"
	"os"
	"sort"
	"strings"
	"syscall"
	"time"

	"github.com/zenon-network/go-zenon/common/types"
	"github.com/zenon-network/go-zenon/vm/abi"
	"github.com/zenon-network/go-zenon/vm/embedded"
	"github.com/zenon-network/go-zenon/vm/vm_context"

	"verifmc/internal/vnode"
	"verifmc/internal/xs"
)

// ---------------------------------------------------------------------------------------------------------------------
// bounds

type bounds struct {
	ArgValues  int // values per argument (0 = the full domain)
	Amounts    []string
	NTokens    int   // token selectors per method (prefix of tokenSelsFor)
	CapCand    int   // candidates per (base, method, sender) group before send-time filtering
	CapAcc     []int // accepted sends executed per group, by regime
	Encodings  []bool
	Bases      []string
	BasesFor   func(ri int) []string
	AllActors  bool
	Depth2     bool
	Depth2CapA int
	Depth2CapB int
	Weights    []int // shards per regime, proportionally
}

func boundsFor(tier string) bounds {
	if tier == "thorough" {
		return bounds{ArgValues: 0, Amounts: amountSels, NTokens: len(tokenSels), CapCand: 8192, CapAcc: []int{8, 8, 8, 8, 40}, Encodings: []bool{true, true, true, true, true},
			Bases: []string{"genesis", "entries", "matured", "late-entries"}, AllActors: true, Depth2: true, Depth2CapA: 2, Depth2CapB: 2, Weights: []int{3, 3, 5, 5, 12}}
	}
	// quick: the method code is the same in every regime (only the table lookup and two liquidity branches read the spork
	// flags), so the all-sporks regime gets the larger cap and the encodings
	return bounds{ArgValues: 2, Amounts: amountSels[:2], NTokens: 2, CapCand: 256, CapAcc: []int{1, 1, 1, 1, 3}, Encodings: []bool{false, false, false, false, true},
		Bases: []string{"genesis", "entries", "matured", "late-entries"}, Weights: []int{2, 2, 4, 4, 8},
		BasesFor: func(ri int) []string {
			if ri == 0 {
				return []string{"genesis", "entries", "matured", "late-entries"}
			}
			if ri == len(regimes)-1 {
				return []string{"genesis", "entries", "matured"}
			}
			return []string{"entries", "matured"}
		}}
}

// senders per contract in the quick tier (thorough: all six)
func sendersFor(b bounds, c *contractDef, method string) []int {
	if b.AllActors {
		// thorough: the method's relevant senders plus owner and stranger
		nb := b
		nb.AllActors = false
		out := sendersFor(nb, c, method)
		for _, a := range []int{aOwner, aStranger} {
			has := false
			for _, x := range out {
				if x == a {
					has = true
				}
			}
			if !has {
				out = append(out, a)
			}
		}
		return out
	}
	switch c.Name {
	case "pillar":
		return []int{aOwner, aPillar, aRich}
	case "sentinel":
		return []int{aOwner, aRich}
	case "spork":
		return []int{aSpork, aStranger}
	case "liquidity":
		switch method {
		case "Fund", "BurnZnn":
			return []int{aSpork, aStranger}
		case "Donate", "Update", "CollectReward", "LiquidityStake", "CancelLiquidityStake":
			return []int{aOwner, aStranger}
		}
		return []int{aAdmin, aStranger}
	case "bridge":
		switch method {
		case "WrapToken", "UnwrapToken", "Redeem", "UpdateWrapRequest":
			return []int{aOwner, aStranger}
		case "ChangeTssECDSAPubKey", "Halt":
			return []int{aAdmin, aStranger}
		}
		return []int{aAdmin, aStranger}
	case "accelerator":
		if strings.HasPrefix(method, "Vote") {
			return []int{aPillar, aStranger}
		}
	}
	return []int{aOwner, aStranger}
}

// shard -> (regime, sub-shard)
func shardPlan(regimeWeights []int, shard, nshards int) (ri, sub, nsub int) {
	if nshards < len(regimes) {
		panic("C09 needs at least one shard per regime")
	}
	total := 0
	for _, w := range regimeWeights {
		total += w
	}
	// number of shards per regime, proportional to the weights, at least one, summing to nshards
	per := make([]int, len(regimes))
	left := nshards
	for i, w := range regimeWeights {
		per[i] = nshards * w / total
		if per[i] < 1 {
			per[i] = 1
		}
		left -= per[i]
	}
	for i := len(per) - 1; left > 0; i = (i + len(per) - 1) % len(per) {
		per[i]++
		left--
	}
	for i := len(per) - 1; left < 0; i = (i + len(per) - 1) % len(per) {
		if per[i] > 1 {
			per[i]--
			left++
		}
	}
	s := shard
	for i, p := range per {
		if s < p {
			return i, s, p
		}
		s -= p
	}
	panic("shard plan")
}

// ---------------------------------------------------------------------------------------------------------------------

type worker struct {
	c     *xs.Ctx
	r     *xs.Result
	b     bounds
	ri    int
	sub   int
	nsub  int
	item  int
	snaps map[string]*snapshot
	avail []methodRef

	vctx     vm_context.AccountVmContext
	vctxNode *vnode.Node
}

func (w *worker) mine() bool {
	i := w.item
	w.item++
	return i%w.nsub == w.sub
}

func (w *worker) freshPair() *pair {
	return &pair{P: vnode.New(vnode.Options{Dir: w.c.TempDir()}), F: vnode.New(vnode.Options{Dir: w.c.TempDir(), NoPillars: true})}
}

// buildBases builds the base states of the worker's regime; a failing script is a finding in itself.
func (w *worker) buildBases(need map[string]bool) {
	w.snaps = map[string]*snapshot{}
	rname := regimes[w.ri].Name
	fail := func(base, msg string) {
		w.r.Violate("C09:base-script:"+rname+":"+base, fmt.Sprintf("regime %s: scripted well-formed calls building base state %q failed: %s", rname, base, msg), nil)
	}
	p := w.freshPair()
	env, msg := buildRegime(p, w.ri)
	if msg != "" {
		fail("genesis", msg)
		return
	}
	avail, absent := methodTable(p.P)
	w.avail = avail
	if len(avail) != expectedAvail[rname] {
		panic(fmt.Sprintf("regime %s: %d methods available, expected %d (absent: %d)", rname, len(avail), expectedAvail[rname], len(absent)))
	}
	w.r.Count("regimes_built", 1)
	w.snaps["genesis"] = p.freeze("genesis", env)
	if need["late-entries"] {
		pl := w.snaps["genesis"].open(w.c.TempDir(), w.c.TempDir())
		envL, msg := buildLate(pl, env)
		if msg != "" {
			fail("late-entries", msg)
			pl.destroy()
		} else {
			w.snaps["late-entries"] = pl.freeze("late-entries", envL)
		}
	}
	if !need["entries"] && !need["matured"] {
		return
	}
	p = w.snaps["genesis"].open(w.c.TempDir(), w.c.TempDir())
	env1, msg := buildEntries(p, env)
	if msg != "" {
		fail("entries", msg)
		p.destroy()
		return
	}
	w.snaps["entries"] = p.freeze("entries", env1)
	if !need["matured"] {
		return
	}
	p = w.snaps["entries"].open(w.c.TempDir(), w.c.TempDir())
	env2, msg := buildMatured(p, env1)
	if msg != "" {
		fail("matured", msg)
		p.destroy()
		return
	}
	w.snaps["matured"] = p.freeze("matured", env2)
}

func cpuMs() int64 {
	var ru syscall.Rusage
	syscall.Getrusage(syscall.RUSAGE_SELF, &ru)
	return (ru.Utime.Sec+ru.Stime.Sec)*1000 + int64(ru.Utime.Usec+ru.Stime.Usec)/1000
}

func product(dims []int) int {
	p := 1
	for _, d := range dims {
		p *= d
		if p > 1<<40 {
			return p
		}
	}
	return p
}

// shrink drops the last value of a dimension: first the token dimension (the last one) down to the method's natural
// token, then the largest argument dimension (ties: the last argument), the amount dimension only when everything else is
// down to one value. false when nothing can be dropped.
func shrink(dims []int) bool {
	na := len(dims) - 2
	if dims[na+1] > 1 {
		dims[na+1]--
		return true
	}
	best := -1
	for i, d := range dims[:na] {
		if d > 1 && (best < 0 || d >= dims[best]) {
			best = i
		}
	}
	if best < 0 && dims[na] > 1 {
		best = na
	}
	if best < 0 {
		return false
	}
	dims[best]--
	return true
}

func within(t []int, dims []int) bool {
	for i := range t {
		if t[i] >= dims[i] {
			return false
		}
	}
	return true
}

type groupStats struct{ gen, acc, exec, applied, refunded int64 }

func (w *worker) flush(key string, g *groupStats) {
	r := w.r
	r.Count("sends_generated", g.gen)
	r.Count("sends_accepted", g.acc)
	r.Count("states", g.exec)
	r.Count("applied", g.applied)
	r.Count("refunded", g.refunded)
	r.Count("m|"+key+"|g", g.gen)
	r.Count("m|"+key+"|a", g.acc)
	r.Count("m|"+key+"|x", g.exec)
	r.Count("m|"+key+"|ap", g.applied)
	r.Count("m|"+key+"|rf", g.refunded)
}

func errClass(err error) string {
	s := err.Error()
	if i := strings.Index(s, ";"); i > 0 {
		s = s[:i]
	}
	if len(s) > 60 {
		s = s[:60]
	}
	return s
}

// runOne executes one accepted call on a scratch copy of the snapshot.
func (w *worker) runOne(s *snapshot, id *caseID, g *groupStats) *verdict {
	c0 := cpuMs()
	defer func() { w.r.Count("cpu_ms_states", cpuMs()-c0) }()
	pr := s.open(w.c.TempDir(), w.c.TempDir())
	v := execute(pr, s.Env, id)
	pr.destroy()
	w.account(id, v, g)
	return v
}

func (w *worker) account(id *caseID, v *verdict, g *groupStats) {
	r := w.r
	if !v.Accepted {
		r.Count("harness_accept_mismatch", 1)
		r.Note("accepted by the filter node but refused on the scratch copy: %s: %v", id.String(), v.SendErr)
		return
	}
	g.exec++
	r.Count("transitions", int64(v.Steps))
	r.Count("traces_validated_against_impl", int64(v.Gens))
	switch v.Outcome {
	case "applied":
		g.applied++
	case "refunded":
		g.refunded++
	}
	r.Add("outcomes", id.Contract+"."+id.Method+":"+v.Outcome)
	if v.Key != "" {
		report(r, id, v)
	} else if v.Outcome == "refunded" && v.Send.Amount.Sign() > 0 {
		r.Count("refunds_with_amount_checked", 1)
	}
	r.Sample(map[string]string{"regime": regimes[id.Regime].Name, "base": id.Base, "call": id.String(), "outcome": v.Outcome})
}

// group: one (base state, method, sender): the product of argument domains x amounts x tokens.
func (w *worker) group(s *snapshot, filter *vnode.Node, mr methodRef, actorIdx int) {
	env := s.Env
	m := mr.M
	doms := fullDomains(env, mr.C, &m, actorIdx)
	na := len(doms)
	dims := make([]int, na+2)
	full := make([]int, na+2)
	for i, d := range doms {
		full[i] = len(d)
		dims[i] = len(d)
		if w.b.ArgValues > 0 && dims[i] > w.b.ArgValues {
			dims[i] = w.b.ArgValues
		}
	}
	toks := tokenSelsFor(mr.C, m.Name)
	full[na], full[na+1] = len(amountSels), len(toks)
	dims[na], dims[na+1] = len(w.b.Amounts), nTokensFor(mr.C, m.Name, w.b.NTokens)
	tierDims := append([]int{}, dims...)
	for i := range dims {
		if dims[i] != full[i] {
			w.r.Add("tier_cut_methods", mr.key())
		}
	}
	for product(dims) > w.b.CapCand {
		shrink(dims)
	}
	g := &groupStats{}
	key := mr.key()
	var accepted [][]int
	t := make([]int, len(dims))
	mk := func(t []int) *caseID {
		id := &caseID{Regime: w.ri, Base: s.Name, Contract: mr.C.Name, Method: m.Name, Actor: actorIdx, Args: make([]string, na), Amount: w.b.Amounts[t[na]], Token: toks[t[na+1]]}
		for i := 0; i < na; i++ {
			id.Args[i] = doms[i][t[i]].L
		}
		return id
	}
	cf := cpuMs()
	tkey := func(t []int) string { return fmt.Sprint(t) }
	isAcc := map[string]bool{}
	try := func(t []int) bool {
		id := mk(t)
		g.gen++
		if err := w.preValidate(env, filter, id); err != nil {
			w.r.Count("refused_by_validate_send_block", 1)
			w.r.Add("send_time_refusals", errClass(err))
			return false
		} else if _, err := id.submit(env, filter, false); err != nil {
			w.r.Count("refused_by_node", 1)
			w.r.Add("send_time_refusals", errClass(err))
			return false
		}
		g.acc++
		isAcc[tkey(t)] = true
		return true
	}
	for {
		if try(t) {
			accepted = append(accepted, append([]int{}, t...))
		}
		// next tuple
		i := len(t) - 1
		for i >= 0 {
			t[i]++
			if t[i] < dims[i] {
				break
			}
			t[i] = 0
			i--
		}
		if i < 0 {
			break
		}
	}
	// star: around an accepted centre (all arguments at their first value if such a call is accepted), every other value
	// of every dimension of the tier, one at a time. These are executed whatever the caps say.
	var centre []int
	for _, a := range accepted {
		first := true
		for i := 0; i < na; i++ {
			if a[i] != 0 {
				first = false
			}
		}
		if first {
			centre = a
			break
		}
	}
	if centre == nil && len(accepted) > 0 {
		centre = accepted[0]
	}
	var star [][]int
	if centre != nil {
		star = append(star, centre)
		for i := range tierDims {
			for j := 0; j < tierDims[i]; j++ {
				if j == centre[i] {
					continue
				}
				t := append([]int{}, centre...)
				t[i] = j
				if within(t, dims) {
					if isAcc[tkey(t)] {
						star = append(star, t)
					}
				} else if try(t) {
					star = append(star, t)
				}
			}
		}
	}
	// diagonals: two arguments of the same ABI type with the same domain (total and maximum supply, the two reward
	// percentages, ...) take the same non-central value together; limits that relate the two are only reached this way
	if centre != nil {
		for i := 0; i < na; i++ {
			for k := i + 1; k < na; k++ {
				if m.Inputs[i].Type.String() != m.Inputs[k].Type.String() || len(doms[i]) != len(doms[k]) {
					continue
				}
				same := true
				for j := range doms[i] {
					if doms[i][j].L != doms[k][j].L {
						same = false
					}
				}
				// a public key and the signature made with it are a pair as well: value j of one belongs to value j of the other
				// (the genesis key with its signature, another key with its signature, ...)
				if m.Inputs[i].Name == "publicKey" && m.Inputs[k].Name == "signature" {
					same = true
				}
				if !same {
					continue
				}
				for j := range doms[i] {
					if j == centre[i] && j == centre[k] {
						continue
					}
					t := append([]int{}, centre...)
					t[i], t[k] = j, j
					if isAcc[tkey(t)] {
						star = append(star, t)
					} else if !within(t, dims) && try(t) {
						star = append(star, t)
					}
				}
			}
		}
	}
	w.r.Count("cpu_ms_filter", cpuMs()-cf)
	inStar := map[string]bool{}
	for _, t := range star {
		inStar[tkey(t)] = true
	}
	count := func() int {
		k := 0
		for _, a := range accepted {
			if within(a, dims) && !inStar[tkey(a)] {
				k++
			}
		}
		return k
	}
	for count() > w.b.CapAcc[w.ri] {
		if !shrink(dims) {
			break
		}
	}
	pruned := false
	for i := range dims {
		if dims[i] != tierDims[i] {
			pruned = true
		}
	}
	if pruned {
		w.r.Add("pruned_groups", fmt.Sprintf("%s %v of %v", key, dims, tierDims))
	}
	for _, a := range star {
		if w.c.Expired() {
			w.r.Incomplete = true
			break
		}
		w.r.Count("star_states", 1)
		w.runOne(s, mk(a), g)
	}
	for _, a := range accepted {
		if inStar[tkey(a)] {
			continue
		}
		if !within(a, dims) {
			w.r.Count("accepted_not_executed_cap", 1)
			continue
		}
		if w.c.Expired() {
			w.r.Incomplete = true
			break
		}
		w.runOne(s, mk(a), g)
	}
	w.flush(key, g)
}

// encodings: non-canonical encodings of the method's first (all "ok") argument list, through the generator and as
// relayed blocks.
func (w *worker) encodings(s *snapshot, filter *vnode.Node, mr methodRef, actorIdx int) {
	env := s.Env
	m := mr.M
	doms := fullDomains(env, mr.C, &m, actorIdx)
	base := &caseID{Regime: w.ri, Base: s.Name, Contract: mr.C.Name, Method: m.Name, Actor: actorIdx, Args: make([]string, len(doms))}
	for i := range doms {
		base.Args[i] = doms[i][0].L
	}
	// the amount/token under which the canonical call is accepted
	ok := false
	for _, am := range amountSels[:2] {
		for _, tk := range tokenSels[:2] {
			if ok {
				continue
			}
			base.Amount, base.Token = am, tk
			if _, err := base.submit(env, filter, false); err == nil {
				ok = true
			}
		}
	}
	if !ok {
		w.r.Add("encodings_no_canonical_twin", mr.key())
		return
	}
	data := base.template(env, filter).Data
	g := &groupStats{}
	for _, e := range encodingVariants(&m, data) {
		for _, raw := range []bool{false, true} {
			id := *base
			id.Enc, id.Raw = e.L, raw
			g.gen++
			w.r.Count("encodings_generated", 1)
			blk, err := id.submit(env, filter, false)
			if err != nil {
				w.r.Add("send_time_refusals", errClass(err))
				continue
			}
			g.acc++
			if raw {
				w.r.Count("encodings_accepted_relayed", 1)
				w.r.Add("noncanonical_accepted_relayed", mr.key()+":"+e.L)
			} else {
				w.r.Count("encodings_accepted_generator", 1)
				if string(blk.Data) == string(data) {
					// the node's generator re-encoded the call: the block is the canonical twin's, which the product executes
					w.r.Count("encodings_canonicalised_by_generator", 1)
					continue
				}
				w.r.Add("noncanonical_kept_by_generator", mr.key()+":"+e.L)
			}
			if w.c.Expired() {
				w.r.Incomplete = true
				break
			}
			w.runOne(s, &id, g)
		}
	}
	w.flush(mr.key(), g)
}

// preValidate runs the implementation's own ValidateSendBlock (the function vm.applySend calls at send time) on the
// call: a refusal here is the refusal the node would give, without the cost of generating and signing the whole block.
// Everything it lets through is decided by the real node afterwards.
func (w *worker) preValidate(env *stateEnv, filter *vnode.Node, id *caseID) (err error) {
	if w.vctx == nil || w.vctxNode != filter {
		st := filter.Chain.GetFrontierMomentumStore()
		fm, ferr := st.GetFrontierMomentum()
		must(ferr)
		w.vctx = vm_context.NewAccountContext(st, filter.Chain.GetFrontierAccountStore(actors[aOwner].Key.Address), filter.Cons.FixedPillarReader(fm.Identifier()))
		w.vctxNode = filter
	}
	defer func() {
		if r := recover(); r != nil {
			err = nil // let the node decide
		}
	}()
	t := id.template(env, filter)
	method, merr := embedded.GetEmbeddedMethod(w.vctx, t.ToAddress, t.Data)
	if merr != nil {
		return nil
	}
	return method.ValidateSendBlock(t)
}

func (w *worker) filterNode(s *snapshot) *vnode.Node {
	d := w.c.TempDir()
	copyDir(s.ProdDir, d)
	return vnode.New(vnode.Options{Dir: d})
}

func run(c *xs.Ctx, r *xs.Result) {
	setGlobals()
	if c.Replay != nil {
		replay(c, r)
		return
	}
	if c.Shard == 0 {
		pillarWorkerPart(c, r)
	}
	w := &worker{c: c, r: r, b: boundsFor(c.Tier)}
	w.ri, w.sub, w.nsub = shardPlan(w.b.Weights, c.Shard, c.NShards)
	need := map[string]bool{}
	for _, b := range w.b.Bases {
		need[b] = true
	}
	cb := cpuMs()
	w.buildBases(need)
	r.Count("cpu_ms_bases", cpuMs()-cb)
	defer func() { r.Count("cpu_ms_total", cpuMs()) }()
	runBases := w.b.Bases
	if w.b.BasesFor != nil {
		runBases = w.b.BasesFor(w.ri)
	}
	for _, bn := range runBases {
		s := w.snaps[bn]
		if s == nil {
			continue
		}
		filter := w.filterNode(s)
		for _, mr := range w.avail {
			for _, a := range sendersFor(w.b, mr.C, mr.M.Name) {
				if !w.mine() {
					continue
				}
				if c.Expired() {
					r.Incomplete = true
					break
				}
				r.Add("methods_generated", regimes[w.ri].Name+"/"+mr.key())
				w.group(s, filter, mr, a)
			}
			// encodings: first sender of the method's list
			if w.b.Encodings[w.ri] && w.mine() && !c.Expired() {
				w.encodings(s, filter, mr, sendersFor(w.b, mr.C, mr.M.Name)[0])
			}
		}
		// methods the ABI declares but the regime's table lacks must be refused at send time
		if w.sub == 0 {
			_, absent := methodTable(filter)
			for _, mr := range absent {
				m := mr.M
				doms := fullDomains(s.Env, mr.C, &m, aOwner)
				id := &caseID{Regime: w.ri, Base: s.Name, Contract: mr.C.Name, Method: m.Name, Actor: aOwner, Args: make([]string, len(doms)), Amount: "zero", Token: "znn"}
				for i := range doms {
					id.Args[i] = doms[i][0].L
				}
				r.Count("absent_method_sends", 1)
				if _, err := id.submit(s.Env, filter, false); err == nil {
					// accepted although GetEmbeddedMethod said the method does not exist: run it like any other accepted call
					g := &groupStats{gen: 1, acc: 1}
					w.runOne(s, id, g)
					w.flush(mr.key(), g)
				} else {
					r.Count("absent_method_refused", 1)
				}
			}
		}
		if w.b.Depth2 {
			w.depth2(s, filter)
		}
		filter.Destroy()
	}
}

// depth2: accepted call A (applied), then call B to the same contract on the resulting state. Both from the quick-tier
// product (2 values per argument), capped per (method, sender).
func (w *worker) depth2(s *snapshot, filter *vnode.Node) {
	if s.Name != "entries" || (w.ri != 0 && w.ri != len(regimes)-1) {
		return
	}
	qb := boundsFor("quick")
	type cand struct {
		id *caseID
	}
	enumerate := func(env *stateEnv, n *vnode.Node, mr methodRef, actorIdx int, capN int) []*caseID {
		m := mr.M
		doms := fullDomains(env, mr.C, &m, actorIdx)
		na := len(doms)
		dims := make([]int, na+2)
		for i, d := range doms {
			dims[i] = len(d)
			if dims[i] > qb.ArgValues {
				dims[i] = qb.ArgValues
			}
		}
		toks := tokenSelsFor(mr.C, m.Name)
		dims[na], dims[na+1] = len(qb.Amounts), nTokensFor(mr.C, m.Name, qb.NTokens)
		for product(dims) > 512 {
			shrink(dims)
		}
		var out []*caseID
		t := make([]int, len(dims))
		for {
			id := &caseID{Regime: w.ri, Base: s.Name, Contract: mr.C.Name, Method: m.Name, Actor: actorIdx, Args: make([]string, na), Amount: qb.Amounts[t[na]], Token: toks[t[na+1]]}
			for i := 0; i < na; i++ {
				id.Args[i] = doms[i][t[i]].L
			}
			if _, err := id.submit(env, n, false); err == nil {
				out = append(out, id)
				if len(out) >= capN {
					return out
				}
			}
			i := len(t) - 1
			for i >= 0 {
				t[i]++
				if t[i] < dims[i] {
					break
				}
				t[i] = 0
				i--
			}
			if i < 0 {
				return out
			}
		}
	}
	byContract := map[string][]methodRef{}
	for _, mr := range w.avail {
		byContract[mr.C.Name] = append(byContract[mr.C.Name], mr)
	}
	for _, mrA := range w.avail {
		for _, aA := range sendersFor(qb, mrA.C, mrA.M.Name) {
			if !w.mine() {
				continue
			}
			for _, idA := range enumerate(s.Env, filter, mrA, aA, w.b.Depth2CapA) {
				if w.c.Expired() {
					w.r.Incomplete = true
					return
				}
				// run A on a scratch pair kept alive as the state for all B
				w.depth2From(s, idA, byContract[mrA.C.Name], qb, enumerate)
			}
		}
	}
}

func (w *worker) depth2From(s *snapshot, idA *caseID, methods []methodRef, qb bounds, enumerate func(*stateEnv, *vnode.Node, methodRef, int, int) []*caseID) {
	// state after A, frozen as a snapshot of its own
	pr := s.open(w.c.TempDir(), w.c.TempDir())
	gA := &groupStats{}
	vA := execute(pr, s.Env, idA)
	if !vA.Accepted || vA.Key != "" || vA.Outcome != "applied" {
		// failing calls leave the contract state unchanged (checked): B on it is the depth-1 case
		pr.destroy()
		w.r.Count("depth2_first_call_not_applied", 1)
		return
	}
	_ = gA
	env := s.Env.clone()
	env.IDs[idA.Contract] = append([]types.Hash{vA.Send.Hash}, env.IDs[idA.Contract]...)
	if idA.Contract == "token" && idA.Method == "IssueToken" {
		// keep the base custom token: B's token domain stays the same
	}
	snapA := pr.freeze("entries+A", env)
	defer func() {
		os.RemoveAll(snapA.ProdDir)
		os.RemoveAll(snapA.FollDir)
	}()
	filterA := w.filterNode(snapA)
	defer filterA.Destroy()
	w.r.Count("depth2_first_calls", 1)
	g := &groupStats{}
	for _, mrB := range methods {
		for _, aB := range sendersFor(qb, mrB.C, mrB.M.Name) {
			for _, idB := range enumerate(env, filterA, mrB, aB, w.b.Depth2CapB) {
				if w.c.Expired() {
					w.r.Incomplete = true
					return
				}
				idB.After = idA
				idB.Base = s.Name
				prB := snapA.open(w.c.TempDir(), w.c.TempDir())
				v := execute(prB, env, idB)
				prB.destroy()
				w.account(idB, v, g)
				w.r.Count("depth2_pairs", 1)
			}
		}
	}
	w.flush("depth2", g)
}

// ---------------------------------------------------------------------------------------------------------------------

func replay(c *xs.Ctx, r *xs.Result) {
	var part struct {
		Part string `json:"part"`
	}
	if json.Unmarshal(c.Replay, &part) == nil && part.Part == "pillar-worker" {
		pillarWorkerPart(c, r)
		return
	}
	var id caseID
	if err := json.Unmarshal(c.Replay, &id); err != nil {
		panic(err)
	}
	w := &worker{c: c, r: r, b: boundsFor("thorough")}
	w.ri = id.Regime
	w.nsub = 1
	r.Count("replay_mode", 1)
	w.buildBases(map[string]bool{id.Base: true, "entries": id.Base != "genesis" && id.Base != "late-entries", "matured": id.Base == "matured"})
	s := w.snaps[id.Base]
	if s == nil {
		return
	}
	g := &groupStats{}
	if id.After == nil {
		v := w.runOne(s, &id, g)
		fmt.Printf("replay: %s\n  accepted=%v outcome=%s key=%s\n  %s\n", id.String(), v.Accepted, v.Outcome, v.Key, v.What)
		return
	}
	pr := s.open(c.TempDir(), c.TempDir())
	defer pr.destroy()
	vA := execute(pr, s.Env, id.After)
	if !vA.Accepted || vA.Key != "" {
		w.account(id.After, vA, g)
		return
	}
	env := s.Env.clone()
	env.IDs[id.After.Contract] = append([]types.Hash{vA.Send.Hash}, env.IDs[id.After.Contract]...)
	v := execute(pr, env, &id)
	w.account(&id, v, g)
	fmt.Printf("replay: %s\n  accepted=%v outcome=%s key=%s\n  %s\n", id.String(), v.Accepted, v.Outcome, v.Key, v.What)
}

// ---------------------------------------------------------------------------------------------------------------------

func finish(tier string, m *xs.Result, ev *xs.Evidence) {
	per := map[string]map[string]int64{}
	for k, v := range m.Counters {
		if !strings.HasPrefix(k, "m|") {
			continue
		}
		delete(ev.Coverage, k)
		p := strings.Split(k, "|")
		if per[p[1]] == nil {
			per[p[1]] = map[string]int64{}
		}
		per[p[1]][p[2]] = v
	}
	table := map[string]string{}
	var names []string
	for k := range per {
		names = append(names, k)
	}
	sort.Strings(names)
	for _, k := range names {
		s := per[k]
		table[k] = fmt.Sprintf("generated=%d accepted=%d executed=%d applied=%d refunded=%d", s["g"], s["a"], s["x"], s["ap"], s["rf"])
	}
	ev.Coverage["per_method"] = table
	// vacuity: methods of some regime's table with no accepted send at all
	var zero, never []string
	seen := map[string]bool{}
	for e := range m.Sets["methods_generated"] {
		k := e[strings.Index(e, "/")+1:]
		seen[k] = true
	}
	for k := range seen {
		if per[k]["a"] == 0 {
			zero = append(zero, k)
		} else if per[k]["ap"] == 0 {
			never = append(never, k)
		}
	}
	sort.Strings(zero)
	sort.Strings(never)
	ev.Notes = append(ev.Notes, fmt.Sprintf("methods with zero accepted sends (vacuous for the property): %v", zero))
	ev.Notes = append(ev.Notes, fmt.Sprintf("methods whose accepted sends were never applied (only the refund path was exercised): %v", never))
	var pruned []string
	for e := range m.Sets["pruned_groups"] {
		pruned = append(pruned, e)
	}
	sort.Strings(pruned)
	if len(pruned) > 12 {
		pruned = append(pruned[:12], fmt.Sprintf("... %d more", len(pruned)-12))
	}
	ev.Notes = append(ev.Notes, "groups whose domains were cut by the candidate/accepted caps (sizes used of the tier's sizes; order: arguments..., amount, token): "+strings.Join(pruned, "; "))
	delete(ev.Coverage, "distinct_pruned_groups")
	var nc []string
	for e := range m.Sets["noncanonical_accepted_relayed"] {
		nc = append(nc, e)
	}
	sort.Strings(nc)
	ev.Notes = append(ev.Notes, fmt.Sprintf("non-canonical encodings accepted as relayed blocks (data kept as sent) and executed: %v", nc))
	ev.Coverage["groups_pruned_by_caps"] = len(m.Sets["pruned_groups"])
	ev.Coverage["methods_with_accepted_sends"] = len(seen) - len(zero)
	ev.Coverage["methods_in_tables"] = len(seen)
	ev.Coverage["states"] = m.Counters["states"]
	ev.Coverage["transitions"] = m.Counters["transitions"]
	ev.Coverage["traces_validated_against_impl"] = m.Counters["traces_validated_against_impl"]
	if m.Counters["replay_mode"] == 0 && m.Counters["regimes_built"] > 0 && (m.Counters["states"] < 100 || m.Counters["applied"] == 0 || m.Counters["refunded"] == 0 || m.Counters["refunds_with_amount_checked"] == 0) && len(m.Violations) == 0 {
		panic(fmt.Sprintf("vacuity guard: states=%d applied=%d refunded=%d refunds with amount=%d", m.Counters["states"], m.Counters["applied"], m.Counters["refunded"], m.Counters["refunds_with_amount_checked"]))
	}
}

func init() {
	xs.Register(&xs.Check{
		ID:    "C09",
		Level: "model_checking",
		Shards: func(tier string) int {
			if tier == "thorough" {
				return 64
			}
			return 32
		},
		Budget: func(tier string) time.Duration {
			if tier == "thorough" {
				return 18 * time.Minute
			}
			return 100 * time.Second
		},
		Run:    run,
		Finish: finish,
		Assumptions: []string{
			"mock genesis; process globals owned by the check (as the repository's tests do): FuseExpiration=6, UpdateMinNumMomentums=4, SporkMinHeightDelay=2, bridge/liquidity delays 2/1/1, MinGuardians=2, InitialBridgeAdministrator=User5; time windows rescaled so that matured states are one 26-hour jump away: pillar and sentinel lock 20 h + revoke window 10 h, staking unit 2 h (reward epochs keep 24 h); spork ids = ids of sporks created and activated on the worker's chain with the spork key; sporks created by cases are registered as implemented so that the node does not terminate itself",
			"regimes: origin, accelerator, accelerator+bridge, accelerator+htlc (historical order), all three; one regime per worker process",
			"the producer path is driven at Supervisor level (GenerateAutoReceive for the inbox head, as pillar.worker.generateNext does) with the panic captured; the pillar's own task goroutine is not used because its re-panic would kill the process",
			"send-time acceptance is decided by the real node (GenerateFromTemplate; for non-canonical encodings also chain-bridge AddAccountBlocks of a self-signed block); refused sends are outside the property",
			"bounds: quick = 2 values per argument x amounts {required, zero} x 2 tokens, senders relevant to the method, <=256 product candidates per (base, method, sender); executed: the star (an accepted centre call and every single-value deviation from it, always) plus <=3 (all-sporks regime; <=1 elsewhere) further accepted sends of the product, encodings in the all-sporks regime; thorough = full domains x 4 amounts x 6 tokens, <=8192 product candidates, star plus <=40 (<=8 elsewhere) further executed per group, encodings everywhere, depth-2 chains (applied A, then B, both from the quick product, <=2 per method and sender) in the origin and all-sporks regimes on the entries state; domains are cut from the end (values are ordered by relevance) when a group exceeds a cap; what is cut is listed in the notes",
			"a base-state snapshot is reopened per case (copy of the leveldb directories); the follower is a second real node fed through ChainBridge.InsertChain",
		},
	})
}

func Dev(args []string) {
	switch args[0] {
	case "abi":
		for _, c := range contracts {
			for _, n := range methodNames(c.ABI) {
				m := c.ABI.Methods[n]
				fmt.Printf("%-12s %s\n", c.Name, m.String())
			}
		}
	case "bases":
		devBases(args[1:])
	case "inbox":
		setGlobals()
		ri := 0
		fmt.Sscan(args[1], &ri)
		dir, _ := os.MkdirTemp("/dev/shm", "c09dev")
		defer os.RemoveAll(dir)
		c := &xs.Ctx{ID: "C09", Tier: "thorough", Scratch: dir, Deadline: time.Now().Add(time.Hour)}
		w := &worker{c: c, r: xs.NewResult(), b: boundsFor("thorough"), ri: ri, nsub: 1}
		w.buildBases(map[string]bool{"entries": true, "matured": true})
		for _, bn := range []string{"genesis", "entries", "matured"} {
			s := w.snaps[bn]
			p := s.open(c.TempDir(), c.TempDir())
			fmt.Println(bn, "height", p.P.Height(), "uncommitted", len(p.P.Chain.GetAllUncommittedAccountBlocks()))
			for _, cd := range contracts {
				if h := inboxHead(p.P, cd.Addr); h != nil {
					fmt.Printf("  %s inbox head: from %v amount %v %v data %x\n", cd.Name, h.Address, h.Amount, h.TokenStandard, h.Data)
				}
			}
			for h := uint64(1); h <= p.P.Height(); h++ {
				d := p.P.Detailed(h)
				for _, b := range d.AccountBlocks {
					if bn == "matured" && h > w.snaps["entries"].Height {
						fmt.Printf("   m%d %v h%d type%d -> %v amount %v from %v data %x nd=%d\n", h, contractNameOf(b.Address), b.Height, b.BlockType, contractNameOf(b.ToAddress), b.Amount, b.FromBlockHash, b.Data, len(b.DescendantBlocks))
					}
				}
			}
			p.destroy()
		}
	}
}

func devBases(args []string) {
	setGlobals()
	ri := 0
	fmt.Sscan(args[0], &ri)
	dir, _ := os.MkdirTemp("/dev/shm", "c09dev")
	defer os.RemoveAll(dir)
	c := &xs.Ctx{ID: "C09", Tier: "thorough", Scratch: dir, Deadline: time.Now().Add(time.Hour)}
	r := xs.NewResult()
	w := &worker{c: c, r: r, b: boundsFor("thorough"), ri: ri, nsub: 1}
	t0 := time.Now()
	w.buildBases(map[string]bool{"entries": true, "matured": len(args) > 1})
	fmt.Printf("bases built in %v: %d methods\n", time.Since(t0), len(w.avail))
	for _, v := range r.Violations {
		fmt.Println("VIOLATION", v.Key, v.What)
	}
	for k, s := range w.snaps {
		fmt.Printf("  %s height=%d\n", k, s.Height)
		t1 := time.Now()
		for i := 0; i < 20; i++ {
			p := s.open(c.TempDir(), c.TempDir())
			p.destroy()
		}
		fmt.Printf("  open+destroy pair: %v each\n", time.Since(t1)/20)
		t1 = time.Now()
		for i := 0; i < 20; i++ {
			d := c.TempDir()
			copyDir(s.ProdDir, d)
			os.RemoveAll(d)
		}
		fmt.Printf("  copy one dir: %v each\n", time.Since(t1)/20)
		t1 = time.Now()
		for i := 0; i < 20; i++ {
			d := c.TempDir()
			copyDir(s.ProdDir, d)
			n := vnode.New(vnode.Options{Dir: d})
			n.Destroy()
		}
		fmt.Printf("  copy+open+destroy producer: %v each\n", time.Since(t1)/20)
		t1 = time.Now()
		for i := 0; i < 20; i++ {
			d := c.TempDir()
			copyDir(s.ProdDir, d)
			n := vnode.New(vnode.Options{Dir: d, MemConsensus: true})
			n.Destroy()
		}
		fmt.Printf("  copy+open+destroy producer memcons: %v each\n", time.Since(t1)/20)
		id := &caseID{Regime: ri, Base: k, Contract: "stake", Method: "Stake", Actor: aOwner, Args: []string{"ok"}, Amount: "required", Token: "znn"}
		t1 = time.Now()
		for i := 0; i < 20; i++ {
			p := s.open(c.TempDir(), c.TempDir())
			v := execute(p, s.Env, id)
			if v.Key != "" || !v.Accepted {
				fmt.Println(v.Key, v.What, v.SendErr)
			}
			p.destroy()
		}
		fmt.Printf("  open+execute+destroy: %v each\n", time.Since(t1)/20)
	}
	_ = abi.Method{}
}
