package main

import (
	_ "verifmc/props/c02"
	_ "verifmc/props/c07"
	_ "verifmc/props/c08"

	"verifmc/internal/xs"
)

func main() { xs.Main() }
