// Package c08 — committing or rolling back a momentum is atomic across a crash.
//
// For short histories (commits, then a reorganisation = rollbacks + commits of a competing branch) on a real node fed
// through InsertChain, the process is "stopped" before EVERY write to the underlying leveldb inside every commit and
// every rollback: the guarded call-out (common/db verifWrite) copies the database directories at that instant, which
// is what a killed process leaves behind (goleveldb hands every completed Put to the OS before returning; torn writes
// inside one Put and fsync loss are outside the property). Every image is then reopened as a node and must (1) open,
// (2) hold exactly the state before or exactly the state after the interrupted operation (every key of the ledger,
// redo and undo prefixes), (3) reach the crash-free final state when the same momentums are delivered again.
// The thorough tier repeats a subset with a real child process that exits inside the call-out without closing.
package c08

import (
	"encoding/json"
	"fmt"
	"io"
	"os"
	"os/exec"
	"path/filepath"
	"strconv"
	"time"

	"github.com/syndtr/goleveldb/leveldb"

	"github.com/zenon-network/go-zenon/chain/nom"
	"github.com/zenon-network/go-zenon/common/db"

	"verifmc/internal/ops"
	"verifmc/internal/vnode"
	"verifmc/internal/xs"
	"verifmc/props/c06"
)

type listener struct{ f func() }

func (l *listener) InsertMomentum(*nom.DetailedMomentum) { l.f() }
func (l *listener) DeleteMomentum(*nom.DetailedMomentum) { l.f() }

func copyDir(src, dst string) {
	must(os.MkdirAll(dst, 0o755))
	ents, err := os.ReadDir(src)
	must(err)
	for _, e := range ents {
		if e.IsDir() {
			copyDir(filepath.Join(src, e.Name()), filepath.Join(dst, e.Name()))
			continue
		}
		if e.Name() == "LOCK" {
			continue
		}
		in, err := os.Open(filepath.Join(src, e.Name()))
		if err != nil {
			continue // a file removed by background compaction between ReadDir and Open
		}
		out, err := os.Create(filepath.Join(dst, e.Name()))
		must(err)
		_, err = io.Copy(out, in)
		must(err)
		in.Close()
		out.Close()
	}
}

func must(err error) {
	if err != nil {
		panic(err)
	}
}

type scenario struct {
	Name   string
	Prefix []ops.Op // common prefix (both branches)
	A      []ops.Op // branch adopted first
	B      []ops.Op // competing branch, must end strictly longer
	// FailedSwitchFirst: before the valid competing branch, deliver a copy of it whose last momentum has a broken
	// signature: the node rolls back, inserts the verified prefix of the side chain, fails, rolls back again and re-inserts
	// its own momentums (every one of these commits and rollbacks is enumerated for crash points too)
	FailedSwitchFirst bool
}

// deliverB performs the switch of a scenario on node n.
func deliverB(n *vnode.Node, sc scenario, bt *built) {
	side := bt.b[bt.prefixH-1:]
	if sc.FailedSwitchFirst {
		bad := vnode.CloneBatch(side)
		last := bad[len(bad)-1]
		last.Momentum.Signature[3] ^= 1
		bad[len(bad)-1] = vnode.CloneDetailed(last)
		if _, err, pan := n.InsertChain(bad); err == nil || pan != nil {
			panic(fmt.Sprintf("the side chain with a broken last signature must be refused without panic: %v %v", err, pan))
		}
	}
	if _, err, pan := n.InsertChain(vnode.CloneBatch(side)); err != nil || pan != nil {
		// the node that never crashed does not get to the state every crashed-and-restarted node is measured against
		panic(crashFreeFailure{fmt.Sprintf("the longer, valid competing branch is refused: err=%v panic=%v", err, pan)})
	}
}

// crashFreeFailure: the reference run itself (no crash anywhere) fails to switch to the competing branch. This is an
// observation about the code under test ("continuing with a competing momentum leads to the state a node without the
// crash reaches" has no such state), reported as a violation, not a harness failure.
type crashFreeFailure struct{ msg string }

func scenarios(tier string) []scenario {
	M := ops.Op{K: "M"}
	sc := []scenario{
		{
			Name:   "transfer+contract-call/reorg-depth-2",
			Prefix: []ops.Op{{K: "T", A: 0, B: 1, V: 500}, M},
			A:      []ops.Op{{K: "Call", S: "stake", A: 1, V: 10}, M, {K: "R", A: 1}, M},
			B:      []ops.Op{{K: "T", A: 2, B: 3, V: 7}, {K: "M", V: 1}, M, {K: "Call", S: "refund", A: 5}, M},
		},
		{
			Name:   "empty-momentums/reorg-depth-1",
			Prefix: []ops.Op{M},
			A:      []ops.Op{M},
			B:      []ops.Op{{K: "M", V: 1}, M},
		},
	}
	sc = append(sc, scenario{
		Name:   "fuse+delegate+refund/reorg-depth-3",
		Prefix: []ops.Op{{K: "Call", S: "fuse", A: 0, B: 1, V: 50}, M, M},
		A:      []ops.Op{{K: "Call", S: "delegate", A: 3, B: 2}, M, {K: "T", A: 1, B: 0, T: 1, V: 9}, M, {K: "R", A: 0}, M},
		B:      []ops.Op{{K: "Call", S: "refund", A: 6}, {K: "M", V: 2}, M, {K: "T", A: 5, B: 6, V: 1}, M, M},
	})
	// big momentums: ten blocks of 16000 data bytes each (about 160 KiB of changes in one commit, and in one rollback);
	// a store that splits large commits into several writes is only exposed by commits of this size
	var big []ops.Op
	for a := 0; a < 10; a++ {
		big = append(big, ops.Op{K: "Tbig", A: a, B: 13, V: 16000})
	}
	sc = append(sc, scenario{
		Name:   "big-momentum-160KiB/reorg-depth-1",
		Prefix: []ops.Op{M},
		A:      append(append([]ops.Op{}, big...), M),
		B:      append(append([]ops.Op{{K: "T", A: 0, B: 1, V: 3}, {K: "M", V: 1}}, big[:8]...), M),
	})
	sc = append(sc, scenario{
		Name:              "failed-switch-then-switch/reorg-depth-2",
		Prefix:            []ops.Op{{K: "T", A: 0, B: 1, V: 500}, M},
		A:                 []ops.Op{{K: "Call", S: "stake", A: 1, V: 10}, M, {K: "R", A: 1}, M},
		B:                 []ops.Op{{K: "T", A: 2, B: 3, V: 7}, {K: "M", V: 1}, M, {K: "Call", S: "refund", A: 5}, M},
		FailedSwitchFirst: true,
	})
	if tier == "thorough" {
		sc = append(sc, scenario{
			Name:   "issue+burn+sentinel/reorg-depth-5",
			Prefix: []ops.Op{{K: "Call", S: "issue", A: 0, V: 1000}, M, M},
			A: []ops.Op{{K: "R", A: 0}, M, {K: "Call", S: "burn", A: 4, T: 0, V: 100}, M, {K: "Call", S: "sentinel-deposit-qsr", A: 5, V: 100}, M,
				{K: "T", A: 0, B: 1, V: 5}, M, {K: "R", A: 1}, M},
			B: []ops.Op{{K: "Call", S: "undelegate", A: 0}, {K: "M", V: 1}, {K: "Call", S: "donate", A: 6, T: 1, V: 44}, M, M, {K: "T", A: 7, B: 8, V: 2}, M, M, M},
		})
	}
	return sc
}

type built struct {
	prefixH  uint64
	a, b     []*nom.DetailedMomentum // full chains from height 2
	finalDig string
}

func build(c *xs.Ctx, sc scenario) *built {
	pa := vnode.New(vnode.Options{Dir: c.TempDir()})
	defer pa.Destroy()
	for _, o := range sc.Prefix {
		ops.Apply(pa, o)
	}
	out := &built{prefixH: pa.Height()}
	pb := vnode.New(vnode.Options{Dir: c.TempDir()})
	defer pb.Destroy()
	if out.prefixH >= 2 {
		if idx, err, pan := pb.InsertChain(vnode.CloneBatch(pa.Range(2, out.prefixH))); err != nil || pan != nil {
			panic(fmt.Sprintf("prefix sync failed: %d %v %v", idx, err, pan))
		}
	}
	for _, o := range sc.A {
		ops.Apply(pa, o)
	}
	for _, o := range sc.B {
		ops.Apply(pb, o)
	}
	if pb.Height() <= pa.Height() {
		panic("scenario: branch B must be strictly longer")
	}
	out.a = pa.Range(2, pa.Height())
	out.b = pb.Range(2, pb.Height())
	out.finalDig = pb.FullDigest()
	return out
}

type image struct {
	K        int
	Site     string
	Boundary int
	Dir      string
}

// crashFreeRun executes the scenario on a fresh node, calling onWrite before every leveldb write of the operations of
// interest, and returns the boundary states (full digests at operation boundaries).
func crashFreeRun(c *xs.Ctx, sc scenario, bt *built, onWrite func(n *vnode.Node, k int, site string, boundary int)) (boundaries []string, final string) {
	n := vnode.New(vnode.Options{Dir: c.TempDir(), NoPillars: true})
	defer n.Destroy()
	if bt.prefixH >= 2 {
		if _, err, pan := n.InsertChain(vnode.CloneBatch(bt.a[:bt.prefixH-1])); err != nil || pan != nil {
			panic(fmt.Sprintf("prefix: %v %v", err, pan))
		}
	}
	boundaries = append(boundaries, n.FullDigest())
	k := 0
	inHook := false
	l := &listener{f: func() {
		boundaries = append(boundaries, n.FullDigest())
		// a stop between two operations (after the commit/rollback, before the next one starts)
		if !inHook {
			inHook = true
			onWrite(n, k, "between-operations", len(boundaries)-1)
			k++
			inHook = false
		}
	}}
	n.Chain.Register(l)
	db.VerifWriteHook = func(site string) {
		if inHook {
			return
		}
		inHook = true
		onWrite(n, k, site, len(boundaries)-1)
		k++
		inHook = false
	}
	defer func() { db.VerifWriteHook = nil }()
	if _, err, pan := n.InsertChain(vnode.CloneBatch(bt.a[bt.prefixH-1:])); err != nil || pan != nil {
		panic(fmt.Sprintf("branch A: %v %v", err, pan))
	}
	deliverB(n, sc, bt)
	db.VerifWriteHook = nil
	n.Chain.UnRegister(l)
	return boundaries, n.FullDigest()
}

func checkImage(c *xs.Ctx, r *xs.Result, sc scenario, bt *built, img image, boundaries []string, mode string) {
	rep := map[string]interface{}{"scenario": sc.Name, "write": img.K, "mode": mode}
	desc := fmt.Sprintf("scenario %q, stop before leveldb write #%d (%s) of operation %d [%s]", sc.Name, img.K, img.Site, img.Boundary, mode)
	var n *vnode.Node
	func() {
		defer func() {
			if p := recover(); p != nil {
				r.Violate("C08:reopen-fails", fmt.Sprintf("%s: node does not start on the database: %v", desc, p), rep)
				n = nil
			}
		}()
		n = vnode.New(vnode.Options{Dir: img.Dir, NoPillars: true})
	}()
	if n == nil {
		os.RemoveAll(img.Dir)
		return
	}
	defer n.Destroy()
	got := n.FullDigest()
	pre := boundaries[img.Boundary]
	post := ""
	if img.Boundary+1 < len(boundaries) {
		post = boundaries[img.Boundary+1]
	}
	switch got {
	case pre:
		r.Count("images_pre_state", 1)
	case post:
		r.Count("images_post_state", 1)
	default:
		kind := "commit"
		if len(img.Site) >= 3 && img.Site[:3] == "pop" {
			kind = "rollback"
		}
		r.Count("images_torn", 1)
		r.Violate("C08:torn-"+kind, fmt.Sprintf("%s: the store is neither in the state before nor in the state after the interrupted operation (frontier height %d)", desc, n.Height()), rep)
		return
	}
	// continuation: deliver the adopted chain again (overlapping what is already there)
	if _, err, pan := n.InsertChain(vnode.CloneBatch(bt.b)); err != nil || pan != nil {
		r.Violate("C08:continuation-fails", fmt.Sprintf("%s: re-delivering the momentums after restart fails: err=%v panic=%v", desc, err, pan), rep)
		return
	}
	if n.FullDigest() != bt.finalDig {
		r.Violate("C08:continuation-differs", fmt.Sprintf("%s: after restart and re-delivery the store differs from a node that never crashed", desc), rep)
		return
	}
	r.Count("continuations_ok", 1)
}

func runScenario(c *xs.Ctx, r *xs.Result, sc scenario, only int) {
	defer func() {
		if p := recover(); p != nil {
			if f, ok := p.(crashFreeFailure); ok {
				db.VerifWriteHook = nil
				r.Violate("C08:node-without-a-crash-cannot-continue-with-the-competing-branch", fmt.Sprintf("scenario %q, no crash at all: %s", sc.Name, f.msg), map[string]interface{}{"scenario": sc.Name, "write": -1})
				return
			}
			panic(p)
		}
	}()
	bt := build(c, sc)
	imgRoot := c.TempDir()
	var images []image
	boundaries, final := crashFreeRun(c, sc, bt, func(n *vnode.Node, k int, site string, boundary int) {
		r.Add("sites", site)
		if only >= 0 && k != only {
			return
		}
		if only < 0 && !c.Mine(k) {
			return
		}
		dir := filepath.Join(imgRoot, strconv.Itoa(k))
		copyDir(n.Opts.Dir, dir)
		images = append(images, image{K: k, Site: site, Boundary: boundary, Dir: dir})
	})
	if final != bt.finalDig {
		panic("crash-free follower differs from producer B — harness or C02 problem, not a C08 verdict")
	}
	if c.Shard == 0 || only >= 0 {
		r.Count("operations", int64(len(boundaries)-1))
	}
	for _, img := range images {
		if c.Expired() {
			r.Incomplete = true
			return
		}
		r.Count("crash_points", 1)
		if img.Site != "add:patch" && img.Site != "between-operations" {
			r.Count("crash_points_strictly_inside", 1)
		}
		checkImage(c, r, sc, bt, img, boundaries, "image")
		r.Sample(map[string]interface{}{"scenario": sc.Name, "write": img.K, "site": img.Site, "operation": img.Boundary})
	}
	// thorough: a real child process that exits inside the call-out (no close, no deferred functions)
	if c.Thorough() && only < 0 {
		for k := c.Shard; ; k += c.NShards {
			if c.Expired() {
				r.Incomplete = true
				return
			}
			dir := c.TempDir()
			cmd := exec.Command(os.Args[0])
			cmd.Env = append(os.Environ(), "C08_CHILD=1", "C08_SCENARIO="+sc.Name, "C08_K="+strconv.Itoa(k), "C08_DIR="+dir, "C08_TIER="+c.Tier)
			out, _ := cmd.CombinedOutput()
			code := cmd.ProcessState.ExitCode()
			if code == 0 {
				break // k beyond the last write
			}
			if code != 137 {
				panic(fmt.Sprintf("child failed (%d): %s", code, tail(out)))
			}
			meta, err := os.ReadFile(filepath.Join(dir, "meta.json"))
			must(err)
			var m struct {
				Site     string
				Boundary int
			}
			must(json.Unmarshal(meta, &m))
			os.Remove(filepath.Join(dir, "meta.json"))
			r.Count("child_kills", 1)
			checkImage(c, r, sc, bt, image{K: k, Site: m.Site, Boundary: m.Boundary, Dir: filepath.Join(dir, "node")}, boundaries, "child-kill")
		}
	}
}

// runGenesis: the empty history. A node started on an empty directory commits the genesis momentum; the process is stopped
// before every leveldb write of that first commit. Every image must hold exactly nothing or exactly the genesis commit
// (raw key/value set of the ledger database), a node must start on it and be in the genesis state of a node that never
// crashed, and delivering momentums afterwards must lead to the crash-free state.
func runGenesis(c *xs.Ctx, r *xs.Result, only int) {
	sc := scenarios(c.Tier)[0]
	bt := build(c, sc)
	ref := vnode.New(vnode.Options{Dir: c.TempDir(), NoPillars: true})
	genesisDig := ref.FullDigest()
	refDir := ref.Opts.Dir
	ref.Stop()
	genesisRaw := rawKV(filepath.Join(refDir, "nom"))
	os.RemoveAll(refDir)
	imgRoot := c.TempDir()
	var images []image
	dir := c.TempDir()
	k := 0
	db.VerifWriteHook = func(site string) {
		if (only < 0 && c.Mine(k)) || only == k {
			d := filepath.Join(imgRoot, strconv.Itoa(k))
			copyDir(dir, d)
			images = append(images, image{K: k, Site: site, Dir: d})
		}
		k++
	}
	n := vnode.New(vnode.Options{Dir: dir, NoPillars: true})
	db.VerifWriteHook = nil
	if n.FullDigest() != genesisDig {
		panic("genesis scenario: two fresh nodes differ")
	}
	n.Destroy()
	if c.Shard == 0 || only >= 0 {
		r.Count("operations", 1)
		r.Count("genesis_commit_writes", int64(k))
	}
	for _, img := range images {
		r.Count("crash_points", 1)
		if img.K > 0 {
			r.Count("crash_points_strictly_inside", 1)
		}
		r.Add("sites", "genesis:"+img.Site)
		r.Sample(map[string]interface{}{"scenario": "genesis", "write": img.K, "site": img.Site, "operation": 0})
		rep := map[string]interface{}{"scenario": "genesis", "write": img.K, "mode": "image"}
		desc := fmt.Sprintf("scenario \"genesis\" (node started on an empty directory), stop before leveldb write #%d (%s) of the genesis commit", img.K, img.Site)
		raw := rawKV(filepath.Join(img.Dir, "nom"))
		switch {
		case len(raw) == 0:
			r.Count("images_pre_state", 1)
		case sameKV(raw, genesisRaw):
			r.Count("images_post_state", 1)
		default:
			r.Count("images_torn", 1)
			r.Violate("C08:torn-genesis-commit", fmt.Sprintf("%s: the ledger database holds %d of the genesis commit's %d keys: neither empty nor the complete commit", desc, len(raw), len(genesisRaw)), rep)
			os.RemoveAll(img.Dir)
			continue
		}
		var nn *vnode.Node
		func() {
			defer func() {
				if p := recover(); p != nil {
					r.Violate("C08:reopen-fails", fmt.Sprintf("%s: node does not start on the database: %v", desc, p), rep)
					nn = nil
				}
			}()
			nn = vnode.New(vnode.Options{Dir: img.Dir, NoPillars: true})
		}()
		if nn == nil {
			os.RemoveAll(img.Dir)
			continue
		}
		if nn.FullDigest() != genesisDig {
			r.Violate("C08:continuation-differs", fmt.Sprintf("%s: after restart the node is not in the genesis state of a node that never crashed", desc), rep)
			nn.Destroy()
			continue
		}
		if _, err, pan := nn.InsertChain(vnode.CloneBatch(bt.b)); err != nil || pan != nil {
			r.Violate("C08:continuation-fails", fmt.Sprintf("%s: delivering momentums after restart fails: err=%v panic=%v", desc, err, pan), rep)
		} else if nn.FullDigest() != bt.finalDig {
			r.Violate("C08:continuation-differs", fmt.Sprintf("%s: after restart and delivery the store differs from a node that never crashed", desc), rep)
		} else {
			r.Count("continuations_ok", 1)
		}
		nn.Destroy()
	}
}

// rawKV reads every key/value pair of a leveldb directory (opened on its own, not through a node).
func rawKV(path string) map[string]string {
	out := map[string]string{}
	if _, err := os.Stat(path); err != nil {
		return out
	}
	l, err := leveldb.OpenFile(path, nil)
	must(err)
	defer l.Close()
	it := l.NewIterator(nil, nil)
	defer it.Release()
	for it.Next() {
		out[string(it.Key())] = string(it.Value())
	}
	return out
}

func sameKV(a, b map[string]string) bool {
	if len(a) != len(b) {
		return false
	}
	for k, v := range a {
		if w, ok := b[k]; !ok || w != v {
			return false
		}
	}
	return true
}

func tail(b []byte) string {
	if len(b) > 600 {
		b = b[len(b)-600:]
	}
	return string(b)
}

// childMain runs the scenario in a child process and exits with 137 inside write k.
func childMain() {
	name, dir, tier := os.Getenv("C08_SCENARIO"), os.Getenv("C08_DIR"), os.Getenv("C08_TIER")
	k, _ := strconv.Atoi(os.Getenv("C08_K"))
	c := &xs.Ctx{ID: "C08", Tier: tier, Scratch: filepath.Join(dir, "scratch"), Deadline: time.Now().Add(time.Hour)}
	for _, sc := range scenarios(tier) {
		if sc.Name != name {
			continue
		}
		bt := build(c, sc)
		// the node under test lives in dir/node
		n := vnode.New(vnode.Options{Dir: filepath.Join(dir, "node"), NoPillars: true})
		if bt.prefixH >= 2 {
			n.InsertChain(vnode.CloneBatch(bt.a[:bt.prefixH-1]))
		}
		nb := 0
		i := 0
		stop := func(site string) {
			if i == k {
				meta, _ := json.Marshal(map[string]interface{}{"Site": site, "Boundary": nb})
				os.WriteFile(filepath.Join(dir, "meta.json"), meta, 0o644)
				os.Exit(137)
			}
			i++
		}
		l := &listener{f: func() { nb++; stop("between-operations") }}
		n.Chain.Register(l)
		db.VerifWriteHook = stop
		n.InsertChain(vnode.CloneBatch(bt.a[bt.prefixH-1:]))
		deliverB(n, sc, bt)
		os.Exit(0)
	}
	os.Exit(3)
}

func init() {
	if os.Getenv("C08_CHILD") == "1" {
		// handled in Run's process start: see cmd main -> xs.Main is not reached for children
		defer childMain()
	}
	xs.Register(&xs.Check{
		ID:     "C08",
		Level:  "fault_enumeration",
		Shards: func(tier string) int { return 16 },
		Budget: func(tier string) time.Duration {
			if tier == "thorough" {
				return 15 * time.Minute
			}
			return 3 * time.Minute
		},
		Rule: "cases = (scenario, index of the leveldb write before which the process stops) for every write of every commit and rollback of the scenario; non-trivial = the stop is strictly inside an operation (after its first write)",
		Assumptions: []string{
			"a process stop between two leveldb writes is modelled by copying the database directory inside the write call-out (quick) and by a child process that os.Exit()s there (thorough subset); torn writes inside one leveldb write and fsync loss are out of scope",
			"commit/rollback are driven through protocol.ChainBridge.InsertChain on a real node; consensus cache database included in the image",
		},
		Run: func(c *xs.Ctx, r *xs.Result) {
			only := -1
			var want string
			if c.Replay != nil {
				var rep struct {
					Scenario string `json:"scenario"`
					Write    int    `json:"write"`
				}
				must(json.Unmarshal(c.Replay, &rep))
				only, want = rep.Write, rep.Scenario
				var sc c06.StoreCase
				if err := json.Unmarshal(c.Replay, &sc); err == nil && sc.Mode == "store" {
					c06.StoreValueCases(c, r, "C08", &sc)
					return
				}
			}
			if want == "" {
				// "a rollback returns the store to the state before the commit", for the value classes node traffic never writes
				// (keys present with an empty value): C06's store-level cases on the real leveldb manager
				c06.StoreValueCases(c, r, "C08", nil)
			}
			if want == "" || want == "genesis" {
				runGenesis(c, r, only)
			}
			for _, sc := range scenarios(c.Tier) {
				if want != "" && sc.Name != want {
					continue
				}
				runScenario(c, r, sc, only)
			}
		},
		Finish: func(tier string, m *xs.Result, ev *xs.Evidence) {
			ev.Coverage["evaluations"] = m.Counters["crash_points"] + m.Counters["child_kills"]
			ev.Coverage["distinct_nontrivial"] = m.Counters["crash_points_strictly_inside"]
		},
	})
}
