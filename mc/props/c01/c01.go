// Package c01 — token supply is conserved: balances + in-flight sends = recorded supply.
//
// All histories up to a depth bound over an alphabet of transfers, receives (valid, by the wrong account, repeated),
// token issue/mint/burn/update (valid and invalid), embedded-contract calls (successful, refused, refunded) and
// momentums are executed on a real node from several base states. After EVERY transition, at the confirmed ledger and
// at the pool view, an independent whole-ledger scan checks for every token:
//
//	recorded TotalSupply == sum of balances over all accounts + sum of amounts of send blocks without a receive block,
//	TotalSupply <= MaxSupply, no negative balance,
//
// and that the recorded supply of a token changed since the previous state only if the transition confirmed (or pooled)
// a token-contract receive of Issue, Mint or Burn.
package c01

import (
	"encoding/json"
	"fmt"
	"github.com/zenon-network/go-zenon/chain/genesis"
	g "github.com/zenon-network/go-zenon/chain/genesis/mock"
	"math/big"
	"strings"
	"time"

	"github.com/zenon-network/go-zenon/chain/nom"
	"github.com/zenon-network/go-zenon/common/types"
	"github.com/zenon-network/go-zenon/vm/embedded/definition"

	"verifmc/internal/hx"
	"verifmc/internal/ledger"
	"verifmc/internal/ops"
	"verifmc/internal/vnode"
	"verifmc/internal/xs"
	"verifmc/props/c10"
	"verifmc/props/c11"
)

var M = ops.Op{K: "M"}

func alphabet(thorough bool) []ops.Op {
	a := []ops.Op{
		M,
		{K: "Tx", A: 0, B: 1, T: 0, V: 5},      // plain transfer
		{K: "Tx", A: 1, B: 13, T: 1, V: -1},    // everything to an empty account
		{K: "Tx", A: 2, B: 0, T: 0, V: -2},     // balance+1: must be refused
		{K: "Tx", A: 0, B: 2, T: 2, V: 3},      // custom token (zero standard if none yet)
		{K: "Tneg", A: 3, B: 1, T: 0, V: 5},    // a transfer whose in-memory amount is negative (raw publication path)
		{K: "R", A: 1},                         // receive oldest pending
		{K: "Rwrong", A: 2, B: 1},              // receive by the wrong account
		{K: "Rdup", A: 1},                      // second receive of the same send
		{K: "Rpooldup", A: 1},                  // again, while the first receive is still unconfirmed
		{K: "RdupOld", A: 1},                   // again, acknowledging a momentum below the one that confirmed the first receive
		{K: "Call", S: "issue", A: 0, V: 1000}, // valid issue (burns the ZNN fee)
		{K: "Mint", A: 0, B: 2, T: 2, V: 400},  // owner mints within max
		{K: "Mint", A: 0, B: 2, T: 2, V: 5000}, // over max supply
		{K: "Mint", A: 1, B: 1, T: 0, V: 7},    // ZNN minted by a user: refused
		{K: "Burn", A: 0, T: 0, V: 9},          // burn ZNN
		{K: "Burn", A: 2, T: 2, V: 1},          // burn custom token by a holder
		{K: "Call", S: "refund", A: 5},         // accepted call that fails on receive: refund
		{K: "Call", S: "stake", A: 1, V: 10},   // successful call with an amount
		{K: "ReorgDrop"},                       // the node's last momentum is abandoned for a longer branch that confirms none of its blocks
	}
	if thorough {
		a = append(a,
			ops.Op{K: "Call", S: "issue", A: 1, V: 1000, B: 1}, // max < total: refused
			ops.Op{K: "Call", S: "issue", A: 1, V: 500, B: 2},  // non-mintable
			ops.Op{K: "UpdTok", A: 0, B: 2},                    // mintable -> false
			ops.Op{K: "Burn", A: 1, T: 1, V: -1},               // burn all QSR
			ops.Op{K: "Call", S: "fuse", A: 0, B: 1, V: 50},
			ops.Op{K: "Call", S: "donate", A: 6, T: 1, V: 44},
			ops.Op{K: "Call", S: "stake-collect", A: 1},
			ops.Op{K: "Call", S: "pillar-collect", A: 10},
			ops.Op{K: "M", V: 1},
		)
	}
	return a
}

func bases(thorough bool) []hx.Base {
	b := []hx.Base{
		{Name: "genesis"},
		{Name: "token-issued+pending", Prefix: []ops.Op{
			{K: "Call", S: "issue", A: 0, V: 1000}, M, M, {K: "R", A: 0}, {K: "Tx", A: 0, B: 2, T: 2, V: 100}, {K: "Tx", A: 0, B: 1, T: 0, V: 77}, M,
			{K: "R", A: 2},
		}},
	}
	if thorough {
		// two short epochs with a stake and a delegation so that rewards are pending (minted by contracts on collect)
		p := []ops.Op{{K: "Call", S: "stake", A: 1, V: 100}, {K: "Call", S: "delegate", A: 2, B: 1}, {K: "Call", S: "issue", A: 0, V: 1000}}
		for i := 0; i < 15; i++ {
			p = append(p, M)
		}
		b = append(b, hx.Base{Name: "rewards-pending", Prefix: p})
	}
	return b
}

// gapBase / gapAlphabet: an account without any block gets plasma and a pending send; its first blocks, other traffic and
// a momentum that skips a pooled predecessor (Mgap)
func gapBase() hx.Base {
	return hx.Base{Name: "new-account-with-plasma+pending", Prefix: []ops.Op{
		{K: "Call", S: "fuse", A: 0, B: 13, V: 50}, {K: "Tx", A: 0, B: 13, T: 0, V: 77}, {K: "Tx", A: 0, B: 1, T: 0, V: 5}, M, M,
	}}
}

func gapAlphabet() []ops.Op {
	return []ops.Op{M, {K: "R", A: 13}, {K: "Tx", A: 13, B: 1, T: 0, V: 5}, {K: "R", A: 1}, {K: "Tx", A: 1, B: 2, T: 0, V: 3}, {K: "Mgap"}}
}

type prevState struct {
	conf, pool map[types.ZenonTokenStandard]*big.Int
}

func tokenReceives(v *ledger.View) int {
	n := 0
	ac := v.Accounts[types.TokenContract]
	if ac == nil {
		return 0
	}
	for _, b := range ac.Blocks {
		if b.BlockType == nom.BlockTypeContractReceive {
			n++
		}
	}
	return n
}

func init() {
	// ReorgDrop: a second producer shares the chain up to the node's frontier minus one and makes two empty momentums (one
	// slot skipped); the node is handed that longer branch. Everything the abandoned momentum confirmed is unconfirmed again
	// (sends, receives, calls), and so is everything pooled that depended on it.
	ops.Extra["ReorgDrop"] = func(n *vnode.Node, o ops.Op) string {
		H := n.Height()
		if H < 2 {
			return "too-short"
		}
		q := vnode.New(vnode.Options{Dir: n.Opts.Dir + "-drop"})
		defer q.Destroy()
		if H-1 >= 2 {
			if _, err, pan := q.InsertChain(vnode.CloneBatch(n.Range(2, H-1))); err != nil || pan != nil {
				return "err:prefix"
			}
		}
		if err := q.ProduceMomentumOnly(1); err != nil {
			return "err:produce"
		}
		if err := q.ProduceMomentumOnly(0); err != nil {
			return "err:produce"
		}
		if _, err, pan := n.InsertChain(vnode.CloneBatch(q.Range(H, q.Height()))); err != nil || pan != nil {
			return "err:switch"
		}
		return "ok"
	}
	// Mgap: a momentum of the (misbehaving) pillar elected for the next slot arrives through the bridge. It confirms the
	// pool except the FIRST of two or more consecutive pooled blocks of one user account: the later block's state is
	// cemented without the earlier block's effects (a receive that is then still pending, a spend that never happened)
	ops.Extra["Mgap"] = func(n *vnode.Node, o ops.Op) string {
		pool := n.Chain.GetNewMomentumContent()
		count := map[types.Address]int{}
		for _, b := range pool {
			if !types.IsEmbeddedAddress(b.Address) {
				count[b.Address]++
			}
		}
		var content []*nom.AccountBlock
		skipped := false
		for _, b := range pool {
			if !skipped && count[b.Address] >= 2 {
				skipped = true
				continue
			}
			content = append(content, b)
		}
		if !skipped {
			return "no-account-with-two-pooled-blocks"
		}
		gm, err := n.ForgeMomentum(0, content)
		if err != nil {
			return "err:forge"
		}
		if _, err, pan := n.InsertChain([]*nom.DetailedMomentum{gm}); err != nil || pan != nil {
			return "refused"
		}
		return "ACCEPTED"
	}
	xs.Register(&xs.Check{
		ID:     "C01",
		Level:  "model_checking",
		Shards: func(tier string) int { return 16 },
		Budget: func(tier string) time.Duration {
			if tier == "thorough" {
				return 25 * time.Minute
			}
			return 3 * time.Minute
		},
		Assumptions: []string{
			"mock genesis; election tick 3 slots, epoch 2 ticks (6 momentums) so that reward updates happen inside the explored chains",
			"amount domain {0 via refused calls, small literals, whole balance, balance+1}; histories up to the stated depth from the stated base states",
			"in-flight sends are found by an independent scan of all account chains (a send with no block whose FromBlockHash references it), not through the mailbox keys",
		},
		Run: run,
		Finish: func(tier string, m *xs.Result, ev *xs.Evidence) {
			ev.Coverage["states"] = m.Counters["states"]
			ev.Coverage["transitions"] = m.Counters["transitions"]
			ev.Coverage["traces_validated_against_impl"] = m.Counters["histories"]
		},
	})
}

func run(c *xs.Ctx, r *xs.Result) {
	vnode.SmallConsensus(2)
	// quick: 16-op alphabet, depth 3, 2 base states. thorough: the same alphabet at depth 4 from 3 base states, plus the
	// extended 25-op alphabet at depth 3.
	depth := 3
	if c.Thorough() {
		depth = 4
	}
	alpha := alphabet(false)
	bs := bases(c.Thorough())
	if c.Replay != nil {
		var rep struct {
			Base    string   `json:"base"`
			History []ops.Op `json:"history"`
		}
		if err := json.Unmarshal(c.Replay, &rep); err != nil {
			panic(err)
		}
		for _, b := range append(bases(true), gapBase()) {
			if b.Name == rep.Base {
				replay(c, r, b, rep.History)
			}
		}
		for _, src := range borrowed() {
			for _, b := range src.bases {
				if b.Name == rep.Base {
					src.setup()
					replay(c, r, b, rep.History)
				}
			}
		}
		for _, b := range c11.Bases() {
			if "tight:c11:"+b.Name == rep.Base {
				c11.Setup()
				replay(c, r, hx.Base{Name: rep.Base, Prefix: b.Prefix}, rep.History)
			}
		}
		return
	}
	var prev *prevState
	var prevTokRecv [2]int
	e := &hx.Explorer{Ctx: c, Res: r, Bases: bs, Alphabet: alpha, Depth: depth,
		OnBase: func(b hx.Base, n *vnode.Node) {
			conf := ledger.Confirmed(n)
			pool := ledger.WithPool(n, conf)
			if s := conf.SupplyEquation(); s != "" {
				r.Violate("C01:base-state:"+b.Name, "base state violates the equation: "+s, map[string]interface{}{"base": b.Name})
			}
			prev = &prevState{conf.Supplies(), pool.Supplies()}
			prevTokRecv = [2]int{tokenReceives(conf), tokenReceives(pool)}
		},
		Check: func(s *hx.Step) bool { return check(r, s, &prev, &prevTokRecv) },
	}
	e.Run()
	if !r.Incomplete {
		eg := *e
		eg.Bases, eg.Alphabet, eg.Depth = []hx.Base{gapBase()}, gapAlphabet(), depth+1
		eg.Run()
	}
	if c.Thorough() && !r.Incomplete {
		e2 := *e
		e2.Alphabet = alphabet(true)
		e2.Depth = 3
		e2.Run()
	}
	// Part 2: "every embedded-contract call, including failed calls that are refunded" and "reward minting": the
	// deposit / withdrawal alphabets of C10 (stake, plasma, sentinel, pillar QSR and collateral, HTLC, liquidity stake,
	// bridge wrap / unwrap) and the reward alphabet of C11 (epoch updates after missed slots and outages, collects),
	// from their base states, under the supply oracle. Their process-global configurations are applied in this order
	// after the part above has run (each only shrinks waiting times).
	bd := 2
	if c.Thorough() {
		bd = 3
	}
	for _, src := range borrowed() {
		if r.Incomplete {
			return
		}
		src.setup()
		eb := *e
		eb.Bases, eb.Alphabet, eb.Depth, eb.SnapshotBases = src.bases, src.alpha, bd, true
		eb.Run()
		r.Count("borrowed_families", 1)
	}
	// "never exceeds the token's maximum supply" for what the embedded contracts mint: the reward histories once more on a
	// genesis whose ZNN / QSR caps leave room for one coin (c11's configuration is the last one applied above)
	if !r.Incomplete {
		var bs []hx.Base
		for _, b := range c11.Bases() {
			bs = append(bs, hx.Base{Name: "tight:c11:" + b.Name, Prefix: b.Prefix})
		}
		et := *e
		et.Bases, et.Alphabet, et.Depth, et.SnapshotBases, et.NewNode = bs, tightAlphabet(), bd, true, newNodeFor("tight:")
		et.Run()
		r.Count("tight_cap_families", 1)
	}
}

func tightAlphabet() []ops.Op {
	return []ops.Op{M, {K: "M3"}, {K: "Call", S: "stake-collect", A: 1}, {K: "Call", S: "pillar-collect", A: 10}, {K: "Call", S: "update-stake", A: 3}}
}

type source struct {
	name  string
	setup func()
	alpha []ops.Op
	bases []hx.Base
}

func borrowed() []source {
	var out []source
	for _, f := range c10.Families(false) {
		var bs []hx.Base
		for _, b := range f.Bases {
			bs = append(bs, hx.Base{Name: "c10:" + b.Name, Prefix: b.Prefix})
		}
		// plus three momentums in one step, so that what a call sets off in other contracts happens inside the depth bound
		alpha := append(append([]ops.Op{}, f.Alpha...), ops.Op{K: "M3"})
		out = append(out, source{"c10:" + f.Name, c10.Setup, alpha, bs})
	}
	var alpha []ops.Op
	for _, o := range c11.Alphabet(false) {
		if o.K != "Q" { // a read-only query: nothing for the supply equation
			alpha = append(alpha, o)
		}
	}
	var bs []hx.Base
	for _, b := range c11.Bases() {
		bs = append(bs, hx.Base{Name: "c11:" + b.Name, Prefix: b.Prefix})
	}
	out = append(out, source{"c11:rewards", c11.Setup, alpha, bs})
	return out
}

func check(r *xs.Result, s *hx.Step, prev **prevState, prevTokRecv *[2]int) bool {
	conf := ledger.Confirmed(s.Node)
	pool := ledger.WithPool(s.Node, conf)
	rep := map[string]interface{}{"base": s.Base, "history": s.History}
	ok := true
	for _, v := range []*ledger.View{conf, pool} {
		if msg := v.SupplyEquation(); msg != "" {
			r.Violate("C01:supply-equation:"+s.Op.K+":"+s.Op.S, hx.Describe(s)+": "+msg, rep)
			ok = false
		}
	}
	// supply changes only through token-contract receives (issue / mint / burn)
	cur := &prevState{conf.Supplies(), pool.Supplies()}
	curTokRecv := [2]int{tokenReceives(conf), tokenReceives(pool)}
	for vi, pair := range [][2]map[types.ZenonTokenStandard]*big.Int{{(*prev).conf, cur.conf}, {(*prev).pool, cur.pool}} {
		changed := false
		for z, now := range pair[1] {
			if before, ok := pair[0][z]; !ok || before.Cmp(now) != 0 {
				changed = true
			}
		}
		if changed {
			r.Count("supply_changing_transitions", 1)
			if curTokRecv[vi] == prevTokRecv[vi] {
				r.Violate("C01:supply-changed-without-token-contract-receive:"+s.Op.K+":"+s.Op.S,
					hx.Describe(s)+fmt.Sprintf(": recorded supplies changed (%v -> %v) although no token-contract receive block was added", pair[0], pair[1]), rep)
				ok = false
			}
		}
	}
	*prev = cur
	*prevTokRecv = curTokRecv
	// vacuity counters
	recv := pool.Receivers()
	inflight := 0
	for _, ac := range pool.Accounts {
		for _, b := range ac.Blocks {
			if ledger.IsSend(b) && len(recv[b.Hash]) == 0 && b.Amount.Sign() > 0 {
				inflight++
			}
			if b.BlockType == nom.BlockTypeContractSend {
				r.Add("contract_sends", b.Hash.String())
			}
		}
	}
	if inflight > 0 {
		r.Count("states_with_inflight", 1)
	}
	if len(conf.Tokens) > 2 {
		r.Count("states_with_custom_token", 1)
	}
	_ = definition.ABIToken
	return ok
}

// tightGenesis: the mock genesis with the maximum supply of ZNN and QSR lowered to the genesis supply plus one coin: what
// embedded contracts mint (rewards, the liquidity programme) hits the cap at once
var tightCfg *genesis.GenesisConfig

func tightGenesis() *genesis.GenesisConfig {
	if tightCfg != nil {
		return tightCfg
	}
	data, err := json.Marshal(g.EmbeddedGenesis)
	if err != nil {
		panic(err)
	}
	cfg := new(genesis.GenesisConfig)
	if err := json.Unmarshal(data, cfg); err != nil {
		panic(err)
	}
	n := 0
	for _, t := range cfg.TokenConfig.Tokens {
		if t.TokenStandard == types.ZnnTokenStandard || t.TokenStandard == types.QsrTokenStandard {
			t.MaxSupply = new(big.Int).Add(t.TotalSupply, big.NewInt(g.Zexp))
			n++
		}
	}
	if n != 2 {
		panic("harness: ZNN and QSR not found in the mock genesis")
	}
	if err := genesis.CheckGenesis(cfg); err != nil {
		panic(fmt.Sprintf("harness: tight genesis is not consistent: %v", err))
	}
	tightCfg = cfg
	return cfg
}

func newNodeFor(base string) func(dir string) *vnode.Node {
	if strings.HasPrefix(base, "tight:") {
		return func(dir string) *vnode.Node { return vnode.New(vnode.Options{Dir: dir, Genesis: tightGenesis()}) }
	}
	return func(dir string) *vnode.Node { return vnode.New(vnode.Options{Dir: dir}) }
}

func replay(c *xs.Ctx, r *xs.Result, b hx.Base, hist []ops.Op) {
	n := newNodeFor(b.Name)(c.TempDir())
	defer n.Destroy()
	for _, o := range b.Prefix {
		ops.Apply(n, o)
	}
	conf := ledger.Confirmed(n)
	pool := ledger.WithPool(n, conf)
	prev := &prevState{conf.Supplies(), pool.Supplies()}
	ptr := [2]int{tokenReceives(conf), tokenReceives(pool)}
	var h []ops.Op
	for i, o := range hist {
		out := ops.Apply(n, o)
		h = append(h, o)
		r.Count("transitions", 1)
		check(r, &hx.Step{Base: b.Name, History: h, Op: o, Outcome: out, Node: n, Depth: i + 1}, &prev, &ptr)
	}
	r.Count("states", 1)
	r.Count("histories", 1)
}
