package main

import (
	_ "verifmc/props/c03"

	"verifmc/internal/xs"
)

func main() { xs.Main() }
