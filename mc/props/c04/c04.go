// Package c04 — each send is received at most once; contract inboxes are strict FIFO.
//
// All histories up to a depth bound over sends to several embedded contracts from several accounts, user receives in
// and out of order, repeated receives, receives by the wrong account, competing (replacing) receives in the pool,
// out-of-order contract receives (hand-generated for inbox entry #2 while #1 is pending), momentums with and without
// skipped slots, and restarts. After every transition an independent whole-ledger scan (confirmed ledger and pool view):
//   - every send has at most one receiving block, made by the account the send was addressed to;
//   - for every embedded contract the sequence of sends its receive blocks reference equals a prefix of the queue
//     recomputed from the ledger: sends to it ordered by confirming momentum, position in the momentum content, block
//     before its descendants.
package c04

import (
	"encoding/json"
	"fmt"
	"math/big"
	"strings"
	"time"

	"github.com/zenon-network/go-zenon/chain/nom"
	"github.com/zenon-network/go-zenon/common/types"

	"verifmc/internal/hx"
	"verifmc/internal/ledger"
	"verifmc/internal/ops"
	"verifmc/internal/vnode"
	"verifmc/internal/xs"
)

var M = ops.Op{K: "M"}

var contracts = []types.Address{types.StakeContract, types.SentinelContract, types.PillarContract, types.PlasmaContract, types.TokenContract, types.AcceleratorContract}

// expectedQueues recomputes, from the confirmed chain alone, the order in which sends to each embedded contract were
// confirmed.
func expectedQueues(n *vnode.Node) map[types.Address][]types.Hash {
	out := map[types.Address][]types.Hash{}
	st := n.Chain.GetFrontierMomentumStore()
	H := st.Identifier().Height
	for h := uint64(1); h <= H; h++ {
		m, err := st.GetMomentumByHeight(h)
		if err != nil || m == nil {
			panic(fmt.Sprintf("momentum %d: %v", h, err))
		}
		for _, hd := range m.Content {
			b, err := st.GetAccountBlock(*hd)
			if err != nil || b == nil {
				panic(fmt.Sprintf("content block missing: %v", err))
			}
			if b.BlockType == nom.BlockTypeContractSend {
				continue // listed in the content, but confirmed as a descendant of its receive block
			}
			for _, x := range append([]*nom.AccountBlock{b}, b.DescendantBlocks...) {
				if ledger.IsSend(x) && types.IsEmbeddedAddress(x.ToAddress) {
					out[x.ToAddress] = append(out[x.ToAddress], x.Hash)
				}
			}
		}
	}
	return out
}

func invariants(n *vnode.Node) (key, msg string) {
	conf := ledger.Confirmed(n)
	pool := ledger.WithPool(n, conf)
	queues := expectedQueues(n)
	for _, v := range []*ledger.View{conf, pool} {
		view := "confirmed ledger"
		if v.Pool {
			view = "pool view"
		}
		sends := map[types.Hash]*nom.AccountBlock{}
		for _, ac := range v.Accounts {
			for _, b := range ac.Blocks {
				if ledger.IsSend(b) {
					sends[b.Hash] = b
				}
			}
		}
		for sh, rs := range v.Receivers() {
			if len(rs) > 1 {
				return "send-received-twice", fmt.Sprintf("%s: send %v is received by %d blocks (%v@%d and %v@%d)", view, sh, len(rs), rs[0].Address, rs[0].Height, rs[1].Address, rs[1].Height)
			}
			s := sends[sh]
			if s == nil {
				return "receive-of-unknown-send", fmt.Sprintf("%s: block %v@%d receives %v which is not a send block of the ledger", view, rs[0].Address, rs[0].Height, sh)
			}
			if s.ToAddress != rs[0].Address {
				return "received-by-wrong-account", fmt.Sprintf("%s: send %v addressed to %v is received by %v", view, sh, s.ToAddress, rs[0].Address)
			}
		}
		for _, ca := range types.EmbeddedContracts {
			ac := v.Accounts[ca]
			if ac == nil {
				continue
			}
			var got []types.Hash
			for _, b := range ac.Blocks {
				if b.BlockType == nom.BlockTypeContractReceive {
					got = append(got, b.FromBlockHash)
				}
			}
			want := queues[ca]
			if len(got) > len(want) {
				return "contract-received-unconfirmed-send", fmt.Sprintf("%s: contract %v has %d receive blocks but only %d sends to it are confirmed", view, ca, len(got), len(want))
			}
			for i := range got {
				if got[i] != want[i] {
					return "contract-inbox-not-fifo", fmt.Sprintf("%s: contract %v receive #%d references %v, the %d-th confirmed send to it is %v", view, ca, i, got[i], i, want[i])
				}
			}
		}
	}
	return "", ""
}

func init() {
	// CRskip: generate and insert the contract receive for inbox entry #2 of contract B while entry #1 is still pending
	ops.Extra["CRskip"] = func(n *vnode.Node, o ops.Op) string {
		ca := contracts[o.B]
		q := expectedQueues(n)[ca]
		done := 0
		for _, b := range n.Chain.GetUncommittedAccountBlocksByAddress(ca) {
			if b.BlockType == nom.BlockTypeContractReceive {
				done++
			}
		}
		acc := n.Chain.GetFrontierMomentumStore().GetAccountStore(ca)
		for h := uint64(1); h <= acc.Identifier().Height; h++ {
			if b, _ := acc.ByHeight(h); b != nil && b.BlockType == nom.BlockTypeContractReceive {
				done++
			}
		}
		if done+1 >= len(q) {
			return "no-second-entry"
		}
		send, err := n.Chain.GetFrontierMomentumStore().GetAccountBlockByHash(q[done+1])
		if err != nil || send == nil {
			return "no-send"
		}
		res, err := n.Sup.GenerateAutoReceive(send)
		if err != nil {
			return "refused-at-generation"
		}
		ins := n.Chain.AcquireInsert("c04 out of order")
		err = n.Chain.AddAccountBlockTransaction(ins, res.Transaction)
		ins.Unlock()
		if err != nil {
			return "refused-at-insert"
		}
		return "ACCEPTED"
	}
	// CRforge: the same out-of-order contract receive, arriving from the network. Contract receive blocks carry no
	// signature: the block is built with the node's own generation code minus the verifier's next-in-line decision
	// (vm.VerifForgeContractReceive, build overlay) and handed to the node through the bridge like any gossiped block
	ops.Extra["CRforge"] = func(n *vnode.Node, o ops.Op) (out string) {
		ca := contracts[o.B]
		q := expectedQueues(n)[ca]
		done := 0
		for _, b := range n.Chain.GetUncommittedAccountBlocksByAddress(ca) {
			if b.BlockType == nom.BlockTypeContractReceive {
				done++
			}
		}
		acc := n.Chain.GetFrontierMomentumStore().GetAccountStore(ca)
		for h := uint64(1); h <= acc.Identifier().Height; h++ {
			if b, _ := acc.ByHeight(h); b != nil && b.BlockType == nom.BlockTypeContractReceive {
				done++
			}
		}
		if done+1 >= len(q) {
			return "no-second-entry"
		}
		send, err := n.Chain.GetFrontierMomentumStore().GetAccountBlockByHash(q[done+1])
		if err != nil || send == nil {
			return "no-send"
		}
		var forged *nom.AccountBlock
		func() {
			defer func() {
				if r := recover(); r != nil {
					out = "forging-failed"
				}
			}()
			if forged, err = n.Sup.VerifForgeContractReceive(send); err != nil {
				out = "forging-failed"
			}
		}()
		if out != "" {
			return out
		}
		if err, pan := n.AddAccountBlocks([]*nom.AccountBlock{vnode.CloneBlock(forged)}); pan != nil {
			return "refused-with-panic"
		} else if err != nil {
			return "refused"
		}
		return "ACCEPTED"
	}
	// Mtwice: a momentum of the (misbehaving) pillar elected for the next slot arrives through the bridge; its content lists
	// a pooled user send to an embedded contract twice (changes hash computed over the doubled content). The blocks shipped
	// with it are dressed up so that the number of distinct identifiers matches the content: the send's second copy is
	// typed as a contract send (a type the per-block checks of a delivered momentum skip), plus a filler of that type.
	ops.Extra["Mtwice"] = func(n *vnode.Node, o ops.Op) string {
		pool := n.Chain.GetNewMomentumContent()
		var call *nom.AccountBlock
		for _, b := range pool {
			if b.BlockType == nom.BlockTypeUserSend && types.IsEmbeddedAddress(b.ToAddress) {
				call = b
				break
			}
		}
		if call == nil {
			return "no-pooled-call"
		}
		gm, err := n.ForgeMomentum(0, append(append([]*nom.AccountBlock{}, pool...), call))
		if err != nil {
			return "err:forge"
		}
		var shipped []*nom.AccountBlock
		for _, b := range gm.AccountBlocks {
			if b.Hash != call.Hash {
				shipped = append(shipped, b)
			}
		}
		shipped = append(shipped,
			&nom.AccountBlock{BlockType: nom.BlockTypeContractSend, Address: call.ToAddress, Hash: call.Hash, Height: call.Height, Amount: ops.Big(0)},
			&nom.AccountBlock{BlockType: nom.BlockTypeContractSend, Address: call.ToAddress, Hash: types.NewHash([]byte("filler")), Height: 77, Amount: ops.Big(0)})
		gm.AccountBlocks = shipped
		if _, err, pan := n.InsertChain([]*nom.DetailedMomentum{gm}); err != nil || pan != nil {
			return "refused"
		}
		return "ACCEPTED"
	}
	// Rhi: account A receives its pending send number B with a higher plasma ratio (can replace a pooled block at that height)
	ops.Extra["Rhi"] = func(n *vnode.Node, o ops.Op) string {
		addr := ops.Users[o.A].Address
		st := n.Chain.GetFrontierMomentumStore()
		hashes, err := st.GetAccountMailbox(addr).GetUnreceivedAccountBlockHashes(8)
		if err != nil || o.B >= len(hashes) {
			return "nopending"
		}
		conf := st.GetAccountStore(addr).Identifier()
		// built on the CONFIRMED frontier of the account, so that it competes with whatever the pool holds at that height
		tmpl := &nom.AccountBlock{BlockType: nom.BlockTypeUserReceive, Address: addr, FromBlockHash: hashes[o.B], PreviousHash: conf.Hash, Height: conf.Height + 1, FusedPlasma: 21000 * 3}
		tx, err := n.Generate(tmpl)
		if err != nil {
			return "err:" + err.Error()
		}
		ins := n.Chain.AcquireInsert("c04 competing receive")
		err = n.Chain.AddAccountBlockTransaction(ins, tx)
		ins.Unlock()
		if err != nil {
			return "err:" + err.Error()
		}
		return "ok"
	}
	// Reorg: a second producer that shares the chain up to the node's frontier minus one confirms the node's POOLED user
	// blocks first and the user blocks of the node's last momentum afterwards (so sends are confirmed in a different
	// order than on the abandoned branch), ends one momentum longer, and the node is handed that branch.
	ops.Extra["Reorg"] = func(n *vnode.Node, o ops.Op) string {
		H := n.Height()
		if H < 2 {
			return "too-short"
		}
		dir := n.Opts.Dir + "-q"
		q := vnode.New(vnode.Options{Dir: dir})
		defer q.Destroy()
		if H-1 >= 2 {
			if _, err, pan := q.InsertChain(vnode.CloneBatch(n.Range(2, H-1))); err != nil || pan != nil {
				return "err:prefix"
			}
		}
		user := func(bs []*nom.AccountBlock) (out []*nom.AccountBlock) {
			for _, b := range bs {
				if b.BlockType == nom.BlockTypeUserSend || b.BlockType == nom.BlockTypeUserReceive {
					out = append(out, vnode.CloneBlock(b))
				}
			}
			return
		}
		for _, b := range user(n.PoolBlocks()) {
			// blocks that do not apply on the other branch (they acknowledge the momentum it does not have) are refused there;
			// their authors send again what a send of theirs said, acknowledging the other branch's frontier
			if err, pan := q.AddAccountBlocks([]*nom.AccountBlock{b}); (err != nil || pan != nil) && b.BlockType == nom.BlockTypeUserSend {
				q.Submit(&nom.AccountBlock{BlockType: nom.BlockTypeUserSend, Address: b.Address, ToAddress: b.ToAddress, TokenStandard: b.TokenStandard,
					Amount: new(big.Int).Set(b.Amount), Data: append([]byte{}, b.Data...)})
			}
		}
		// V = 1: the other branch's pillars produce their momentums without getting to the inboxes
		produce := func(skip int) error {
			if o.V == 1 {
				return q.ProduceMomentumOnly(skip)
			}
			_, err := q.Produce(skip)
			return err
		}
		if err := produce(1); err != nil {
			return "err:produce"
		}
		for _, b := range user(n.Detailed(H).AccountBlocks) {
			q.AddAccountBlocks([]*nom.AccountBlock{b})
		}
		if err := produce(0); err != nil {
			return "err:produce"
		}
		// contract receives the node's pillar made on the branch that is about to be abandoned: a peer still on that branch
		// gossips them again after the switch (they acknowledge a momentum that is no longer on the node's chain)
		var stale []*nom.AccountBlock
		for _, b := range n.PoolBlocks() {
			if b.BlockType == nom.BlockTypeContractReceive {
				stale = append(stale, vnode.CloneBlock(b))
			}
		}
		if _, err, pan := n.InsertChain(vnode.CloneBatch(q.Range(H, q.Height()))); err != nil || pan != nil {
			return "err:switch"
		}
		taken := 0
		for _, b := range stale {
			if err, pan := n.AddAccountBlocks([]*nom.AccountBlock{b}); err == nil && pan == nil {
				taken++
			}
		}
		if taken > 0 {
			return fmt.Sprintf("ok/stale-contract-receives-taken:%d", taken)
		}
		return "ok"
	}
	ops.Extra["Restart"] = func(n *vnode.Node, o ops.Op) string {
		n.Restart()
		return "ok"
	}

	xs.Register(&xs.Check{
		ID:     "C04",
		Level:  "model_checking",
		Shards: func(tier string) int { return 16 },
		Budget: func(tier string) time.Duration {
			if tier == "thorough" {
				return 25 * time.Minute
			}
			return 3 * time.Minute
		},
		Assumptions: []string{
			"mock genesis, live-network regime (receiver enforcement height 0)",
			"the expected contract queue is recomputed from the confirmed chain (momentum by momentum, content order, block before descendants), never from the sequencer keys",
			"reorganisations: a Reorg operation hands the node a one-longer branch built by a second producer that confirms the node's pooled user blocks before those of its last momentum (fork depth 1)",
		},
		Run: run,
		Finish: func(tier string, m *xs.Result, ev *xs.Evidence) {
			ev.Coverage["states"] = m.Counters["states"]
			ev.Coverage["transitions"] = m.Counters["transitions"]
			ev.Coverage["traces_validated_against_impl"] = m.Counters["histories"]
		},
	})
}

func alphabet(thorough bool) []ops.Op {
	a := []ops.Op{
		M,
		{K: "Mo"}, // momentum without the producer's auto-receive phase: lets contract inboxes grow
		{K: "Call", S: "stake", A: 1, V: 10},
		{K: "Call", S: "stake", A: 2, V: 20},
		{K: "Call", S: "refund", A: 5},
		{K: "Call", S: "delegate", A: 3, B: 2},
		{K: "Tx", A: 0, B: 1, T: 0, V: 5},
		{K: "Tx", A: 2, B: 1, T: 2, V: 0}, // a zero-amount send: receiving it credits nothing, it must still be received once only
		{K: "R", A: 1},
		{K: "R", A: 1, B: 1}, // second oldest first (users may receive in any order)
		{K: "Rdup", A: 1},
		{K: "Rpooldup", A: 1}, // again, while the first receive is still unconfirmed
		{K: "RdupOld", A: 1},  // again, acknowledging a momentum below the one that confirmed the first receive
		{K: "Rwrong", A: 2, B: 1},
		{K: "Rhi", A: 1, B: 0},
		{K: "Rhi", A: 1, B: 1},
		{K: "CRskip", B: 0},
		{K: "CRforge", B: 0},
		{K: "Mtwice"},
		{K: "Reorg"},
		{K: "Reorg", V: 1},
	}
	if thorough {
		a = append(a,
			ops.Op{K: "M", V: 1},
			ops.Op{K: "Call", S: "stake", A: 0, V: 30},
			ops.Op{K: "CRskip", B: 1},
			ops.Op{K: "Call", S: "sentinel-deposit-qsr", A: 6, V: 10},
			ops.Op{K: "Restart"},
			ops.Op{K: "R", A: 5},
		)
	}
	return a
}

func bases() []hx.Base {
	return []hx.Base{
		{Name: "genesis"},
		// two sends to the stake contract confirmed in different momentums in an order different from the send order, one
		// pending user send, nothing received yet by the contract (the base is built without a producer step after the last M?
		// no: M auto-receives; so the inbox entries are created by the last two calls, confirmed by the explored ops)
		{Name: "pending-user-sends+unconfirmed-calls", Prefix: []ops.Op{
			{K: "Tx", A: 0, B: 1, T: 0, V: 11}, {K: "Tx", A: 2, B: 1, T: 2, V: 0}, M,
			{K: "Call", S: "stake", A: 2, V: 20}, {K: "Call", S: "stake", A: 1, V: 10}, {K: "Call", S: "refund", A: 5},
		}},
		// one call confirmed and auto-received (contract receive pooled), a second call to the same contract still pooled: a
		// reorganisation can confirm the second before the first
		{Name: "pooled-contract-receive+pooled-call", Prefix: []ops.Op{
			{K: "Call", S: "stake", A: 1, V: 10}, M, {K: "Call", S: "stake", A: 2, V: 20},
		}},
	}
}

// c2cBase / c2cAlphabet (the call "pillar-register" is C10's: B = 3 is a new pillar name): a call whose receive block makes the
// contract call another contract (pillar Register burns the QSR
// deposit through a send to the token contract), momentums of pillars that have not seen the pool (the pooled receive and
// its batched send are re-applied to the pool when such a momentum arrives) and complete / incomplete producer events
func c2cBase() hx.Base {
	return hx.Base{Name: "pillar-qsr-deposited", Prefix: []ops.Op{{K: "Call", S: "pillar-deposit-qsr", A: 5, V: 190000}, M, M}}
}

func c2cAlphabet() []ops.Op {
	return []ops.Op{M, {K: "Mo"}, {K: "Mforeign"}, {K: "Call", S: "pillar-register", A: 5, B: 3}, {K: "Call", S: "stake", A: 1, V: 10}, {K: "Mtwice"}}
}

func allBases() []hx.Base { return append(bases(), c2cBase()) }

func run(c *xs.Ctx, r *xs.Result) {
	if c.Replay != nil {
		var rep struct {
			Base    string   `json:"base"`
			History []ops.Op `json:"history"`
		}
		if err := json.Unmarshal(c.Replay, &rep); err != nil {
			panic(err)
		}
		for _, b := range allBases() {
			if b.Name != rep.Base {
				continue
			}
			n := vnode.New(vnode.Options{Dir: c.TempDir()})
			for _, o := range b.Prefix {
				ops.Apply(n, o)
			}
			var h []ops.Op
			for i, o := range rep.History {
				out := ops.Apply(n, o)
				h = append(h, o)
				check(r, &hx.Step{Base: b.Name, History: h, Op: o, Outcome: out, Node: n, Depth: i + 1})
				r.Count("transitions", 1)
			}
			n.Destroy()
			r.Count("states", 1)
			r.Count("histories", 1)
		}
		return
	}
	depth := 3
	if c.Thorough() {
		depth = 4
	}
	e := &hx.Explorer{Ctx: c, Res: r, Bases: bases(), Alphabet: alphabet(false), Depth: depth,
		OnBase: func(b hx.Base, n *vnode.Node) {
			if k, msg := invariants(n); k != "" {
				r.Violate("C04:base:"+k, "base "+b.Name+": "+msg, map[string]interface{}{"base": b.Name})
			}
		},
		Check: func(s *hx.Step) bool { return check(r, s) },
	}
	e.Run()
	if !r.Incomplete {
		ec := *e
		ec.Bases, ec.Alphabet, ec.Depth = []hx.Base{c2cBase()}, c2cAlphabet(), depth+1
		ec.Run()
	}
	if c.Thorough() && !r.Incomplete {
		e2 := *e
		e2.Alphabet = alphabet(true)
		e2.Depth = 3
		e2.Run()
	}
}

func check(r *xs.Result, s *hx.Step) bool {
	if s.Op.K == "CRskip" {
		r.Add("crskip_outcomes", s.Outcome)
	}
	if s.Op.K == "CRforge" {
		r.Add("crforge_outcomes", s.Outcome)
	}
	if (s.Op.K == "Rdup" || s.Op.K == "Rwrong") && s.Outcome == "ok" {
		r.Count("suspicious_receives_accepted", 1)
	}
	if s.Op.K == "Rhi" && s.Outcome == "ok" {
		r.Count("competing_receives_accepted", 1)
	}
	k, msg := invariants(s.Node)
	if k != "" {
		r.Violate("C04:"+k+":"+s.Op.K, hx.Describe(s)+": "+msg, map[string]interface{}{"base": s.Base, "history": s.History})
		return false
	}
	// "without skipping": a producer event that ran to its end leaves no confirmed send to a contract unreceived - whoever
	// confirmed it (op Mo: the momentum of a pillar whose task ended before it reached the inboxes), the next pillar that
	// gets to work receives it
	if s.Op.K == "M" && strings.HasPrefix(s.Outcome, "m") && s.Node.LastProduceErr == nil {
		for _, ca := range contracts {
			acc := s.Node.Chain.GetFrontierAccountStore(ca)
			if hd := acc.SequencerFront(s.Node.Chain.GetFrontierMomentumStore().GetAccountMailbox(ca)); hd != nil {
				r.Violate("C04:confirmed-send-left-in-inbox-after-a-complete-producer-event:"+s.Op.K, hx.Describe(s)+fmt.Sprintf(": the pillar's producer event completed without error, yet send %v is still waiting in the inbox of %v", hd.Hash, ca),
					map[string]interface{}{"base": s.Base, "history": s.History})
				return false
			}
		}
	}
	// vacuity: count contract receives and states where an inbox holds >= 2 pending entries
	q := expectedQueues(s.Node)
	for ca, want := range q {
		got := 0
		acc := s.Node.Chain.GetFrontierAccountStore(ca)
		for h := uint64(1); h <= acc.Identifier().Height; h++ {
			if b, _ := acc.ByHeight(h); b != nil && b.BlockType == nom.BlockTypeContractReceive {
				got++
			}
		}
		if len(want)-got >= 2 {
			r.Count("states_with_inbox_depth_ge_2", 1)
		}
		if got > 0 {
			r.Count("states_with_contract_receives", 1)
		}
	}
	return true
}
