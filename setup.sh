#!/bin/bash
# setup_cmd: build the checker offline from files on disk (warms the build cache so later rebuilds are incremental).
set -e
mkdir -p /verif/.work/bin /verif/.work/tmp /verif/evidence /verif/replays
VERIF_BUILD_RACE=1 /verif/build.sh
/verif/.work/bin/zmc list
