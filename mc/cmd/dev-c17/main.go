package main

import (
	_ "verifmc/props/c17"

	"verifmc/internal/xs"
)

func main() { xs.Main() }
