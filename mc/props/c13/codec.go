package c13

import (
	"bytes"
	"crypto/ed25519"
	"encoding/json"
	"fmt"
	"math/big"
	"regexp"

	"github.com/ethereum/go-ethereum/rlp"

	"github.com/zenon-network/go-zenon/chain/nom"
	"github.com/zenon-network/go-zenon/common/types"
	"github.com/zenon-network/go-zenon/rpc/api"

	"verifmc/internal/ops"
	"verifmc/internal/vnode"
	"verifmc/internal/xs"
)

// Part A — codecs.

type codecCtx struct {
	r *xs.Result
}

func (cc *codecCtx) fail(codec, kind, what, obj string) {
	cc.r.Violate("C13:codec:"+codec+":"+kind+":"+what, fmt.Sprintf("%s of %s %s: %s", codec, kind, obj, what), replayB{Part: "A"})
}

func blockShape(b *nom.AccountBlock) string {
	d := "nil"
	switch {
	case b.Data != nil && len(b.Data) == 0:
		d = "empty"
	case len(b.Data) == 1:
		d = "1"
	case len(b.Data) > 1 && len(b.Data) < 1024:
		d = "short"
	case len(b.Data) >= 1024:
		d = "1KiB+"
	}
	a := "nil"
	if b.Amount != nil {
		switch {
		case b.Amount.Sign() == 0:
			a = "0"
		case b.Amount.BitLen() == 255:
			a = "max"
		default:
			a = "pos"
		}
	}
	pl := "0"
	if b.TotalPlasma == ^uint64(0) {
		pl = "max"
	} else if b.TotalPlasma > 0 {
		pl = "pos"
	}
	return fmt.Sprintf("block:type%d:data=%s:amount=%s:desc=%d:plasma=%s:key=%d:sig=%d:nonce0=%v", b.BlockType, d, a, len(b.DescendantBlocks), pl, len(b.PublicKey), len(b.Signature), b.Nonce == nom.Nonce{})
}

// checkBlock runs one account block through every codec.
func (cc *codecCtx) checkBlock(b *nom.AccountBlock, name string) {
	r := cc.r
	r.Add("codec_shapes", blockShape(b))
	want := mustSer(b)
	wantHash := b.ComputeHash()
	cmp := func(codec string, got *nom.AccountBlock, err error) {
		r.Count("codec_evaluations", 1)
		r.Add("codecs", codec+":block")
		if err != nil {
			cc.fail(codec, "account-block", "decode(encode(b)) fails: "+errClass(err), name)
			return
		}
		if !bytes.Equal(mustSer(got), want) {
			cc.fail(codec, "account-block", "re-serialises to different protobuf bytes", name+" shape "+blockShape(b))
			return
		}
		if got.ComputeHash() != wantHash {
			cc.fail(codec, "account-block", "hash changes", name)
		}
		if got.Hash != b.Hash {
			cc.fail(codec, "account-block", "Hash field changes", name)
		}
	}
	// protobuf
	{
		got, err := nom.DeserializeAccountBlock(want)
		cmp("protobuf", got, err)
	}
	// RLP, as TxMsg: []*nom.AccountBlock
	{
		var out []*nom.AccountBlock
		enc, err := rlp.EncodeToBytes([]*nom.AccountBlock{b})
		if err == nil {
			err = rlp.DecodeBytes(enc, &out)
		}
		var got *nom.AccountBlock
		if err == nil && len(out) == 1 {
			got = out[0]
		} else if err == nil {
			err = fmt.Errorf("decoded %d blocks", len(out))
		}
		cmp("rlp", got, err)
	}
	// JSON, nom form
	var nomJSON []byte
	{
		enc, err := json.Marshal(b)
		got := new(nom.AccountBlock)
		if err == nil {
			nomJSON = enc
			err = json.Unmarshal(enc, got)
		}
		cmp("json-nom", got, err)
	}
	// JSON, rpc/api form (what PublishRawTransaction receives and what the ledger API returns), incl. ToLedgerBlock
	{
		ab := &api.AccountBlock{AccountBlock: *b.Copy(), ConfirmationDetail: &api.AccountBlockConfirmationDetail{NumConfirmations: 1, MomentumHeight: 2},
			TokenInfo: &api.Token{TokenName: "t", TokenSymbol: "T", TotalSupply: big.NewInt(5), MaxSupply: big.NewInt(7), ZenonTokenStandard: b.TokenStandard}}
		ab.PairedAccountBlock = &api.AccountBlock{AccountBlock: *b.Copy()}
		enc, err := json.Marshal(ab)
		got := new(api.AccountBlock)
		if err == nil {
			err = json.Unmarshal(enc, got)
		}
		var lb, paired *nom.AccountBlock
		if err == nil {
			lb, err = got.ToLedgerBlock()
			if got.PairedAccountBlock != nil {
				paired = &got.PairedAccountBlock.AccountBlock
			} else {
				err = fmt.Errorf("paired block lost")
			}
		}
		cmp("json-api", lb, err)
		if err == nil {
			cmp("json-api-paired", paired, nil)
		}
	}
	// Copy (used on the way from the RPC form to the ledger form)
	cmp("copy", b.Copy(), nil)
	// JSON number/string forms of every scalar member of the nom JSON object
	if nomJSON != nil {
		cc.jsonForms(b, nomJSON, want, name)
	}
}

var reNumMember = regexp.MustCompile(`"([A-Za-z]+)":(\d+)([,}])`)
var reStrNumMember = regexp.MustCompile(`"([A-Za-z]+)":"(\d+)"([,}])`)

// jsonForms: for every top-level-or-nested member whose value is a JSON number, the same digits as a string, and for
// every member whose value is a string of digits, the same digits as a number (one member at a time). The decoder must
// refuse the form or produce the same block.
func (cc *codecCtx) jsonForms(b *nom.AccountBlock, enc []byte, want []byte, name string) {
	r := cc.r
	try := func(form string, alt []byte) {
		if bytes.Equal(alt, enc) {
			return
		}
		r.Count("codec_evaluations", 1)
		r.Count("json_forms_tried", 1)
		got := new(nom.AccountBlock)
		if err := json.Unmarshal(alt, got); err != nil {
			r.Count("json_forms_refused", 1)
			r.Add("json_forms", form+":refused")
			return
		}
		if bytes.Equal(mustSer(got), want) {
			r.Count("json_forms_same_block", 1)
			r.Add("json_forms", form+":decoded-to-same-block")
			return
		}
		// decoded to another block: harmless only if its hash no longer matches (a node recomputes the hash)
		if deepHashValid(got) && got.Hash == b.Hash {
			cc.fail("json-nom", "account-block", "alternative JSON form "+form+" decodes to a different block with the same valid hash", name)
			return
		}
		r.Count("json_forms_other_block_hash_mismatch", 1)
		r.Add("json_forms", form+":decoded-to-other-block-with-hash-mismatch")
	}
	for _, m := range reNumMember.FindAllSubmatchIndex(enc, -1) {
		member := string(enc[m[2]:m[3]])
		alt := append([]byte{}, enc[:m[4]]...)
		alt = append(alt, '"')
		alt = append(alt, enc[m[4]:m[5]]...)
		alt = append(alt, '"')
		alt = append(alt, enc[m[5]:]...)
		try(member+":number-as-string", alt)
	}
	for _, m := range reStrNumMember.FindAllSubmatchIndex(enc, -1) {
		member := string(enc[m[2]:m[3]])
		alt := append([]byte{}, enc[:m[4]-1]...)
		alt = append(alt, enc[m[4]:m[5]]...)
		alt = append(alt, enc[m[5]+1:]...)
		try(member+":string-as-number", alt)
		for _, sp := range []struct{ n, pre string }{{"plus-sign", "+"}, {"leading-zero", "0"}, {"leading-space", " "}, {"hex-prefix", "0x"}, {"minus-zero", "-0"}} {
			alt := append([]byte{}, enc[:m[4]]...)
			alt = append(alt, sp.pre...)
			alt = append(alt, enc[m[4]:]...)
			try(member+":"+sp.n, alt)
		}
	}
}

// deepHashValid: the Hash field of the block and of every descendant equals its recomputed hash.
func deepHashValid(b *nom.AccountBlock) bool {
	for _, d := range b.DescendantBlocks {
		if !deepHashValid(d) {
			return false
		}
	}
	return b.ComputeHash() == b.Hash
}

func momentumShape(m *nom.Momentum) string {
	n := len(m.Content)
	c := fmt.Sprint(n)
	if n > 3 && n < 100 {
		c = "4-99"
	}
	d := "nil"
	if m.Data != nil {
		d = fmt.Sprintf("len%d", len(m.Data))
	}
	return fmt.Sprintf("momentum:content=%s:data=%s:key=%d:sig=%d:ts0=%v", c, d, len(m.PublicKey), len(m.Signature), m.TimestampUnix == 0)
}

func (cc *codecCtx) checkMomentum(d *nom.DetailedMomentum, name string) {
	r := cc.r
	m := d.Momentum
	r.Add("codec_shapes", momentumShape(m))
	want := serM(m)
	wantHash := m.ComputeHash()
	var wantBlocks [][]byte
	for _, b := range d.AccountBlocks {
		wantBlocks = append(wantBlocks, mustSer(b))
	}
	cmp := func(codec string, got *nom.DetailedMomentum, err error) {
		r.Count("codec_evaluations", 1)
		r.Add("codecs", codec+":momentum")
		if err != nil {
			cc.fail(codec, "momentum", "decode(encode(m)) fails: "+errClass(err), name)
			return
		}
		if !bytes.Equal(serM(got.Momentum), want) {
			cc.fail(codec, "momentum", "re-serialises to different protobuf bytes", name+" shape "+momentumShape(m))
			return
		}
		if got.Momentum.ComputeHash() != wantHash || got.Momentum.Hash != m.Hash {
			cc.fail(codec, "momentum", "hash changes", name)
		}
		if got.AccountBlocks != nil || codec != "protobuf" {
			if len(got.AccountBlocks) != len(wantBlocks) {
				cc.fail(codec, "momentum", "number of attached account blocks changes", name)
				return
			}
			for i, b := range got.AccountBlocks {
				if !bytes.Equal(mustSer(b), wantBlocks[i]) {
					cc.fail(codec, "momentum", "attached account block re-serialises differently", name)
					return
				}
			}
		}
	}
	{
		got, err := nom.DeserializeMomentum(want)
		cmp("protobuf", &nom.DetailedMomentum{Momentum: got}, err)
	}
	{ // NewBlockMsg: *nom.DetailedMomentum
		got, err := wireMomentum(vnode.CloneDetailed(d))
		cmp("rlp-single", got, err)
	}
	{ // BlocksMsg: []*nom.DetailedMomentum
		c := vnode.CloneDetailed(d)
		c.Momentum.EnsureCache()
		enc, err := rlp.EncodeToBytes([]*nom.DetailedMomentum{c})
		var out []*nom.DetailedMomentum
		if err == nil {
			err = rlp.DecodeBytes(enc, &out)
		}
		var got *nom.DetailedMomentum
		if err == nil && len(out) == 1 {
			got = out[0]
			got.Momentum.EnsureCache()
		} else if err == nil {
			err = fmt.Errorf("decoded %d momentums", len(out))
		}
		cmp("rlp-batch", got, err)
	}
	{ // nom JSON
		enc, err := json.Marshal(d)
		got := new(nom.DetailedMomentum)
		if err == nil {
			err = json.Unmarshal(enc, got)
		}
		if err == nil && got.Momentum == nil {
			err = fmt.Errorf("momentum lost")
		}
		cmp("json-nom", got, err)
	}
	{ // rpc/api JSON
		am := &api.DetailedMomentum{Momentum: &api.Momentum{Momentum: vnode.CloneMomentum(m), Producer: m.Producer()}}
		for _, b := range d.AccountBlocks {
			am.AccountBlocks = append(am.AccountBlocks, &api.AccountBlock{AccountBlock: *b.Copy()})
		}
		enc, err := json.Marshal(am)
		got := new(api.DetailedMomentum)
		if err == nil {
			err = json.Unmarshal(enc, got)
		}
		var back *nom.DetailedMomentum
		if err == nil {
			if got.Momentum == nil || got.Momentum.Momentum == nil {
				err = fmt.Errorf("momentum lost")
			} else {
				back = &nom.DetailedMomentum{Momentum: got.Momentum.Momentum}
				for _, b := range got.AccountBlocks {
					lb, _ := b.ToLedgerBlock()
					back.AccountBlocks = append(back.AccountBlocks, lb)
				}
				if got.Momentum.Producer != m.Producer() {
					err = fmt.Errorf("producer changes")
				}
			}
		}
		cmp("json-api", back, err)
	}
}

// ---------------------------------------------------------------------------------------------------------------------
// generated shapes

func genBlocks() []*nom.AccountBlock {
	kb := make([]byte, 1024)
	for i := range kb {
		kb[i] = byte(i * 7)
	}
	datas := [][]byte{nil, {}, {0x80}, kb}
	amounts := []*big.Int{nil, big.NewInt(0), big.NewInt(1), maxAmount}
	type prof struct {
		u     uint64
		nonce nom.Nonce
	}
	profs := []prof{{0, nom.Nonce{}}, {1, nom.Nonce{Data: [8]byte{0, 0, 0, 0, 0, 0, 0, 1}}}, {^uint64(0), nom.Nonce{Data: [8]byte{255, 255, 255, 255, 255, 255, 255, 255}}}, {1 << 63, nom.Nonce{Data: [8]byte{0x80}}}}
	sig := ops.Users[0].Sign([]byte("x"))
	var out []*nom.AccountBlock
	mk := func(di, ai, pi int, withKey bool, typ uint64) *nom.AccountBlock {
		p := profs[pi]
		b := &nom.AccountBlock{Version: 1 + p.u, ChainIdentifier: p.u, BlockType: typ, PreviousHash: types.NewHash([]byte{byte(di)}), Height: 1 + p.u,
			MomentumAcknowledged: types.HashHeight{Hash: types.NewHash([]byte("m")), Height: p.u}, Address: ops.Users[ai].Address, ToAddress: types.TokenContract,
			TokenStandard: types.QsrTokenStandard, FusedPlasma: p.u, Difficulty: p.u, Nonce: p.nonce, BasePlasma: p.u, TotalPlasma: p.u}
		if amounts[ai] != nil {
			b.Amount = new(big.Int).Set(amounts[ai])
		}
		if datas[di] != nil {
			b.Data = append([]byte{}, datas[di]...)
		}
		if pi%2 == 1 {
			b.FromBlockHash = types.NewHash([]byte("f"))
			b.ChangesHash = types.NewHash([]byte("c"))
		}
		if withKey {
			b.PublicKey = append(ed25519.PublicKey{}, ops.Users[0].Public...)
			b.Signature = append([]byte{}, sig...)
		}
		b.Hash = b.ComputeHash()
		return b
	}
	for di := range datas {
		for ai := range amounts {
			for pi := range profs {
				for _, withKey := range []bool{false, true} {
					for nd := 0; nd <= 3; nd++ {
						typ := uint64(nom.BlockTypeUserSend)
						if nd > 0 {
							typ = nom.BlockTypeContractReceive
						}
						b := mk(di, ai, pi, withKey, typ)
						for k := 0; k < nd; k++ {
							b.DescendantBlocks = append(b.DescendantBlocks, mk((di+k+1)%4, (ai+k)%4, (pi+k)%4, false, nom.BlockTypeContractSend))
						}
						if nd == 3 { // one nested level
							b.DescendantBlocks[2].DescendantBlocks = []*nom.AccountBlock{mk(0, 0, 0, false, nom.BlockTypeContractSend)}
							b.DescendantBlocks[2].Hash = b.DescendantBlocks[2].ComputeHash()
						}
						b.Hash = b.ComputeHash()
						out = append(out, b)
					}
				}
			}
		}
	}
	return out
}

func genMomentums() []*nom.DetailedMomentum {
	var out []*nom.DetailedMomentum
	kb := make([]byte, 1024)
	datas := [][]byte{nil, {}, {1}, kb}
	sig := ops.Users[10].Sign([]byte("m"))
	for n := 0; n <= 100; n++ {
		for di, data := range datas {
			if di > 0 && n > 3 {
				continue
			}
			m := &nom.Momentum{Version: 1, ChainIdentifier: 100, PreviousHash: types.NewHash([]byte{byte(n)}), Height: uint64(n) + 2, TimestampUnix: uint64(1000000000 + n*10), Data: data,
				ChangesHash: types.NewHash([]byte("ch"))}
			switch n % 4 {
			case 1:
				m.TimestampUnix = 0
			case 2:
				m.TimestampUnix = 1<<63 - 1
				m.Height = ^uint64(0)
			}
			if n%2 == 0 {
				m.PublicKey = append(ed25519.PublicKey{}, ops.Users[10].Public...)
				m.Signature = append([]byte{}, sig...)
			}
			d := &nom.DetailedMomentum{Momentum: m}
			for i := 0; i < n; i++ {
				b := &nom.AccountBlock{Version: 1, ChainIdentifier: 100, BlockType: nom.BlockTypeUserSend, Height: uint64(i + 1), Address: ops.Users[i%13].Address, Amount: big.NewInt(int64(i)),
					TokenStandard: types.ZnnTokenStandard, ToAddress: ops.Users[(i+1)%13].Address}
				b.Hash = b.ComputeHash()
				d.AccountBlocks = append(d.AccountBlocks, b)
			}
			m.Content = nom.NewMomentumContent(d.AccountBlocks)
			if n == 0 && di == 1 {
				m.Content = nom.MomentumContent{} // empty, not nil
			}
			m.Hash = m.ComputeHash()
			m.EnsureCache()
			out = append(out, d)
		}
	}
	return out
}

func walkBlocks(b *nom.AccountBlock, f func(*nom.AccountBlock)) {
	f(b)
	for _, d := range b.DescendantBlocks {
		walkBlocks(d, f)
	}
}

const codecSubs = 9 // 4 histories, 4 chunks of generated blocks, generated momentums

func codecPart(c *xs.Ctx, r *xs.Result, sub int) {
	cc := &codecCtx{r: r}
	// real histories
	for hi, hist := range histories(c.Tier) {
		if sub >= 0 && sub != hi {
			continue
		}
		rec := produce(c, hist)
		for h := uint64(2); h <= rec.H; h++ {
			d := rec.Batch[h]
			cc.checkMomentum(d, fmt.Sprintf("history %d momentum %d", hi, h))
			r.Count("codec_real_momentums", 1)
			for i, b := range d.AccountBlocks {
				walkBlocks(b, func(x *nom.AccountBlock) {
					cc.checkBlock(x, fmt.Sprintf("history %d momentum %d block %d (%s)", hi, h, i, blockClass(x)))
					r.Count("codec_real_blocks", 1)
				})
			}
		}
		// blocks as pooled (before confirmation) are the same objects; the follower spot checks use whole chains:
		// (1) BlocksMsg form: one RLP batch; (2) nom JSON form of every detailed momentum
		for _, form := range []string{"rlp-batch", "json-nom"} {
			batch := vnode.CloneBatch(rec.Batch[2 : rec.H+1])
			var delivered []*nom.DetailedMomentum
			var err error
			switch form {
			case "rlp-batch":
				for _, d := range batch {
					d.Momentum.EnsureCache()
				}
				var enc []byte
				enc, err = rlp.EncodeToBytes(batch)
				if err == nil {
					err = rlp.DecodeBytes(enc, &delivered)
				}
			case "json-nom":
				var enc []byte
				enc, err = json.Marshal(batch)
				if err == nil {
					err = json.Unmarshal(enc, &delivered)
				}
			}
			if err != nil {
				cc.fail(form, "chain", "decode(encode(chain)) fails: "+errClass(err), fmt.Sprintf("history %d", hi))
				continue
			}
			for _, d := range delivered {
				d.Momentum.EnsureCache()
			}
			f := vnode.New(vnode.Options{Dir: c.TempDir(), NoPillars: true})
			idx, ierr, pan := f.InsertChain(delivered)
			r.Count("transitions", 1)
			if ierr != nil || pan != nil {
				cc.fail(form, "chain", fmt.Sprintf("follower refuses the round-tripped chain: idx=%d err=%v panic=%v", idx, ierr, pan), fmt.Sprintf("history %d", hi))
			} else if f.FullDigest() != rec.Full[rec.H] {
				cc.fail(form, "chain", "follower fed the round-tripped chain ends with a different store than the producer", fmt.Sprintf("history %d", hi))
			} else {
				r.Count("codec_follower_checks", 1)
			}
			f.Destroy()
		}
	}
	// generated shapes
	for i, b := range genBlocks() {
		if sub >= 0 && sub != 4+i%4 {
			continue
		}
		cc.checkBlock(b, fmt.Sprintf("generated block %d", i))
		r.Count("codec_generated_blocks", 1)
	}
	for i, d := range genMomentums() {
		if sub >= 0 && sub != 8 {
			continue
		}
		cc.checkMomentum(d, fmt.Sprintf("generated momentum %d", i))
		r.Count("codec_generated_momentums", 1)
	}
}
