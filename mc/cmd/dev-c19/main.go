package main

import (
	_ "verifmc/props/c19"

	"verifmc/internal/xs"
)

func main() { xs.Main() }
