package c17

import (
	"fmt"
	"math/big"
	"strings"

	g "github.com/zenon-network/go-zenon/chain/genesis/mock"
	"github.com/zenon-network/go-zenon/chain/nom"
	"github.com/zenon-network/go-zenon/common"
	"github.com/zenon-network/go-zenon/common/types"
	"github.com/zenon-network/go-zenon/vm/constants"
	"github.com/zenon-network/go-zenon/vm/embedded/definition"
	"github.com/zenon-network/go-zenon/wallet"

	"verifmc/internal/vnode"
	"verifmc/internal/xs"
)

// ---------------------------------------------------------------------------------------------------------------------
// cluster: producer P, follower F1 (every pool block gossiped before its momentum, then the momentum), follower F2
// (momentums only), both in lockstep; F3 (one batch with the whole chain) is created at the end.

type cluster struct {
	c         *xs.Ctx
	r         *xs.Result
	it        item
	P, F1     *vnode.Node
	F2        *vnode.Node
	gossiped  map[types.Hash]bool
	restartAt map[uint64]bool
	failed    bool // a violation that makes continuing meaningless was reported
	seq       int
}

func newCluster(c *xs.Ctx, r *xs.Result, it item) *cluster {
	x := &cluster{c: c, r: r, it: it, gossiped: map[types.Hash]bool{}, restartAt: map[uint64]bool{}}
	x.P = vnode.New(vnode.Options{Dir: c.TempDir()})
	x.F1 = vnode.New(vnode.Options{Dir: c.TempDir(), NoPillars: true})
	x.F2 = vnode.New(vnode.Options{Dir: c.TempDir(), NoPillars: true})
	return x
}

func (x *cluster) destroy() {
	x.P.Destroy()
	x.F1.Destroy()
	x.F2.Destroy()
}

func (x *cluster) violate(key, what string) {
	x.r.Violate(key, fmt.Sprintf("%s: %s", x.it, what), x.it)
}

// step: gossip P's pool to F1, let the elected pillar run one producer event on P, deliver the new momentum to F1 and
// F2, compare the raw stores.
func (x *cluster) step() {
	if x.failed {
		return
	}
	for _, b := range x.P.PoolBlocks() {
		if b.BlockType == nom.BlockTypeContractSend || x.gossiped[b.Hash] {
			continue
		}
		x.gossiped[b.Hash] = true
		err, pan := x.F1.AddAccountBlocks([]*nom.AccountBlock{vnode.CloneBlock(b)})
		x.r.Count("transitions", 1)
		x.r.Count("gossip_deliveries", 1)
		if err != nil || pan != nil {
			x.violate("C17:follower-refuses-gossiped-block-producer-accepted",
				fmt.Sprintf("block %v@%d (to %v, acknowledging height %d) pooled by the producer is refused by a follower at the same height %d: err=%v panic=%v",
					b.Address, b.Height, b.ToAddress, b.MomentumAcknowledged.Height, x.F1.Height(), err, pan))
			x.failed = true
			return
		}
	}
	before := x.P.Height()
	if _, err := x.P.Produce(0); err != nil {
		panic(fmt.Sprintf("%s: producer event failed at height %d: %v", x.it, before, err))
	}
	h := x.P.Height()
	if h != before+1 {
		panic(fmt.Sprintf("%s: producer event did not create exactly one momentum (%d -> %d)", x.it, before, h))
	}
	x.r.Count("transitions", 1)
	x.r.Count("momentums_produced", 1)
	d := x.P.Detailed(h)
	pd := x.P.FullDigest()
	for i, f := range []*vnode.Node{x.F1, x.F2} {
		idx, err, pan := f.InsertChain(vnode.CloneBatch([]*nom.DetailedMomentum{d}))
		x.r.Count("transitions", 1)
		if err != nil || pan != nil {
			x.violate("C17:follower-refuses-momentum-producer-made",
				fmt.Sprintf("follower F%d refuses momentum %d (%d blocks): idx=%d err=%v panic=%v", i+1, h, len(d.AccountBlocks), idx, err, pan))
			x.failed = true
			return
		}
		if i == 1 && x.restartAt[h] {
			// F2 restarts (cold caches, chain.Init re-checks the implemented sporks) right at an enforcement height
			f.Restart()
			x.r.Count("transitions", 1)
			x.r.Count("follower_restarts_at_enforcement_height", 1)
		}
		x.r.Count("follower_digest_comparisons", 1)
		if fd := f.FullDigest(); fd != pd {
			x.violate("C17:follower-store-differs-from-producer",
				fmt.Sprintf("after momentum %d follower F%d's raw store differs from the producer's: %s", h, i+1, vnode.DiffKV(x.P.Raw(nil, true), f.Raw(nil, true))))
			x.failed = true
			return
		}
	}
	x.r.Count("states", 1)
}

// finalSync feeds the whole chain in one batch to a fresh node (a node syncing from scratch) and compares.
func (x *cluster) finalSync() {
	if x.failed {
		return
	}
	f3 := vnode.New(vnode.Options{Dir: x.c.TempDir(), NoPillars: true})
	defer f3.Destroy()
	H := x.P.Height()
	idx, err, pan := f3.InsertChain(vnode.CloneBatch(x.P.Range(2, H)))
	x.r.Count("transitions", 1)
	if err != nil || pan != nil {
		x.violate("C17:syncing-node-refuses-chain", fmt.Sprintf("a fresh node fed momentums 2..%d in one batch stops: idx=%d err=%v panic=%v", H, idx, err, pan))
		return
	}
	x.r.Count("follower_digest_comparisons", 1)
	if f3.FullDigest() != x.P.FullDigest() {
		x.violate("C17:syncing-node-store-differs-from-producer", fmt.Sprintf("a fresh node fed momentums 2..%d in one batch differs from the producer: %s", H, vnode.DiffKV(x.P.Raw(nil, true), f3.Raw(nil, true))))
	}
}

func (x *cluster) ackAt(h uint64) types.HashHeight {
	m, err := x.P.Chain.GetFrontierMomentumStore().GetMomentumByHeight(h)
	if err != nil || m == nil {
		panic(fmt.Sprintf("no momentum at height %d: %v", h, err))
	}
	return m.Identifier()
}

func (x *cluster) confirmationHeight(hash types.Hash) uint64 {
	h, err := x.P.Chain.GetFrontierMomentumStore().GetBlockConfirmationHeight(hash)
	if err != nil {
		panic(err)
	}
	return h
}

// receives scans the confirmed chain for contract receive blocks, indexed by the send they receive.
func (x *cluster) receives() map[types.Hash]*nom.AccountBlock {
	out := map[types.Hash]*nom.AccountBlock{}
	for _, d := range x.P.Range(2, x.P.Height()) {
		for _, b := range d.AccountBlocks {
			if b.BlockType == nom.BlockTypeContractReceive {
				out[b.FromBlockHash] = b
			}
		}
	}
	return out
}

func sporkList(n *vnode.Node) map[types.Hash]*definition.Spork {
	st := n.Chain.GetFrontierMomentumStore().GetAccountStore(types.SporkContract).Storage()
	out := map[types.Hash]*definition.Spork{}
	for _, s := range definition.GetAllSporks(st) {
		out[s.Id] = s
	}
	return out
}

// ---------------------------------------------------------------------------------------------------------------------
// hand-made blocks (what another implementation / an older binary would gossip)

type call struct {
	Key    *wallet.KeyPair
	To     types.Address
	Zts    types.ZenonTokenStandard
	Amount *big.Int
	Data   []byte
}

func (cl call) template(ack types.HashHeight) *nom.AccountBlock {
	return &nom.AccountBlock{BlockType: nom.BlockTypeUserSend, Address: cl.Key.Address, ToAddress: cl.To, TokenStandard: cl.Zts,
		Amount: new(big.Int).Set(cl.Amount), Data: append([]byte{}, cl.Data...), MomentumAcknowledged: ack}
}

// forge builds and signs the block without consulting the node's validation. Every embedded method probed here costs
// EmbeddedSimple plasma, which is what the supervisor fills in for an own block.
func forge(n *vnode.Node, cl call, ack types.HashHeight) *nom.AccountBlock {
	fr := n.Chain.GetFrontierAccountStore(cl.Key.Address).Identifier()
	b := cl.template(ack)
	b.Version = 1
	b.ChainIdentifier = n.Chain.ChainIdentifier()
	b.PreviousHash = fr.Hash
	b.Height = fr.Height + 1
	b.FusedPlasma = constants.AlphanetPlasmaTable.EmbeddedSimple
	b.Hash = b.ComputeHash()
	sig, _, pub, err := cl.Key.Signer(b.Hash.Bytes())
	if err != nil {
		panic(err)
	}
	b.Signature = sig
	b.PublicKey = pub
	return b
}

type verdict struct {
	Accepted bool
	OwnErr   error
	Block    *nom.AccountBlock // the pooled block when accepted
	// when refused on the own-block path: what the foreign-block path said on P and on F1 (nil error = pooled!)
	ForeignP, ForeignF error
	ForeignTried       bool
}

// submit runs a call through both paths: GenerateFromTemplate + insert on P (own block); when P refuses, the hand-signed
// block through AddAccountBlocks on P and on F1 (foreign block). When P accepts, the hand-signed block must be the very
// block P generated (validates the forger), and reaches F1 by gossip in the next step.
func (x *cluster) submit(cl call, ack types.HashHeight) verdict {
	forged := forge(x.P, cl, ack)
	blk, err := x.P.Submit(cl.template(ack))
	x.r.Count("transitions", 1)
	if err == nil {
		if blk.Hash != forged.Hash {
			panic(fmt.Sprintf("%s: hand-made block differs from the generated one (%v vs %v) — forger out of date", x.it, forged.Hash, blk.Hash))
		}
		x.r.Count("forger_validated", 1)
		return verdict{Accepted: true, Block: blk}
	}
	v := verdict{OwnErr: err, ForeignTried: true}
	var pan interface{}
	v.ForeignP, pan = x.P.AddAccountBlocks([]*nom.AccountBlock{vnode.CloneBlock(forged)})
	if pan != nil {
		v.ForeignP = fmt.Errorf("panic: %v", pan)
	}
	v.ForeignF, pan = x.F1.AddAccountBlocks([]*nom.AccountBlock{vnode.CloneBlock(forged)})
	if pan != nil {
		v.ForeignF = fmt.Errorf("panic: %v", pan)
	}
	x.r.Count("transitions", 2)
	return v
}

// checkPaths reports disagreement between the own-block path and the foreign-block path for a refused call.
func (x *cluster) checkPaths(what string, v verdict) {
	if v.Accepted || !v.ForeignTried {
		return
	}
	if v.ForeignP == nil {
		x.violate("C17:foreign-block-path-accepts-what-own-block-path-refuses",
			fmt.Sprintf("%s: GenerateFromTemplate refuses the call (%v) but the same block, hand-signed, is pooled through AddAccountBlocks on the same node", what, v.OwnErr))
		x.failed = true
	}
	if v.ForeignF == nil {
		x.violate("C17:follower-accepts-block-producer-refuses",
			fmt.Sprintf("%s: the producer refuses the call (%v) but a follower at the same height pools the hand-signed block", what, v.OwnErr))
		x.failed = true
	}
	if v.ForeignP != nil && v.ForeignF != nil {
		x.r.Count("probes_refused_foreign_path", 1)
	}
}

// ---------------------------------------------------------------------------------------------------------------------
// gated calls

type probeKind struct {
	Name  string
	Spork int
	Key   *wallet.KeyPair
	Call  func(seq int) call
	Full  bool // the call is otherwise valid: when available it must execute with status success
}

var znn = types.ZnnTokenStandard

var kinds = []probeKind{
	{Name: "htlc.Create", Spork: fHTLC, Key: g.User1, Full: true, Call: func(seq int) call {
		lock := make([]byte, 32)
		lock[0], lock[1] = byte(seq), byte(seq>>8)
		return call{g.User1, types.HtlcContract, znn, big.NewInt(1 * g.Zexp), definition.ABIHtlc.PackMethodPanic(definition.CreateHtlcMethodName,
			g.User2.Address, int64(1000000000+10000000), uint8(definition.HashTypeSHA3), uint8(32), lock)}
	}},
	{Name: "liquidity.SetIsHalted", Spork: fBL, Key: g.User5, Full: true, Call: func(seq int) call {
		return call{g.User5, types.LiquidityContract, znn, big.NewInt(0), definition.ABILiquidity.PackMethodPanic(definition.SetIsHaltedMethodName, seq%2 == 0)}
	}},
	{Name: "bridge.WrapToken", Spork: fBL, Key: g.User3, Full: false, Call: func(seq int) call {
		return call{g.User3, types.BridgeContract, znn, big.NewInt(int64(1000 + seq)), definition.ABIBridge.PackMethodPanic(definition.WrapTokenMethodName,
			uint32(2), uint32(31337), "0xb794f5ea0ba39494ce839613fffba74279579268")}
	}},
	{Name: "accelerator.CreateProject", Spork: fACC, Key: g.User2, Full: true, Call: func(seq int) call {
		return call{g.User2, types.AcceleratorContract, znn, new(big.Int).Set(constants.ProjectCreationAmount), definition.ABIAccelerator.PackMethodPanic(definition.CreateProjectMethodName,
			fmt.Sprintf("Project %d", seq), "description", "test.com", big.NewInt(100), big.NewInt(1000))}
	}},
}

func isGatingError(err error) bool {
	return err == constants.ErrContractMethodNotFound || err == constants.ErrContractDoesntExist
}

type probe struct {
	Kind     int
	Ack      uint64
	Frontier uint64
	V        verdict
}

// probeAll submits one call of every kind acknowledging the momentum at height ackH and judges the send-time verdicts.
// E[f] = expected enforcement height of spork f (0 = not scheduled).
func (x *cluster) probeAll(ackH uint64, E []uint64, only int) []probe {
	var out []probe
	ack := x.ackAt(ackH)
	frontier := x.P.Height()
	for k, kind := range kinds {
		if x.failed {
			break
		}
		if only >= 0 && kind.Spork != only {
			continue
		}
		x.seq++
		v := x.submit(kind.Call(x.seq), ack)
		p := probe{Kind: k, Ack: ackH, Frontier: frontier, V: v}
		out = append(out, p)
		x.r.Count("probes", 1)
		own := E[kind.Spork]
		expected := own != 0 && ackH >= own
		rel := "below"
		if expected {
			rel = "at/above"
		}
		ownStr := fmt.Sprintf("enforced from %d => %s", own, rel)
		if own == 0 {
			ownStr = "not activated on this chain"
		}
		what := fmt.Sprintf("%s acknowledging height %d (frontier %d; own spork %s %s)", kind.Name, ackH, frontier, featNames[kind.Spork], ownStr)
		x.r.Add("probe_classes", fmt.Sprintf("%s|ack-E=%s|lag=%v|%v", kind.Name, relStr(ackH, own), frontier > ackH, v.Accepted))
		x.checkPaths(what, v)
		switch {
		case v.Accepted && expected:
			x.r.Count("probes_accepted", 1)
			if ackH == own {
				x.r.Count("boundary_accepted_at_E", 1)
			}
		case !v.Accepted && !expected:
			x.r.Count("probes_refused", 1)
			if own != 0 && ackH == own-1 {
				x.r.Count("boundary_refused_at_E-1", 1)
			}
			if own != 0 && frontier > own {
				x.r.Count("lag_probes_below_E_with_frontier_past_E", 1)
			}
			if !isGatingError(v.OwnErr) {
				x.violate("C17:gated-call-refused-for-another-reason:"+kind.Name,
					fmt.Sprintf("%s is refused, as it must be, but with %q instead of method-not-found / contract-doesn't-exist: the probe does not exercise the gate", what, v.OwnErr))
			}
		case v.Accepted && !expected:
			x.r.Count("probes_accepted_while_own_spork_not_enforced", 1)
			x.tooEarly(kind.Spork, kind.Name, ackH, E, what+" is ACCEPTED, i.e.")
		case !v.Accepted && expected:
			x.violate("C17:gated-call-refused-at-or-after-enforcement-height:"+featNames[kind.Spork]+":ack=E"+relStr(ackH, own),
				fmt.Sprintf("%s is REFUSED: %v", what, v.OwnErr))
		}
	}
	return out
}

func relStr(a, e uint64) string {
	if e == 0 {
		return "-inf"
	}
	d := int64(a) - int64(e)
	if d > 2 {
		return "+3-or-more"
	}
	if d < -3 {
		return "-4-or-less"
	}
	return fmt.Sprintf("%+d", d)
}

// judgeReceives checks, for every accepted probe, the contract's receive block.
func (x *cluster) judgeReceives(probes []probe, E []uint64) {
	if x.failed {
		return
	}
	recv := x.receives()
	for _, p := range probes {
		if !p.V.Accepted {
			continue
		}
		kind := kinds[p.Kind]
		conf := x.confirmationHeight(p.V.Block.Hash)
		what := fmt.Sprintf("%s acknowledging height %d, confirmed by momentum %d", kind.Name, p.Ack, conf)
		rb := recv[p.V.Block.Hash]
		if conf == 0 || rb == nil {
			x.violate("C17:accepted-gated-call-never-received:"+kind.Name, what+": no contract receive block after three more momentums")
			continue
		}
		if rb.MomentumAcknowledged.Height != conf {
			x.violate("C17:contract-receive-not-evaluated-at-confirming-momentum", fmt.Sprintf("%s: receive acknowledges %d", what, rb.MomentumAcknowledged.Height))
		}
		status := common.BytesToUint64(rb.Data)
		x.r.Add("receive_classes", fmt.Sprintf("%s|status=%d|descendants=%d", kind.Name, status, len(rb.DescendantBlocks)))
		own := E[kind.Spork]
		if !kind.Full {
			x.r.Count("receives_send_gate_only", 1)
			continue
		}
		if status == 1 {
			x.r.Count("receives_executed", 1)
			if own == 0 || rb.MomentumAcknowledged.Height < own {
				x.r.Count("receives_executed_while_own_spork_not_enforced", 1) // same root cause as the send-time report
			}
			continue
		}
		x.violate("C17:accepted-gated-send-not-executed-at-receive:"+kind.Name,
			fmt.Sprintf("%s: send-time validation made the method available, the receive evaluated at height %d (own spork enforced from %d) ends with status %d and %d refund block(s)",
				what, rb.MomentumAcknowledged.Height, own, status, len(rb.DescendantBlocks)))
	}
}

// ---------------------------------------------------------------------------------------------------------------------

func createCall(name string, key *wallet.KeyPair) call {
	return call{key, types.SporkContract, znn, big.NewInt(0), definition.ABISpork.PackMethodPanic(definition.SporkCreateMethodName, name, "verification spork "+name)}
}
func activateCall(id types.Hash, key *wallet.KeyPair) call {
	return call{key, types.SporkContract, znn, big.NewInt(0), definition.ABISpork.PackMethodPanic(definition.SporkActivateMethodName, id)}
}

func (x *cluster) mustSubmit(cl call, what string) *nom.AccountBlock {
	v := x.submit(cl, x.P.Frontier().Identifier())
	if !v.Accepted {
		panic(fmt.Sprintf("%s: %s refused: %v", x.it, what, v.OwnErr))
	}
	return v.Block
}

func runGate(c *xs.Ctx, r *xs.Result, it item) {
	x := newCluster(c, r, it)
	defer x.destroy()
	delay := constants.SporkMinHeightDelay

	// creation (all in the first momentum), ids bound immediately, as the repository's tests do; a feature that is not in
	// Order has no spork at all on this chain (its binding keeps the id the binary ships with)
	creation := append([]int{}, it.Order...)
	if it.CreateRev {
		for i, j := 0, len(creation)-1; i < j; i, j = i+1, j-1 {
			creation[i], creation[j] = creation[j], creation[i]
		}
	}
	ids := make([]types.Hash, 3)
	for _, f := range creation {
		b := x.mustSubmit(createCall("spork-"+featNames[f], g.Spork), "CreateSpork")
		ids[f] = b.Hash
		bind(f, b.Hash, true)
	}
	x.step()
	x.step() // height 3: the sporks exist, none activated
	if l := sporkList(x.P); len(l) != len(it.Order) {
		panic(fmt.Sprintf("%s: %d sporks after creation", it, len(l)))
	}

	// schedule: ActivateSpork for Order[i] is submitted at frontier 3+i*spacing, confirmed by the next momentum
	const first = uint64(3)
	actAt := map[uint64]int{}
	E := make([]uint64, 3)
	var maxE uint64
	for i, f := range it.Order {
		h := first + uint64(i*it.Spacing)
		actAt[h] = f
		E[f] = h + 1 + delay
		x.restartAt[E[f]] = true
		if E[f] > maxE {
			maxE = E[f]
		}
	}
	winLo, winHi := first, maxE+1
	actBlocks := map[int]*nom.AccountBlock{}
	var probes []probe
	for h := first; h <= winHi && !x.failed; h++ {
		if x.P.Height() != h {
			panic("height bookkeeping")
		}
		if f, ok := actAt[h]; ok {
			actBlocks[f] = x.mustSubmit(activateCall(ids[f], g.Spork), "ActivateSpork")
		}
		if it.Mode == "live" {
			probes = append(probes, x.probeAll(h, E, -1)...)
			x.sweep(h, E)
		}
		x.step()
	}
	if x.failed {
		return
	}
	// the enforcement heights the oracle used are the ones the contract recorded
	for f, b := range actBlocks {
		conf := x.confirmationHeight(b.Hash)
		s := sporkList(x.P)[ids[f]]
		if s == nil || !s.Activated || s.EnforcementHeight != conf+delay || s.EnforcementHeight != E[f] {
			x.violate("C17:enforcement-height-differs-from-activation-momentum-plus-delay",
				fmt.Sprintf("spork %s: ActivateSpork confirmed by momentum %d, delay %d, expected enforcement height %d, contract recorded %+v", featNames[f], conf, delay, E[f], s))
			return
		}
	}
	if it.Mode == "lag" {
		// frontier = maxE+2: past E+1 of every spork. Ascending acknowledged heights (an account may not acknowledge an
		// older momentum than its previous block did).
		if x.P.Height() != maxE+2 {
			panic("lag mode: unexpected frontier")
		}
		for a := winLo; a <= winHi && !x.failed; a++ {
			probes = append(probes, x.probeAll(a, E, -1)...)
			x.sweep(a, E)
		}
	}
	for i := 0; i < 3; i++ {
		x.step()
	}
	if len(x.P.PoolBlocks()) != 0 {
		panic(fmt.Sprintf("%s: pool not drained", it))
	}
	x.judgeReceives(probes, E)
	x.finalSync()
	var sb strings.Builder
	for _, f := range it.Order {
		fmt.Fprintf(&sb, "%s@%d ", featNames[f], E[f])
	}
	r.Sample(map[string]interface{}{"execution": it.String(), "enforcement_heights": strings.TrimSpace(sb.String()), "probes": len(probes), "final_height": x.P.Height()})
}
