package main

import (
	_ "verifmc/props/c20"

	"verifmc/internal/xs"
)

func main() { xs.Main() }
