// Package c05 — momentums come only from the elected pillar; the schedule is deterministic.
//
// (a) Acceptance (accept.go): at several chain situations the real producer builds the valid next momentum; every
// single-field mutation of it (all fields of nom.Momentum and the prefetched account-block list), in up to four sealing
// modes, is delivered to a follower holding the predecessor, both through vm.Supervisor.ApplyMomentum and through
// protocol.ChainBridge.InsertChain. Oracle: accepted ⇒ the independent predicate of the statement holds (own hash
// pre-image, direct extension of the frontier, strictly later and not future timestamp, signed by the pillar the
// reference election elects for the slot of the timestamp, changes hash = the producer path's for that content).
//
// (b) Schedule (schedule.go): consensus.GetMomentumProducer(t) for every slot of every tick from genesis to frontier + 2
// ticks on the live producer, on followers fed in one batch / momentum by momentum (at every prefix), after restarts with
// kept and wiped consensus cache and after a reorganisation from a competing branch; all must equal the reference
// election of election.go, and every elected pillar must be registered and active at the proof momentum.
//
// Each worker process picks one consensus configuration (constants.ConsensusConfig is process-global).
package c05

import (
	"encoding/json"
	"fmt"
	"sort"
	"time"

	"verifmc/internal/xs"
)

func variants(thorough bool) []*genesisVariant {
	vs := []*genesisVariant{variant(3, false), variant(2, false), variant(5, false), variant(6, true)}
	if thorough {
		vs = append(vs, variant(3, true), variant(5, true), variant(6, false), variant(2, true), variant(4, false), variant(7, true))
	}
	return vs
}

// shardLayout: shard s works on configuration s % len(cfgs); the work items of a configuration are dealt round-robin to
// the shards of that configuration.
func shardLayout(c *xs.Ctx) (cfi int, mine func(i int) bool) {
	k := len(cfgs)
	if c.NShards < k {
		panic("C05 needs at least one shard per consensus configuration")
	}
	cfi = c.Shard % k
	group := 0 // number of shards with this configuration
	for s := cfi; s < c.NShards; s += k {
		group++
	}
	pos := c.Shard / k
	return cfi, func(i int) bool { return i%group == pos }
}

func run(c *xs.Ctx, r *xs.Result) {
	if c.Replay != nil {
		var head struct {
			Part string `json:"part"`
			Cfg  int    `json:"cfg"`
		}
		must(json.Unmarshal(c.Replay, &head))
		applyCfg(cfgs[head.Cfg])
		r.Count("replay_mode", 1)
		if head.Part == "accept" {
			var ac acceptCase
			must(json.Unmarshal(c.Replay, &ac))
			for _, gv := range variants(true) {
				for _, sit := range situations(cfgs[ac.Cfg], true) {
					if gv.Name == ac.Genesis && sit.Name == ac.Situation {
						runAccept(c, r, ac.Cfg, gv, sit, &ac)
					}
				}
			}
			return
		}
		var sc schedCase
		must(json.Unmarshal(c.Replay, &sc))
		for _, gv := range variants(true) {
			for _, h := range histories(cfgs[sc.Cfg], gv, true) {
				if gv.Name == sc.Genesis && h.Name == sc.History {
					runSchedule(c, r, sc.Cfg, gv, h)
				}
			}
		}
		return
	}
	if c.Shard == c.NShards-1 {
		// the free-running concurrent-elections pass (race.go) runs in a child process of its own (it switches consensus
		// configurations); the last shard starts it first and goes on with its share of the work afterwards
		runRacePass(c, r)
	}
	cfi, mine := shardLayout(c)
	cf := cfgs[cfi]
	applyCfg(cf)
	r.Add("configurations", cf.Name)
	defer func() { r.Count("history_ops_refused_at_send_time", int64(refusedOps)) }()
	item := 0
	// (b) schedule
	for _, gv := range variants(c.Thorough()) {
		for _, h := range histories(cf, gv, c.Thorough()) {
			item++
			if !mine(item) {
				continue
			}
			if c.Expired() {
				r.Incomplete = true
				return
			}
			gv, h := gv, h
			guard(r, fmt.Sprintf("C05:schedule:%s:follower-refuses-the-elected-producers-chain", cf.Name), schedCase{"schedule", cfi, gv.Name, h.Name}, func() {
				runSchedule(c, r, cfi, gv, h)
			})
		}
	}
	// (a) acceptance: mock genesis everywhere, the other genesis variants in the thorough tier
	avs := []*genesisVariant{variant(3, false)}
	if c.Thorough() {
		avs = append(avs, variant(2, false), variant(6, true))
	}
	for _, gv := range avs {
		for _, sit := range situations(cf, c.Thorough()) {
			item++
			if !mine(item) {
				continue
			}
			if c.Expired() {
				r.Incomplete = true
				return
			}
			gv, sit := gv, sit
			guard(r, fmt.Sprintf("C05:accept:%s:%s:follower-refuses-the-elected-producers-chain", cf.Name, sit.Name), acceptCase{Part: "accept", Cfg: cfi, Genesis: gv.Name, Situation: sit.Name}, func() {
				runAccept(c, r, cfi, gv, sit, nil)
			})
		}
	}
}

func init() {
	xs.Register(&xs.Check{
		ID:     "C05",
		Level:  "model_checking",
		Shards: func(tier string) int { return 16 },
		Budget: func(tier string) time.Duration {
			if tier == "thorough" {
				return 20 * time.Minute
			}
			return 3 * time.Minute
		},
		Assumptions: []string{
			"mock genesis and generated variants of it with 2, 4, 5, 6, 7 registered pillars, tied and distinct weights; consensus configurations (NodeCount,RandCount) = (3,1), (4,2), (30,15): one per worker process, chosen by shard index (constants.ConsensusConfig and consensus.EpochDuration are process-global)",
			"constants.PillarEpochLockTime is shrunk to 20 s so that a pillar revocation is reachable inside short chains",
			"reference election inputs (pillar registry, delegation table, backers' ZNN balances) are snapshots read at the producing node's frontier after every momentum; math/rand with the seeds the code uses is taken as the specification of the permutations",
			"timestamps: the mock genesis is in 2001, so the 'not in the future' bound (real time.Now()+10s) is only exercised by a year-2100 timestamp",
			"the statement ties a momentum to 'the time slot of its timestamp': the predicate admits any timestamp inside a slot signed by that slot's pillar; the implementation additionally demands the exact slot start (stricter, not a violation)",
			"the changes-hash clause is evaluated by comparison with the producer path (Supervisor.GenerateMomentum) for the same content on the same predecessor",
		},
		Run: run,
		Finish: func(tier string, m *xs.Result, ev *xs.Evidence) {
			ev.Coverage["states"] = len(m.Sets["accept_situations"]) + int(m.Counters["schedule_prefixes_compared"]) + int(m.Counters["schedule_comparisons"])
			ev.Coverage["transitions"] = m.Counters["accept_candidates"]*2 + m.Counters["schedule_slots_compared"]
			ev.Coverage["traces_validated_against_impl"] = m.Counters["accept_candidates"]*2 + m.Counters["schedule_comparisons"]
			for _, set := range []string{"accept_accepted_mutations", "accept_rejection_reasons", "schedule_variants", "schedule_configurations", "schedule_active_pillar_counts"} {
				var l []string
				for k := range m.Sets[set] {
					l = append(l, k)
				}
				sort.Strings(l)
				ev.Coverage["list_"+set] = l
			}
			if m.Incomplete || m.Counters["replay_mode"] > 0 {
				return
			}
			// vacuity guards
			g := func(ok bool, what string) {
				if !ok {
					panic("C05 vacuity guard: " + what)
				}
			}
			g(len(m.Sets["configurations"]) == len(cfgs), "not every consensus configuration ran")
			g(m.Counters["schedule_weight_order_changes"] > 0, "no history changed the weights")
			g(len(m.Sets["schedules"]) >= 6, fmt.Sprintf("only %d distinct tick schedules", len(m.Sets["schedules"])))
			g(m.Counters["schedule_reorgs"] > 0, "no reorganisation variant")
			g(m.Counters["accept_accepted_mutated"] > 0 && m.Counters["accept_rejected_by_ApplyMomentum"] > 0, "acceptance part trivial")
			g(len(m.Sets["accept_rejection_reasons"]) >= 10, "too few rejection reasons")
			g(len(m.Sets["accept_fields"]) >= 11, "not every field mutated")
		},
	})
}
