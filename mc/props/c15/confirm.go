package c15

import (
	"encoding/json"
	"fmt"
	"os"
	"path/filepath"
	"strings"
	"sync"
	"time"

	"verifmc/internal/xs"
)

// confirmPanics re-runs, for every distinct recovered-panic violation, its session in raw mode (no recover in the
// harness): the child process must die with a Go panic. A violation whose panic does not kill the raw process is
// withdrawn (the harness's reading "nothing recovers it" would be wrong) and the episode is noted.
func confirmPanics(tier string, m *xs.Result, ev *xs.Evidence) {
	type job struct {
		i int
		s sessionSpec
	}
	var jobs []job
	for i, v := range m.Violations {
		if !strings.Contains(v.Key, "@") || strings.HasPrefix(v.Key, "C15:process-crash:") {
			continue
		}
		js, err := json.Marshal(v.Replay)
		if err != nil {
			continue
		}
		var s sessionSpec
		if json.Unmarshal(js, &s) != nil || s.Part != "a" {
			continue
		}
		jobs = append(jobs, job{i, s})
	}
	if len(jobs) == 0 {
		ev.Coverage["a_panics_confirmed_by_process_death"] = 0
		return
	}
	root := "/dev/shm/verif-scratch"
	if st, err := os.Stat("/dev/shm"); err != nil || !st.IsDir() {
		root = filepath.Join(xs.VerifRoot, ".work", "tmp")
	}
	base := filepath.Join(root, fmt.Sprintf("C15-confirm-%d", os.Getpid()))
	os.MkdirAll(base, 0o755)
	defer os.RemoveAll(base)

	died := make([]bool, len(jobs))
	reasons := make([]string, len(jobs))
	var wg sync.WaitGroup
	sem := make(chan struct{}, 8)
	for j, jb := range jobs {
		wg.Add(1)
		sem <- struct{}{}
		go func(j int, jb job) {
			defer wg.Done()
			defer func() { <-sem }()
			out := runSingleIn(filepath.Join(base, fmt.Sprint(j)), tier, jb.s, true, time.Now().Add(2*time.Minute))
			reason, site := crashSignature(out.cr.stderr)
			died[j] = out.res == nil && out.cr.exitErr != nil && reason != ""
			reasons[j] = fmt.Sprintf("%v; %s at %s", out.cr.exitErr, reason, site)
		}(j, jb)
	}
	wg.Wait()
	confirmed := 0
	withdrawn := map[int]bool{}
	for j, jb := range jobs {
		if died[j] {
			confirmed++
			m.Violations[jb.i].What += "\n[confirmed: the same session in a process without any harness recover dies: " + reasons[j] + "]"
		} else {
			withdrawn[jb.i] = true
			m.Note("withdrawn %s: the raw process survived the session (%s)", m.Violations[jb.i].Key, reasons[j])
		}
	}
	if len(withdrawn) > 0 {
		var keep []xs.Violation
		for i, v := range m.Violations {
			if !withdrawn[i] {
				keep = append(keep, v)
			}
		}
		m.Violations = keep
	}
	ev.Coverage["a_panics_confirmed_by_process_death"] = confirmed
	ev.Coverage["a_panics_not_confirmed"] = len(withdrawn)
}
