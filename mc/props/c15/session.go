package c15

import (
	"bytes"
	"fmt"
	"io"
	"os"
	"runtime/debug"
	"strconv"
	"strings"
	"sync"
	"sync/atomic"
	"time"

	"github.com/ethereum/go-ethereum/rlp"
	"github.com/inconshreveable/log15"

	"github.com/zenon-network/go-zenon/common"
	"github.com/zenon-network/go-zenon/common/types"
	"github.com/zenon-network/go-zenon/p2p"
	"github.com/zenon-network/go-zenon/p2p/discover"
	"github.com/zenon-network/go-zenon/protocol"
)

// ---------------------------------------------------------------------------------------------------------------------
// session description (also the replay object)

type respSpec struct {
	// Replies to the node's own requests, consumed in order per request kind; the names are reply letters (see replyLetters).
	OnHashesFromNumber []string `json:"on_hashes_from_number,omitempty"`
	OnGetBlocks        []string `json:"on_get_blocks,omitempty"`
	OnGetHashes        []string `json:"on_get_hashes,omitempty"`
	// WaitRequests: after the last letter wait (generously; real-time timers of the fetcher are involved) until the node
	// has sent this many requests. Expiry is recorded as "no-request", never as a violation.
	WaitRequests int `json:"wait_requests,omitempty"`
}

type sessionSpec struct {
	Part    string    `json:"part"`  // "a"
	Chain   string    `json:"chain"` // big | small
	Pre     bool      `json:"pre"`   // true: the letters start before the handshake (no implicit well-formed status first)
	Letters []string  `json:"letters"`
	Resp    *respSpec `json:"resp,omitempty"`
	// Dup: after the peer's handshake a second session presents the SAME node identity (a reconnect that overtakes the
	// end of the previous session); it must be refused, and a newcomer with a fresh identity must then be registered
	// and served, before the letters are sent
	Dup bool `json:"dup,omitempty"`
}

func (s sessionSpec) String() string {
	mode := "after-handshake"
	if s.Pre {
		mode = "before-handshake"
	}
	if s.Dup {
		mode += ", then a second session with the same identity, then a newcomer"
	}
	x := fmt.Sprintf("%s chain, %s: [%s]", s.Chain, mode, strings.Join(s.Letters, " ; "))
	if s.Resp != nil {
		x += fmt.Sprintf(" responder{fromNumber:%v getBlocks:%v getHashes:%v}", s.Resp.OnHashesFromNumber, s.Resp.OnGetBlocks, s.Resp.OnGetHashes)
	}
	return x
}

type viol struct {
	Key  string `json:"key"`
	What string `json:"what"`
}

type sessResult struct {
	Idx      int                 `json:"idx"`
	Outcomes []string            `json:"outcomes"` // one per letter
	Viol     []viol              `json:"viol,omitempty"`
	Blocked  string              `json:"blocked,omitempty"` // non-empty: a required reply did not arrive in time (candidate, re-run by the parent)
	Counters map[string]int64    `json:"counters,omitempty"`
	Sets     map[string][]string `json:"sets,omitempty"`
	Notes    []string            `json:"notes,omitempty"`
}

func (r *sessResult) count(k string, n int64) {
	if r.Counters == nil {
		r.Counters = map[string]int64{}
	}
	r.Counters[k] += n
}
func (r *sessResult) add(set, elem string) {
	if r.Sets == nil {
		r.Sets = map[string][]string{}
	}
	for _, e := range r.Sets[set] {
		if e == elem {
			return
		}
	}
	r.Sets[set] = append(r.Sets[set], elem)
}
func (r *sessResult) violate(key, what string) {
	for _, v := range r.Viol {
		if v.Key == key {
			return
		}
	}
	r.Viol = append(r.Viol, viol{key, what})
}

// ---------------------------------------------------------------------------------------------------------------------
// harness peer: the remote end of one p2p.MsgPipe whose other end is served by the node's real protocol Run function

type rmsg struct {
	Code  uint64
	Size  uint32
	Count int // number of elements of the top-level list, -1 when the payload is not a list
	First types.Hash
}

type wreq struct {
	code    uint64
	size    uint32
	payload io.Reader
	done    chan error
}

type hpeer struct {
	name string
	net  *p2p.MsgPipeRW

	mu     sync.Mutex
	msgs   []rmsg
	notify chan struct{}

	done     chan struct{} // closed when Run returned (or panicked)
	runErr   error
	runPanic string
	runStack string

	out        chan wreq
	quit       chan struct{}
	readerDone chan struct{}

	resp     *responder
	requests int32 // number of requests (Get*) the node sent to this peer
}

var blockTimeout = 8 * time.Second

func init() {
	// the re-run of a session in which a required reply did not arrive uses a much longer wait (set by the parent), so
	// that a verdict "blocked" never rests on a few seconds of wall clock on a loaded machine
	if v, err := strconv.Atoi(os.Getenv("C15_BLOCK_TIMEOUT_S")); err == nil && v > 0 {
		blockTimeout = time.Duration(v) * time.Second
	}
}

func nodeID(tag byte, seq uint64) discover.NodeID {
	var id discover.NodeID
	id[0] = tag
	for i := 0; i < 8; i++ {
		id[1+i] = byte(seq >> (8 * i))
	}
	return id
}

func (e *env) connect(pm *protocol.ProtocolManager, name string, id discover.NodeID, resp *responder) *hpeer {
	app, net := p2p.MsgPipe()
	p := &hpeer{name: name, resp: resp, net: net, notify: make(chan struct{}, 1), done: make(chan struct{}), out: make(chan wreq), quit: make(chan struct{}), readerDone: make(chan struct{})}
	raw := e.raw
	go func() {
		defer close(p.done)
		if !raw {
			// p2p.Peer.startProtocols runs this function on a bare goroutine: a panic here ends the node process. The
			// harness records it instead of dying so that the remaining sessions can still be explored.
			defer func() {
				if r := recover(); r != nil {
					p.runPanic = fmt.Sprint(r)
					p.runStack = string(debug.Stack())
				}
			}()
		}
		p.runErr = pm.SubProtocols[0].Run(p2p.NewPeer(id, name, nil), app)
	}()
	go func() { // p2p.Peer.run closes the connection once the protocol returned
		<-p.done
		p.net.Close()
	}()
	go p.reader()
	go p.writer()
	return p
}

func (p *hpeer) reader() {
	defer close(p.readerDone)
	for {
		msg, err := p.net.ReadMsg()
		if err != nil {
			return
		}
		data, _ := io.ReadAll(msg.Payload)
		m := rmsg{Code: msg.Code, Size: msg.Size, Count: -1}
		if content, _, err := rlp.SplitList(data); err == nil {
			if n, err := rlp.CountValues(content); err == nil {
				m.Count = n
			}
			if len(content) >= 33 && content[0] == 0xA0 {
				copy(m.First[:], content[1:33])
			}
		}
		p.mu.Lock()
		p.msgs = append(p.msgs, m)
		p.mu.Unlock()
		select {
		case p.notify <- struct{}{}:
		default:
		}
		switch msg.Code {
		case protocol.GetBlockHashesMsg, protocol.GetBlocksMsg, protocol.GetBlockHashesFromNumberMsg:
			atomic.AddInt32(&p.requests, 1)
			if p.resp != nil {
				p.resp.onRequest(p, msg.Code)
			}
		}
	}
}

func (p *hpeer) writer() {
	for {
		select {
		case req := <-p.out:
			req.done <- p.net.WriteMsg(p2p.Msg{Code: req.code, Size: req.size, Payload: req.payload})
		case <-p.quit:
			return
		}
	}
}

// send writes one message and waits until the node consumed it. "ok" | "ended" (the node's Run function returned) |
// "timeout".
func (p *hpeer) send(code uint64, payload []byte) string {
	return p.sendReader(code, uint32(len(payload)), bytes.NewReader(payload))
}

func (p *hpeer) sendReader(code uint64, size uint32, payload io.Reader) string {
	req := wreq{code: code, size: size, payload: payload, done: make(chan error, 1)}
	t := time.NewTimer(blockTimeout)
	defer t.Stop()
	select {
	case p.out <- req:
	case <-t.C:
		return "timeout"
	}
	select {
	case err := <-req.done:
		if err != nil {
			return "ended"
		}
		return "ok"
	case <-t.C:
		return "timeout"
	}
}

// sendAsync queues a message without waiting for its consumption (used by the responder, which runs on the reader).
func (p *hpeer) sendAsync(code uint64, payload []byte) {
	req := wreq{code: code, size: uint32(len(payload)), payload: bytes.NewReader(payload), done: make(chan error, 1)}
	go func() {
		select {
		case p.out <- req:
		case <-p.quit:
		}
	}()
}

func (p *hpeer) snapshot() []rmsg {
	p.mu.Lock()
	defer p.mu.Unlock()
	return append([]rmsg{}, p.msgs...)
}

// replies returns the messages that are answers to this peer's own requests, in order (the node never sends
// BlockHashesMsg or BlocksMsg unsolicited).
func replies(msgs []rmsg) []rmsg {
	var out []rmsg
	for _, m := range msgs {
		if m.Code == protocol.BlockHashesMsg || m.Code == protocol.BlocksMsg {
			out = append(out, m)
		}
	}
	return out
}

// await waits until pred holds on the received messages: "ok" | "ended" | "timeout". When the Run function has
// returned, the messages that were already on their way are still taken into account.
func (p *hpeer) await(pred func([]rmsg) bool, timeout time.Duration) string {
	t := time.NewTimer(timeout)
	defer t.Stop()
	for {
		if pred(p.snapshot()) {
			return "ok"
		}
		select {
		case <-p.notify:
		case <-p.readerDone:
			if pred(p.snapshot()) {
				return "ok"
			}
			return "ended"
		case <-t.C:
			return "timeout"
		}
	}
}

func (p *hpeer) ended() bool {
	select {
	case <-p.done:
		return true
	default:
		return false
	}
}

// closeTimeout: how long teardown waits for the node's side of a session to end. Once a session has been found blocked
// there is nothing left to learn from waiting (and a leaked lock would make every wait run to its end).
var closeTimeout = func() time.Duration { return blockTimeout }

func (p *hpeer) close() {
	p.net.Close()
	select {
	case <-p.done:
	case <-time.After(closeTimeout()):
	}
	<-p.readerDone
	close(p.quit)
}

// ---------------------------------------------------------------------------------------------------------------------
// responder: scripted answers to the node's own requests (what a peer that the node synchronises with controls)

type responder struct {
	e      *env
	mu     sync.Mutex
	spec   respSpec
	used   map[uint64]int
	honest bool // the witness: an honest peer on the same chain; it has none of the forged blocks it may be asked for
}

func (r *responder) onRequest(p *hpeer, code uint64) {
	if r.honest {
		switch code {
		case protocol.GetBlocksMsg:
			p.sendAsync(protocol.BlocksMsg, []byte{0xC0})
		default:
			p.sendAsync(protocol.BlockHashesMsg, []byte{0xC0})
		}
		return
	}
	r.mu.Lock()
	var list []string
	switch code {
	case protocol.GetBlockHashesFromNumberMsg:
		list = r.spec.OnHashesFromNumber
	case protocol.GetBlocksMsg:
		list = r.spec.OnGetBlocks
	case protocol.GetBlockHashesMsg:
		list = r.spec.OnGetHashes
	}
	i := r.used[code]
	r.used[code]++
	r.mu.Unlock()
	if i >= len(list) {
		return
	}
	l := lookupLetter(list[i])
	p.sendAsync(l.Code, l.Build(r.e))
}

// ---------------------------------------------------------------------------------------------------------------------
// the oracle

const sentinelNumber, sentinelAmount = 1, 1

type sessionRun struct {
	e   *env
	s   sessionSpec
	res *sessResult
	ob  *obsBridge
	pm  *protocol.ProtocolManager
	P   *hpeer
	W   *hpeer
	// bookkeeping of the replies owed to P
	owed       []owedReply
	checkedP   int // messages of P already checked against the caps
	checkedW   int
	wReplies   int
	postMortem bool // a panic was observed: the real node is gone, nothing after it is judged
}

type owedReply struct {
	code     int
	letter   *letter // nil: sentinel
	letterIx int
}

var sessionSeq uint64

func runSession(e *env, s sessionSpec, idx int) *sessResult {
	res := &sessResult{Idx: idx}
	sr := &sessionRun{e: e, s: s, res: res}
	sr.run()
	return res
}

func (sr *sessionRun) where(li int) string {
	if li < 0 || li >= len(sr.s.Letters) {
		return sr.s.String()
	}
	return fmt.Sprintf("message %d (%s) of session {%s}", li+1, sr.s.Letters[li], sr.s.String())
}

func (sr *sessionRun) run() {
	e, s, res := sr.e, sr.s, sr.res
	if dbg := os.Getenv("VERIF_C15_DEBUG"); dbg != "" { // development aid: the node's own protocol logs
		if f, err := os.OpenFile(dbg+".log", os.O_APPEND|os.O_CREATE|os.O_WRONLY, 0o644); err == nil {
			h := log15.StreamHandler(f, log15.LogfmtFormat())
			common.DownloaderLogger.SetHandler(h)
			common.FetcherLogger.SetHandler(h)
			common.ProtocolLogger.SetHandler(h)
		}
	}
	sessionSeq++
	sr.ob = &obsBridge{inner: e.n.Bridge, raw: e.raw, memo: &e.memo}
	sr.pm = protocol.NewProtocolManager(0, e.chainID, sr.ob)
	sr.pm.Start()
	frontierBefore := e.n.Frontier().Hash

	letters := make([]*letter, len(s.Letters))
	for i, name := range s.Letters {
		letters[i] = lookupLetter(name)
	}

	// witness peer: an honest peer connected before the session under test. In scripted sessions it connects after the
	// dialogue instead: the downloader hands block requests to any idle peer, and an honest peer's answer "I do not have
	// these" is discarded by the handler (empty BlocksMsg), leaving the request to a 9 s timer.
	connectWitness := func() {
		sr.W = e.connect(sr.pm, "witness", nodeID('W', sessionSeq), &responder{e: e, honest: true})
		if st := sr.handshake(sr.W); st != "ok" {
			res.Notes = append(res.Notes, "witness handshake failed: "+st)
			res.count("harness_witness_handshake_failed", 1)
		}
	}
	if s.Resp == nil {
		connectWitness()
	}
	var presp *responder
	if s.Resp != nil {
		presp = &responder{e: e, spec: *s.Resp, used: map[uint64]int{}}
	}
	sr.P = e.connect(sr.pm, "peer", nodeID('P', sessionSeq), presp)
	alive := true
	handshaken := false
	if !s.Pre {
		if st := sr.handshake(sr.P); st != "ok" {
			res.Notes = append(res.Notes, "peer handshake failed: "+st)
			res.count("harness_peer_handshake_failed", 1)
			alive = false
		}
		handshaken = true
	}

	if s.Dup && alive && handshaken {
		d := e.connect(sr.pm, "same-identity", nodeID('P', sessionSeq), nil)
		sr.handshake(d) // the node may answer with its status before it refuses the registration; either is fine
		t := time.NewTimer(blockTimeout)
		select {
		case <-d.done:
			res.count("a_duplicate_identity_refused", 1)
		case <-t.C:
			res.Blocked = fmt.Sprintf("a second session presenting the identity of a connected peer was neither refused nor ended within %v", blockTimeout)
		}
		t.Stop()
		if res.Blocked == "" {
			nw := e.connect(sr.pm, "newcomer", nodeID('N', sessionSeq), &responder{e: e, honest: true})
			if st := sr.handshake(nw); st != "ok" {
				res.Blocked = fmt.Sprintf("after a second session with the identity of a connected peer was refused, a new peer cannot complete the handshake (%s)", st)
			} else if st := nw.send(protocol.GetBlockHashesFromNumberMsg, enc(getBlockHashesFromNumberData{sentinelNumber, sentinelAmount})); st != "ok" {
				res.Blocked = fmt.Sprintf("after a second session with the identity of a connected peer was refused, the node does not take a newcomer's request (%s): new peers are not registered any more", st)
			} else if st := nw.await(func(ms []rmsg) bool { return len(replies(ms)) >= 1 }, blockTimeout); st != "ok" {
				res.Blocked = fmt.Sprintf("after a second session with the identity of a connected peer was refused, a newcomer's request is not answered within %v: new peers are not served any more", blockTimeout)
			} else {
				res.count("a_newcomer_served_after_duplicate", 1)
			}
			if res.Blocked != "" {
				closeTimeout = func() time.Duration { return 2 * time.Second }
			}
			nw.close()
		}
		if res.Blocked != "" {
			closeTimeout = func() time.Duration { return 2 * time.Second }
		}
		d.close()
	}

	for li, l := range letters {
		if !alive || sr.postMortem || res.Blocked != "" {
			res.Outcomes = append(res.Outcomes, "not-sent")
			res.count("a_letters_not_sent_peer_already_dropped", 1)
			continue
		}
		out := sr.step(li, l, &handshaken)
		res.Outcomes = append(res.Outcomes, out)
		res.add("a_outcomes", l.CodeName+"/"+l.Kind+"/"+outcomeClass(out))
		if sr.P.ended() {
			alive = false
		}
	}

	if s.Resp != nil && !sr.postMortem && res.Blocked == "" {
		// The dialogue is driven by the node: its downloader polls its queue on a 100 ms ticker and its fetcher asks for an
		// announced block after 400 ms. Keep observing while the node keeps sending requests; how long to watch is the only
		// thing the clock decides here, no verdict depends on it.
		reqs := func() int { return int(atomic.LoadInt32(&sr.P.requests)) }
		deadline := time.Now().Add(3 * time.Second)
		for reqs() < s.Resp.WaitRequests && time.Now().Before(deadline) && !sr.P.ended() {
			time.Sleep(5 * time.Millisecond)
		}
		if s.Resp.WaitRequests > 0 {
			if reqs() < s.Resp.WaitRequests {
				res.count("a_responder_no_request", 1)
			} else {
				res.count("a_responder_requests_served", 1)
			}
		}
		for time.Now().Before(deadline) && !sr.P.ended() {
			quiesce(time.Second)
			n := reqs()
			time.Sleep(160 * time.Millisecond)
			quiesce(time.Second)
			if reqs() == n {
				break
			}
		}
		if !sr.postMortem && sr.ob.panicCount() == 0 {
			connectWitness()
		}
		sr.settle(len(letters)-1, letters[len(letters)-1], true)
	}
	if s.Resp != nil {
		res.count("a_node_requests_seen", int64(atomic.LoadInt32(&sr.P.requests)))
	}

	if os.Getenv("VERIF_C15_DEBUG") != "" {
		for _, m := range sr.P.snapshot() {
			res.Notes = append(res.Notes, fmt.Sprintf("P<-node %s size=%d count=%d first=%x", codeName(m.Code), m.Size, m.Count, m.First[:4]))
		}
		if sr.P.ended() {
			res.Notes = append(res.Notes, fmt.Sprintf("P ended: err=%v panic=%q", sr.P.runErr, sr.P.runPanic))
		}
	}
	// teardown
	if res.Blocked != "" {
		closeTimeout = func() time.Duration { return 2 * time.Second }
		defer func() { closeTimeout = func() time.Duration { return blockTimeout } }()
	}
	sr.P.close()
	if sr.W != nil {
		sr.W.close()
	}
	stopped := make(chan struct{})
	go func() { sr.pm.Stop(); close(stopped) }()
	select {
	case <-stopped:
	case <-time.After(closeTimeout()):
		res.count("harness_pm_stop_timeout", 1)
	}
	sr.collectPanics(len(letters)-1, nil)
	if e.n.Frontier().Hash != frontierBefore {
		res.count("harness_chain_changed", 1)
		res.Notes = append(res.Notes, "the chain changed during "+s.String())
	}
	for m, n := range sr.ob.calls {
		res.count("a_bridge_calls_"+m, int64(n))
	}
}

func outcomeClass(out string) string {
	if i := strings.IndexByte(out, ':'); i >= 0 {
		return out[:i]
	}
	return out
}

func (sr *sessionRun) handshake(p *hpeer) string {
	e := sr.e
	st := p.send(protocol.StatusMsg, enc(statusData{ProtocolVersion: protoVersion, NetworkId: uint32(e.chainID), TD: 0, CurrentBlock: e.genesis, GenesisBlock: e.genesis}))
	if st != "ok" {
		return "status write " + st
	}
	// the node's own status must arrive
	return p.await(func(ms []rmsg) bool {
		for _, m := range ms {
			if m.Code == protocol.StatusMsg {
				return true
			}
		}
		return false
	}, blockTimeout)
}

// step sends one letter and judges everything that can be judged right after it.
func (sr *sessionRun) step(li int, l *letter, handshaken *bool) string {
	e, res, P := sr.e, sr.res, sr.P
	res.count("a_letters_sent", 1)

	// 1. the message itself
	var st string
	var consumed int64
	if l.Oversize {
		cr := &countingReader{r: bytes.NewReader(oversizePayload())}
		st = P.sendReader(l.Code, uint32(oversizeLen), cr)
		consumed = atomic.LoadInt64(&cr.n)
	} else {
		st = P.send(l.Code, l.Build(e))
	}
	if st == "timeout" {
		res.Blocked = fmt.Sprintf("the node did not take %s within %v", sr.where(li), blockTimeout)
		return "blocked:write"
	}
	wasHandshaken := *handshaken
	if !wasHandshaken && l.Status {
		*handshaken = true
	}
	expectDrop := !wasHandshaken && !l.Status // anything but a well-formed status before the handshake
	if l.Reply >= 0 && wasHandshaken && l.Kind == "valid" {
		sr.owed = append(sr.owed, owedReply{code: l.Reply, letter: l, letterIx: li})
	}

	// 2. sentinel from the same peer (only meaningful after the handshake; before it the only legal message is status,
	// so the node must end the session: wait for that, and probe with the sentinel only if it did not)
	if expectDrop && st == "ok" {
		select {
		case <-P.done:
		case <-time.After(blockTimeout):
		}
	}
	if st == "ok" && !P.ended() && (*handshaken || expectDrop) {
		sr.sendSentinel(P, li, true)
	}
	out := sr.settle(li, l, false)

	// 3. judgement of the peer's own fate
	if sr.postMortem {
		return out
	}
	if P.ended() {
		if P.runPanic != "" {
			return out
		}
		errText := "nil"
		if P.runErr != nil {
			errText = P.runErr.Error()
		}
		if l.Oversize && consumed > 0 {
			res.violate("C15:oversize:payload-read-before-rejection", fmt.Sprintf("%s: the node read %d bytes of a %d-byte message before dropping the peer (%s)", sr.where(li), consumed, oversizeLen, errText))
		}
		res.count("a_peer_dropped_with_error", 1)
		if l.Kind == "valid" && wasHandshaken && !l.Status {
			res.count("a_well_formed_message_dropped_peer", 1)
			res.add("a_well_formed_dropped", l.CodeName+"/"+l.Class)
		}
		return "dropped:" + errClass(errText)
	}
	// still connected
	if l.Oversize {
		res.violate("C15:oversize:not-rejected", fmt.Sprintf("%s: a message of %d bytes (> %d) did not end the session; the node read %d bytes of it", sr.where(li), oversizeLen, protocol.ProtocolMaxMsgSize, consumed))
		return "oversize-accepted"
	}
	if expectDrop {
		res.violate("C15:"+l.CodeName+":accepted-before-handshake", fmt.Sprintf("%s: a message other than a well-formed status was accepted before the handshake", sr.where(li)))
	}
	if l.Kind != "valid" || (wasHandshaken && l.Status) {
		res.count("a_malformed_tolerated_peer_kept", 1)
		res.add("a_malformed_tolerated", l.CodeName+"/"+l.Kind)
		return "tolerated"
	}
	return out
}

type countingReader struct {
	r io.Reader
	n int64
}

func (c *countingReader) Read(b []byte) (int, error) {
	n, err := c.r.Read(b)
	atomic.AddInt64(&c.n, int64(n))
	return n, err
}

var oversizeCache []byte

func oversizePayload() []byte {
	if oversizeCache == nil {
		oversizeCache = oversizeBytes()
	}
	return oversizeCache
}

func errClass(s string) string {
	for _, k := range []string{"Message too long", "Invalid message code", "Invalid message", "Protocol version mismatch", "NetworkId mismatch", "Genesis block mismatch", "No status message", "Extra status message", "closed message pipe", "rlp:"} {
		if strings.Contains(s, k) {
			return strings.ReplaceAll(k, " ", "-")
		}
	}
	if len(s) > 40 {
		s = s[:40]
	}
	return s
}

func (sr *sessionRun) sendSentinel(p *hpeer, li int, own bool) bool {
	// BlocksMsg[] makes the handler do a synchronous round trip through the fetcher loop (Filter), the hash request
	// makes it read the chain and answer: the answer proves that the handler loop and the fetcher loop are both alive.
	if st := p.send(protocol.BlocksMsg, []byte{0xC0}); st != "ok" {
		if st == "timeout" {
			sr.res.Blocked = fmt.Sprintf("after %s: the node did not take the sentinel of peer %s within %v", sr.where(li), p.name, blockTimeout)
		}
		return false
	}
	if st := p.send(protocol.GetBlockHashesFromNumberMsg, enc(getBlockHashesFromNumberData{sentinelNumber, sentinelAmount})); st != "ok" {
		if st == "timeout" {
			sr.res.Blocked = fmt.Sprintf("after %s: the node did not take the sentinel of peer %s within %v", sr.where(li), p.name, blockTimeout)
		}
		return false
	}
	if own {
		sr.owed = append(sr.owed, owedReply{code: protocol.BlockHashesMsg, letterIx: li})
	}
	sr.res.count("a_sentinels_sent", 1)
	return true
}

// settle waits for everything the node owes after letter li (replies to the peer, quiescence of asynchronous work, the
// witness's sentinel) and checks caps, sentinel answers and recorded panics. It returns the letter's outcome.
func (sr *sessionRun) settle(li int, l *letter, final bool) string {
	res, P, W := sr.res, sr.P, sr.W
	out := "no-reply"

	// replies owed to P
	if !final {
		want := len(sr.owed)
		st := P.await(func(ms []rmsg) bool { return len(replies(ms)) >= want }, blockTimeout)
		if st == "timeout" && !P.ended() {
			got := len(replies(P.snapshot()))
			res.Blocked = fmt.Sprintf("after %s: %d of %d owed replies arrived within %v (the peer's message loop does not answer)", sr.where(li), got, want, blockTimeout)
			return "blocked:no-reply"
		}
	}

	// asynchronous work started by the letter
	if l.Async || P.runPanic != "" || final {
		ok, polls, unknown := quiesce(5 * time.Second)
		res.count("a_quiesce_polls", int64(polls))
		if !ok {
			res.count("a_quiesce_timeout", 1)
		}
		if unknown != "" {
			res.add("a_unknown_goroutine_state", unknown)
		}
	}

	// panics
	if P.runPanic != "" && !sr.postMortem {
		sr.postMortem = true
		site := panicSite(P.runStack)
		// a panic below a bridge method is recorded by the bridge wrapper; this one happened in the handler itself
		key := fmt.Sprintf("C15:%s:%s@%s", l.CodeName, panicKind(P.runPanic), site)
		res.violate(key, fmt.Sprintf("%s: panic on the peer's protocol goroutine, which p2p.Peer.startProtocols starts without a recover, so the node process terminates: %s\n%s", sr.where(li), P.runPanic, trimStack(P.runStack)))
		out = "panic:" + site
	}
	if o := sr.collectPanics(li, l); o != "" {
		out = o
	}
	if sr.postMortem {
		return out
	}

	// judge the replies to P
	msgs := P.snapshot()
	reps := replies(msgs)
	for i, ow := range sr.owed {
		if i >= len(reps) {
			break
		}
		if i < sr.wReplies {
			continue
		}
		rep := reps[i]
		if ow.letter == nil { // sentinel
			if rep.Code != protocol.BlockHashesMsg || rep.Count != 1 || rep.First != sr.e.genesis {
				res.violate(fmt.Sprintf("C15:%s:%s:sentinel-wrong-reply", l.CodeName, l.Class), fmt.Sprintf("after %s the sentinel request GetBlockHashesFromNumber{1,1} was answered with code %d, %d elements", sr.where(li), rep.Code, rep.Count))
			}
			res.count("a_sentinel_replies_ok", 1)
			continue
		}
		if int(rep.Code) != ow.code {
			res.violate(fmt.Sprintf("C15:%s:wrong-reply-code", ow.letter.CodeName), fmt.Sprintf("%s: reply code %d, expected %d", sr.where(ow.letterIx), rep.Code, ow.code))
		}
		out = fmt.Sprintf("reply:%d", rep.Count)
		res.count("a_replies_to_requests", 1)
		if rep.Count > 0 {
			res.count("a_replies_nonempty", 1)
		}
		if ow.letter.AmountOf != nil {
			if a := ow.letter.AmountOf(sr.e); uint64(rep.Count) > a {
				res.count("a_reply_exceeds_requested_amount", 1)
			}
			if rep.Count == 512 {
				res.count("a_replies_exactly_at_hash_cap", 1)
			}
		}
		if rep.Code == protocol.BlocksMsg && rep.Count == 128 {
			res.count("a_replies_exactly_at_momentum_cap", 1)
		}
	}
	if len(reps) > len(sr.owed) {
		res.violate("C15:unsolicited-reply", fmt.Sprintf("%s: %d replies for %d requests", sr.where(li), len(reps), len(sr.owed)))
	}
	sr.wReplies = len(reps)
	if sr.wReplies > len(sr.owed) {
		sr.wReplies = len(sr.owed)
	}
	sr.checkCaps(li, l, P, &sr.checkedP)

	// the witness must still be served
	if res.Blocked == "" && W != nil {
		before := len(replies(W.snapshot()))
		if W.ended() {
			res.violate(fmt.Sprintf("C15:%s:%s:other-peer-dropped", l.CodeName, l.Class), fmt.Sprintf("after %s the honest witness peer was disconnected (Run returned %v, panic %q)", sr.where(li), W.runErr, W.runPanic))
		} else if sr.sendSentinel(W, li, false) {
			st := W.await(func(ms []rmsg) bool { return len(replies(ms)) > before }, blockTimeout)
			switch {
			case st == "ok":
				rep := replies(W.snapshot())[before]
				if rep.Code != protocol.BlockHashesMsg || rep.Count != 1 || rep.First != sr.e.genesis {
					res.violate(fmt.Sprintf("C15:%s:%s:witness-wrong-reply", l.CodeName, l.Class), fmt.Sprintf("after %s the witness's request GetBlockHashesFromNumber{1,1} was answered with code %d, %d elements", sr.where(li), rep.Code, rep.Count))
				}
				res.count("a_witness_replies_ok", 1)
			case st == "timeout":
				res.Blocked = fmt.Sprintf("after %s the witness peer's request was not answered within %v (other peers are not served)", sr.where(li), blockTimeout)
			default:
				res.violate(fmt.Sprintf("C15:%s:%s:other-peer-dropped", l.CodeName, l.Class), fmt.Sprintf("after %s the honest witness peer was disconnected while waiting for its reply (Run returned %v)", sr.where(li), W.runErr))
			}
		} else if res.Blocked == "" {
			res.violate(fmt.Sprintf("C15:%s:%s:other-peer-dropped", l.CodeName, l.Class), fmt.Sprintf("after %s the honest witness peer could not send (Run returned %v)", sr.where(li), W.runErr))
		}
		sr.checkCaps(li, l, W, &sr.checkedW)
		if o := sr.collectPanics(li, l); o != "" {
			out = o
		}
	}
	return out
}

func panicKind(v string) string {
	switch {
	case strings.Contains(v, "nil pointer dereference"):
		return "nil-deref"
	case strings.Contains(v, "index out of range"), strings.Contains(v, "slice bounds out of range"):
		return "index-out-of-range"
	}
	return "panic"
}

// collectPanics turns panics recorded by the bridge wrapper into violations.
func (sr *sessionRun) collectPanics(li int, l *letter) string {
	out := ""
	for _, p := range sr.ob.takePanics() {
		sr.postMortem = true
		var key, why string
		code := "teardown"
		if l != nil {
			code = l.CodeName
		}
		switch p.Origin {
		case "handler":
			key = fmt.Sprintf("C15:%s:%s@%s", code, panicKind(p.Value), p.Site)
			why = "on the peer's protocol goroutine, which p2p.Peer.startProtocols starts without a recover"
		default:
			key = fmt.Sprintf("C15:async:%s@%s:via-%s", panicKind(p.Value), p.Site, p.Method)
			why = fmt.Sprintf("on a %s goroutine that has no recover", p.Origin)
		}
		sr.res.violate(key, fmt.Sprintf("%s: panic in %s (called through ChainBridge.%s) %s, so the node process terminates: %s\n%s", sr.where(li), p.Site, p.Method, why, p.Value, p.Stack))
		out = "panic:" + p.Site
	}
	return out
}

// checkCaps checks every message the node sent to p since the last call against the protocol's stated limits.
func (sr *sessionRun) checkCaps(li int, l *letter, p *hpeer, checked *int) {
	msgs := p.snapshot()
	for _, m := range msgs[*checked:] {
		sr.res.count("a_node_messages_checked", 1)
		if m.Size > protocol.ProtocolMaxMsgSize {
			sr.res.violate(fmt.Sprintf("C15:%s:node-sent-oversize-message", l.CodeName), fmt.Sprintf("%s: the node sent a %s of %d bytes to peer %s", sr.where(li), codeName(m.Code), m.Size, p.name))
		}
		switch m.Code {
		case protocol.BlockHashesMsg:
			if m.Count > 512 {
				cls := l.Class
				if l.CapClass != nil {
					cls = l.CapClass(sr.e)
				}
				sr.res.violate(fmt.Sprintf("C15:%s:%s:cap-bypassed", l.CodeName, cls), fmt.Sprintf("%s: the node answered with %d hashes in one BlockHashesMsg (limit MaxHashFetch = 512)", sr.where(li), m.Count))
			}
		case protocol.BlocksMsg:
			if m.Count > 128 {
				sr.res.violate(fmt.Sprintf("C15:%s:momentum-cap-bypassed", l.CodeName), fmt.Sprintf("%s: the node answered with %d momentums in one BlocksMsg (limit MaxBlockFetch = 128)", sr.where(li), m.Count))
			}
		}
	}
	*checked = len(msgs)
}
