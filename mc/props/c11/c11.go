// Package c11 — rewards: bounded by the epoch's emission, paid once, identical on all nodes.
//
// With epochs shrunk to 6 momentums, all histories up to a depth bound over produced / missed momentums, weight changes
// (delegate, undelegate, transfers), stakes entering and leaving, explicit Update calls (early / on time / late) and
// CollectReward calls (before, after, twice) are executed on a real node from base states placed just before and after
// epoch boundaries. After every transition, for the pillar, sentinel, stake and liquidity contracts:
//
//	(1) for every epoch e: the sum of credited ZNN / QSR (reward history entries of e over all addresses) is at most the
//	    contract's share of e's emission, computed independently from the emission tables and percentages;
//	(2) the last rewarded epoch only grows, one epoch at a time; the history of an epoch never changes once written, and
//	    no history exists beyond the last rewarded epoch;
//	(3) for every address: credited total == collected (minted through CollectReward) + still pending, so a credit can
//	    be collected exactly once and mints exactly the credited amount;
//
// and at the end of every complete history (4) followers fed in one batch, and fed half / restarted with a wiped
// consensus cache / fed the rest, hold byte-identical ledgers (the credited amounts are a function of the chain alone).
package c11

import (
	"encoding/json"
	"fmt"
	"math/big"
	"time"

	"github.com/zenon-network/go-zenon/chain/nom"
	"github.com/zenon-network/go-zenon/common/db"
	"github.com/zenon-network/go-zenon/common/types"
	"github.com/zenon-network/go-zenon/vm/constants"
	"github.com/zenon-network/go-zenon/vm/embedded/definition"

	"verifmc/internal/hx"
	"verifmc/internal/ledger"
	"verifmc/internal/ops"
	"verifmc/internal/vnode"
	"verifmc/internal/xs"
	"verifmc/props/c10"
)

var M = ops.Op{K: "M"}

const momentumsPerEpoch = 6

func configure() {
	vnode.SmallConsensus(2) // tick = 3 slots, epoch = 2 ticks = 6 momentums
	constants.MomentumsPerEpoch = momentumsPerEpoch
	constants.RewardTimeLimit = 10
	constants.UpdateMinNumMomentums = 2
	constants.StakeTimeUnitSec = 20
	constants.StakeTimeMinSec = 20
	constants.StakeTimeMaxSec = 240
	// a pillar can be revoked 20 s after its registration (and at any time afterwards)
	constants.PillarEpochLockTime = 20
	constants.PillarEpochRevokeTime = 1 << 40
}

var rewardContracts = []types.Address{types.PillarContract, types.SentinelContract, types.StakeContract, types.LiquidityContract}

// emissionShare: reference bound from the tables (not through the constants.*Reward* helper functions)
func emissionShare(contract types.Address, epoch uint64) (znn, qsr *big.Int) {
	tick := int(epoch / constants.RewardTickDurationInEpochs)
	pick := func(t []int64) int64 {
		if tick >= len(t) {
			return t[len(t)-1]
		}
		return t[tick]
	}
	nz, nq := pick(constants.NetworkZnnRewardConfig), pick(constants.NetworkQsrRewardConfig)
	pct := func(total, p int64) *big.Int {
		return new(big.Int).Div(new(big.Int).Mul(big.NewInt(total), big.NewInt(p)), big.NewInt(100))
	}
	switch contract {
	case types.PillarContract:
		return pct(nz, 24+50), big.NewInt(0)
	case types.SentinelContract:
		return pct(nz, 13), pct(nq, 25)
	case types.StakeContract:
		return big.NewInt(0), pct(nq, 50)
	case types.LiquidityContract:
		return pct(nz, 13), pct(nq, 25)
	}
	panic("unknown reward contract")
}

func addrs() []types.Address {
	var out []types.Address
	for _, u := range ops.Users {
		out = append(out, u.Address)
	}
	out = append(out, types.LiquidityContract, types.AcceleratorContract)
	return out
}

type snapshot struct {
	lastEpoch map[types.Address]int64
	history   map[string][2]string // contract|epoch|addr -> znn,qsr
}

func takeSnapshot(n *vnode.Node, pool bool) (*snapshot, string, string) {
	s := &snapshot{lastEpoch: map[types.Address]int64{}, history: map[string][2]string{}}
	conf := ledger.Confirmed(n)
	v := conf
	if pool {
		v = ledger.WithPool(n, conf)
	}
	for _, c := range rewardContracts {
		var st = n.Chain.GetFrontierMomentumStore().GetAccountStore(c).Storage()
		if pool {
			st = n.Chain.GetFrontierAccountStore(c).Storage()
		}
		le, err := definition.GetLastEpochUpdate(st)
		if err != nil {
			panic(err)
		}
		s.lastEpoch[c] = le.LastEpoch
		credited := map[types.Address][2]*big.Int{}
		epochSum := map[int64][2]*big.Int{}
		maxEpoch := le.LastEpoch + 3
		for e := int64(0); e <= maxEpoch; e++ {
			sumZ, sumQ := new(big.Int), new(big.Int)
			for _, a := range addrs() {
				a := a
				h, err := definition.GetRewardDepositHistory(st, uint64(e), &a)
				if err != nil {
					panic(err)
				}
				if h.Znn.Sign() == 0 && h.Qsr.Sign() == 0 {
					continue
				}
				if e > le.LastEpoch {
					return s, "history-beyond-last-rewarded-epoch", fmt.Sprintf("contract %v has a reward history entry for epoch %d of %v although its last rewarded epoch is %d", c, e, a, le.LastEpoch)
				}
				s.history[fmt.Sprintf("%v|%d|%v", c, e, a)] = [2]string{h.Znn.String(), h.Qsr.String()}
				sumZ.Add(sumZ, h.Znn)
				sumQ.Add(sumQ, h.Qsr)
				cz := credited[a]
				if cz[0] == nil {
					cz = [2]*big.Int{new(big.Int), new(big.Int)}
				}
				cz[0].Add(cz[0], h.Znn)
				cz[1].Add(cz[1], h.Qsr)
				credited[a] = cz
			}
			epochSum[e] = [2]*big.Int{sumZ, sumQ}
			bz, bq := emissionShare(c, uint64(e))
			if sumZ.Cmp(bz) > 0 || sumQ.Cmp(bq) > 0 {
				return s, "credited-exceeds-emission", fmt.Sprintf("contract %v credited %v ZNN / %v QSR for epoch %d, its share of the emission is %v / %v", c, sumZ, sumQ, e, bz, bq)
			}
		}
		// (2') exactly once also means not zero times: the cursor moves only past epochs that were rewarded
		if k, msg := rewardedUpToCursor(n, v, c, st, le.LastEpoch, epochSum); k != "" {
			return s, k, msg
		}
		// (3) credited == collected + pending
		collected := map[types.Address][2]*big.Int{}
		if ac := v.Accounts[c]; ac != nil {
			byHash := map[types.Hash]*nom.AccountBlock{}
			for _, x := range v.Accounts {
				for _, b := range x.Blocks {
					byHash[b.Hash] = b
				}
			}
			selCollect := string(definition.ABICommon.PackMethodPanic(definition.CollectRewardMethodName)[:4])
			for _, b := range ac.Blocks {
				if b.BlockType != nom.BlockTypeContractReceive {
					continue
				}
				send := byHash[b.FromBlockHash]
				if send == nil || len(send.Data) < 4 || string(send.Data[:4]) != selCollect {
					continue
				}
				for _, d := range b.DescendantBlocks {
					if d.ToAddress != types.TokenContract {
						continue
					}
					param := new(definition.MintParam)
					if err := definition.ABIToken.UnpackMethod(param, definition.MintMethodName, d.Data); err != nil {
						continue
					}
					cz := collected[send.Address]
					if cz[0] == nil {
						cz = [2]*big.Int{new(big.Int), new(big.Int)}
					}
					if param.ReceiveAddress != send.Address {
						return s, "collect-mints-to-someone-else", fmt.Sprintf("CollectReward by %v on %v mints to %v", send.Address, c, param.ReceiveAddress)
					}
					switch param.TokenStandard {
					case types.ZnnTokenStandard:
						cz[0].Add(cz[0], param.Amount)
					case types.QsrTokenStandard:
						cz[1].Add(cz[1], param.Amount)
					}
					collected[send.Address] = cz
				}
			}
		}
		for _, a := range addrs() {
			a := a
			dep, err := definition.GetRewardDeposit(st, &a)
			if err != nil {
				panic(err)
			}
			cr := credited[a]
			if cr[0] == nil {
				cr = [2]*big.Int{new(big.Int), new(big.Int)}
			}
			co := collected[a]
			if co[0] == nil {
				co = [2]*big.Int{new(big.Int), new(big.Int)}
			}
			if new(big.Int).Add(co[0], dep.Znn).Cmp(cr[0]) != 0 || new(big.Int).Add(co[1], dep.Qsr).Cmp(cr[1]) != 0 {
				return s, "credited-differs-from-collected-plus-pending", fmt.Sprintf("contract %v, address %v: credited %v ZNN / %v QSR over all epochs, collected %v / %v, pending %v / %v", c, a, cr[0], cr[1], co[0], co[1], dep.Znn, dep.Qsr)
			}
		}
	}
	return s, "", ""
}

// rewardedUpToCursor: every epoch at or below a contract's cursor must have been rewarded. What "rewarded" leaves behind
// differs per contract:
//
//	liquidity: every epoch mints the contract's share to the contract itself: Σ minted == Σ_{e ≤ cursor} share(e), exactly
//	stake:     a stake entry (still) in storage that was active during e means the whole share of e was distributed
//	           pro rata (rounded down per entry): Σ credited(e) ≥ share(e) − 16
//	sentinel:  the same for a sentinel entry with more than 90 % uptime in e
//	pillar:    an epoch in which momentums were produced credits block rewards: Σ credited ZNN(e) > 0
func rewardedUpToCursor(n *vnode.Node, v *ledger.View, c types.Address, st db.DB, cursor int64, epochSum map[int64][2]*big.Int) (string, string) {
	if cursor < 0 {
		return "", ""
	}
	ticker := n.Cons.FrontierPillarReader().EpochTicker()
	sum := func(e int64, i int) *big.Int {
		if x, ok := epochSum[e]; ok && x[i] != nil {
			return x[i]
		}
		return new(big.Int)
	}
	slack := big.NewInt(16)
	switch c {
	case types.LiquidityContract:
		mintedZ, mintedQ, mints := new(big.Int), new(big.Int), 0
		if ac := v.Accounts[c]; ac != nil {
			for _, b := range ac.Blocks {
				if b.BlockType != nom.BlockTypeContractReceive {
					continue
				}
				for _, d := range b.DescendantBlocks {
					if d.ToAddress != types.TokenContract {
						continue
					}
					param := new(definition.MintParam)
					if err := definition.ABIToken.UnpackMethod(param, definition.MintMethodName, d.Data); err != nil || param.ReceiveAddress != c {
						continue
					}
					mints++
					switch param.TokenStandard {
					case types.ZnnTokenStandard:
						mintedZ.Add(mintedZ, param.Amount)
					case types.QsrTokenStandard:
						mintedQ.Add(mintedQ, param.Amount)
					}
				}
			}
		}
		wantZ, wantQ := new(big.Int), new(big.Int)
		for e := int64(0); e <= cursor; e++ {
			z, q := emissionShare(c, uint64(e))
			wantZ.Add(wantZ, z)
			wantQ.Add(wantQ, q)
		}
		// once the bridge-and-liquidity spork is enforced the programme no longer mints an epoch's share to the contract
		// itself (it credits the liquidity stakers, bounded by the per-epoch emission oracle): the lower bound is the
		// pre-spork method's
		if active, err := n.Chain.GetFrontierMomentumStore().IsSporkActive(types.BridgeAndLiquiditySpork); err == nil && active {
			if mintedZ.Cmp(wantZ) > 0 || mintedQ.Cmp(wantQ) > 0 {
				return "liquidity:minted-more-than-the-rewarded-epochs-share", fmt.Sprintf("the liquidity contract minted %v ZNN / %v QSR to itself, the shares of epochs 0..%d add up to %v / %v", mintedZ, mintedQ, cursor, wantZ, wantQ)
			}
			return "", ""
		}
		if mintedZ.Cmp(wantZ) < 0 || mintedQ.Cmp(wantQ) < 0 {
			key := "liquidity:cursor-advanced-past-an-unrewarded-epoch"
			if cursor+1 > 10 {
				key = "liquidity:Update-with-more-than-10-epochs-due:cursor-advanced-past-an-unrewarded-epoch"
			}
			return key, fmt.Sprintf("the liquidity contract's last rewarded epoch is %d (%d epochs) but it minted only %v ZNN / %v QSR to itself in %d mint blocks (%d epochs' worth); the shares of epochs 0..%d add up to %v / %v",
				cursor, cursor+1, mintedZ, mintedQ, mints, mints/2, cursor, wantZ, wantQ)
		}
		if mintedZ.Cmp(wantZ) > 0 || mintedQ.Cmp(wantQ) > 0 {
			return "liquidity:minted-more-than-the-rewarded-epochs-share", fmt.Sprintf("the liquidity contract minted %v ZNN / %v QSR to itself, the shares of epochs 0..%d add up to %v / %v", mintedZ, mintedQ, cursor, wantZ, wantQ)
		}
	case types.StakeContract:
		var entries []*definition.StakeInfo
		if err := definition.IterateStakeEntries(st, func(e *definition.StakeInfo) error { entries = append(entries, e); return nil }); err != nil {
			panic(err)
		}
		for e := int64(0); e <= cursor; e++ {
			t0, t1 := ticker.ToTime(uint64(e))
			for _, en := range entries {
				from := en.StartTime
				if t0.Unix() > from {
					from = t0.Unix()
				}
				if en.StartTime < t1.Unix() && (en.RevokeTime == 0 || en.RevokeTime > from) && en.WeightedAmount.Sign() > 0 {
					_, share := emissionShare(c, uint64(e))
					if new(big.Int).Add(sum(e, 1), slack).Cmp(share) < 0 {
						return "stake:cursor-advanced-past-an-unrewarded-epoch", fmt.Sprintf("the stake contract's last rewarded epoch is %d; stake %v of %v was active during epoch %d, but only %v QSR were credited for that epoch (share %v)",
							cursor, en.Id, en.StakeAddress, e, sum(e, 1), share)
					}
					break
				}
			}
		}
	case types.SentinelContract:
		var entries []*definition.SentinelInfo
		if err := definition.IterateSentinelEntries(st, func(e *definition.SentinelInfo) error { entries = append(entries, e); return nil }); err != nil {
			panic(err)
		}
		for e := int64(0); e <= cursor; e++ {
			t0, t1 := ticker.ToTime(uint64(e))
			dur := t1.Unix() - t0.Unix()
			for _, en := range entries {
				from, to := t0.Unix(), t1.Unix()
				if en.RegistrationTimestamp > from {
					from = en.RegistrationTimestamp
				}
				if en.RevokeTimestamp != 0 && en.RevokeTimestamp < to {
					to = en.RevokeTimestamp
				}
				if from < to && dur*90 < (to-from)*100 {
					shareZ, shareQ := emissionShare(c, uint64(e))
					if new(big.Int).Add(sum(e, 0), slack).Cmp(shareZ) < 0 || new(big.Int).Add(sum(e, 1), slack).Cmp(shareQ) < 0 {
						return "sentinel:cursor-advanced-past-an-unrewarded-epoch", fmt.Sprintf("the sentinel contract's last rewarded epoch is %d; the sentinel of %v was up for more than 90%% of epoch %d, but only %v ZNN / %v QSR were credited for that epoch (share %v / %v)",
							cursor, en.Owner, e, sum(e, 0), sum(e, 1), shareZ, shareQ)
					}
					break
				}
			}
		}
	case types.PillarContract:
		produced := map[int64]int{}
		ms := n.Chain.GetFrontierMomentumStore()
		for h := uint64(2); h <= n.Height(); h++ {
			m, err := ms.GetMomentumByHeight(h)
			if err != nil || m == nil {
				panic(fmt.Sprintf("momentum %d: %v", h, err))
			}
			produced[int64(ticker.ToTick(*m.Timestamp))]++
		}
		for e := int64(0); e <= cursor; e++ {
			if produced[e] > 0 && sum(e, 0).Sign() == 0 {
				return "pillar:cursor-advanced-past-an-unrewarded-epoch", fmt.Sprintf("the pillar contract's last rewarded epoch is %d; %d momentums were produced in epoch %d, but no ZNN was credited for that epoch", cursor, produced[e], e)
			}
		}
	}
	return "", ""
}

func compare(prev, cur *snapshot) (string, string) {
	for c, le := range cur.lastEpoch {
		if p, ok := prev.lastEpoch[c]; ok {
			if le < p {
				return "last-rewarded-epoch-decreased", fmt.Sprintf("contract %v: last rewarded epoch went from %d to %d", c, p, le)
			}
		}
	}
	for k, v := range prev.history {
		if nv, ok := cur.history[k]; !ok || nv != v {
			return "reward-history-changed-after-it-was-written", fmt.Sprintf("history entry %s was %v, now %v (an epoch was rewarded more than once)", k, v, cur.history[k])
		}
	}
	return "", ""
}

func init() {
	ops.Calls["update-stake"] = func(o ops.Op) *nom.AccountBlock {
		return &nom.AccountBlock{BlockType: nom.BlockTypeUserSend, Address: ops.Users[o.A].Address, ToAddress: types.StakeContract, TokenStandard: types.ZnnTokenStandard, Amount: big.NewInt(0), Data: definition.ABICommon.PackMethodPanic(definition.UpdateMethodName)}
	}
	ops.Calls["update-pillar"] = func(o ops.Op) *nom.AccountBlock {
		return &nom.AccountBlock{BlockType: nom.BlockTypeUserSend, Address: ops.Users[o.A].Address, ToAddress: types.PillarContract, TokenStandard: types.ZnnTokenStandard, Amount: big.NewInt(0), Data: definition.ABICommon.PackMethodPanic(definition.UpdateMethodName)}
	}
	ops.Calls["pillar-percentages"] = func(o ops.Op) *nom.AccountBlock {
		pct := [][2]uint8{{10, 90}, {100, 200}, {255, 100}}[o.B]
		u := ops.Users[o.A].Address // users 10..12 own pillars 1..3 and are their producer and reward addresses
		return &nom.AccountBlock{BlockType: nom.BlockTypeUserSend, Address: u, ToAddress: types.PillarContract, TokenStandard: types.ZnnTokenStandard, Amount: big.NewInt(0),
			Data: definition.ABIPillars.PackMethodPanic(definition.UpdatePillarMethodName, []string{"TEST-pillar-1", "TEST-pillar-cool", "TEST-pillar-znn"}[o.A-10], u, u, pct[0], pct[1])}
	}
	ops.Calls["update-sentinel"] = func(o ops.Op) *nom.AccountBlock {
		return &nom.AccountBlock{BlockType: nom.BlockTypeUserSend, Address: ops.Users[o.A].Address, ToAddress: types.SentinelContract, TokenStandard: types.ZnnTokenStandard, Amount: big.NewInt(0), Data: definition.ABICommon.PackMethodPanic(definition.UpdateMethodName)}
	}
	ops.Calls["sentinel-collect"] = func(o ops.Op) *nom.AccountBlock {
		return &nom.AccountBlock{BlockType: nom.BlockTypeUserSend, Address: ops.Users[o.A].Address, ToAddress: types.SentinelContract, TokenStandard: types.ZnnTokenStandard, Amount: big.NewInt(0), Data: definition.ABICommon.PackMethodPanic(definition.CollectRewardMethodName)}
	}
	// Q: a read-only consensus query in the middle of an epoch, as the pillar RPC does (pillar weights, statistics of
	// every epoch up to the current, unfinished one, the next producers). It must not influence what is credited.
	ops.Extra["Q"] = func(n *vnode.Node, o ops.Op) string {
		n.ConsensusDigest(3)
		// the query leaves no trace in the ledger, but it does touch the consensus module's in-memory caches: the heights at
		// which queries were made are part of the explored state (see KeyExtra), otherwise the search would merge a history
		// with a query into one without it and never explore its continuation
		queried[n] = append(queried[n], n.Height())
		return "ok"
	}
	// RevokeP3: pillar 3's owner revokes it (the set of producing pillars shrinks in the middle of an epoch)
	ops.Extra["RevokeP3"] = func(n *vnode.Node, o ops.Op) string {
		_, err := n.Submit(&nom.AccountBlock{BlockType: nom.BlockTypeUserSend, Address: ops.Users[12].Address, ToAddress: types.PillarContract,
			TokenStandard: types.ZnnTokenStandard, Amount: big.NewInt(0), Data: definition.ABIPillars.PackMethodPanic(definition.RevokeMethodName, "TEST-pillar-znn")})
		if err != nil {
			return "err:" + err.Error()
		}
		return "ok"
	}
	// ReorgDrop2: the node's last two momentums are abandoned for a longer branch of a second producer that misses the slot
	// of the first of them (three momentums). When the two abandoned momentums straddle an epoch end, the statistics of the
	// finished epoch (produced / missed momentums) change although the node had already closed it.
	ops.Extra["ReorgDrop2"] = func(n *vnode.Node, o ops.Op) string {
		H := n.Height()
		if H < 4 {
			return "too-short"
		}
		q := vnode.New(vnode.Options{Dir: n.Opts.Dir + "-drop2"})
		defer q.Destroy()
		if _, err, pan := q.InsertChain(vnode.CloneBatch(n.Range(2, H-2))); err != nil || pan != nil {
			return "err:prefix"
		}
		for i, skip := range []int{1, 0, 0} {
			if err := q.ProduceMomentumOnly(skip); err != nil {
				return fmt.Sprintf("err:produce%d", i)
			}
		}
		if _, err, pan := n.InsertChain(vnode.CloneBatch(q.Range(H-1, q.Height()))); err != nil || pan != nil {
			return "err:switch"
		}
		return "ok"
	}
	// M3: three momentums in a row (macro step so that epoch boundaries are reachable inside the depth bound)
	ops.Extra["M3"] = func(n *vnode.Node, o ops.Op) string {
		for i := 0; i < 3; i++ {
			if _, err := n.Produce(0); err != nil {
				return "err:" + err.Error()
			}
		}
		return "ok"
	}
	xs.Register(&xs.Check{
		ID:     "C11",
		Level:  "model_checking",
		Shards: func(tier string) int { return 16 },
		Budget: func(tier string) time.Duration {
			if tier == "thorough" {
				return 25 * time.Minute
			}
			return 6 * time.Minute
		},
		Assumptions: []string{
			"mock genesis (3 pillars); election tick 3 slots, epoch 6 momentums, MomentumsPerEpoch=6, RewardTimeLimit=10 s, UpdateMinNumMomentums=2 (consistent with each other); the reward logic is parametric in these constants",
			"emission bound per contract recomputed from NetworkZnn/QsrRewardConfig and the percentage constants, not through the constants.*Reward* helpers",
			"reward history is read for the 18 harness accounts + liquidity/accelerator contract addresses (every address that acts in the histories)",
		},
		Run: run,
		Finish: func(tier string, m *xs.Result, ev *xs.Evidence) {
			ev.Coverage["states"] = m.Counters["states"]
			ev.Coverage["transitions"] = m.Counters["transitions"]
			ev.Coverage["traces_validated_against_impl"] = m.Counters["histories"] + m.Counters["follower_comparisons"]
		},
	})
}

func alphabet(thorough bool) []ops.Op {
	a := []ops.Op{
		M,
		{K: "M3"},
		{K: "M", V: 1}, // a skipped slot: the pillar elected for it misses a momentum
		{K: "Call", S: "delegate", A: 2, B: 1},
		{K: "Call", S: "stake", A: 1, V: 10, B: 1},
		{K: "CancelStake0", A: 1},
		{K: "Call", S: "update-stake", A: 3},
		{K: "Call", S: "stake-collect", A: 1},
		{K: "Call", S: "pillar-collect", A: 10},
		{K: "Q"},
		{K: "RevokeP3"},
		{K: "ReorgDrop2"},
	}
	if thorough {
		a = append(a,
			ops.Op{K: "Call", S: "undelegate", A: 0},
			ops.Op{K: "Call", S: "update-pillar", A: 3},
			ops.Op{K: "Call", S: "pillar-collect", A: 0},       // a delegator
			ops.Op{K: "Tx", A: 0, B: 1, T: 0, V: 100000000000}, // 1000 ZNN: changes delegation weights
			ops.Op{K: "Call", S: "sentinel-collect", A: 5},
			ops.Op{K: "Call", S: "update-sentinel", A: 3},
			ops.Op{K: "Call", S: "stake", A: 2, V: 20, B: 2},
		)
	}
	return a
}

func bases() []hx.Base {
	five := []ops.Op{M, M, M, M}
	return []hx.Base{
		// pillar 3 is revoked in epoch 0; the base ends inside the second period of epoch 1, the first period of which is the
		// last one that still contains the revoked pillar
		{Name: "pillar-revoked/second-period-of-next-epoch", Prefix: []ops.Op{M, M, {K: "RevokeP3"}, M, M, {K: "M3"}, M, M}},
		{Name: "before-first-epoch-end", Prefix: append([]ops.Op{{K: "Call", S: "stake", A: 1, V: 10, B: 1}, {K: "Call", S: "delegate", A: 2, B: 1}}, five...)},
		{Name: "two-epochs-in", Prefix: append(append(append([]ops.Op{{K: "Call", S: "stake", A: 1, V: 10, B: 1}, {K: "Call", S: "sentinel-deposit-qsr", A: 5, V: 50000}}, five...),
			ops.Op{K: "Call", S: "sentinel-register", A: 5}), append(five, M, M, M, M)...)},
	}
}

// outageBases: a staker and a sentinel exist, then nothing is produced for 23 epochs (one momentum 139 slots later): when
// production resumes more epochs are due at once than a single Update handles (constants.MaxEpochsPerUpdate = 20)
func outageBases() []hx.Base {
	return []hx.Base{{Name: "after-an-outage-of-23-epochs", Prefix: []ops.Op{
		{K: "Call", S: "stake", A: 1, V: 10, B: 1}, {K: "Call", S: "sentinel-deposit-qsr", A: 5, V: 50000}, M, M, M, M,
		{K: "Call", S: "sentinel-register", A: 5}, M, M, {K: "M", V: 139},
	}}}
}

// percentageAlphabet: a pillar owner changes the reward percentages of its pillar (valid values, and values above 100 that
// send-time validation must refuse) around an epoch end; what the pillar contract credits for the epoch stays within
// the contract's share whatever the owner asked for
func percentageAlphabet() []ops.Op {
	return []ops.Op{M, {K: "M3"},
		{K: "Call", S: "pillar-percentages", A: 10, B: 0}, // 10 / 90
		{K: "Call", S: "pillar-percentages", A: 10, B: 1}, // 100 / 200: delegates would get twice the delegation reward
		{K: "Call", S: "pillar-percentages", A: 10, B: 2}, // 255 / 100
		{K: "Call", S: "update-pillar", A: 3},
		{K: "Call", S: "pillar-collect", A: 10},
		{K: "Call", S: "pillar-collect", A: 0}, // a delegator of pillar 1
	}
}

// liquidityBases / liquidityAlphabet: the liquidity programme after the bridge-and-liquidity spork (C10's set-up operation
// BLSetup: spork, guardians, token tuples): liquidity stakes of several users in both tokens, created during an epoch, after
// its end but before it is settled (the settlement waits RewardTimeLimit), and later; what the contract credits for an
// epoch stays within the liquidity share of the emission
func liquidityBases() []hx.Base {
	return []hx.Base{{Name: "liquidity-staked", Prefix: []ops.Op{{K: "BLSetup"}, {K: "LiqStake", A: 1, V: 30, B: 1}, {K: "LiqStake", A: 3, V: 2000, B: 1, T: 1}, M, M}}}
}

func liquidityAlphabet() []ops.Op {
	return []ops.Op{M, {K: "M3"}, {K: "M", V: 1},
		{K: "LiqStake", A: 2, V: 20, B: 2},
		{K: "LiqStake", A: 2, V: 1500, B: 1, T: 1},
		{K: "LiqCancel", A: 1, B: 0},
	}
}

func outageAlphabet() []ops.Op {
	return []ops.Op{M, {K: "M3"}, {K: "Call", S: "update-stake", A: 3}, {K: "Call", S: "stake-collect", A: 1}, {K: "Q"}}
}

func check(c *xs.Ctx, r *xs.Result, s *hx.Step, prev *[2]*snapshot, leaf bool) bool {
	rep := map[string]interface{}{"base": s.Base, "history": s.History}
	ok := true
	for vi, pool := range []bool{false, true} {
		view := map[bool]string{false: "confirmed ledger", true: "pool view"}[pool]
		snap, k, msg := takeSnapshot(s.Node, pool)
		if k != "" {
			r.Violate("C11:"+k, hx.Describe(s)+" ["+view+"]: "+msg, rep)
			ok = false
			continue
		}
		// history-monotonic comparisons (cursor, credited totals) hold along one chain; a reorganisation legitimately takes
		// settlements back, so the comparison starts afresh after it
		if prev[vi] != nil && !pool && s.Op.K != "ReorgDrop2" {
			if k, msg := compare(prev[vi], snap); k != "" {
				r.Violate("C11:"+k, hx.Describe(s)+" ["+view+"]: "+msg, rep)
				ok = false
			}
		}
		prev[vi] = snap
		if !pool {
			for c, le := range snap.lastEpoch {
				if le >= 0 {
					r.Add("rewarded", fmt.Sprintf("%v:%d", c, le))
				}
			}
			if len(snap.history) > 0 {
				r.Count("states_with_reward_history", 1)
			}
		}
	}
	if s.Op.S == "stake-collect" || s.Op.S == "pillar-collect" || s.Op.S == "sentinel-collect" {
		r.Add("collect_outcomes", s.Op.S+":"+s.Outcome)
	}
	if leaf && ok {
		// the follower differential depends on the chain only: once per distinct final ledger
		d := s.Node.FullDigest() + fmt.Sprint(queried[s.Node])
		if !leafSeen[d] {
			leafSeen[d] = true
			followers(c, r, s)
		}
	}
	return ok
}

var leafSeen = map[string]bool{}

// queried: per node, the frontier heights at which a read-only consensus query was made
var queried = map[*vnode.Node][]uint64{}

// followers: node independence at the end of a complete history
func followers(c *xs.Ctx, r *xs.Result, s *hx.Step) {
	p := s.Node
	H := p.Height()
	if H < 3 {
		return
	}
	want := p.FullDigest()
	chain := p.Range(2, H)
	rep := map[string]interface{}{"base": s.Base, "history": s.History}
	f1 := vnode.New(vnode.Options{Dir: c.TempDir(), NoPillars: true})
	if _, err, pan := f1.InsertChain(vnode.CloneBatch(chain)); err != nil || pan != nil {
		r.Violate("C11:follower-refuses-producer-chain", hx.Describe(s)+fmt.Sprintf(": follower fed in one batch: %v %v", err, pan), rep)
	} else if f1.FullDigest() != want {
		r.Violate("C11:follower-differs:one-batch", hx.Describe(s)+": follower fed in one batch differs from the producer: "+vnode.DiffKV(f1.Raw(nil, true), p.Raw(nil, true)), rep)
	}
	f1.Destroy()
	f2 := vnode.New(vnode.Options{Dir: c.TempDir(), NoPillars: true})
	half := len(chain) / 2
	_, err, pan := f2.InsertChain(vnode.CloneBatch(chain[:half]))
	if err == nil && pan == nil {
		f2.RestartWipedConsensus()
		for _, d := range chain[half:] {
			if _, err, pan = f2.InsertChain(vnode.CloneBatch([]*nom.DetailedMomentum{d})); err != nil || pan != nil {
				break
			}
		}
	}
	if err != nil || pan != nil {
		r.Violate("C11:follower-refuses-producer-chain", hx.Describe(s)+fmt.Sprintf(": follower restarted with a wiped consensus cache: %v %v", err, pan), rep)
	} else if f2.FullDigest() != want {
		r.Violate("C11:follower-differs:wiped-consensus-restart", hx.Describe(s)+": follower (half, restart with wiped consensus cache, rest one by one) differs from the producer: "+vnode.DiffKV(f2.Raw(nil, true), p.Raw(nil, true)), rep)
	}
	f2.Destroy()
	r.Count("follower_comparisons", 2)
}

// Setup / Alphabet / Bases: the reward histories are also explored by C01 under the supply oracle.
func Setup() {
	configure()
	registerOps()
}
func Alphabet(thorough bool) []ops.Op { return alphabet(thorough) }
func Bases() []hx.Base                { return append(bases(), outageBases()...) }

func run(c *xs.Ctx, r *xs.Result) {
	configure()
	registerOps()
	runChecked(c, r)
}

func registerOps() {
	// CancelStake0: the owner cancels the first stake it ever made
	ops.Extra["CancelStake0"] = func(n *vnode.Node, o ops.Op) string {
		owner := ops.Users[o.A].Address
		list, _, _, err := definition.GetStakeListByAddress(n.Chain.GetFrontierAccountStore(types.StakeContract).Storage(), owner)
		if err != nil || len(list) == 0 {
			return "noentry"
		}
		_, err = n.Submit(&nom.AccountBlock{BlockType: nom.BlockTypeUserSend, Address: owner, ToAddress: types.StakeContract, TokenStandard: types.ZnnTokenStandard,
			Amount: big.NewInt(0), Data: definition.ABIStake.PackMethodPanic(definition.CancelStakeMethodName, list[0].Id)})
		if err != nil {
			return "err:" + err.Error()
		}
		return "ok"
	}
}

func runChecked(c *xs.Ctx, r *xs.Result) {
	if c.Replay != nil {
		var rep struct {
			Base    string   `json:"base"`
			History []ops.Op `json:"history"`
		}
		if err := json.Unmarshal(c.Replay, &rep); err != nil {
			panic(err)
		}
		for _, b := range append(append(bases(), outageBases()...), liquidityBases()...) {
			if b.Name != rep.Base {
				continue
			}
			if b.Name == liquidityBases()[0].Name {
				c10.Setup()
				configure()
			}
			n := vnode.New(vnode.Options{Dir: c.TempDir()})
			for _, o := range b.Prefix {
				ops.Apply(n, o)
			}
			var prev [2]*snapshot
			check(c, r, &hx.Step{Base: b.Name, Node: n, Op: ops.Op{K: "base"}}, &prev, false)
			var h []ops.Op
			for i, o := range rep.History {
				out := ops.Apply(n, o)
				h = append(h, o)
				check(c, r, &hx.Step{Base: b.Name, History: h, Op: o, Outcome: out, Node: n, Depth: i + 1}, &prev, i == len(rep.History)-1)
				r.Count("transitions", 1)
			}
			n.Destroy()
			r.Count("states", 1)
			r.Count("histories", 1)
		}
		return
	}
	depth := 3
	if c.Thorough() {
		depth = 4
	}
	var prev [2]*snapshot
	e := &hx.Explorer{Ctx: c, Res: r, Bases: bases(), Alphabet: alphabet(false), Depth: depth,
		OnBase: func(b hx.Base, n *vnode.Node) {
			prev = [2]*snapshot{}
			check(c, r, &hx.Step{Base: b.Name, Node: n, Op: ops.Op{K: "base"}}, &prev, false)
		},
		Check:    func(s *hx.Step) bool { return check(c, r, s, &prev, s.Depth == depth) },
		KeyExtra: func(n *vnode.Node) string { return fmt.Sprint(queried[n]) },
	}
	e.Run()
	if !r.Incomplete {
		eo := *e
		eo.Bases, eo.Alphabet = outageBases(), outageAlphabet()
		eo.Run()
	}
	if !r.Incomplete {
		ep := *e
		ep.Bases, ep.Alphabet = bases()[1:2], percentageAlphabet() // from "before-first-epoch-end"
		ep.Run()
	}
	if c.Thorough() && !r.Incomplete {
		e2 := *e
		e2.Alphabet = alphabet(true)
		e2.Depth = 3
		depth = 3
		e2.Run()
	}
	if !r.Incomplete {
		// last: C10's set-up shrinks lock times of its own; this check's configuration is applied again on top
		c10.Setup()
		configure()
		el := *e
		el.Bases, el.Alphabet, el.SnapshotBases = liquidityBases(), liquidityAlphabet(), true
		el.Run()
		r.Count("liquidity_explorations", 1)
	}
}
