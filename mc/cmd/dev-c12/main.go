package main

import (
	_ "verifmc/props/c12"

	"verifmc/internal/xs"
)

func main() { xs.Main() }
