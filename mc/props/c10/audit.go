package c10

import (
	"fmt"
	"math/big"

	g "github.com/zenon-network/go-zenon/chain/genesis/mock"
	"github.com/zenon-network/go-zenon/chain/nom"
	"github.com/zenon-network/go-zenon/common/types"
	"github.com/zenon-network/go-zenon/vm/constants"
	"github.com/zenon-network/go-zenon/vm/embedded/definition"

	"verifmc/internal/ledger"
	"verifmc/internal/vnode"
)

// The auditor recomputes every contract's liabilities from the ledger alone: it walks the contract's chain of receive
// blocks in order, decodes the call of the send each one references, and applies the release rules of the property
// statement (entitled party, not before the lock allows, not twice). Every payout (descendant send moving the locked
// token to a user) must be matched by an entitlement; a matured withdrawal by the entitled party must pay out.
// The liabilities so derived are then compared with the contract's storage and with its balance.

type problem struct{ key, msg string }

type audit struct {
	n        *vnode.Node
	v        *ledger.View
	byHash   map[types.Hash]*nom.AccountBlock
	problems []problem
	payouts  int
	refused  int
}

func (a *audit) bad(key, format string, args ...interface{}) {
	a.problems = append(a.problems, problem{key, fmt.Sprintf(format, args...)})
}

func newAudit(n *vnode.Node, v *ledger.View) *audit {
	a := &audit{n: n, v: v, byHash: map[types.Hash]*nom.AccountBlock{}}
	for _, ac := range v.Accounts {
		for _, b := range ac.Blocks {
			a.byHash[b.Hash] = b
		}
	}
	return a
}

// momentumOf returns time and height of the momentum a contract receive was evaluated against.
func (a *audit) momentumOf(r *nom.AccountBlock) (int64, uint64) {
	m, err := a.n.Chain.GetFrontierMomentumStore().GetMomentumByHash(r.MomentumAcknowledged.Hash)
	if err != nil || m == nil {
		panic(fmt.Sprintf("contract receive acknowledges unknown momentum %v", r.MomentumAcknowledged))
	}
	return m.Timestamp.Unix(), m.Height
}

func isRefund(s *nom.AccountBlock, d []*nom.AccountBlock) bool {
	return s.Amount.Sign() > 0 && len(d) == 1 && d[0].ToAddress == s.Address && d[0].Amount.Cmp(s.Amount) == 0 && d[0].TokenStandard == s.TokenStandard
}

func methodIs(abi interface {
	PackMethod(string, ...interface{}) ([]byte, error)
}, name string, data []byte) bool {
	return false
}

func selector(data []byte) string {
	if len(data) < 4 {
		return ""
	}
	return string(data[:4])
}

func sel(abiPack func(string, ...interface{}) []byte, name string, args ...interface{}) string {
	return string(abiPack(name, args...)[:4])
}

type receive struct {
	r    *nom.AccountBlock
	s    *nom.AccountBlock
	d    []*nom.AccountBlock
	t    int64
	h    uint64
	sel4 string
}

func (a *audit) receives(contract types.Address) []receive {
	var out []receive
	ac := a.v.Accounts[contract]
	if ac == nil {
		return nil
	}
	for _, b := range ac.Blocks {
		if b.BlockType != nom.BlockTypeContractReceive {
			continue
		}
		s := a.byHash[b.FromBlockHash]
		if s == nil {
			panic("contract receive of unknown send")
		}
		t, h := a.momentumOf(b)
		out = append(out, receive{r: b, s: s, d: b.DescendantBlocks, t: t, h: h, sel4: selector(s.Data)})
	}
	return out
}

func userPayouts(d []*nom.AccountBlock, zts types.ZenonTokenStandard) []*nom.AccountBlock {
	var out []*nom.AccountBlock
	for _, x := range d {
		if x.TokenStandard == zts && x.Amount.Sign() > 0 {
			out = append(out, x)
		}
	}
	return out
}

// ---------------------------------------------------------------------------------------------------------------------
// stake

type stakeEntry struct {
	owner    types.Address
	amount   *big.Int
	exp      int64
	released bool
}

func (a *audit) stake() *big.Int {
	liab := new(big.Int)
	entries := map[types.Hash]*stakeEntry{}
	selStake := sel(definition.ABIStake.PackMethodPanic, definition.StakeMethodName, int64(0))
	selCancel := sel(definition.ABIStake.PackMethodPanic, definition.CancelStakeMethodName, types.ZeroHash)
	for _, rc := range a.receives(types.StakeContract) {
		pay := userPayouts(rc.d, types.ZnnTokenStandard)
		switch {
		case isRefund(rc.s, rc.d):
			a.refused++
		case rc.sel4 == selStake:
			if len(pay) != 0 {
				a.bad("stake:payout-on-deposit", "Stake call %v pays out", rc.s.Hash)
				continue
			}
			var dur int64
			if err := definition.ABIStake.UnpackMethod(&dur, definition.StakeMethodName, rc.s.Data); err != nil {
				panic(err)
			}
			if rc.s.Amount.Sign() > 0 && rc.s.TokenStandard == types.ZnnTokenStandard {
				entries[rc.s.Hash] = &stakeEntry{owner: rc.s.Address, amount: new(big.Int).Set(rc.s.Amount), exp: rc.t + dur}
				liab.Add(liab, rc.s.Amount)
			}
		case rc.sel4 == selCancel:
			id := new(types.Hash)
			if err := definition.ABIStake.UnpackMethod(id, definition.CancelStakeMethodName, rc.s.Data); err != nil {
				panic(err)
			}
			e := entries[*id]
			entitled := e != nil && e.owner == rc.s.Address && !e.released && rc.t >= e.exp
			if len(pay) == 0 {
				if entitled {
					a.bad("stake:matured-withdrawal-refused", "Cancel(%v) by its owner %v at t=%d (expiration %d) pays nothing", id, rc.s.Address, rc.t, e.exp)
				}
				a.refused++
				continue
			}
			a.payouts++
			switch {
			case e == nil:
				a.bad("stake:payout-without-entry", "Cancel(%v) pays %v although no such stake exists", id, pay[0].Amount)
			case e.owner != rc.s.Address:
				a.bad("stake:released-to-non-owner-caller", "Cancel(%v) by %v pays although the stake belongs to %v", id, rc.s.Address, e.owner)
			case e.released:
				a.bad("stake:released-twice", "Cancel(%v) pays %v a second time", id, pay[0].Amount)
			case rc.t < e.exp:
				a.bad("stake:released-before-expiration", "Cancel(%v) pays at t=%d, expiration %d", id, rc.t, e.exp)
			}
			if len(pay) != 1 || (e != nil && (pay[0].Amount.Cmp(e.amount) != 0 || pay[0].ToAddress != e.owner)) {
				a.bad("stake:payout-amount-or-recipient-wrong", "Cancel(%v) pays %d sends, first %v to %v", id, len(pay), pay[0].Amount, pay[0].ToAddress)
			}
			if e != nil && !e.released {
				e.released = true
				liab.Sub(liab, e.amount)
			}
		default:
			if len(pay) != 0 {
				a.bad("stake:payout-by-other-method", "call %x of %v makes the stake contract pay %v ZNN to %v", rc.sel4, rc.s.Address, pay[0].Amount, pay[0].ToAddress)
			}
		}
	}
	return liab
}

func (a *audit) stakeStorage() *big.Int {
	sum := new(big.Int)
	st := a.store(types.StakeContract)
	if err := definition.IterateStakeEntries(st, func(e *definition.StakeInfo) error {
		sum.Add(sum, e.Amount)
		return nil
	}); err != nil {
		panic(err)
	}
	return sum
}

// ---------------------------------------------------------------------------------------------------------------------
// plasma

type fusion struct {
	owner    types.Address
	amount   *big.Int
	expH     uint64
	released bool
}

func (a *audit) plasma() *big.Int {
	liab := new(big.Int)
	entries := map[types.Hash]*fusion{}
	// The mock genesis lists several fusions of one owner with the same (zero) id; the contract keys entries by
	// (owner, id), so only the last of them exists as a cancellable entry (the contract is over-backed by the others).
	type ok struct {
		o types.Address
		i types.Hash
	}
	gen := map[ok]*fusion{}
	for _, f := range g.EmbeddedGenesis.PlasmaConfig.Fusions {
		gen[ok{f.Owner, f.Id}] = &fusion{owner: f.Owner, amount: new(big.Int).Set(f.Amount), expH: f.ExpirationHeight}
	}
	for k, f := range gen {
		if !k.i.IsZero() {
			entries[k.i] = f
		}
		liab.Add(liab, f.amount)
	}
	selFuse := sel(definition.ABIPlasma.PackMethodPanic, definition.FuseMethodName, types.ZeroAddress)
	selCancel := sel(definition.ABIPlasma.PackMethodPanic, definition.CancelFuseMethodName, types.ZeroHash)
	for _, rc := range a.receives(types.PlasmaContract) {
		pay := userPayouts(rc.d, types.QsrTokenStandard)
		switch {
		case isRefund(rc.s, rc.d):
			a.refused++
		case rc.sel4 == selFuse:
			if len(pay) != 0 {
				a.bad("plasma:payout-on-deposit", "Fuse call %v pays out", rc.s.Hash)
				continue
			}
			if rc.s.Amount.Sign() > 0 && rc.s.TokenStandard == types.QsrTokenStandard {
				entries[rc.s.Hash] = &fusion{owner: rc.s.Address, amount: new(big.Int).Set(rc.s.Amount), expH: rc.h + constants.FuseExpiration}
				liab.Add(liab, rc.s.Amount)
			}
		case rc.sel4 == selCancel:
			id := new(types.Hash)
			if err := definition.ABIPlasma.UnpackMethod(id, definition.CancelFuseMethodName, rc.s.Data); err != nil {
				panic(err)
			}
			e := entries[*id]
			entitled := e != nil && e.owner == rc.s.Address && !e.released && rc.h >= e.expH
			if len(pay) == 0 {
				if entitled {
					a.bad("plasma:matured-withdrawal-refused", "CancelFuse(%v) by its owner at height %d (expiration %d) pays nothing", id, rc.h, e.expH)
				}
				a.refused++
				continue
			}
			a.payouts++
			switch {
			case e == nil:
				a.bad("plasma:payout-without-entry", "CancelFuse(%v) pays %v although no such fusion exists", id, pay[0].Amount)
			case e.owner != rc.s.Address:
				a.bad("plasma:released-to-non-owner-caller", "CancelFuse(%v) by %v pays although the fusion belongs to %v", id, rc.s.Address, e.owner)
			case e.released:
				a.bad("plasma:released-twice", "CancelFuse(%v) pays a second time", id)
			case rc.h < e.expH:
				a.bad("plasma:released-before-expiration", "CancelFuse(%v) pays at height %d, expiration height %d", id, rc.h, e.expH)
			}
			if len(pay) != 1 || (e != nil && (pay[0].Amount.Cmp(e.amount) != 0 || pay[0].ToAddress != e.owner)) {
				a.bad("plasma:payout-amount-or-recipient-wrong", "CancelFuse(%v) pays %d sends, first %v to %v", id, len(pay), pay[0].Amount, pay[0].ToAddress)
			}
			if e != nil && !e.released {
				e.released = true
				liab.Sub(liab, e.amount)
			}
		default:
			if len(pay) != 0 {
				a.bad("plasma:payout-by-other-method", "call %x makes the plasma contract pay %v QSR to %v", rc.sel4, pay[0].Amount, pay[0].ToAddress)
			}
		}
	}
	return liab
}

func (a *audit) plasmaStorage(addrs []types.Address) *big.Int {
	sum := new(big.Int)
	st := a.store(types.PlasmaContract)
	for _, ad := range addrs {
		_, total, err := definition.GetFusionInfoListByOwner(st, ad)
		if err != nil {
			panic(err)
		}
		sum.Add(sum, total)
	}
	return sum
}

// ---------------------------------------------------------------------------------------------------------------------
// QSR deposits (pillar and sentinel contracts) and sentinel collateral

type sentinel struct {
	reg     int64
	revoked bool
}

// pillarEntry: collateral of one pillar as derived from the ledger
type pillarEntry struct {
	owner   types.Address
	reg     int64
	revoked bool
	normal  bool // registered through Register (counts for the QSR cost of the next registration)
}

// qsrAndSentinel audits a contract with DepositQsr/WithdrawQsr (pillar, sentinel); for the sentinel contract also
// Register/Revoke. Returns (znn liabilities, qsr liabilities).
func (a *audit) qsrAndSentinel(contract types.Address) (*big.Int, *big.Int) {
	znn, qsr := new(big.Int), new(big.Int)
	dep := map[types.Address]*big.Int{}
	sents := map[types.Address]*sentinel{}
	name := "pillar"
	pillars := map[string]*pillarEntry{}
	if contract == types.SentinelContract {
		name = "sentinel"
	} else {
		for _, p := range g.EmbeddedGenesis.PillarConfig.Pillars {
			znn.Add(znn, p.Amount)
			pillars[p.Name] = &pillarEntry{owner: p.StakeAddress, reg: p.RegistrationTime, normal: p.PillarType == definition.NormalPillarType}
		}
	}
	selRegP := sel(definition.ABIPillars.PackMethodPanic, definition.RegisterMethodName, "x", types.ZeroAddress, types.ZeroAddress, uint8(0), uint8(0))
	selRevP := sel(definition.ABIPillars.PackMethodPanic, definition.RevokeMethodName, "x")
	selDep := sel(definition.ABICommon.PackMethodPanic, definition.DepositQsrMethodName)
	selWd := sel(definition.ABICommon.PackMethodPanic, definition.WithdrawQsrMethodName)
	selReg := sel(definition.ABISentinel.PackMethodPanic, definition.RegisterSentinelMethodName)
	selRev := sel(definition.ABISentinel.PackMethodPanic, definition.RevokeSentinelMethodName)
	get := func(ad types.Address) *big.Int {
		if dep[ad] == nil {
			dep[ad] = new(big.Int)
		}
		return dep[ad]
	}
	for _, rc := range a.receives(contract) {
		payQ := userPayouts(rc.d, types.QsrTokenStandard)
		payZ := userPayouts(rc.d, types.ZnnTokenStandard)
		// only payouts to non-embedded addresses move locked funds to a user
		var uq, uz []*nom.AccountBlock
		for _, x := range payQ {
			if !types.IsEmbeddedAddress(x.ToAddress) {
				uq = append(uq, x)
			}
		}
		for _, x := range payZ {
			if !types.IsEmbeddedAddress(x.ToAddress) {
				uz = append(uz, x)
			}
		}
		switch {
		case rc.sel4 == selReg && contract == types.SentinelContract:
			if isRefund(rc.s, rc.d) {
				a.refused++
				continue
			}
			if len(uq)+len(uz) != 0 {
				a.bad(name+":payout-on-register", "Register pays out")
				continue
			}
			// the call was applied: the contract keeps 5000 ZNN and takes 50000 QSR from the caller's deposit
			d := get(rc.s.Address)
			if d.Cmp(constants.SentinelQsrDepositAmount) < 0 {
				a.bad(name+":register-without-deposit", "sentinel of %v registered with a deposit of %v QSR", rc.s.Address, d)
			}
			d.Sub(d, constants.SentinelQsrDepositAmount)
			if s := sents[rc.s.Address]; s != nil && !s.revoked {
				a.bad(name+":registered-twice", "second active sentinel for %v", rc.s.Address)
			}
			sents[rc.s.Address] = &sentinel{reg: rc.t}
			znn.Add(znn, constants.SentinelZnnRegisterAmount)
			// the consumed deposit stays a liability (returned at revoke): qsr total unchanged
		case rc.sel4 == selRev && contract == types.SentinelContract:
			s := sents[rc.s.Address]
			window := constants.SentinelLockTimeWindow + constants.SentinelRevokeTimeWindow
			can := s != nil && !s.revoked && (rc.t-s.reg)%window >= constants.SentinelLockTimeWindow
			if len(uq)+len(uz) == 0 {
				if can {
					a.bad(name+":matured-withdrawal-refused", "Revoke by the sentinel owner %v inside the revoke window pays nothing", rc.s.Address)
				}
				a.refused++
				continue
			}
			a.payouts++
			switch {
			case s == nil:
				a.bad(name+":payout-without-entry", "Revoke by %v pays although it has no sentinel", rc.s.Address)
			case s.revoked:
				a.bad(name+":released-twice", "Revoke by %v pays a second time", rc.s.Address)
			case !can:
				a.bad(name+":released-before-window", "Revoke by %v pays outside the revoke window (t=%d, registered %d)", rc.s.Address, rc.t, s.reg)
			}
			okAmounts := len(uz) == 1 && len(uq) == 1 && uz[0].Amount.Cmp(constants.SentinelZnnRegisterAmount) == 0 && uq[0].Amount.Cmp(constants.SentinelQsrDepositAmount) == 0 &&
				uz[0].ToAddress == rc.s.Address && uq[0].ToAddress == rc.s.Address
			if !okAmounts {
				a.bad(name+":payout-amount-or-recipient-wrong", "Revoke by %v pays %d ZNN sends / %d QSR sends with unexpected amounts or recipients", rc.s.Address, len(uz), len(uq))
			}
			if s != nil && !s.revoked {
				s.revoked = true
				znn.Sub(znn, constants.SentinelZnnRegisterAmount)
				qsr.Sub(qsr, constants.SentinelQsrDepositAmount)
			}
		case rc.sel4 == selRegP && contract == types.PillarContract:
			if isRefund(rc.s, rc.d) {
				a.refused++
				continue
			}
			if len(uq)+len(uz) != 0 {
				a.bad(name+":payout-on-register", "Register pays a user")
				continue
			}
			param := new(definition.RegisterParam)
			if err := definition.ABIPillars.UnpackMethod(param, definition.RegisterMethodName, rc.s.Data); err != nil {
				panic(err)
			}
			// applied: the contract keeps the 15000 ZNN as collateral and burns the registration cost out of the caller's deposit
			active := 0
			for _, p := range pillars {
				if p.normal && !p.revoked {
					active++
				}
			}
			cost := new(big.Int).Mul(constants.PillarQsrStakeIncreaseAmount, big.NewInt(int64(active)))
			cost.Add(cost, constants.PillarQsrStakeBaseAmount)
			d := get(rc.s.Address)
			if d.Cmp(cost) < 0 {
				a.bad(name+":register-without-deposit", "pillar %q of %v registered with a deposit of %v QSR (cost %v)", param.Name, rc.s.Address, d, cost)
			}
			burned := new(big.Int)
			for _, x := range payQ {
				if x.ToAddress == types.TokenContract {
					burned.Add(burned, x.Amount)
				}
			}
			if burned.Cmp(cost) != 0 {
				a.bad(name+":register-burn-wrong", "pillar %q registered: %v QSR burned, cost %v", param.Name, burned, cost)
			}
			d.Sub(d, cost)
			qsr.Sub(qsr, cost)
			if rc.s.TokenStandard != types.ZnnTokenStandard || rc.s.Amount.Cmp(constants.PillarStakeAmount) != 0 {
				a.bad(name+":register-collateral-wrong", "pillar %q registered with %v of %v", param.Name, rc.s.Amount, rc.s.TokenStandard)
			}
			if pillars[param.Name] != nil {
				a.bad(name+":registered-twice", "pillar name %q registered a second time", param.Name)
			}
			pillars[param.Name] = &pillarEntry{owner: rc.s.Address, reg: rc.t, normal: true}
			znn.Add(znn, constants.PillarStakeAmount)
		case rc.sel4 == selRevP && contract == types.PillarContract:
			pname := new(string)
			if err := definition.ABIPillars.UnpackMethod(pname, definition.RevokeMethodName, rc.s.Data); err != nil {
				panic(err)
			}
			p := pillars[*pname]
			window := constants.PillarEpochLockTime + constants.PillarEpochRevokeTime
			can := p != nil && !p.revoked && p.owner == rc.s.Address && (rc.t-p.reg)%window >= constants.PillarEpochLockTime
			if len(uq)+len(uz) == 0 {
				if can {
					a.bad(name+":matured-withdrawal-refused", "Revoke of pillar %q by its owner %v inside the revoke window pays nothing", *pname, rc.s.Address)
				}
				a.refused++
				continue
			}
			a.payouts++
			switch {
			case p == nil:
				a.bad(name+":payout-without-entry", "Revoke of %q by %v pays although there is no such pillar", *pname, rc.s.Address)
			case p.revoked:
				a.bad(name+":released-twice", "Revoke of %q by %v pays the collateral a second time", *pname, rc.s.Address)
			case p.owner != rc.s.Address:
				a.bad(name+":released-to-stranger", "Revoke of %q (owner %v) by %v pays", *pname, p.owner, rc.s.Address)
			case !can:
				a.bad(name+":released-before-window", "Revoke of %q by %v pays outside the revoke window (t=%d, registered %d)", *pname, rc.s.Address, rc.t, p.reg)
			}
			if len(uz) != 1 || len(uq) != 0 || uz[0].Amount.Cmp(constants.PillarStakeAmount) != 0 || (p != nil && uz[0].ToAddress != p.owner) {
				a.bad(name+":payout-amount-or-recipient-wrong", "Revoke of %q by %v pays %d ZNN sends / %d QSR sends with unexpected amounts or recipients", *pname, rc.s.Address, len(uz), len(uq))
			}
			if p != nil && !p.revoked {
				p.revoked = true
				znn.Sub(znn, constants.PillarStakeAmount)
			}
		case isRefund(rc.s, rc.d):
			a.refused++
		case rc.sel4 == selDep:
			if len(uq)+len(uz) != 0 {
				a.bad(name+":payout-on-deposit", "DepositQsr pays out")
				continue
			}
			if rc.s.TokenStandard == types.QsrTokenStandard && rc.s.Amount.Sign() > 0 {
				get(rc.s.Address).Add(get(rc.s.Address), rc.s.Amount)
				qsr.Add(qsr, rc.s.Amount)
			}
		case rc.sel4 == selWd:
			d := get(rc.s.Address)
			if len(uq) == 0 {
				if d.Sign() > 0 {
					a.bad(name+":matured-withdrawal-refused", "WithdrawQsr by %v with a deposit of %v pays nothing", rc.s.Address, d)
				}
				a.refused++
				continue
			}
			a.payouts++
			if len(uq) != 1 || len(uz) != 0 || uq[0].ToAddress != rc.s.Address || uq[0].Amount.Cmp(d) != 0 {
				a.bad(name+":withdraw-amount-or-recipient-wrong", "WithdrawQsr by %v (deposit %v) pays %v to %v", rc.s.Address, d, uq[0].Amount, uq[0].ToAddress)
			}
			qsr.Sub(qsr, d)
			d.SetInt64(0)
		default:
			if len(uq)+len(uz) != 0 {
				a.bad(name+":payout-by-other-method", "call %x of %v makes the %s contract pay a user", rc.sel4, rc.s.Address, name)
			}
		}
	}
	return znn, qsr
}

func (a *audit) qsrStorage(contract types.Address, addrs []types.Address) *big.Int {
	sum := new(big.Int)
	st := a.store(contract)
	for _, ad := range addrs {
		ad := ad
		d, err := definition.GetQsrDeposit(st, &ad)
		if err != nil {
			panic(err)
		}
		sum.Add(sum, d.Qsr)
	}
	return sum
}

func (a *audit) sentinelStorage() (*big.Int, *big.Int) {
	z, q := new(big.Int), new(big.Int)
	for _, s := range definition.GetAllSentinelInfo(a.store(types.SentinelContract)) {
		z.Add(z, s.ZnnAmount)
		q.Add(q, s.QsrAmount)
	}
	return z, q
}

func (a *audit) pillarStorageZnn() *big.Int {
	z := new(big.Int)
	list, err := definition.GetPillarsList(a.store(types.PillarContract), false, definition.AnyPillarType)
	if err != nil {
		panic(err)
	}
	for _, p := range list {
		z.Add(z, p.Amount)
	}
	return z
}
