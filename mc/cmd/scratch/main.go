package main

import (
	"fmt"
	"github.com/zenon-network/go-zenon/vm/constants"
	"os"

	"verifmc/internal/ops"
	"verifmc/internal/vnode"
	"verifmc/internal/xs"
	_ "verifmc/props/c11"
)

func main() {
	dir, _ := os.MkdirTemp("/dev/shm", "scratch")
	defer os.RemoveAll(dir)
	// configure as c11 does
	chk := xs.Lookup("C11")
	_ = chk
	vnode.SmallConsensus(2)
	constants.MomentumsPerEpoch = 6
	constants.RewardTimeLimit = 10
	constants.UpdateMinNumMomentums = 2
	constants.PillarEpochLockTime = 20
	constants.PillarEpochRevokeTime = 1 << 40
	n := vnode.New(vnode.Options{Dir: dir + "/n"})
	M := ops.Op{K: "M"}
	seq := []ops.Op{M, M, {K: "RevokeP3"}, M, M, {K: "M3"}, M, M, {K: "Q"}, {K: "M3"}, {K: "M3"}}
	for _, o := range seq {
		fmt.Println(o, "->", ops.Apply(n, o), "height", n.Height())
	}
	f := vnode.New(vnode.Options{Dir: dir + "/f", NoPillars: true})
	_, err, pan := f.InsertChain(vnode.CloneBatch(n.Range(2, n.Height())))
	fmt.Println("follower:", err, pan, f.FullDigest() == n.FullDigest())
	fmt.Println(n.ConsensusDigest(0))
	fmt.Println(f.ConsensusDigest(0))
}
