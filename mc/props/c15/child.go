package c15

import (
	"bufio"
	"bytes"
	"encoding/json"
	"fmt"
	"os"
	"os/exec"
	"path/filepath"
	"runtime"
	"runtime/debug"
	"runtime/pprof"
	"strconv"
	"strings"
	"time"

	"verifmc/internal/xs"
)

// Sessions run in a child process of the worker (the same binary, re-executed with childEnvVar set): the node starts
// goroutines of its own (fetcher, downloader, broadcast) and a panic on one of them ends the process. In the child that is
// an observation — the parent sees the child die while session i was in progress — instead of the end of the check.

const childEnvVar = "VERIF_C15_CHILD"

type childSpec struct {
	Mode     string       `json:"mode"` // range | single | partc
	Only     string       `json:"only,omitempty"`
	Tier     string       `json:"tier"`
	Shard    int          `json:"shard"`
	NShards  int          `json:"nshards"`
	Start    int          `json:"start"`
	Raw      bool         `json:"raw"` // single mode only: no recover anywhere, the panic takes its real course
	Session  *sessionSpec `json:"session,omitempty"`
	Dir      string       `json:"dir"`
	Deadline int64        `json:"deadline"` // unix nanoseconds
}

type childEnvs struct {
	dir  string
	raw  bool
	envs map[string]*env
}

func (ce *childEnvs) get(name string) *env {
	if e := ce.envs[name]; e != nil {
		return e
	}
	h := uint64(bigHeight)
	if name == "small" {
		h = smallHeight
	}
	e := buildEnv(name, filepath.Join(ce.dir, name), h)
	e.raw = ce.raw
	ce.envs[name] = e
	return e
}

// childMain is the whole life of a child process. Results go to fd 3, one line per event:
//
//	B <idx>            session idx starts
//	E <idx> <json>     its result
//	X <idx>            the deadline was reached before session idx
//	DONE
func childMain() {
	data, err := os.ReadFile(os.Getenv(childEnvVar))
	if err != nil {
		fmt.Fprintln(os.Stderr, "child spec:", err)
		os.Exit(3)
	}
	var spec childSpec
	if err := json.Unmarshal(data, &spec); err != nil {
		fmt.Fprintln(os.Stderr, "child spec:", err)
		os.Exit(3)
	}
	if n := os.Getenv("VERIF_C15_PROCS"); n != "" {
		if v, err := strconv.Atoi(n); err == nil {
			runtime.GOMAXPROCS(v)
		}
	} else {
		runtime.GOMAXPROCS(2)
	}
	debug.SetGCPercent(400)
	if pf := os.Getenv("VERIF_C15_PROF"); pf != "" { // development aid
		f, _ := os.Create(pf)
		pprof.StartCPUProfile(f)
		defer pprof.StopCPUProfile()
	}
	out := bufio.NewWriter(os.NewFile(3, "results"))
	emit := func(format string, a ...interface{}) {
		fmt.Fprintf(out, format+"\n", a...)
		out.Flush()
	}
	ce := &childEnvs{dir: spec.Dir, raw: spec.Raw, envs: map[string]*env{}}
	switch spec.Mode {
	case "single":
		e := ce.get(spec.Session.Chain)
		emit("B 0")
		res := runSession(e, *spec.Session, 0)
		js, _ := json.Marshal(res)
		emit("E 0 %s", js)
	case "range":
		n := numSessions(spec.Tier)
		deadline := time.Unix(0, spec.Deadline)
		base := runtime.NumGoroutine()
		for i := spec.Start; i < n; i++ {
			if spec.NShards > 1 && i%spec.NShards != spec.Shard {
				continue
			}
			if time.Now().After(deadline) {
				emit("X %d", i)
				break
			}
			s := sessionAt(spec.Tier, i)
			e := ce.get(s.Chain)
			if base == 0 {
				base = runtime.NumGoroutine()
			}
			emit("B %d", i)
			res := runSession(e, s, i)
			js, _ := json.Marshal(res)
			emit("E %d %s", i, js)
		}
		emit("G %d", runtime.NumGoroutine())
	case "partc":
		c := &xs.Ctx{ID: "C15", Tier: spec.Tier, Shard: spec.Shard, NShards: spec.NShards, Scratch: spec.Dir, Deadline: time.Unix(0, spec.Deadline)}
		r := xs.NewResult()
		partC(c, r, spec.Only, func(name string) { emit("P %s", name) })
		js, _ := json.Marshal(r)
		emit("R %s", js)
	}
	emit("DONE")
	pprof.StopCPUProfile()
	os.Exit(0)
}

type childRun struct {
	done     bool // DONE seen
	inflight int  // session begun and not finished when the child ended (-1: none)
	expired  int  // -1 or the index at which the child stopped for the deadline
	exitErr  error
	stderr   string
	progress string // last progress marker (part c)
	result   []byte // 'R' line
}

// spawnChild runs one child to completion, feeding result lines to onResult.
func spawnChild(scratch string, spec childSpec, hardDeadline time.Time, onResult func(idx int, res *sessResult)) childRun {
	cr := childRun{inflight: -1, expired: -1}
	os.MkdirAll(scratch, 0o755)
	specPath := filepath.Join(scratch, "spec.json")
	js, _ := json.Marshal(spec)
	if err := os.WriteFile(specPath, js, 0o644); err != nil {
		cr.exitErr = err
		return cr
	}
	// same command line shape as a worker so that the driver's main dispatches to Run, whose first statement is the
	// child hook; the out file named here is never written.
	args := []string{"--worker", "C15", spec.Tier, "0", "1", filepath.Join(scratch, "unused.json"), scratch, strconv.FormatInt(spec.Deadline, 10)}
	cmd := exec.Command(os.Args[0], args...)
	cmd.Env = append(os.Environ(), childEnvVar+"="+specPath)
	pr, pw, err := os.Pipe()
	if err != nil {
		cr.exitErr = err
		return cr
	}
	cmd.ExtraFiles = []*os.File{pw}
	var stderr bytes.Buffer
	cmd.Stdout = nil
	cmd.Stderr = &tailWriter{buf: &stderr, max: 64 << 10}
	if err := cmd.Start(); err != nil {
		cr.exitErr = err
		pw.Close()
		pr.Close()
		return cr
	}
	pw.Close()
	killed := make(chan struct{})
	finished := make(chan struct{})
	go func() {
		select {
		case <-finished:
		case <-time.After(time.Until(hardDeadline)):
			close(killed)
			cmd.Process.Kill()
		}
	}()
	sc := bufio.NewScanner(pr)
	sc.Buffer(make([]byte, 1<<20), 64<<20)
	for sc.Scan() {
		line := sc.Bytes()
		if len(line) == 0 {
			continue
		}
		switch line[0] {
		case 'B':
			cr.inflight, _ = strconv.Atoi(strings.TrimSpace(string(line[2:])))
		case 'E':
			rest := line[2:]
			sp := bytes.IndexByte(rest, ' ')
			idx, _ := strconv.Atoi(string(rest[:sp]))
			var res sessResult
			if err := json.Unmarshal(rest[sp+1:], &res); err != nil {
				panic(fmt.Sprintf("unreadable child result: %v", err))
			}
			cr.inflight = -1
			onResult(idx, &res)
		case 'P':
			cr.progress = strings.TrimSpace(string(line[2:]))
		case 'R':
			cr.result = append([]byte{}, line[2:]...)
		case 'X':
			cr.expired, _ = strconv.Atoi(strings.TrimSpace(string(line[2:])))
		case 'D':
			cr.done = true
		}
	}
	pr.Close()
	cr.exitErr = cmd.Wait()
	close(finished)
	select {
	case <-killed:
		cr.exitErr = fmt.Errorf("killed at the hard deadline (%v)", cr.exitErr)
	default:
	}
	cr.stderr = stderr.String()
	return cr
}

type tailWriter struct {
	buf *bytes.Buffer
	max int
}

// keeps the head of the stream (a Go panic trace starts with the reason and the panicking goroutine)
func (t *tailWriter) Write(p []byte) (int, error) {
	if room := t.max - t.buf.Len(); room > 0 {
		if len(p) > room {
			t.buf.Write(p[:room])
		} else {
			t.buf.Write(p)
		}
	}
	return len(p), nil
}

// crashSignature extracts "panic: ..." / "fatal error: ..." and the first repository frame from a Go crash dump.
func crashSignature(stderr string) (reason, site string) {
	lines := strings.Split(stderr, "\n")
	start := -1
	for i, l := range lines {
		if strings.HasPrefix(l, "panic: ") || strings.HasPrefix(l, "fatal error: ") {
			reason = l
			start = i
			break
		}
	}
	if start < 0 {
		return "", ""
	}
	site = panicSite(strings.Join(append([]string{"panic(...)"}, lines[start:]...), "\n"))
	return
}
