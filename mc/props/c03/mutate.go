package c03

import (
	"math"
	"math/big"

	g "github.com/zenon-network/go-zenon/chain/genesis/mock"
	"github.com/zenon-network/go-zenon/chain/nom"
	"github.com/zenon-network/go-zenon/common/types"
	"github.com/zenon-network/go-zenon/vm/constants"
	"github.com/zenon-network/go-zenon/wallet"

	"verifmc/internal/vnode"
)

// candidate kinds
const (
	tUserSend     = "user-send"
	tUserCall     = "user-call" // a user send to an embedded contract carrying ABI-encoded call data
	tUserReceive  = "user-receive"
	tUserFirst    = "user-receive-first-block"
	tContractRecv = "contract-receive"
	tContractSend = "contract-send" // a contract receive carrying a descendant send; mutations are applied to the descendant
)

var modes = []string{"untouched", "resigned-by-owner", "signed-by-foreign-key"}

var foreignKey = g.Pillar8 // funded key that owns none of the accounts the candidates belong to
var otherUser = g.Pillar7  // funded, untouched account used as alternative address
var emptyUser = g.User7    // account without any block

type cand struct {
	Type  string
	valid *nom.AccountBlock
	owner *wallet.KeyPair // nil for contract accounts

	// context for value domains; nil = not available in this state
	hUnconfirmedSend, hAlreadyReceived, hOtherRecipient, hSecondPending, hReceiveBlock *types.Hash
	hAlreadyReceivedZero                                                               *types.Hash // an already received send of amount zero
	hGrandPredecessor, hOtherFrontier, hConfirmedFrontier                              *types.Hash
	balance                                                                            *big.Int
	predMA                                                                             uint64 // height acknowledged by the predecessor (0 = n/a)
	moms                                                                               map[uint64]types.Hash
	frontier                                                                           uint64
}

type mutation struct {
	Field string `json:"field"`
	Val   string `json:"val"`
	f     func(t *nom.AccountBlock)
}

func (m mutation) String() string { return m.Field + "=" + m.Val }

func flipHash(h types.Hash) types.Hash { h[7] ^= 0x10; return h }

func keyFor(a types.Address) *wallet.KeyPair {
	for _, k := range g.AllKeyPairs {
		if k.Address == a {
			return k
		}
	}
	return nil
}

// target is the block the mutations are applied to.
func (cd *cand) target(b *nom.AccountBlock) *nom.AccountBlock {
	if cd.Type == tContractSend {
		return b.DescendantBlocks[0]
	}
	return b
}

func craftedContractSend(parent *nom.AccountBlock) *nom.AccountBlock {
	d := &nom.AccountBlock{Version: 1, ChainIdentifier: parent.ChainIdentifier, BlockType: nom.BlockTypeContractSend,
		PreviousHash: parent.PreviousHash, Height: parent.Height, MomentumAcknowledged: parent.MomentumAcknowledged,
		Address: parent.Address, ToAddress: g.User1.Address, Amount: big.NewInt(1), TokenStandard: types.ZnnTokenStandard}
	d.Hash = d.ComputeHash()
	return d
}

func pow2(n uint) *big.Int { return new(big.Int).Lsh(big.NewInt(1), n) }

// domain lists the single-field mutations of candidate cd: every field of nom.AccountBlock with 3-7 alternative values.
func (cd *cand) domain() []mutation {
	var out []mutation
	add := func(field, val string, f func(t *nom.AccountBlock)) { out = append(out, mutation{field, val, f}) }
	v := cd.target(cd.valid)
	isRecv := v.BlockType == nom.BlockTypeUserReceive || v.BlockType == nom.BlockTypeContractReceive
	contract := v.Address[0] == 1

	for _, x := range []uint64{0, 2, math.MaxUint64} {
		x := x
		add("Version", u64s(x), func(t *nom.AccountBlock) { t.Version = x })
	}
	for _, x := range []uint64{0, 1, 101, math.MaxUint64} {
		x := x
		add("ChainIdentifier", u64s(x), func(t *nom.AccountBlock) { t.ChainIdentifier = x })
	}
	for _, x := range []uint64{0, 1, 2, 3, 4, 5, 6, math.MaxUint64} {
		x := x
		if x == v.BlockType {
			continue
		}
		add("BlockType", u64s(x), func(t *nom.AccountBlock) { t.BlockType = x })
	}
	add("Hash", "zero", func(t *nom.AccountBlock) { t.Hash = types.ZeroHash })
	add("Hash", "bit-flip", func(t *nom.AccountBlock) { t.Hash = flipHash(t.Hash) })
	if !v.PreviousHash.IsZero() {
		add("Hash", "predecessor's", func(t *nom.AccountBlock) { t.Hash = t.PreviousHash })
	}
	// PreviousHash
	if !v.PreviousHash.IsZero() {
		add("PreviousHash", "zero", func(t *nom.AccountBlock) { t.PreviousHash = types.ZeroHash })
		add("PreviousHash", "bit-flip", func(t *nom.AccountBlock) { t.PreviousHash = flipHash(t.PreviousHash) })
	} else {
		add("PreviousHash", "unknown", func(t *nom.AccountBlock) { t.PreviousHash = flipHash(types.ZeroHash) })
	}
	if h := cd.hGrandPredecessor; h != nil {
		add("PreviousHash", "grand-predecessor", func(t *nom.AccountBlock) { t.PreviousHash = *h })
	}
	if h := cd.hOtherFrontier; h != nil {
		add("PreviousHash", "other-account's-frontier", func(t *nom.AccountBlock) { t.PreviousHash = *h })
	}
	if h := cd.hConfirmedFrontier; h != nil {
		add("PreviousHash", "confirmed-frontier-below-pool", func(t *nom.AccountBlock) { t.PreviousHash = *h })
	}
	// Height
	hv := v.Height
	for _, x := range []struct {
		n string
		v uint64
	}{{"0", 0}, {"h-1", hv - 1}, {"h+1", hv + 1}, {"1", 1}, {"2^64-1", math.MaxUint64}} {
		x := x
		if x.v == hv || (x.n == "h-1" && hv == 1) || (x.n == "1" && hv <= 2) {
			continue
		}
		add("Height", x.n, func(t *nom.AccountBlock) { t.Height = x.v })
	}
	// MomentumAcknowledged
	ma := v.MomentumAcknowledged
	setMA := func(name string, hh types.HashHeight) {
		if hh == ma {
			return
		}
		add("MomentumAcknowledged", name, func(t *nom.AccountBlock) { t.MomentumAcknowledged = hh })
	}
	if ma.Height > 1 {
		setMA("older-confirmed", types.HashHeight{Hash: cd.moms[ma.Height-1], Height: ma.Height - 1})
	}
	if cd.predMA > 1 {
		setMA("older-than-predecessor's", types.HashHeight{Hash: cd.moms[cd.predMA-1], Height: cd.predMA - 1})
	}
	if ma.Height < cd.frontier {
		setMA("frontier", types.HashHeight{Hash: cd.moms[cd.frontier], Height: cd.frontier})
	}
	setMA("genesis", types.HashHeight{Hash: cd.moms[1], Height: 1})
	setMA("unknown-hash", types.HashHeight{Hash: flipHash(ma.Hash), Height: ma.Height})
	setMA("right-hash-wrong-height", types.HashHeight{Hash: ma.Hash, Height: ma.Height - 1})
	setMA("frontier+1", types.HashHeight{Hash: flipHash(cd.moms[cd.frontier]), Height: cd.frontier + 1})
	setMA("zero", types.HashHeight{})
	// Address
	if contract {
		other := types.SentinelContract
		if v.Address == other {
			other = types.StakeContract
		}
		add("Address", "other-contract", func(t *nom.AccountBlock) { t.Address = other })
		add("Address", "user", func(t *nom.AccountBlock) { t.Address = g.User1.Address })
	} else {
		add("Address", "other-funded-user", func(t *nom.AccountBlock) { t.Address = otherUser.Address })
		add("Address", "empty-user", func(t *nom.AccountBlock) { t.Address = emptyUser.Address })
		add("Address", "contract", func(t *nom.AccountBlock) { t.Address = types.StakeContract })
	}
	add("Address", "zero", func(t *nom.AccountBlock) { t.Address = types.ZeroAddress })
	// ToAddress
	for _, x := range []struct {
		n string
		a types.Address
	}{{"other-user", g.User3.Address}, {"zero", types.ZeroAddress}, {"contract", types.StakeContract}, {"self", v.Address}} {
		x := x
		if x.a == v.ToAddress {
			continue
		}
		add("ToAddress", x.n, func(t *nom.AccountBlock) { t.ToAddress = x.a })
	}
	// Amount
	type av struct {
		n string
		v *big.Int
	}
	amounts := []av{{"0", big.NewInt(0)}, {"1", big.NewInt(1)}}
	if cd.balance != nil {
		amounts = append(amounts, av{"balance", new(big.Int).Set(cd.balance)}, av{"balance+1", new(big.Int).Add(cd.balance, big.NewInt(1))})
	}
	amounts = append(amounts, av{"2^255-1", new(big.Int).Sub(pow2(255), big.NewInt(1))}, av{"2^255", pow2(255)},
		av{"2^256-1", new(big.Int).Sub(pow2(256), big.NewInt(1))}, av{"2^256", pow2(256)}, av{"-1", big.NewInt(-1)}, av{"nil", nil})
	for _, x := range amounts {
		x := x
		if x.v != nil && v.Amount != nil && x.v.Cmp(v.Amount) == 0 {
			continue
		}
		add("Amount", x.n, func(t *nom.AccountBlock) {
			if x.v == nil {
				t.Amount = nil
			} else {
				t.Amount = new(big.Int).Set(x.v)
			}
		})
	}
	// TokenStandard
	unknownZts := types.ZenonTokenStandard{1, 2, 3, 4, 5, 6, 7, 8, 9, 10}
	for _, x := range []struct {
		n string
		z types.ZenonTokenStandard
	}{{"zero", types.ZeroTokenStandard}, {"ZNN", types.ZnnTokenStandard}, {"QSR", types.QsrTokenStandard}, {"unknown", unknownZts}} {
		x := x
		if x.z == v.TokenStandard {
			continue
		}
		add("TokenStandard", x.n, func(t *nom.AccountBlock) { t.TokenStandard = x.z })
	}
	// FromBlockHash
	for _, x := range []struct {
		n string
		h *types.Hash
	}{{"unconfirmed-send", cd.hUnconfirmedSend}, {"already-received-send", cd.hAlreadyReceived}, {"already-received-zero-amount-send", cd.hAlreadyReceivedZero}, {"send-to-someone-else", cd.hOtherRecipient},
		{"second-pending-send", cd.hSecondPending}, {"a-receive-block", cd.hReceiveBlock}} {
		x := x
		if x.h == nil || *x.h == v.FromBlockHash {
			continue
		}
		add("FromBlockHash", x.n, func(t *nom.AccountBlock) { t.FromBlockHash = *x.h })
	}
	add("FromBlockHash", "unknown", func(t *nom.AccountBlock) { t.FromBlockHash = flipHash(types.ZeroHash) })
	if isRecv {
		add("FromBlockHash", "zero", func(t *nom.AccountBlock) { t.FromBlockHash = types.ZeroHash })
	}
	// DescendantBlocks
	if len(v.DescendantBlocks) > 0 {
		add("DescendantBlocks", "dropped", func(t *nom.AccountBlock) { t.DescendantBlocks = nil })
		add("DescendantBlocks", "duplicated", func(t *nom.AccountBlock) {
			t.DescendantBlocks = append(t.DescendantBlocks, t.DescendantBlocks[0].Copy())
		})
	}
	add("DescendantBlocks", "extra-crafted-contract-send", func(t *nom.AccountBlock) {
		t.DescendantBlocks = append(t.DescendantBlocks, craftedContractSend(t))
	})
	add("DescendantBlocks", "extra-copy-of-itself", func(t *nom.AccountBlock) {
		c := t.Copy()
		c.DescendantBlocks = nil
		t.DescendantBlocks = append(t.DescendantBlocks, c)
	})
	// Data
	if len(v.Data) > 0 {
		add("Data", "empty", func(t *nom.AccountBlock) { t.Data = nil })
		add("Data", "last-byte-flipped", func(t *nom.AccountBlock) {
			t.Data = append([]byte{}, t.Data...)
			t.Data[len(t.Data)-1] ^= 3
		})
	}
	if types.IsEmbeddedAddress(v.ToAddress) && len(v.Data) >= 4 {
		// call data that decodes to the same arguments but is not the canonical encoding (the ABI decoder tolerates
		// trailing bytes): honestly hashed and signed in the resigned modes
		add("Data", "canonical+32-zero-bytes", func(t *nom.AccountBlock) { t.Data = append(append([]byte{}, t.Data...), make([]byte, 32)...) })
		add("Data", "canonical+1-byte", func(t *nom.AccountBlock) { t.Data = append(append([]byte{}, t.Data...), 7) })
	}
	add("Data", "3-bytes", func(t *nom.AccountBlock) { t.Data = []byte{1, 2, 3} })
	add("Data", "16KiB+1", func(t *nom.AccountBlock) { t.Data = make([]byte, constants.MaxDataLength+1) })
	// FusedPlasma
	fp := v.FusedPlasma
	for _, x := range []struct {
		n string
		v uint64
	}{{"0", 0}, {"-1", fp - 1}, {"+1", fp + 1}, {"x2", fp * 2}, {"21000", 21000}, {"max-per-block", constants.MaxPlasmaForAccountBlock}, {"2^64-1", math.MaxUint64}} {
		x := x
		if x.v == fp || (fp == 0 && (x.n == "-1" || x.n == "x2")) {
			continue
		}
		add("FusedPlasma", x.n, func(t *nom.AccountBlock) { t.FusedPlasma = x.v })
	}
	for _, x := range []struct {
		n string
		v uint64
	}{{"1", 1}, {"21000*1500", 21000 * constants.PoWDifficultyPerPlasma}, {"2^63", 1 << 63}, {"2^64-1", math.MaxUint64}} {
		x := x
		add("Difficulty", x.n, func(t *nom.AccountBlock) { t.Difficulty = x.v })
	}
	add("Nonce", "0102030405060708", func(t *nom.AccountBlock) { t.Nonce = nom.Nonce{Data: [8]byte{1, 2, 3, 4, 5, 6, 7, 8}} })
	add("Nonce", "ff*8", func(t *nom.AccountBlock) {
		t.Nonce = nom.Nonce{Data: [8]byte{255, 255, 255, 255, 255, 255, 255, 255}}
	})
	add("Nonce", "01", func(t *nom.AccountBlock) { t.Nonce = nom.Nonce{Data: [8]byte{0, 0, 0, 0, 0, 0, 0, 1}} })
	for _, x := range []struct {
		n string
		v func(old uint64) uint64
	}{{"0", func(uint64) uint64 { return 0 }}, {"+1", func(o uint64) uint64 { return o + 1 }}, {"2^64-1", func(uint64) uint64 { return math.MaxUint64 }}} {
		x := x
		if !(x.n == "0" && v.BasePlasma == 0) {
			add("BasePlasma", x.n, func(t *nom.AccountBlock) { t.BasePlasma = x.v(t.BasePlasma) })
		}
		if !(x.n == "0" && v.TotalPlasma == 0) {
			add("TotalPlasma", x.n, func(t *nom.AccountBlock) { t.TotalPlasma = x.v(t.TotalPlasma) })
		}
	}
	if !v.ChangesHash.IsZero() {
		add("ChangesHash", "zero", func(t *nom.AccountBlock) { t.ChangesHash = types.ZeroHash })
	}
	add("ChangesHash", "bit-flip", func(t *nom.AccountBlock) { t.ChangesHash = flipHash(t.ChangesHash) })
	add("ChangesHash", "block-hash", func(t *nom.AccountBlock) { t.ChangesHash = t.Hash })
	// PublicKey
	if len(v.PublicKey) > 0 {
		add("PublicKey", "nil", func(t *nom.AccountBlock) { t.PublicKey = nil })
		add("PublicKey", "31-bytes", func(t *nom.AccountBlock) { t.PublicKey = append([]byte{}, t.PublicKey[:31]...) })
		add("PublicKey", "33-bytes", func(t *nom.AccountBlock) { t.PublicKey = append(append([]byte{}, t.PublicKey...), 0) })
	}
	add("PublicKey", "other-user's", func(t *nom.AccountBlock) { t.PublicKey = append([]byte{}, otherUser.Public...) })
	add("PublicKey", "foreign-key's", func(t *nom.AccountBlock) { t.PublicKey = append([]byte{}, foreignKey.Public...) })
	add("PublicKey", "32-zero-bytes", func(t *nom.AccountBlock) { t.PublicKey = make([]byte, 32) })
	// Signature
	if len(v.Signature) > 0 {
		add("Signature", "nil", func(t *nom.AccountBlock) { t.Signature = nil })
		add("Signature", "bit-flip", func(t *nom.AccountBlock) {
			t.Signature = append([]byte{}, t.Signature...)
			t.Signature[9] ^= 4
		})
		add("Signature", "63-bytes", func(t *nom.AccountBlock) { t.Signature = append([]byte{}, t.Signature[:63]...) })
		add("Signature", "65-bytes", func(t *nom.AccountBlock) { t.Signature = append(append([]byte{}, t.Signature...), 0) })
	}
	if cd.owner != nil {
		add("Signature", "owner-signs-other-message", func(t *nom.AccountBlock) { t.Signature = cd.owner.Sign([]byte("other message")) })
	}
	add("Signature", "foreign-key-signs-hash", func(t *nom.AccountBlock) { t.Signature = foreignKey.Sign(t.Hash[:]) })
	add("Signature", "64-zero-bytes", func(t *nom.AccountBlock) { t.Signature = make([]byte, 64) })
	return out
}

func u64s(x uint64) string {
	if x == math.MaxUint64 {
		return "2^64-1"
	}
	return new(big.Int).SetUint64(x).String()
}

func has(ms []mutation, field string) bool {
	for _, m := range ms {
		if m.Field == field {
			return true
		}
	}
	return false
}

// build clones the valid block, applies the mutations and seals the result in the given mode.
func (cd *cand) build(ms []mutation, mode int) *nom.AccountBlock {
	b := deepCopy(cd.valid)
	t := cd.target(b)
	// Signature values derived from the hash are applied after sealing the hash
	for _, m := range ms {
		if m.Field != "Signature" {
			m.f(t)
		}
	}
	if mode > 0 {
		if !has(ms, "Hash") {
			t.Hash = t.ComputeHash()
		}
		if t != b {
			// keep the batch linked: the parent follows the last descendant and commits to the descendants' hashes
			b.PreviousHash = b.DescendantBlocks[len(b.DescendantBlocks)-1].Hash
			b.Hash = b.ComputeHash()
		}
		var signer *wallet.KeyPair
		if mode == 2 {
			signer = foreignKey
		} else if t.Address[0] != 1 {
			signer = keyFor(t.Address)
			if signer == nil {
				signer = cd.owner
			}
		}
		if signer != nil {
			if !has(ms, "PublicKey") {
				t.PublicKey = append([]byte{}, signer.Public...)
			}
			t.Signature = signer.Sign(t.Hash[:])
		}
	}
	for _, m := range ms {
		if m.Field == "Signature" {
			m.f(t)
		}
	}
	return b
}

// deepCopy gives a fresh decoded copy (no cached fields), as a receiver would hold it.
func deepCopy(b *nom.AccountBlock) *nom.AccountBlock { return vnode.CloneBlock(b) }
