// Package c17 — spork-gated rules switch on by chain height only, identically everywhere.
//
// Three families of executions, all on real nodes (producer P with the mock pillars, followers fed through
// protocol.ChainBridge.InsertChain / AddAccountBlocks), enumerated exhaustively inside the stated bounds:
//
//	gate   for every activation order of the three implemented sporks (HTLC, bridge+liquidity, accelerator), creation
//	       order, spacing of the activations and timing mode (live: every probe acknowledges the frontier at the moment it
//	       is sent; lag: all probes are sent when the frontier is already past the last enforcement height and acknowledge
//	       an older momentum), a gated call of every kind is submitted for EVERY acknowledged height from the height
//	       before the first activation up to the last enforcement height + 1. Oracle: the send is accepted iff the
//	       acknowledged height >= enforcement height of the call's OWN spork; the own-block path (GenerateFromTemplate)
//	       and the foreign-block path (AddAccountBlocks of a hand-signed block, on P and on a follower) agree; accepted
//	       calls are executed by the contract (status success) at the confirming momentum; followers (gossip before the
//	       momentum + momentum, momentum only, one batch at the end) stay byte-identical with P.
//	admin  CreateSpork / ActivateSpork by the wrong key, for an unknown id, twice, by the community key at every height
//	       around its validity window; the contract's spork list is compared with a model after every momentum;
//	       EnforcementHeight == height of the momentum confirming the ActivateSpork send + SporkMinHeightDelay.
//	halt   child processes whose types.ImplementedSporksMap lacks an activated spork: must os.Exit(2) exactly when the
//	       momentum at the enforcement height is inserted (producing, following in lockstep, following in one batch) and
//	       at chain.Init on a database at/after that height — never before; controls with the spork implemented survive.
package c17

import (
	"encoding/json"
	"fmt"
	"os"
	"sort"
	"time"

	g "github.com/zenon-network/go-zenon/chain/genesis/mock"
	"github.com/zenon-network/go-zenon/common/types"
	"github.com/zenon-network/go-zenon/vm/constants"

	"verifmc/internal/xs"
)

// features / sporks
const (
	fHTLC = 0
	fBL   = 1
	fACC  = 2
)

var featNames = []string{"htlc", "bridge-liquidity", "accelerator"}
var implemented = []*types.ImplementedSpork{types.HtlcSpork, types.BridgeAndLiquiditySpork, types.AcceleratorSpork}
var defaultIds = []types.Hash{types.HtlcSpork.SporkId, types.BridgeAndLiquiditySpork.SporkId, types.AcceleratorSpork.SporkId}

const keyCumulative = "C17:regime-table-of-one-spork-enables-methods-of-unenforced-spork"

// rank in the fixed order in which vm/embedded/embedded.go consults the sporks (only used to attribute a violation to
// its root cause, never to decide whether something is a violation)
var tableRank = []int{fHTLC: 2, fBL: 1, fACC: 0}

// resetBindings puts the process-global spork configuration back to what the binary ships with. Called at the start of
// every execution; the execution then binds the ids of the sporks it creates (as the repository's tests do).
func resetBindings() {
	m := map[types.Hash]bool{}
	for f, sp := range implemented {
		sp.SporkId = defaultIds[f]
		m[defaultIds[f]] = true
	}
	types.ImplementedSporksMap = m
}

func bind(f int, id types.Hash, implementedToo bool) {
	implemented[f].SporkId = id
	if implementedToo {
		types.ImplementedSporksMap[id] = true
	}
}

// ownGlobals sets the process globals this check relies on (each worker and each child is a fresh process).
func ownGlobals() {
	constants.InitialBridgeAdministrator = g.User5.Address // liquidity administrator = a funded mock account
	if constants.SporkMinHeightDelay != 6 {
		panic("SporkMinHeightDelay is expected to be the shipped value 6")
	}
}

// ---------------------------------------------------------------------------------------------------------------------
// work items

type item struct {
	Kind string `json:"kind"` // gate | admin | halt

	// gate
	Order     []int  `json:"order,omitempty"` // activation order (feature indices)
	CreateRev bool   `json:"create_rev,omitempty"`
	Spacing   int    `json:"spacing,omitempty"`
	Mode      string `json:"mode,omitempty"` // live | lag

	// admin
	Feature int `json:"feature,omitempty"`

	// halt
	Path  string `json:"path,omitempty"`  // produce | follow-step | follow-batch
	Spork string `json:"spork,omitempty"` // htlc | bridge-liquidity | accelerator | unknown
}

func (it item) String() string {
	switch it.Kind {
	case "gate":
		s := ""
		for i, f := range it.Order {
			if i > 0 {
				s += ">"
			}
			s += featNames[f]
		}
		return fmt.Sprintf("gate[order=%s createRev=%v spacing=%d mode=%s]", s, it.CreateRev, it.Spacing, it.Mode)
	case "admin":
		return fmt.Sprintf("admin[%s]", featNames[it.Feature])
	}
	return fmt.Sprintf("halt[%s,%s]", it.Path, it.Spork)
}

func items(tier string) []item {
	var out []item
	all := [][]int{{fHTLC, fBL, fACC}, {fHTLC, fACC, fBL}, {fBL, fHTLC, fACC}, {fBL, fACC, fHTLC}, {fACC, fHTLC, fBL}, {fACC, fBL, fHTLC}}
	modes := []string{"live", "lag"}
	gate := func(o []int, rev bool, sp int) {
		for _, mode := range modes {
			out = append(out, item{Kind: "gate", Order: o, CreateRev: rev, Spacing: sp, Mode: mode})
		}
	}
	// a single spork on the chain (the minimal histories)
	for _, f := range []int{fHTLC, fBL, fACC} {
		gate([]int{f}, false, 4)
	}
	// two of the three sporks, both orders
	for _, a := range []int{fHTLC, fBL, fACC} {
		for _, b := range []int{fHTLC, fBL, fACC} {
			if a != b {
				gate([]int{a, b}, false, 4)
			}
		}
	}
	if tier == "thorough" {
		// all 6 activation orders x creation order (same as / reverse of the activation order) x distance between two
		// activations 1..5 momentums (1..3: the windows [E-2,E+1] of different sporks overlap; 4, 5: they do not)
		for _, o := range all {
			for _, rev := range []bool{false, true} {
				for sp := 1; sp <= 5; sp++ {
					gate(o, rev, sp)
				}
			}
		}
	} else {
		// all 6 activation orders with disjoint windows, 3 of them also with consecutive activation momentums
		for _, o := range all {
			gate(o, false, 4)
		}
		for _, o := range [][]int{all[0], all[3], all[5]} {
			gate(o, true, 1)
		}
	}
	for f := 0; f < 3; f++ {
		out = append(out, item{Kind: "admin", Feature: f})
	}
	sporks := []string{"unknown", "htlc"}
	if tier == "thorough" {
		sporks = []string{"unknown", "htlc", "bridge-liquidity", "accelerator"}
	}
	for _, sp := range sporks {
		for _, p := range []string{"produce", "follow-step", "follow-batch"} {
			out = append(out, item{Kind: "halt", Path: p, Spork: sp})
		}
	}
	return out
}

// ---------------------------------------------------------------------------------------------------------------------

func runItem(c *xs.Ctx, r *xs.Result, it item) {
	resetBindings()
	switch it.Kind {
	case "gate":
		runGate(c, r, it)
	case "admin":
		runAdmin(c, r, it)
	case "halt":
		runHalt(c, r, it)
	default:
		panic("unknown item kind " + it.Kind)
	}
	r.Count("executions", 1)
	r.Count("executions_"+it.Kind, 1)
}

func run(c *xs.Ctx, r *xs.Result) {
	ownGlobals()
	if c.Replay != nil {
		var it item
		if err := json.Unmarshal(c.Replay, &it); err != nil {
			panic(err)
		}
		runItem(c, r, it)
		return
	}
	for i, it := range items(c.Tier) {
		if !c.Mine(i) {
			continue
		}
		if c.Expired() {
			r.Incomplete = true
			r.Note("deadline reached before %s", it)
			return
		}
		runItem(c, r, it)
	}
}

func isReplay() bool {
	for _, a := range os.Args {
		if a == "--replay" {
			return true
		}
	}
	return false
}

func init() {
	if os.Getenv(childEnv) != "" {
		// a child of the halt family: never reaches xs.Main
		defer childMain()
	}
	xs.Register(&xs.Check{
		ID:    "C17",
		Level: "model_checking",
		Shards: func(tier string) int {
			n := len(items(tier))
			if n > 16 {
				n = 16
			}
			return n
		},
		Budget: func(tier string) time.Duration {
			if tier == "thorough" {
				return 14 * time.Minute
			}
			return 80 * time.Second
		},
		Assumptions: []string{
			"mock genesis (3 producing pillars, chain id 100, spork administrator g.Spork); SporkMinHeightDelay = 6 as shipped",
			"process globals owned per execution: types.{Htlc,BridgeAndLiquidity,Accelerator}Spork.SporkId are bound to the ids of the sporks the execution creates and types.ImplementedSporksMap is rebuilt (as the repository's tests do); constants.InitialBridgeAdministrator = g.User5; admin family: types.CommunitySporkAddress = g.Pillar4 with validity window [8,11)",
			"gated calls probed: htlc.Create (HTLC spork), liquidity.SetIsHalted by the administrator and bridge.WrapToken (bridge+liquidity spork), accelerator.CreateProject (accelerator spork); other gated methods share the same table lookup",
			"blocks a producer refuses are offered to nodes only through AddAccountBlocks (hand-signed); a momentum containing such a block (dishonest producer) is not constructed",
			"delivery seam is protocol.ChainBridge.InsertChain/AddAccountBlocks; a node's halt is observed as the exit status of a child process",
		},
		Run: run,
		Finish: func(tier string, m *xs.Result, ev *xs.Evidence) {
			ev.Coverage["states"] = m.Counters["states"]
			ev.Coverage["transitions"] = m.Counters["transitions"]
			ev.Coverage["traces_validated_against_impl"] = m.Counters["executions"]
			ev.Coverage["explanation"] = "states = (execution configuration, chain height) pairs at which the oracle was evaluated; transitions = operations executed on real nodes (submitted/forged blocks, momentums produced, deliveries to followers, child-process steps); traces = executions (one per configuration)"
			for _, set := range []string{"cumulative_table_manifestations", "receive_classes", "frontier_after_halt", "halt_cases", "sweep_methods_seen_available", "sweep_methods_seen_unavailable"} {
				var l []string
				for e := range m.Sets[set] {
					l = append(l, e)
				}
				sort.Strings(l)
				ev.Coverage["list_"+set] = l
			}
			if m.Incomplete || isReplay() {
				return
			}
			// A violation other than the table-composition one ends its execution early (the rest of that execution would be
			// judged against a model the node has already left), so the counters below are only guaranteed without one.
			for _, v := range m.Violations {
				if v.Key != keyCumulative {
					return
				}
			}
			// vacuity guards
			need := []string{
				"probes_accepted", "probes_refused", "probes_refused_foreign_path", "boundary_refused_at_E-1", "boundary_accepted_at_E",
				"receives_executed", "lag_probes_below_E_with_frontier_past_E", "follower_digest_comparisons", "sweep_available", "sweep_unavailable", "sweep_controls",
				"admin_refused_at_send", "admin_no_effect_at_receive", "admin_effective", "community_created_inside_window", "community_refused_outside_window",
				"halt_exit2_at_E", "halt_init_exit2", "halt_control_survived", "halt_init_before_E_opened",
			}
			for _, k := range need {
				if m.Counters[k] == 0 {
					panic(fmt.Sprintf("vacuity guard: counter %q is zero", k))
				}
			}
		},
	})
}
