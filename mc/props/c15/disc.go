package c15

import (
	"crypto/ecdsa"
	"errors"
	"fmt"
	"net"
	"sync"
	"time"

	"github.com/ethereum/go-ethereum/crypto"

	"github.com/zenon-network/go-zenon/p2p/discover"

	"verifmc/internal/vnode"
	"verifmc/internal/xs"
)

// Part (c): real discovery packets (built by the package's own encodePacket) are damaged in every single-byte way and
// handed to decodePacket and to the udp transport's handlePacket (a real udp/Table pair on an in-memory conn).
// Oracle: no panic; a damaged packet is rejected with an error; a packet whose handling returned an error never causes
// a datagram to its sender (every case uses its own sender address, and the conn records every write).

type udpWrite struct {
	to    string
	ptype byte
	data  []byte
}

type fakeConn struct {
	mu     sync.Mutex
	writes []udpWrite
	closed chan struct{}
	once   sync.Once
}

func newFakeConn() *fakeConn { return &fakeConn{closed: make(chan struct{})} }

func (f *fakeConn) ReadFromUDP(b []byte) (int, *net.UDPAddr, error) {
	<-f.closed
	return 0, nil, errors.New("closed")
}
func (f *fakeConn) WriteToUDP(b []byte, addr *net.UDPAddr) (int, error) {
	w := udpWrite{to: addr.String(), data: append([]byte{}, b...)}
	if len(b) > discover.VerifHeadSize {
		w.ptype = b[discover.VerifHeadSize]
	}
	f.mu.Lock()
	f.writes = append(f.writes, w)
	f.mu.Unlock()
	return len(b), nil
}
func (f *fakeConn) Close() error        { f.once.Do(func() { close(f.closed) }); return nil }
func (f *fakeConn) LocalAddr() net.Addr { return &net.UDPAddr{IP: net.IPv4(127, 0, 0, 1), Port: 30303} }
func (f *fakeConn) writesTo(addr string) []udpWrite {
	f.mu.Lock()
	defer f.mu.Unlock()
	var out []udpWrite
	for _, w := range f.writes {
		if w.to == addr {
			out = append(out, w)
		}
	}
	return out
}

func fixedKey(tag string) *ecdsa.PrivateKey {
	k, err := crypto.ToECDSA(crypto.Keccak256([]byte("verif-c15-discovery-key-" + tag)))
	if err != nil {
		panic(err)
	}
	return k
}

const farFuture = 4102444800 // 2100-01-01

var ptypeNames = map[byte]string{discover.VerifPingPacket: "ping", discover.VerifPongPacket: "pong", discover.VerifFindnodePacket: "findnode", discover.VerifNeighborsPacket: "neighbors"}

func endpoint(ip net.IP, udp, tcp uint16) discover.VerifEndpoint {
	return discover.VerifEndpoint{IP: ip, UDP: udp, TCP: tcp}
}

func validPing(exp uint64, version uint) discover.VerifPing {
	return discover.VerifPing{Version: version, From: endpoint(net.IPv4(10, 0, 0, 1).To4(), 30303, 30303), To: endpoint(net.IPv4(127, 0, 0, 1).To4(), 30303, 0), Expiration: exp}
}
func validPong(exp uint64) discover.VerifPong {
	return discover.VerifPong{To: endpoint(net.IPv4(127, 0, 0, 1).To4(), 30303, 30303), ReplyTok: crypto.Keccak256([]byte("token")), Expiration: exp}
}
func validFindnode(exp uint64) discover.VerifFindnode {
	var target discover.NodeID
	copy(target[:], crypto.Keccak256([]byte("target-a")))
	copy(target[32:], crypto.Keccak256([]byte("target-b")))
	return discover.VerifFindnode{Target: target, Expiration: exp}
}
func neighborsOf(n int, exp uint64) discover.VerifNeighbors {
	p := discover.VerifNeighbors{Expiration: exp}
	for i := 0; i < n; i++ {
		var id discover.NodeID
		copy(id[:], crypto.Keccak256([]byte(fmt.Sprint("neighbor-", i))))
		p.Nodes = append(p.Nodes, discover.VerifRPCNode{IP: net.IPv4(10, 1, byte(i>>8), byte(i)).To4(), UDP: 30303, TCP: 30303, ID: id})
	}
	return p
}

func mustEncode(k *ecdsa.PrivateKey, ptype byte, req interface{}) []byte {
	b, err := discover.VerifEncodePacket(k, ptype, req)
	if err != nil {
		panic(err)
	}
	return append([]byte{}, b...)
}

func rehash(pkt []byte) []byte {
	out := append([]byte{}, pkt...)
	if len(out) >= discover.VerifMacSize {
		copy(out, crypto.Keccak256(out[discover.VerifMacSize:]))
	}
	return out
}

type discCase struct {
	name     string
	ptype    string
	family   string
	pkt      []byte
	mustErr  bool   // decodePacket / handlePacket must reject it
	wantErr  string // when non-empty: handlePacket's error must be exactly this
	wantOK   bool   // handlePacket must accept it
	noHandle bool   // decodePacket only
}

type discOutcome struct {
	decErr, decPanic string
	decOK            bool
	hErr, hPanic     string
	writes           int
}

func partC(c *xs.Ctx, r *xs.Result, only string, progress func(string)) {
	vnode.Quiet()
	keyA, keyB, nodeKey := fixedKey("a"), fixedKey("b"), fixedKey("node")
	conn := newFakeConn()
	_, u := discover.VerifNewUDP(nodeKey, conn)
	defer u.Close()

	caseNo := 0
	var rejectedAddrs []string
	addrOf := func(i int) *net.UDPAddr {
		return &net.UDPAddr{IP: net.IPv4(10, byte(i>>16), byte(i>>8), byte(i)), Port: 40000}
	}
	run := func(dc discCase) {
		i := caseNo
		caseNo++
		if only != "" {
			if dc.name != only {
				return
			}
		} else if !c.Mine(i) {
			return
		}
		progress(dc.name)
		from := addrOf(i)
		var o discOutcome
		func() {
			defer func() {
				if p := recover(); p != nil {
					o.decPanic = fmt.Sprint(p)
				}
			}()
			_, _, _, err := discover.VerifDecodePacket(dc.pkt)
			if err != nil {
				o.decErr = err.Error()
			} else {
				o.decOK = true
			}
		}()
		if !dc.noHandle {
			func() {
				defer func() {
					if p := recover(); p != nil {
						o.hPanic = fmt.Sprint(p)
					}
				}()
				buf := dc.pkt
				if len(buf) > 1280 { // readLoop's buffer
					buf = buf[:1280]
				}
				if err := u.HandlePacket(from, append([]byte{}, buf...)); err != nil {
					o.hErr = err.Error()
				}
			}()
			o.writes = len(conn.writesTo(from.String()))
		}
		r.Count("c_cases", 1)
		r.Count("c_cases_"+dc.family, 1)
		rep := map[string]string{"part": "c", "case": dc.name}
		key := func(problem string) string {
			return fmt.Sprintf("C15:discover:%s:%s:%s", dc.ptype, dc.family, problem)
		}
		if o.decPanic != "" {
			r.Violate(key("decodePacket-panic"), fmt.Sprintf("discovery packet %s: decodePacket panicked: %s", dc.name, o.decPanic), rep)
		}
		if o.hPanic != "" {
			r.Violate(key("handlePacket-panic"), fmt.Sprintf("discovery packet %s: handlePacket panicked on the udp read loop (no recover): %s", dc.name, o.hPanic), rep)
		}
		if o.decOK {
			r.Count("c_decode_ok", 1)
		} else {
			r.Count("c_decode_rejected", 1)
		}
		if dc.mustErr && o.decOK && len(dc.pkt) <= 1280 {
			r.Violate(key("damaged-packet-decoded"), fmt.Sprintf("discovery packet %s was decoded without error", dc.name), rep)
		}
		if !dc.noHandle {
			rejected := o.hErr != "" || o.hPanic != ""
			if dc.mustErr && !rejected {
				r.Violate(key("damaged-packet-handled"), fmt.Sprintf("discovery packet %s was handled without error", dc.name), rep)
			}
			if dc.wantErr != "" && o.hErr != dc.wantErr {
				r.Violate(key("not-rejected-as-"+dc.wantErr), fmt.Sprintf("discovery packet %s: handlePacket returned %q, expected %q", dc.name, o.hErr, dc.wantErr), rep)
			}
			if dc.wantOK && rejected {
				r.Violate(key("valid-packet-rejected"), fmt.Sprintf("discovery packet %s: handlePacket returned %q", dc.name, o.hErr), rep)
			}
			if rejected {
				r.Count("c_handle_rejected", 1)
				rejectedAddrs = append(rejectedAddrs, from.String())
				if o.writes > 0 {
					r.Violate(key("reply-to-unverified-sender"), fmt.Sprintf("discovery packet %s was rejected (%s) and yet %d datagram(s) were sent to its sender", dc.name, o.hErr, o.writes), rep)
				}
			} else {
				r.Count("c_handle_accepted", 1)
				if o.writes > 0 {
					r.Count("c_replies_to_verified_senders", 1)
				}
			}
		}
		r.Add("c_outcomes", fmt.Sprintf("%s/%s/dec:%s/handle:%s", dc.ptype, dc.family, shortErr(o.decErr), shortErr(o.hErr)))
	}

	base := []struct {
		ptype byte
		pkt   []byte
	}{
		{discover.VerifPingPacket, mustEncode(keyA, discover.VerifPingPacket, validPing(farFuture, discover.Version))},
		{discover.VerifPongPacket, mustEncode(keyA, discover.VerifPongPacket, validPong(farFuture))},
		{discover.VerifFindnodePacket, mustEncode(keyA, discover.VerifFindnodePacket, validFindnode(farFuture))},
		{discover.VerifNeighborsPacket, mustEncode(keyA, discover.VerifNeighborsPacket, neighborsOf(3, farFuture))},
	}
	var masks []byte
	if c.Thorough() {
		for m := 1; m < 256; m++ {
			masks = append(masks, byte(m))
		}
	} else {
		masks = []byte{0xFF, 0x01} // xor 0xff = ^b ; xor 1 stands for the +1 of the other parts (a different neighbouring value)
	}

	// the undamaged packets: ping is answered, the others are well-formed but unsolicited / from an unknown node
	run(discCase{name: "valid:ping", ptype: "ping", family: "valid", pkt: base[0].pkt, wantOK: true})
	run(discCase{name: "valid:pong-unsolicited", ptype: "pong", family: "valid", pkt: base[1].pkt, wantErr: "unsolicited reply"})
	run(discCase{name: "valid:findnode-unknown-node", ptype: "findnode", family: "valid", pkt: base[2].pkt, wantErr: "unknown node"})
	run(discCase{name: "valid:neighbors-unsolicited", ptype: "neighbors", family: "valid", pkt: base[3].pkt, wantErr: "unsolicited reply"})

	for _, b := range base {
		pn := ptypeNames[b.ptype]
		// raw single-byte corruption: the packet hash no longer matches
		for pos := range b.pkt {
			for _, m := range masks {
				mut := append([]byte{}, b.pkt...)
				mut[pos] ^= m
				run(discCase{name: fmt.Sprintf("%s:corrupt:pos=%d:xor=%#02x", pn, pos, m), ptype: pn, family: "corrupt", pkt: mut, mustErr: true})
			}
		}
		// raw truncation
		for n := 0; n < len(b.pkt); n++ {
			run(discCase{name: fmt.Sprintf("%s:truncate:len=%d", pn, n), ptype: pn, family: "truncate", pkt: b.pkt[:n], mustErr: true})
		}
		// corruption behind the hash with the hash recomputed (the hash is not keyed: any sender can do that). The
		// signature then recovers to another identity or fails; the payload may or may not decode. handlePacket is
		// exercised for two values per byte (every accepted ping starts a bonding round trip in the table), decodePacket
		// for all masks of the tier.
		for pos := discover.VerifMacSize; pos < len(b.pkt); pos++ {
			for mi, m := range masks {
				mut := append([]byte{}, b.pkt...)
				mut[pos] ^= m
				run(discCase{name: fmt.Sprintf("%s:corrupt+rehash:pos=%d:xor=%#02x", pn, pos, m), ptype: pn, family: "corrupt+rehash", pkt: rehash(mut), noHandle: c.Thorough() && mi != 0 && mi != 254})
			}
		}
		for n := discover.VerifMacSize; n < len(b.pkt); n++ {
			run(discCase{name: fmt.Sprintf("%s:truncate+rehash:len=%d", pn, n), ptype: pn, family: "truncate+rehash", pkt: rehash(b.pkt[:n])})
		}
	}

	// semantic variants, correctly signed and hashed
	for _, exp := range []uint64{0, 1, 1000000000, ^uint64(0)} {
		run(discCase{name: fmt.Sprintf("ping:expiration=%d", exp), ptype: "ping", family: "expired", pkt: mustEncode(keyA, discover.VerifPingPacket, validPing(exp, discover.Version)), wantErr: "expired"})
		run(discCase{name: fmt.Sprintf("pong:expiration=%d", exp), ptype: "pong", family: "expired", pkt: mustEncode(keyA, discover.VerifPongPacket, validPong(exp)), wantErr: "expired"})
		run(discCase{name: fmt.Sprintf("findnode:expiration=%d", exp), ptype: "findnode", family: "expired", pkt: mustEncode(keyA, discover.VerifFindnodePacket, validFindnode(exp)), wantErr: "expired"})
		run(discCase{name: fmt.Sprintf("neighbors:expiration=%d", exp), ptype: "neighbors", family: "expired", pkt: mustEncode(keyA, discover.VerifNeighborsPacket, neighborsOf(3, exp)), wantErr: "expired"})
	}
	for _, v := range []uint{0, 3, 5, 1 << 31} {
		run(discCase{name: fmt.Sprintf("ping:version=%d", v), ptype: "ping", family: "wrong-version", pkt: mustEncode(keyA, discover.VerifPingPacket, validPing(farFuture, v)), wantErr: "version mismatch"})
	}
	for _, n := range []int{0, 1, discover.VerifMaxNeighbors(), discover.VerifMaxNeighbors() + 1, 100, 1000, 20000} {
		// more than maxNeighbors entries make the datagram longer than the read buffer (1280): it arrives cut and must fail
		pkt := mustEncode(keyA, discover.VerifNeighborsPacket, neighborsOf(n, farFuture))
		dc := discCase{name: fmt.Sprintf("neighbors:nodes=%d", n), ptype: "neighbors", family: "list-size", pkt: pkt}
		if len(pkt) > 1280 {
			dc.wantErr = "bad hash"
		} else {
			dc.wantErr = "unsolicited reply"
		}
		run(dc)
	}
	for _, t := range []byte{0, 5, 255} {
		pkt := mustEncode(keyA, t, validPing(farFuture, discover.Version))
		run(discCase{name: fmt.Sprintf("type=%d", t), ptype: "unknown-type", family: "unknown-type", pkt: pkt, mustErr: true})
	}
	for _, ipLen := range []int{0, 3, 5, 16, 17} {
		p := validPing(farFuture, discover.Version)
		p.From.IP = make(net.IP, ipLen)
		p.To.IP = make(net.IP, ipLen)
		run(discCase{name: fmt.Sprintf("ping:endpoint-ip-len=%d", ipLen), ptype: "ping", family: "odd-endpoint", pkt: mustEncode(keyB, discover.VerifPingPacket, p)})
	}
	{
		p := neighborsOf(3, farFuture)
		p.Nodes[0].IP = net.IPv4(224, 0, 0, 1).To4()
		p.Nodes[1].IP = net.IPv4zero.To4()
		p.Nodes[2].UDP = 0
		run(discCase{name: "neighbors:invalid-nodes", ptype: "neighbors", family: "odd-endpoint", pkt: mustEncode(keyA, discover.VerifNeighborsPacket, p), wantErr: "unsolicited reply"})
	}

	// a bonded sender: complete a real ping/pong exchange as keyB, then findnode is answered; damaged findnodes are not
	if only == "" && (c.Shard == 0 || c.NShards <= 1) {
		progress("bonded-flow")
		bondAddr := &net.UDPAddr{IP: net.IPv4(10, 200, 0, 1), Port: 40001}
		keyB := fixedKey("bonded") // an identity used by no other case
		idB := discover.PubkeyID(&keyB.PublicKey)
		p := validPing(farFuture, discover.Version)
		herr := u.HandlePacket(bondAddr, mustEncode(keyB, discover.VerifPingPacket, p))
		var nodePing []byte
		for t := 0; t < 400 && nodePing == nil; t++ {
			for _, w := range conn.writesTo(bondAddr.String()) {
				if w.ptype == discover.VerifPingPacket {
					nodePing = w.data
				}
			}
			if nodePing == nil {
				time.Sleep(5 * time.Millisecond)
			}
		}
		bonded := false
		if herr == nil && nodePing != nil {
			pong := discover.VerifPong{To: endpoint(net.IPv4(127, 0, 0, 1).To4(), 30303, 30303), ReplyTok: nodePing[:discover.VerifMacSize], Expiration: farFuture}
			if err := u.HandlePacket(bondAddr, mustEncode(keyB, discover.VerifPongPacket, pong)); err == nil {
				r.Count("c_solicited_pong_accepted", 1)
			}
			for t := 0; t < 400 && !bonded; t++ {
				bonded = u.KnownNode(idB)
				if !bonded {
					time.Sleep(5 * time.Millisecond)
				}
			}
		}
		if !bonded {
			r.Count("c_bond_setup_failed", 1)
			r.Note("part c: the bonded-sender scenario could not be set up (handle=%v, node ping seen=%v); findnode replies are not covered", herr, nodePing != nil)
		} else {
			r.Count("c_bond_established", 1)
			fn := mustEncode(keyB, discover.VerifFindnodePacket, validFindnode(farFuture))
			answered := false
			for t := 0; t < 100 && !answered; t++ {
				from := &net.UDPAddr{IP: net.IPv4(10, 201, 0, byte(t)), Port: 40002}
				if err := u.HandlePacket(from, fn); err != nil {
					r.Violate("C15:discover:findnode:bonded:valid-packet-rejected", fmt.Sprintf("findnode from a bonded node was rejected: %v", err), nil)
					break
				}
				for _, w := range conn.writesTo(from.String()) {
					if w.ptype == discover.VerifNeighborsPacket {
						answered = true
						if len(w.data) > 1280 {
							r.Violate("C15:discover:findnode:bonded:oversize-reply", fmt.Sprintf("neighbors reply of %d bytes", len(w.data)), nil)
						}
					}
				}
				if !answered {
					time.Sleep(10 * time.Millisecond)
				}
			}
			if answered {
				r.Count("c_findnode_answered_for_bonded_sender", 1)
			}
			// damaged findnodes of the bonded sender
			n := 0
			for pos := range fn {
				for _, m := range []byte{0xFF, 0x01} {
					mut := append([]byte{}, fn...)
					mut[pos] ^= m
					for variant, pkt := range [][]byte{mut, rehash(mut)} {
						if variant == 1 && pos < discover.VerifMacSize {
							continue
						}
						n++
						from := &net.UDPAddr{IP: net.IPv4(10, 202, byte(n>>8), byte(n)), Port: 40003}
						var perr string
						var err error
						func() {
							defer func() {
								if p := recover(); p != nil {
									perr = fmt.Sprint(p)
								}
							}()
							err = u.HandlePacket(from, pkt)
						}()
						r.Count("c_cases", 1)
						r.Count("c_cases_bonded-findnode-damaged", 1)
						name := fmt.Sprintf("bonded-findnode:pos=%d:xor=%#02x:rehash=%d", pos, m, variant)
						if perr != "" {
							r.Violate("C15:discover:findnode:bonded-damaged:handlePacket-panic", name+": "+perr, nil)
						}
						if err == nil && perr == "" {
							r.Violate("C15:discover:findnode:bonded-damaged:accepted", name+": a damaged findnode was accepted as coming from the bonded node", nil)
						} else {
							r.Count("c_handle_rejected", 1)
						}
						if w := conn.writesTo(from.String()); len(w) > 0 {
							r.Violate("C15:discover:findnode:bonded-damaged:reply-to-unverified-sender", fmt.Sprintf("%s: %d datagrams sent to the sender", name, len(w)), nil)
						}
					}
				}
			}
		}
	}

	// late writes: nothing may ever have been sent to the sender of a rejected packet
	for _, a := range rejectedAddrs {
		if w := conn.writesTo(a); len(w) > 0 {
			r.Violate("C15:discover:late-reply-to-unverified-sender", fmt.Sprintf("%d datagram(s) were sent to %s whose packet had been rejected", len(w), a), nil)
		}
	}
	if c.Shard == 0 || only != "" {
		r.Count("c_cases_in_bound", int64(caseNo))
	}
}
