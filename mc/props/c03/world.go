package c03

import (
	"fmt"

	"github.com/zenon-network/go-zenon/chain/nom"
	"github.com/zenon-network/go-zenon/common/types"

	"verifmc/internal/ops"
	"verifmc/internal/vnode"
	"verifmc/internal/xs"
)

var M = ops.Op{K: "M"}

// user indices (ops.Users)
const (
	u1 = 0  // User1
	u2 = 1  // User2
	u3 = 2  // User3
	u4 = 3  // User4
	u5 = 4  // User5
	p4 = 5  // Pillar4 key: funded, not a registered pillar
	p5 = 6  // Pillar5 key
	u6 = 13 // User6: empty account, gets fused plasma through the history
)

func addr(i int) types.Address { return ops.Users[i].Address }

// world is the single producer history all ledger states are cut from.
//
//	h2: s0 = U1->U2 3 ZNN ; f6 = U1 fuses 50 QSR for User6 ; t6 = U1->U6 2 ZNN ; z0 = U1->U2 0 ZNN
//	h3: (plasma contract receive of f6) ; r0 = U2 receives s0 ; rz0 = U2 receives z0 ; s1 = U1->U2 500 ZNN ; s2 = U3->U2 7 QSR ; s3 = U1->U5 5 ZNN ;
//	    c1 = U4 stakes 10 ZNN ; c1b = U5 stakes 10 ZNN ; c2 = Pillar4 registers a sentinel without QSR deposit (refunded on
//	    receive) ; c2b = same by Pillar5
//	h4: contract receives of c1, c1b, c2 (+refund send), c2b (+refund send) ; c3, c3b = two more stake calls ; c4, c4b two more
//	    refund calls ; s4 = U1->U2 1 ZNN
//	h5: empty
type world struct {
	chain []*nom.DetailedMomentum // heights 2..5
	named map[string]*nom.AccountBlock
	// producer-made contract receives of h3's calls (confirmed in h4; gossiped into the pool for state B)
	rc map[string]*nom.AccountBlock
}

func must(err error) {
	if err != nil {
		panic(err)
	}
}

func okOp(n *vnode.Node, o ops.Op) {
	if out := ops.Apply(n, o); out != "ok" && out[0] != 'm' {
		panic(fmt.Sprintf("history op %v: %s", o, out))
	}
}

func lastPool(n *vnode.Node, a types.Address) *nom.AccountBlock {
	bs := n.Chain.GetUncommittedAccountBlocksByAddress(a)
	if len(bs) == 0 {
		panic("no pool block for " + a.String())
	}
	return vnode.CloneBlock(bs[len(bs)-1])
}

func buildWorld(c *xs.Ctx) *world {
	w := &world{named: map[string]*nom.AccountBlock{}, rc: map[string]*nom.AccountBlock{}}
	p := vnode.New(vnode.Options{Dir: c.TempDir()})
	defer p.Destroy()
	do := func(name string, o ops.Op) {
		okOp(p, o)
		if name != "" {
			w.named[name] = lastPool(p, addr(o.A))
		}
	}
	do("s0", ops.Op{K: "T", A: u1, B: u2, V: 3})
	do("f6", ops.Op{K: "Call", S: "fuse", A: u1, B: u6, V: 50})
	do("t6", ops.Op{K: "T", A: u1, B: u6, V: 2})
	do("z0", ops.Op{K: "Tx", A: u1, B: u2, T: 2, V: 0}) // a data-only send: amount zero, zero token standard (nothing to credit when it is received)
	do("", M)                                           // h2
	do("r0", ops.Op{K: "R", A: u2})
	do("rz0", ops.Op{K: "R", A: u2})
	if w.named["r0"].FromBlockHash != w.named["s0"].Hash || w.named["rz0"].FromBlockHash != w.named["z0"].Hash {
		panic("world: r0/rz0 do not receive s0/z0")
	}
	do("s1", ops.Op{K: "T", A: u1, B: u2, V: 500})
	do("s2", ops.Op{K: "T", A: u3, B: u2, T: 1, V: 7})
	do("s3", ops.Op{K: "T", A: u1, B: u5, V: 5})
	do("c1", ops.Op{K: "Call", S: "stake", A: u4, V: 10})
	do("c1b", ops.Op{K: "Call", S: "stake", A: u5, V: 10})
	do("c2", ops.Op{K: "Call", S: "refund", A: p4})
	do("c2b", ops.Op{K: "Call", S: "refund", A: p5})
	do("", M) // h3 ; the producer's pool now holds the contract receives
	w.collectReceives(p, "c1", "c1b", "c2", "c2b")
	do("c3", ops.Op{K: "Call", S: "stake", A: u4, V: 11})
	do("c3b", ops.Op{K: "Call", S: "stake", A: u5, V: 12})
	do("c4", ops.Op{K: "Call", S: "refund", A: p4})
	do("c4b", ops.Op{K: "Call", S: "refund", A: p5})
	do("s4", ops.Op{K: "T", A: u1, B: u2, V: 1})
	do("", M) // h4
	// h5 comes from a second producer that never saw the first one's pool, so that the calls confirmed in h4 stay pending
	q := vnode.New(vnode.Options{Dir: c.TempDir()})
	defer q.Destroy()
	if _, err, pan := q.InsertChain(vnode.CloneBatch(p.Range(2, 4))); err != nil || pan != nil {
		panic(fmt.Sprintf("second producer: %v %v", err, pan))
	}
	okOp(q, M) // h5, empty
	w.collectReceives(q, "c3", "c3b", "c4", "c4b")
	if q.Height() != 5 || len(q.Detailed(5).AccountBlocks) != 0 {
		panic("world: unexpected h5")
	}
	w.chain = append(p.Range(2, 4), q.Detailed(5))
	return w
}

// collectReceives records the producer-made contract receives of the named calls and renames each pair (x, xb) so that x
// is the one the contract's inbox serves first (the inbox order follows the sorted momentum content, not submission order).
func (w *world) collectReceives(n *vnode.Node, names ...string) {
	for _, b := range n.PoolBlocks() {
		if b.BlockType != nom.BlockTypeContractReceive {
			continue
		}
		for _, name := range names {
			if w.named[name].Hash == b.FromBlockHash {
				w.rc[name] = vnode.CloneBlock(b)
			}
		}
	}
	for _, k := range names {
		if w.rc[k] == nil {
			panic("producer did not auto-receive " + k)
		}
	}
	for i := 0; i+1 < len(names); i += 2 {
		x, xb := names[i], names[i+1]
		if w.rc[x].Height > w.rc[xb].Height {
			w.rc[x], w.rc[xb] = w.rc[xb], w.rc[x]
			w.named[x], w.named[xb] = w.named[xb], w.named[x]
		}
	}
}

// stateSpec is one ledger state: a prefix of the world's chain plus blocks gossiped into the pool.
type stateSpec struct {
	Name   string
	Height uint64
	pool   func(w *world, n *vnode.Node) // fills the pool of a node already fed the prefix
}

// scratch builds a fresh follower in the given state.
func (w *world) scratch(c *xs.Ctx, st *stateSpec, poolBlocks []*nom.AccountBlock) *vnode.Node {
	n := vnode.New(vnode.Options{Dir: c.TempDir(), NoPillars: true, MemConsensus: true})
	if _, err, pan := n.InsertChain(vnode.CloneBatch(w.chain[:st.Height-1])); err != nil || pan != nil {
		panic(fmt.Sprintf("state %s: chain refused: %v %v", st.Name, err, pan))
	}
	for _, b := range poolBlocks {
		if err, pan := n.AddAccountBlocks([]*nom.AccountBlock{vnode.CloneBlock(b)}); err != nil || pan != nil {
			panic(fmt.Sprintf("state %s: pool block refused: %v %v", st.Name, err, pan))
		}
	}
	return n
}
