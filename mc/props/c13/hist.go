package c13

import (
	"encoding/binary"
	"fmt"
	"os"

	"github.com/zenon-network/go-zenon/chain/nom"
	"github.com/zenon-network/go-zenon/common/types"

	"verifmc/internal/ops"
	"verifmc/internal/vnode"
	"verifmc/internal/xs"
	"verifmc/props/c12"
)

var M = ops.Op{K: "M"}

// pooled is one accepted unconfirmed block, taken at the moment it entered the producer's pool.
type pooled struct {
	Idx     int
	Op      int               // index of the history operation that pooled it
	Block   *nom.AccountBlock // private copy of the block exactly as the producer pooled it
	Bytes   []byte            // its stored form (Serialize) on the producer
	HP      uint64            // producer's frontier height at that moment
	Earlier []int             // blocks still unconfirmed in the producer's pool at that moment (delivery order)
	HC      uint64            // height of the momentum that confirms it
}

type prodRec struct {
	Hist    []ops.Op
	H       uint64
	Ledger  []string // index = height
	Full    []string
	Batch   []*nom.DetailedMomentum // index = height (0,1 unused)
	Pooled  []*pooled
	ByHash  map[types.Hash]*pooled
	Outcome []string
}

func (rec *prodRec) snapshot(p *vnode.Node) {
	h := p.Height()
	for uint64(len(rec.Ledger)) <= h {
		rec.Ledger = append(rec.Ledger, "")
		rec.Full = append(rec.Full, "")
		rec.Batch = append(rec.Batch, nil)
	}
	if rec.Ledger[h] == "" {
		rec.Ledger[h] = p.LedgerDigest()
		rec.Full[h] = p.FullDigest()
	}
	rec.H = h
}

func mustSer(b *nom.AccountBlock) []byte {
	data, err := b.Serialize()
	if err != nil {
		panic(err)
	}
	return data
}

// produce runs the history on a fresh producer; after every operation the blocks that newly appeared in the pool are
// recorded together with what the pool held before them.
func produce(c *xs.Ctx, hist []ops.Op) *prodRec {
	p := vnode.New(vnode.Options{Dir: c.TempDir()})
	defer p.Destroy()
	rec := &prodRec{Hist: hist, ByHash: map[types.Hash]*pooled{}}
	rec.snapshot(p)
	for oi, o := range hist {
		out := ops.Apply(p, o)
		rec.Outcome = append(rec.Outcome, out)
		rec.snapshot(p)
		pool := p.PoolBlocks()
		inPool := map[types.Hash]bool{}
		for _, b := range pool {
			inPool[b.Hash] = true
		}
		var earlier []int
		for _, e := range rec.Pooled {
			if inPool[e.Block.Hash] {
				earlier = append(earlier, e.Idx)
			}
		}
		for _, b := range pool {
			if _, seen := rec.ByHash[b.Hash]; seen {
				continue
			}
			pb := &pooled{Idx: len(rec.Pooled), Op: oi, Block: vnode.CloneBlock(b), Bytes: mustSer(b), HP: p.Height(), Earlier: append([]int{}, earlier...)}
			rec.Pooled = append(rec.Pooled, pb)
			rec.ByHash[b.Hash] = pb
			earlier = append(earlier, pb.Idx)
		}
	}
	for h := uint64(2); h <= rec.H; h++ {
		d := p.Detailed(h)
		rec.Batch[h] = d
		for _, b := range d.AccountBlocks {
			pb := rec.ByHash[b.Hash]
			if pb == nil {
				panic(fmt.Sprintf("history [%s]: confirmed block %v at height %d was never seen in the pool", ops.Hist(hist), b.Hash, h))
			}
			pb.HC = h
		}
	}
	return rec
}

// follower builds a non-producing node in the state the producer had when block k entered its pool, minus block k:
// chain up to HP, then the still-unconfirmed earlier blocks gossiped unchanged in the producer's order.
func (rec *prodRec) follower(c *xs.Ctx, k *pooled) *vnode.Node {
	f := vnode.New(vnode.Options{Dir: c.TempDir(), NoPillars: true})
	if k.HP >= 2 {
		if idx, err, pan := f.InsertChain(vnode.CloneBatch(rec.Batch[2 : k.HP+1])); err != nil || pan != nil {
			panic(fmt.Sprintf("follower setup: sync to %d failed: idx=%d err=%v panic=%v", k.HP, idx, err, pan))
		}
	}
	for _, ei := range k.Earlier {
		e := rec.Pooled[ei]
		if e.Block.BlockType == nom.BlockTypeContractSend {
			continue
		}
		if err, pan := f.AddAccountBlocks([]*nom.AccountBlock{vnode.CloneBlock(e.Block)}); err != nil || pan != nil {
			panic(fmt.Sprintf("follower setup: honest gossip of block %d refused: err=%v panic=%v", ei, err, pan))
		}
	}
	return f
}

// followerWarm is follower(k) after this life: the unaltered block k was delivered, verified and pooled; then the node's
// last momentum was rolled back (Chain.RollbackTo, what InsertChain does when it adopts a side chain: the pool is
// emptied) and inserted again, and the earlier unconfirmed blocks were gossiped again. Ledger and pool equal follower(k).
func (rec *prodRec) followerWarm(c *xs.Ctx, k *pooled) *vnode.Node {
	f := rec.follower(c, k)
	if err, pan := f.AddAccountBlocks([]*nom.AccountBlock{vnode.CloneBlock(k.Block)}); err != nil || pan != nil {
		panic(fmt.Sprintf("warm follower setup: honest gossip of the block refused: err=%v panic=%v", err, pan))
	}
	below, err := f.Chain.GetFrontierMomentumStore().GetMomentumByHeight(k.HP - 1)
	if err != nil || below == nil {
		panic(fmt.Sprintf("warm follower setup: no momentum at height %d: %v", k.HP-1, err))
	}
	ins := f.Chain.AcquireInsert("c13 warm follower")
	err = f.Chain.RollbackTo(ins, below.Identifier())
	ins.Unlock()
	if err != nil {
		panic(fmt.Sprintf("warm follower setup: rollback failed: %v", err))
	}
	if idx, err, pan := f.InsertChain(vnode.CloneBatch(rec.Batch[k.HP : k.HP+1])); err != nil || pan != nil {
		panic(fmt.Sprintf("warm follower setup: re-insertion of momentum %d failed: idx=%d err=%v panic=%v", k.HP, idx, err, pan))
	}
	for _, ei := range k.Earlier {
		e := rec.Pooled[ei]
		if e.Block.BlockType == nom.BlockTypeContractSend {
			continue
		}
		if err, pan := f.AddAccountBlocks([]*nom.AccountBlock{vnode.CloneBlock(e.Block)}); err != nil || pan != nil {
			panic(fmt.Sprintf("warm follower setup: honest gossip of block %d refused: err=%v panic=%v", ei, err, pan))
		}
	}
	if n := len(f.Chain.GetUncommittedAccountBlocksByAddress(k.Block.Address)); n > 0 {
		for _, b := range f.Chain.GetUncommittedAccountBlocksByAddress(k.Block.Address) {
			if b.Hash == k.Block.Hash {
				panic("warm follower setup: the rollback did not drop the block from the pool")
			}
		}
	}
	return f
}

func blockClass(b *nom.AccountBlock) string {
	switch b.BlockType {
	case nom.BlockTypeUserSend:
		if types.IsEmbeddedAddress(b.ToAddress) {
			return "user-call"
		}
		return "user-send"
	case nom.BlockTypeUserReceive:
		return "user-receive"
	case nom.BlockTypeContractSend:
		return "contract-send"
	case nom.BlockTypeContractReceive:
		return "contract-receive"
	}
	return fmt.Sprintf("type%d", b.BlockType)
}

const nScripted = 4

// allHistories = the 4 scripted histories followed by the enumerated family (indices are stable across tiers: replay
// files refer to them).
func allHistories() [][]ops.Op {
	return append(histories(""), enumerated()...)
}

// enumerated: every sequence of two operations from a 7-letter alphabet, after one momentum (so that "Told13" has an
// older momentum to acknowledge) and followed by three momentums (everything gets confirmed, refunds included).
func enumerated() [][]ops.Op {
	alpha := []ops.Op{
		{K: "T", A: 0, B: 1, V: 5},
		{K: "Told13", A: 1, B: 2, V: 3},
		{K: "R", A: 1},
		{K: "Call", S: "stake", A: 2, V: 10},
		{K: "Call", S: "refund", A: 5},
		{K: "Call", S: "delegate", A: 1, B: 1},
		M,
	}
	var hs [][]ops.Op
	for _, a := range alpha {
		for _, b := range alpha {
			hs = append(hs, []ops.Op{M, a, b, M, M, M})
		}
	}
	return hs
}

// histories: the scripted histories.
func histories(tier string) [][]ops.Op {
	var hs [][]ops.Op
	// H0: transfer + receive, stake call with auto-receive, refund (sentinel register without deposit) whose contract
	// receive carries a descendant send which the user then receives, delegation, QSR transfer, skipped slot
	hs = append(hs, []ops.Op{
		{K: "T", A: 0, B: 1, V: 500}, {K: "Call", S: "stake", A: 1, V: 10}, M,
		{K: "R", A: 1}, {K: "Call", S: "refund", A: 5}, M,
		{K: "Call", S: "delegate", A: 3, B: 2}, {K: "T", A: 1, B: 0, T: 1, V: 9}, {K: "M", V: 1},
		{K: "R", A: 0}, {K: "R", A: 5}, {K: "T", A: 5, B: 2, V: 1}, M, M,
	})
	// H1: fuse for another user, refund, a transfer paid by proof of work alone, an empty momentum, transfer acknowledging an older momentum, burn
	hs = append(hs, []ops.Op{
		{K: "Call", S: "fuse", A: 0, B: 1, V: 50}, {K: "Call", S: "refund", A: 6}, {K: "Tpow", A: 7, B: 2, V: 1}, M, M,
		{K: "Told13", A: 2, B: 3, V: 11}, {K: "Call", S: "burn", A: 4, T: 0, V: 100}, M,
		{K: "R", A: 3}, {K: "R", A: 6}, M, M,
	})
	// H2: token issue (contract receive mints through a descendant), receive of the minted tokens, sentinel deposit,
	// undelegate, two sends of one account in one momentum, empty momentums
	hs = append(hs, []ops.Op{
		{K: "Call", S: "issue", A: 0, V: 1000}, M, M, {K: "R", A: 0},
		{K: "Call", S: "sentinel-deposit-qsr", A: 5, V: 100}, {K: "Call", S: "undelegate", A: 0}, M,
		{K: "T", A: 2, B: 4, V: 1}, {K: "T", A: 2, B: 4, T: 1, V: 2}, M, M,
	})
	// H3: a momentum with many content headers: every funded account sends three times, then an empty momentum
	var many []ops.Op
	for round := 0; round < 3; round++ {
		for a := 0; a < 13; a++ {
			many = append(many, ops.Op{K: "T", A: a, B: (a + 1) % 13, T: round % 2, V: int64(1 + round)})
		}
	}
	many = append(many, M, M, ops.Op{K: "R", A: 1}, M)
	hs = append(hs, many)
	return hs
}

// powOnlyHint: least nonce valid for difficulty 21000*1500 on the block that follows user 7's genesis block (its PoW
// pre-image, address and genesis block hash, is the same on every chain built from the mock genesis); verified before use, searched again if it ever stops being valid.
const powOnlyHint = 13345815

func init() {
	// "Tpow": first block of user A after genesis, a transfer that uses no fused plasma and proves the whole base cost by work
	ops.Extra["Tpow"] = func(n *vnode.Node, o ops.Op) string {
		addr := ops.Users[o.A].Address
		fr, err := n.Chain.GetFrontierAccountStore(addr).Frontier()
		if err != nil || fr == nil || fr.Height != 1 {
			panic(fmt.Sprintf("harness: Tpow is for an account that holds its genesis block only (%v %v)", fr, err))
		}
		d := uint64(21000 * 1500)
		nonce, searched := c12.PowNonce(addr, fr.Hash, d, powOnlyHint)
		if searched > 0 {
			if p := os.Getenv("C13_NONCE_OUT"); p != "" {
				os.WriteFile(p, []byte(fmt.Sprintf("powOnlyHint stale: searched %d hashes, least valid nonce %d\n", searched, nonce)), 0o644)
			}
		}
		b := &nom.AccountBlock{BlockType: nom.BlockTypeUserSend, Address: addr, ToAddress: ops.Users[o.B].Address,
			TokenStandard: ops.Tokens[o.T], Amount: ops.Big(o.V), Difficulty: d}
		binary.LittleEndian.PutUint64(b.Nonce.Data[:], nonce)
		blk, err := n.Submit(b)
		if err != nil {
			return "err:" + err.Error()
		}
		if blk.FusedPlasma != 0 || blk.Difficulty != d {
			return "ok-but-not-paid-by-work-alone" // an outcome of the code under test, not of the harness
		}
		return "ok"
	}
	// "Told13": transfer that acknowledges the momentum before the frontier
	ops.Extra["Told13"] = func(n *vnode.Node, o ops.Op) string {
		f := n.Frontier()
		st := n.Chain.GetFrontierMomentumStore()
		ackH := f.Height
		if ackH > 1 {
			ackH--
		}
		m, err := st.GetMomentumByHeight(ackH)
		if err != nil || m == nil {
			return "err:noack"
		}
		_, err = n.Submit(&nom.AccountBlock{BlockType: nom.BlockTypeUserSend, Address: ops.Users[o.A].Address, ToAddress: ops.Users[o.B].Address,
			TokenStandard: ops.Tokens[o.T], Amount: ops.Big(o.V), MomentumAcknowledged: m.Identifier()})
		if err != nil {
			return "err:" + err.Error()
		}
		return "ok"
	}
}
