package c18

import (
	"crypto/sha256"
	"encoding/hex"
	"fmt"
	"math/big"
	"sort"
	"strings"
	"time"

	g "github.com/zenon-network/go-zenon/chain/genesis/mock"
	"github.com/zenon-network/go-zenon/chain/nom"
	"github.com/zenon-network/go-zenon/common/types"
	"github.com/zenon-network/go-zenon/rpc/api"
	"github.com/zenon-network/go-zenon/rpc/api/embedded"
	"github.com/zenon-network/go-zenon/vm/embedded/definition"

	"verifmc/internal/vnode"
	"verifmc/internal/xs"
	"verifmc/props/c10"
)

// ---------------------------------------------------------------------------------------------------------------------
// Part (a): paging. An instance is one paged RPC method with its non-paging arguments fixed (e.g. an address) on one
// chain. The ground truth of an instance is the full list in the documented order, read from the stores.

// elem is one list element: ID identifies the element and its content, Key is its position in the documented order
// (equal keys = the documentation leaves the relative order open).
type elem struct{ ID, Key string }

func strict(id string) elem { return elem{id, id} }

type pagedResult struct {
	List  []elem
	Count int64
}

type instance struct {
	Method string // rpc method name
	Arg    string // label of the fixed arguments
	Height bool   // (height, count) style instead of (pageIndex, pageSize)
	Limit  uint64 // advertised maximum page size / count
	// MaxIndex > 0: page indices >= MaxIndex are refused by documentation (unreceived blocks)
	MaxIndex uint64
	Truth    []elem
	Total    int64 // expected count/total field
	Call     func(a, b uint64) (*pagedResult, error)
	// WrapKey names the root cause when an arithmetic overflow of the two paging arguments explains a wrong answer
	WrapKey string
	byKey   map[string]map[string]int // order key -> element ids carrying it (built on first use)
}

func (in *instance) label() string {
	if in.Arg == "" {
		return in.Method
	}
	return in.Method + "(" + in.Arg + ")"
}

func digest(b []byte) string {
	h := sha256.Sum256(b)
	return hex.EncodeToString(h[:8])
}

// chainIndex is the ground truth of one chain, read directly from the stores.
type chainIndex struct {
	n          *vnode.Node
	name       string
	momentums  []*nom.DetailedMomentum // index 0 = height 1
	confirmed  map[types.Hash]uint64   // account block hash -> confirming momentum height
	allBlocks  []*nom.AccountBlock     // every confirmed block (content order) followed by pool blocks
	frontierH  uint64
	sendTo     map[types.Address][]*nom.AccountBlock // confirmed send blocks by destination
	receivedBy map[types.Hash]bool                   // from-hash of every receive block (confirmed or pooled)
}

func indexChain(n *vnode.Node, name string) *chainIndex {
	ci := &chainIndex{n: n, name: name, confirmed: map[types.Hash]uint64{}, sendTo: map[types.Address][]*nom.AccountBlock{}, receivedBy: map[types.Hash]bool{}}
	ci.frontierH = n.Height()
	var walk func(b *nom.AccountBlock, h uint64)
	walk = func(b *nom.AccountBlock, h uint64) {
		if h > 0 {
			ci.confirmed[b.Hash] = h
		}
		if nom.IsSendBlock(b.BlockType) {
			if h > 0 {
				ci.sendTo[b.ToAddress] = append(ci.sendTo[b.ToAddress], b)
			}
		} else {
			ci.receivedBy[b.FromBlockHash] = true
		}
		for _, d := range b.DescendantBlocks {
			walk(d, h)
		}
	}
	for h := uint64(1); h <= ci.frontierH; h++ {
		d := n.Detailed(h)
		ci.momentums = append(ci.momentums, d)
		for _, b := range d.AccountBlocks {
			ci.allBlocks = append(ci.allBlocks, b)
			walk(b, h)
		}
	}
	for _, b := range n.PoolBlocks() {
		ci.allBlocks = append(ci.allBlocks, b)
		walk(b, 0)
	}
	return ci
}

func (ci *chainIndex) blockID(b *nom.AccountBlock) string {
	data, err := b.Serialize()
	if err != nil {
		panic(err)
	}
	return fmt.Sprintf("%s:%s:c%d", b.Hash.String()[:16], digest(data), ci.confirmed[b.Hash])
}
func rpcBlockID(b *api.AccountBlock) string {
	data, err := b.AccountBlock.Serialize()
	if err != nil {
		panic(err)
	}
	ch := uint64(0)
	if b.ConfirmationDetail != nil {
		ch = b.ConfirmationDetail.MomentumHeight
	}
	return fmt.Sprintf("%s:%s:c%d", b.Hash.String()[:16], digest(data), ch)
}
func momentumID(m *nom.Momentum) string {
	data, err := m.Serialize()
	if err != nil {
		panic(err)
	}
	return fmt.Sprintf("%s:%s:%s", m.Hash.String()[:16], digest(data), m.Producer().String())
}
func rpcMomentumID(m *api.Momentum) string {
	data, err := m.Momentum.Serialize()
	if err != nil {
		panic(err)
	}
	return fmt.Sprintf("%s:%s:%s", m.Hash.String()[:16], digest(data), m.Producer.String())
}
func (ci *chainIndex) detailedID(d *nom.DetailedMomentum) string {
	ids := []string{momentumID(d.Momentum)}
	for _, b := range d.AccountBlocks {
		ids = append(ids, ci.blockID(b))
	}
	return strings.Join(ids, ",")
}
func rpcDetailedID(d *api.DetailedMomentum) string {
	ids := []string{rpcMomentumID(d.Momentum)}
	for _, b := range d.AccountBlocks {
		ids = append(ids, rpcBlockID(b))
	}
	return strings.Join(ids, ",")
}

func rpcBlocks(l *api.AccountBlockList) *pagedResult {
	if l == nil {
		return nil
	}
	r := &pagedResult{Count: int64(l.Count)}
	for _, b := range l.List {
		r.List = append(r.List, strict(rpcBlockID(b)))
	}
	return r
}

func bigStr(b *big.Int) string {
	if b == nil {
		return "nil"
	}
	return b.String()
}

func tokenIDt(t *definition.TokenInfo) string {
	return fmt.Sprintf("%s|%s|%s|%s|%s|%s|%d|%s|%v%v%v", t.TokenStandard, t.TokenName, t.TokenSymbol, t.TokenDomain, bigStr(t.TotalSupply), bigStr(t.MaxSupply), t.Decimals, t.Owner, t.IsBurnable, t.IsMintable, t.IsUtility)
}
func tokenIDr(t *api.Token) string {
	return fmt.Sprintf("%s|%s|%s|%s|%s|%s|%d|%s|%v%v%v", t.ZenonTokenStandard, t.TokenName, t.TokenSymbol, t.TokenDomain, bigStr(t.TotalSupply), bigStr(t.MaxSupply), t.Decimals, t.Owner, t.IsBurnable, t.IsMintable, t.IsUtility)
}

// buildInstances lists every paged method reachable on this chain with its ground truth.
func buildInstances(ci *chainIndex) []*instance {
	n := ci.n
	z := &zAdapter{n}
	var out []*instance
	add := func(in *instance) { out = append(out, in) }

	ledger := api.NewLedgerApi(z)
	addrs := []struct {
		label string
		a     types.Address
	}{{"user1", u1}, {"user2", u2}, {"user3", u3}, {"user4", u4}, {"unknown", unknownAddr}, {"tokenContract", types.TokenContract}, {"stakeContract", types.StakeContract}}

	// ---- ledger: account blocks
	for _, ad := range addrs {
		ad := ad
		acc := n.Chain.GetFrontierAccountStore(ad.a)
		fr, err := acc.Frontier()
		if err != nil {
			panic(err)
		}
		var asc []elem
		if fr != nil {
			for h := uint64(1); h <= fr.Height; h++ {
				b, err := acc.ByHeight(h)
				if err != nil || b == nil {
					panic(fmt.Sprintf("account store has no block %d of %v: %v", h, ad.a, err))
				}
				asc = append(asc, strict(ci.blockID(b)))
			}
		}
		desc := make([]elem, len(asc))
		for i := range asc {
			desc[len(asc)-1-i] = asc[i]
		}
		add(&instance{Method: "ledger.getAccountBlocksByHeight", Arg: ad.label, Height: true, Limit: api.RpcMaxCountSize, Truth: asc, Total: int64(len(asc)),
			WrapKey: "GetAccountBlocksByHeight:height+i-uint64-wrap",
			Call: func(h, c uint64) (*pagedResult, error) {
				l, err := ledger.GetAccountBlocksByHeight(ad.a, h, c)
				return rpcBlocks(l), err
			}})
		add(&instance{Method: "ledger.getAccountBlocksByPage", Arg: ad.label, Limit: api.RpcMaxPageSize, Truth: desc, Total: int64(len(asc)),
			WrapKey: "GetAccountBlocksByPage:(pageIndex+1)*pageSize-wrap",
			Call: func(pi, ps uint64) (*pagedResult, error) {
				l, err := ledger.GetAccountBlocksByPage(ad.a, uint32(pi), uint32(ps))
				return rpcBlocks(l), err
			}})
		// unconfirmed: the pool's blocks of the account by height
		var pool []elem
		for _, b := range n.PoolBlocks() {
			if b.Address == ad.a {
				pool = append(pool, strict(ci.blockID(b)))
			}
		}
		add(&instance{Method: "ledger.getUnconfirmedBlocksByAddress", Arg: ad.label, Limit: api.RpcMaxPageSize, Truth: pool, Total: int64(len(pool)),
			WrapKey: "GetRange:index*count-uint32-wrap",
			Call: func(pi, ps uint64) (*pagedResult, error) {
				l, err := ledger.GetUnconfirmedBlocksByAddress(ad.a, uint32(pi), uint32(ps))
				return rpcBlocks(l), err
			}})
		// unreceived: confirmed sends to the address that no block (confirmed or pooled) of the address receives, in
		// store order (mailbox key = hash)
		var unrecv []*nom.AccountBlock
		for _, b := range ci.sendTo[ad.a] {
			if !ci.receivedBy[b.Hash] {
				unrecv = append(unrecv, b)
			}
		}
		sort.Slice(unrecv, func(i, j int) bool {
			return strings.Compare(string(unrecv[i].Hash.Bytes()), string(unrecv[j].Hash.Bytes())) < 0
		})
		var ue []elem
		for _, b := range unrecv {
			ue = append(ue, strict(ci.blockID(b)))
		}
		add(&instance{Method: "ledger.getUnreceivedBlocksByAddress", Arg: ad.label, Limit: 50, MaxIndex: 10, Truth: ue, Total: int64(len(ue)),
			WrapKey: "GetRange:index*count-uint32-wrap",
			Call: func(pi, ps uint64) (*pagedResult, error) {
				l, err := ledger.GetUnreceivedBlocksByAddress(ad.a, uint32(pi), uint32(ps))
				return rpcBlocks(l), err
			}})
	}
	// ---- ledger: momentums
	{
		var asc, dAsc []elem
		for _, d := range ci.momentums {
			asc = append(asc, strict(momentumID(d.Momentum)))
			dAsc = append(dAsc, strict(ci.detailedID(d)))
		}
		desc := make([]elem, len(asc))
		for i := range asc {
			desc[len(asc)-1-i] = asc[i]
		}
		mres := func(l *api.MomentumList) *pagedResult {
			if l == nil {
				return nil
			}
			r := &pagedResult{Count: int64(l.Count)}
			for _, m := range l.List {
				r.List = append(r.List, strict(rpcMomentumID(m)))
			}
			return r
		}
		add(&instance{Method: "ledger.getMomentumsByHeight", Height: true, Limit: api.RpcMaxCountSize, Truth: asc, Total: int64(len(asc)),
			WrapKey: "GetMomentumsByHeight:height+count-uint64-wrap",
			Call: func(h, c uint64) (*pagedResult, error) {
				l, err := ledger.GetMomentumsByHeight(h, c)
				return mres(l), err
			}})
		add(&instance{Method: "ledger.getMomentumsByPage", Limit: api.RpcMaxPageSize, Truth: desc, Total: int64(len(asc)),
			WrapKey: "GetMomentumsByPage:(pageIndex+1)*pageSize-wrap",
			Call: func(pi, ps uint64) (*pagedResult, error) {
				l, err := ledger.GetMomentumsByPage(uint32(pi), uint32(ps))
				return mres(l), err
			}})
		add(&instance{Method: "ledger.getDetailedMomentumsByHeight", Height: true, Limit: api.RpcMaxCountSize, Truth: dAsc, Total: int64(len(asc)),
			WrapKey: "GetMomentumsByHeight:height+count-uint64-wrap",
			Call: func(h, c uint64) (*pagedResult, error) {
				l, err := ledger.GetDetailedMomentumsByHeight(h, c)
				if l == nil {
					return nil, err
				}
				r := &pagedResult{Count: int64(l.Count)}
				for _, m := range l.List {
					r.List = append(r.List, strict(rpcDetailedID(m)))
				}
				return r, err
			}})
	}

	// ---- embedded.token
	tokenApi := embedded.NewTokenApi(z)
	toks, err := definition.GetTokenInfoList(n.Chain.GetFrontierAccountStore(types.TokenContract).Storage())
	if err != nil {
		panic(err)
	}
	tres := func(l *embedded.TokenList) *pagedResult {
		if l == nil {
			return nil
		}
		r := &pagedResult{Count: int64(l.Count)}
		for _, t := range l.List {
			r.List = append(r.List, strict(tokenIDr(t)))
		}
		return r
	}
	{
		var all []elem
		for _, t := range toks {
			all = append(all, strict(tokenIDt(t)))
		}
		add(&instance{Method: "embedded.token.getAll", Limit: api.RpcMaxPageSize, Truth: all, Total: int64(len(all)), WrapKey: "GetRange:index*count-uint32-wrap",
			Call: func(pi, ps uint64) (*pagedResult, error) {
				l, err := tokenApi.GetAll(uint32(pi), uint32(ps))
				return tres(l), err
			}})
		for _, ad := range []struct {
			label string
			a     types.Address
		}{{"user1", u1}, {"user2", u2}, {"unknown", unknownAddr}, {"pillarContract", types.PillarContract}} {
			ad := ad
			var own []elem
			for _, t := range toks {
				if t.Owner == ad.a {
					own = append(own, strict(tokenIDt(t)))
				}
			}
			add(&instance{Method: "embedded.token.getByOwner", Arg: ad.label, Limit: api.RpcMaxPageSize, Truth: own, Total: int64(len(own)), WrapKey: "GetRange:index*count-uint32-wrap",
				Call: func(pi, ps uint64) (*pagedResult, error) {
					l, err := tokenApi.GetByOwner(ad.a, uint32(pi), uint32(ps))
					return tres(l), err
				}})
		}
	}

	// ---- embedded.stake / embedded.plasma entries by address
	stakeApi := embedded.NewStakeApi(z)
	plasmaApi := embedded.NewPlasmaApi(z)
	for _, ad := range []struct {
		label string
		a     types.Address
	}{{"user1", u1}, {"user2", u2}, {"user4", u4}, {"unknown", unknownAddr}} {
		ad := ad
		sl, _, _, err := definition.GetStakeListByAddress(n.Chain.GetFrontierAccountStore(types.StakeContract).Storage(), ad.a)
		if err != nil {
			panic(err)
		}
		sort.SliceStable(sl, func(i, j int) bool {
			if sl[i].ExpirationTime != sl[j].ExpirationTime {
				return sl[i].ExpirationTime < sl[j].ExpirationTime
			}
			return sl[i].Id.String() < sl[j].Id.String()
		})
		var se []elem
		for _, s := range sl {
			se = append(se, strict(fmt.Sprintf("%s|%s|%s|%d|%d|%s", s.Id, bigStr(s.Amount), bigStr(s.WeightedAmount), s.StartTime, s.ExpirationTime, s.StakeAddress)))
		}
		add(&instance{Method: "embedded.stake.getEntriesByAddress", Arg: ad.label, Limit: api.RpcMaxPageSize, Truth: se, Total: int64(len(se)), WrapKey: "GetRange:index*count-uint32-wrap",
			Call: func(pi, ps uint64) (*pagedResult, error) {
				l, err := stakeApi.GetEntriesByAddress(ad.a, uint32(pi), uint32(ps))
				if l == nil {
					return nil, err
				}
				r := &pagedResult{Count: int64(l.Count)}
				for _, s := range l.Entries {
					r.List = append(r.List, strict(fmt.Sprintf("%s|%s|%s|%d|%d|%s", s.Id, bigStr(s.Amount), bigStr(s.WeightedAmount), s.StartTimestamp, s.ExpirationTimestamp, s.Address)))
				}
				return r, err
			}})

		fl, _, err := definition.GetFusionInfoListByOwner(n.Chain.GetFrontierAccountStore(types.PlasmaContract).Storage(), ad.a)
		if err != nil {
			panic(err)
		}
		// documented order: expiration height, then beneficiary (rpc/api/embedded/plasma.go SortFusionEntryByHeight)
		fkey := func(h uint64, b types.Address) string { return fmt.Sprintf("%020d|%s", h, b.String()) }
		sort.SliceStable(fl, func(i, j int) bool {
			return fkey(fl[i].ExpirationHeight, fl[i].Beneficiary) < fkey(fl[j].ExpirationHeight, fl[j].Beneficiary)
		})
		var fe []elem
		for _, f := range fl {
			fe = append(fe, elem{fmt.Sprintf("%s|%s|%s|%d", f.Id, bigStr(f.Amount), f.Beneficiary, f.ExpirationHeight), fkey(f.ExpirationHeight, f.Beneficiary)})
		}
		add(&instance{Method: "embedded.plasma.getEntriesByAddress", Arg: ad.label, Limit: api.RpcMaxPageSize, Truth: fe, Total: int64(len(fe)), WrapKey: "GetRange:index*count-uint32-wrap",
			Call: func(pi, ps uint64) (*pagedResult, error) {
				l, err := plasmaApi.GetEntriesByAddress(ad.a, uint32(pi), uint32(ps))
				if l == nil {
					return nil, err
				}
				r := &pagedResult{Count: int64(l.Count)}
				for _, f := range l.Fusions {
					r.List = append(r.List, elem{fmt.Sprintf("%s|%s|%s|%d", f.Id, bigStr(f.QsrAmount), f.Beneficiary, f.ExpirationHeight), fkey(f.ExpirationHeight, f.Beneficiary)})
				}
				return r, err
			}})
	}

	// ---- embedded.sentinel.getAllActive (storage order)
	sentinelApi := embedded.NewSentinelApi(z)
	{
		var se []elem
		for _, s := range definition.GetAllSentinelInfo(n.Chain.GetFrontierAccountStore(types.SentinelContract).Storage()) {
			if s.RevokeTimestamp == 0 {
				se = append(se, strict(fmt.Sprintf("%s|%d", s.Owner, s.RegistrationTimestamp)))
			}
		}
		add(&instance{Method: "embedded.sentinel.getAllActive", Limit: api.RpcMaxPageSize, Truth: se, Total: int64(len(se)), WrapKey: "GetRange:index*count-uint32-wrap",
			Call: func(pi, ps uint64) (*pagedResult, error) {
				l, err := sentinelApi.GetAllActive(uint32(pi), uint32(ps))
				if l == nil {
					return nil, err
				}
				r := &pagedResult{Count: int64(l.Count)}
				for _, s := range l.List {
					if s == nil {
						r.List = append(r.List, strict("nil"))
						continue
					}
					r.List = append(r.List, strict(fmt.Sprintf("%s|%d", s.Owner, s.RegistrationTimestamp)))
				}
				return r, err
			}})
	}

	// ---- embedded.spork.getAll (storage order)
	sporkApi := embedded.NewSporkApi(z)
	{
		sid := func(s *definition.Spork) string {
			return fmt.Sprintf("%s|%s|%s|%v|%d", s.Id, s.Name, s.Description, s.Activated, s.EnforcementHeight)
		}
		var se []elem
		for _, s := range definition.GetAllSporks(n.Chain.GetFrontierAccountStore(types.SporkContract).Storage()) {
			se = append(se, strict(sid(s)))
		}
		add(&instance{Method: "embedded.spork.getAll", Limit: api.RpcMaxPageSize, Truth: se, Total: int64(len(se)), WrapKey: "GetRange:index*count-uint32-wrap",
			Call: func(pi, ps uint64) (*pagedResult, error) {
				l, err := sporkApi.GetAll(uint32(pi), uint32(ps))
				if l == nil {
					return nil, err
				}
				r := &pagedResult{Count: int64(l.Count)}
				for _, s := range l.List {
					r.List = append(r.List, strict(sid(s)))
				}
				return r, err
			}})
	}

	// ---- embedded.accelerator.getAll (LastUpdateTimestamp descending, stable over storage order)
	accApi := embedded.NewAcceleratorApi(z)
	{
		pl, err := definition.GetProjectList(n.Chain.GetFrontierAccountStore(types.AcceleratorContract).Storage())
		if err != nil {
			panic(err)
		}
		sort.SliceStable(pl, func(i, j int) bool { return pl[i].LastUpdateTimestamp > pl[j].LastUpdateTimestamp })
		pkey := func(ts int64) string { return fmt.Sprintf("%020d", int64(1)<<62-ts) }
		var pe []elem
		for _, p := range pl {
			pe = append(pe, elem{fmt.Sprintf("%s|%s|%s|%d|%d|%d", p.Id, p.Name, p.Owner, p.CreationTimestamp, p.LastUpdateTimestamp, p.Status), pkey(p.LastUpdateTimestamp)})
		}
		add(&instance{Method: "embedded.accelerator.getAll", Limit: api.RpcMaxPageSize, Truth: pe, Total: int64(len(pe)), WrapKey: "GetRange:index*count-uint32-wrap",
			Call: func(pi, ps uint64) (*pagedResult, error) {
				l, err := accApi.GetAll(uint32(pi), uint32(ps))
				if l == nil {
					return nil, err
				}
				r := &pagedResult{Count: int64(l.Count)}
				for _, p := range l.List {
					r.List = append(r.List, elem{fmt.Sprintf("%s|%s|%s|%d|%d|%d", p.Id, p.Name, p.Owner, p.CreationTimestamp, p.LastUpdateTimestamp, p.Status), pkey(p.LastUpdateTimestamp)})
				}
				return r, err
			}})
	}

	// ---- embedded.pillar
	pillarApi := embedded.NewPillarApi(z, true) // "testing" = the consensus cache is refreshed synchronously on every call
	pst := n.Chain.GetFrontierAccountStore(types.PillarContract).Storage()
	{
		pl, err := definition.GetPillarsList(pst, true, definition.AnyPillarType)
		if err != nil {
			panic(err)
		}
		weights, err := n.Cons.FixedPillarReader(n.Frontier().Identifier()).GetPillarWeights()
		if err != nil {
			panic(err)
		}
		w := func(name string) *big.Int {
			if x, ok := weights[name]; ok {
				return x
			}
			return big.NewInt(0)
		}
		sort.SliceStable(pl, func(i, j int) bool {
			if c := w(pl[i].Name).Cmp(w(pl[j].Name)); c != 0 {
				return c > 0
			}
			return pl[i].Name < pl[j].Name
		})
		var pe []elem
		for rank, p := range pl { // the rank of a pillar is its position in the whole weight-ordered list, on whatever page it is served
			pe = append(pe, strict(fmt.Sprintf("%s|%d|%s|%s|%s|%s|%d|%d|rank%d", p.Name, p.PillarType, p.StakeAddress, p.BlockProducingAddress, p.RewardWithdrawAddress, w(p.Name), p.GiveBlockRewardPercentage, p.GiveDelegateRewardPercentage, rank)))
		}
		add(&instance{Method: "embedded.pillar.getAll", Limit: api.RpcMaxPageSize, Truth: pe, Total: int64(len(pe)), WrapKey: "GetRange:index*count-uint32-wrap",
			Call: func(pi, ps uint64) (*pagedResult, error) {
				l, err := pillarApi.GetAll(uint32(pi), uint32(ps))
				if l == nil {
					return nil, err
				}
				r := &pagedResult{Count: int64(l.Count)}
				for _, p := range l.List {
					r.List = append(r.List, strict(fmt.Sprintf("%s|%d|%s|%s|%s|%s|%d|%d|rank%d", p.Name, p.Type, p.StakeAddress, p.BlockProducingAddress, p.RewardWithdrawAddress, bigStr(p.Weight), p.GiveMomentumRewardPercentage, p.GiveDelegateRewardPercentage, p.Rank)))
				}
				return r, err
			}})
	}
	lastEpoch := func(contract types.Address) int64 {
		le, err := definition.GetLastEpochUpdate(n.Chain.GetFrontierAccountStore(contract).Storage())
		if err != nil {
			panic(err)
		}
		return le.LastEpoch
	}
	pehID := func(p *definition.PillarEpochHistory) string {
		return fmt.Sprintf("%s|%d|%d|%d|%d|%d|%s", p.Name, p.Epoch, p.GiveBlockRewardPercentage, p.GiveDelegateRewardPercentage, p.ProducedBlockNum, p.ExpectedBlockNum, bigStr(p.Weight))
	}
	pehRes := func(l *embedded.PillarEpochHistoryList) *pagedResult {
		if l == nil {
			return nil
		}
		r := &pagedResult{Count: l.Count}
		for _, p := range l.List {
			r.List = append(r.List, strict(pehID(p)))
		}
		return r
	}
	{
		le := lastEpoch(types.PillarContract)
		names := []string{g.Pillar1Name, g.Pillar4Name, "no-such-pillar"}
		for _, name := range names {
			name := name
			var he []elem
			for e := le; e >= 0; e-- {
				list, err := definition.GetPillarEpochHistoryList(pst, uint64(e))
				if err != nil {
					panic(err)
				}
				var found *definition.PillarEpochHistory
				for _, p := range list {
					if p.Name == name {
						found = p
						break
					}
				}
				if found == nil {
					found = &definition.PillarEpochHistory{Name: name, Epoch: uint64(e), Weight: big.NewInt(0)}
				}
				he = append(he, strict(pehID(found)))
			}
			add(&instance{Method: "embedded.pillar.getPillarEpochHistory", Arg: name, Limit: api.RpcMaxPageSize, Truth: he, Total: le + 1,
				WrapKey: "GetPillarEpochHistory:pageIndex*pageSize-uint32-wrap",
				Call: func(pi, ps uint64) (*pagedResult, error) {
					l, err := pillarApi.GetPillarEpochHistory(name, uint32(pi), uint32(ps))
					return pehRes(l), err
				}})
		}
		epochs := []uint64{0, 1, uint64(le + 1), 1 << 63, ^uint64(0)}
		if le >= 0 {
			epochs = append(epochs, uint64(le))
		}
		seenE := map[uint64]bool{}
		for _, e := range epochs {
			if seenE[e] {
				continue
			}
			seenE[e] = true
			e := e
			list, err := definition.GetPillarEpochHistoryList(pst, e)
			if err != nil {
				panic(err)
			}
			var he []elem
			for _, p := range list {
				he = append(he, strict(pehID(p)))
			}
			add(&instance{Method: "embedded.pillar.getPillarsHistoryByEpoch", Arg: fmt.Sprintf("epoch=%d", e), Limit: api.RpcMaxPageSize, Truth: he, Total: int64(len(he)),
				WrapKey: "GetRange:index*count-uint32-wrap",
				Call: func(pi, ps uint64) (*pagedResult, error) {
					l, err := pillarApi.GetPillarsHistoryByEpoch(e, uint32(pi), uint32(ps))
					return pehRes(l), err
				}})
		}
	}

	// ---- reward history by page (pillar, stake, sentinel, liquidity share one implementation)
	liquidityApi := embedded.NewLiquidityApi(z)
	type rewardApi struct {
		method   string
		contract types.Address
		call     func(a types.Address, pi, ps uint32) (*embedded.RewardHistoryList, error)
	}
	for _, ra := range []rewardApi{
		{"embedded.pillar.getFrontierRewardByPage", types.PillarContract, pillarApi.GetFrontierRewardByPage},
		{"embedded.stake.getFrontierRewardByPage", types.StakeContract, stakeApi.GetFrontierRewardByPage},
		{"embedded.sentinel.getFrontierRewardByPage", types.SentinelContract, sentinelApi.GetFrontierRewardByPage},
		{"embedded.liquidity.getFrontierRewardByPage", types.LiquidityContract, liquidityApi.GetFrontierRewardByPage},
	} {
		ra := ra
		le := lastEpoch(ra.contract)
		st := n.Chain.GetFrontierAccountStore(ra.contract).Storage()
		for _, ad := range []struct {
			label string
			a     types.Address
		}{{"user1", u1}, {"pillar1", g.Pillar1.Address}, {"unknown", unknownAddr}} {
			ad := ad
			var he []elem
			for e := le; e >= 0; e-- {
				a := ad.a
				d, err := definition.GetRewardDepositHistory(st, uint64(e), &a)
				if err != nil {
					panic(err)
				}
				he = append(he, strict(fmt.Sprintf("%d|%s|%s", e, bigStr(d.Znn), bigStr(d.Qsr))))
			}
			add(&instance{Method: ra.method, Arg: ad.label, Limit: api.RpcMaxPageSize, Truth: he, Total: le + 1,
				WrapKey: "getFrontierRewardByPage:pageIndex*pageSize-uint32-wrap",
				Call: func(pi, ps uint64) (*pagedResult, error) {
					l, err := ra.call(ad.a, uint32(pi), uint32(ps))
					if l == nil {
						return nil, err
					}
					r := &pagedResult{Count: l.Count}
					for _, x := range l.List {
						r.List = append(r.List, strict(fmt.Sprintf("%d|%s|%s", x.Epoch, bigStr(x.Znn), bigStr(x.Qsr))))
					}
					return r, err
				}})
		}
	}

	// ---- liquidity / bridge lists: populated on the bridge chain only (elsewhere the bridge-and-liquidity spork is not
	// active and the storage is empty); the ground truth is read from the stores in every case.
	for _, ad := range []struct {
		label string
		a     types.Address
	}{{"user1", u1}, {"user2", u2}, {"user3", u3}, {"unknown", unknownAddr}} {
		ad := ad
		lst := n.Chain.GetFrontierAccountStore(types.LiquidityContract).Storage()
		ll, _, _, err := definition.GetLiquidityStakeListByAddress(lst, ad.a)
		if err != nil {
			panic(err)
		}
		// documented order: expiration time, then id (definition.LiquidityStakeByExpirationTime)
		sort.SliceStable(ll, func(i, j int) bool {
			if ll[i].ExpirationTime != ll[j].ExpirationTime {
				return ll[i].ExpirationTime < ll[j].ExpirationTime
			}
			return ll[i].Id.String() < ll[j].Id.String()
		})
		lid := func(s *definition.LiquidityStakeEntry) elem {
			return strict(fmt.Sprintf("%s|%s|%s|%s|%d|%d|%s", s.Id, s.TokenStandard, bigStr(s.Amount), bigStr(s.WeightedAmount), s.StartTime, s.ExpirationTime, s.StakeAddress))
		}
		var le []elem
		for _, s := range ll {
			le = append(le, lid(s))
		}
		add(&instance{Method: "embedded.liquidity.getLiquidityStakeEntriesByAddress", Arg: ad.label, Limit: api.RpcMaxPageSize, Truth: le, Total: int64(len(le)), WrapKey: "GetRange:index*count-uint32-wrap",
			Call: func(pi, ps uint64) (*pagedResult, error) {
				l, err := liquidityApi.GetLiquidityStakeEntriesByAddress(ad.a, uint32(pi), uint32(ps))
				if l == nil {
					return nil, err
				}
				r := &pagedResult{Count: int64(l.Count)}
				for _, s := range l.Entries {
					r.List = append(r.List, lid(s))
				}
				return r, err
			}})
	}
	{
		bridgeApi := embedded.NewBridgeApi(z)
		bst := n.Chain.GetFrontierAccountStore(types.BridgeContract).Storage()
		nets, err := definition.GetNetworkList(bst)
		if err != nil {
			panic(err)
		}
		wraps, err := definition.GetWrapTokenRequests(bst)
		if err != nil {
			panic(err)
		}
		unwraps, err := definition.GetUnwrapTokenRequests(bst)
		if err != nil {
			panic(err)
		}
		var ne []elem
		for _, x := range nets {
			ne = append(ne, strict(fmt.Sprintf("%d|%d|%s|%d", x.NetworkClass, x.Id, x.Name, len(x.TokenPairs))))
		}
		add(&instance{Method: "embedded.bridge.getAllNetworks", Limit: api.RpcMaxPageSize, Truth: ne, Total: int64(len(ne)), WrapKey: "GetRange:index*count-uint32-wrap",
			Call: func(pi, ps uint64) (*pagedResult, error) {
				l, err := bridgeApi.GetAllNetworks(uint32(pi), uint32(ps))
				if l == nil {
					return nil, err
				}
				r := &pagedResult{Count: int64(l.Count)}
				for _, x := range l.List {
					r.List = append(r.List, strict(fmt.Sprintf("%d|%d|%s|%d", x.NetworkClass, x.Id, x.Name, len(x.TokenPairs))))
				}
				return r, err
			}})
		// wrap requests: storage (key) order, optionally filtered by destination / network; the unsigned ones in reverse
		wid := func(x *definition.WrapTokenRequest) elem {
			return strict(fmt.Sprintf("%s|%d|%d|%s|%s|%s|%s|%d|%q", x.Id, x.NetworkClass, x.ChainId, x.ToAddress, x.TokenStandard, bigStr(x.Amount), bigStr(x.Fee), x.CreationMomentumHeight, x.Signature))
		}
		wsel := func(keep func(x *definition.WrapTokenRequest) bool) []elem {
			var es []elem
			for _, x := range wraps {
				if keep(x) {
					es = append(es, wid(x))
				}
			}
			return es
		}
		wres := func(l *embedded.WrapTokenRequestList, err error) (*pagedResult, error) {
			if l == nil {
				return nil, err
			}
			r := &pagedResult{Count: int64(l.Count)}
			for _, x := range l.List {
				r.List = append(r.List, wid(x.WrapTokenRequest))
			}
			return r, err
		}
		we := wsel(func(*definition.WrapTokenRequest) bool { return true })
		add(&instance{Method: "embedded.bridge.getAllWrapTokenRequests", Limit: api.RpcMaxPageSize, Truth: we, Total: int64(len(we)), WrapKey: "GetRange:index*count-uint32-wrap",
			Call: func(pi, ps uint64) (*pagedResult, error) {
				return wres(bridgeApi.GetAllWrapTokenRequests(uint32(pi), uint32(ps)))
			}})
		dests := append([]string{""}, bridgeDests...)
		dests = append(dests, "0x00000000000000000000000000000000000c18ff") // a destination nobody wrapped for
		for _, d := range dests {
			d := d
			byTo := wsel(func(x *definition.WrapTokenRequest) bool { return d == "" || x.ToAddress == d })
			add(&instance{Method: "embedded.bridge.getAllWrapTokenRequestsByToAddress", Arg: fmt.Sprintf("%q", d), Limit: api.RpcMaxPageSize, Truth: byTo, Total: int64(len(byTo)), WrapKey: "GetRange:index*count-uint32-wrap",
				Call: func(pi, ps uint64) (*pagedResult, error) {
					return wres(bridgeApi.GetAllWrapTokenRequestsByToAddress(d, uint32(pi), uint32(ps)))
				}})
			for _, nw := range [][2]uint32{{c10.BridgeNetClass, c10.BridgeNetChain}, {2, 1}, {1, c10.BridgeNetChain}} {
				nw := nw
				if d != "" && d != bridgeDests[1] && nw[1] != c10.BridgeNetChain {
					continue
				}
				byNet := wsel(func(x *definition.WrapTokenRequest) bool {
					return x.NetworkClass == nw[0] && x.ChainId == nw[1] && (d == "" || x.ToAddress == d)
				})
				add(&instance{Method: "embedded.bridge.getAllWrapTokenRequestsByToAddressNetworkClassAndChainId", Arg: fmt.Sprintf("%q,%d,%d", d, nw[0], nw[1]), Limit: api.RpcMaxPageSize, Truth: byNet, Total: int64(len(byNet)), WrapKey: "GetRange:index*count-uint32-wrap",
					Call: func(pi, ps uint64) (*pagedResult, error) {
						return wres(bridgeApi.GetAllWrapTokenRequestsByToAddressNetworkClassAndChainId(d, nw[0], nw[1], uint32(pi), uint32(ps)))
					}})
			}
		}
		var unsigned []elem
		for i := len(wraps) - 1; i >= 0; i-- {
			if wraps[i].Signature == "" {
				unsigned = append(unsigned, wid(wraps[i]))
			}
		}
		add(&instance{Method: "embedded.bridge.getAllUnsignedWrapTokenRequests", Limit: api.RpcMaxPageSize, Truth: unsigned, Total: int64(len(unsigned)), WrapKey: "GetRange:index*count-uint32-wrap",
			Call: func(pi, ps uint64) (*pagedResult, error) {
				return wres(bridgeApi.GetAllUnsignedWrapTokenRequests(uint32(pi), uint32(ps)))
			}})
		// unwrap requests: storage (key) order; by recipient: newest registration first (equal heights: order left open)
		uid := func(x *definition.UnwrapTokenRequest, byHeight bool) elem {
			id := fmt.Sprintf("%s|%d|%d|%d|%s|%s|%s|%d|%d|%d", x.TransactionHash, x.LogIndex, x.NetworkClass, x.ChainId, x.ToAddress, x.TokenStandard, bigStr(x.Amount), x.RegistrationMomentumHeight, x.Redeemed, x.Revoked)
			if byHeight {
				return elem{id, fmt.Sprintf("%020d", x.RegistrationMomentumHeight)}
			}
			return strict(id)
		}
		ures := func(byHeight bool) func(l *embedded.UnwrapTokenRequestList, err error) (*pagedResult, error) {
			return func(l *embedded.UnwrapTokenRequestList, err error) (*pagedResult, error) {
				if l == nil {
					return nil, err
				}
				r := &pagedResult{Count: int64(l.Count)}
				for _, x := range l.List {
					r.List = append(r.List, uid(x.UnwrapTokenRequest, byHeight))
				}
				return r, err
			}
		}
		var ue []elem
		for _, x := range unwraps {
			ue = append(ue, uid(x, false))
		}
		add(&instance{Method: "embedded.bridge.getAllUnwrapTokenRequests", Limit: api.RpcMaxPageSize, Truth: ue, Total: int64(len(ue)), WrapKey: "GetRange:index*count-uint32-wrap",
			Call: func(pi, ps uint64) (*pagedResult, error) {
				return ures(false)(bridgeApi.GetAllUnwrapTokenRequests(uint32(pi), uint32(ps)))
			}})
		add(&instance{Method: "embedded.bridge.getAllUnwrapTokenRequestsByToAddress", Arg: "\"\"", Limit: api.RpcMaxPageSize, Truth: ue, Total: int64(len(ue)), WrapKey: "GetRange:index*count-uint32-wrap",
			Call: func(pi, ps uint64) (*pagedResult, error) {
				return ures(false)(bridgeApi.GetAllUnwrapTokenRequestsByToAddress("", uint32(pi), uint32(ps)))
			}})
		for _, ad := range []struct {
			label string
			a     types.Address
		}{{"user1", u1}, {"user3", u3}, {"unknown", unknownAddr}} {
			ad := ad
			var mine []*definition.UnwrapTokenRequest
			for _, x := range unwraps {
				if x.ToAddress == ad.a {
					mine = append(mine, x)
				}
			}
			sort.SliceStable(mine, func(i, j int) bool { return mine[i].RegistrationMomentumHeight > mine[j].RegistrationMomentumHeight })
			var me []elem
			for _, x := range mine {
				me = append(me, uid(x, true))
			}
			add(&instance{Method: "embedded.bridge.getAllUnwrapTokenRequestsByToAddress", Arg: ad.label, Limit: api.RpcMaxPageSize, Truth: me, Total: int64(len(me)), WrapKey: "GetRange:index*count-uint32-wrap",
				Call: func(pi, ps uint64) (*pagedResult, error) {
					return ures(true)(bridgeApi.GetAllUnwrapTokenRequestsByToAddress(ad.a.String(), uint32(pi), uint32(ps)))
				}})
		}
	}
	return out
}

// ---------------------------------------------------------------------------------------------------------------------
// the enumeration

func uniq(vs []uint64) []uint64 {
	seen := map[uint64]bool{}
	var out []uint64
	for _, v := range vs {
		if !seen[v] {
			seen[v] = true
			out = append(out, v)
		}
	}
	return out
}

func sizesFor(in *instance) []uint64 {
	s := []uint64{0, 1, 2, 3, in.Limit, in.Limit + 1, 1<<32 - 1}
	if in.Height {
		s = append(s, 1<<63, ^uint64(0)) // count is a uint64 for height/count methods
	}
	return uniq(s)
}

func lastPage(n int, ps uint64) uint64 {
	if ps == 0 || n == 0 {
		return 0
	}
	return (uint64(n)+ps-1)/ps - 1
}

type cellSpec struct {
	Chain  string `json:"chain"`
	Method string `json:"method"`
	Arg    string `json:"arg"`
	A      uint64 `json:"a,string"` // pageIndex or height
	B      uint64 `json:"b,string"` // pageSize or count
}

// expectedSlice computes, without any fixed-width arithmetic, the part of truth that (a, b) designates.
func expectedSlice(in *instance, a, b uint64) []elem {
	n := new(big.Int).SetUint64(uint64(len(in.Truth)))
	var lo *big.Int
	if in.Height {
		if a == 0 {
			return nil
		}
		lo = new(big.Int).SetUint64(a - 1)
	} else {
		lo = new(big.Int).Mul(new(big.Int).SetUint64(a), new(big.Int).SetUint64(b))
	}
	if lo.Cmp(n) >= 0 {
		return nil
	}
	hi := new(big.Int).Add(lo, new(big.Int).SetUint64(b))
	if hi.Cmp(n) > 0 {
		hi = n
	}
	return in.Truth[lo.Uint64():hi.Uint64()]
}

// overflows tells whether the natural fixed-width computation on (a, b) overflows: a*b (or (a+1)*b) in uint32 for pages,
// a+b in uint64 for heights.
func overflows(in *instance, a, b uint64) bool {
	if in.Height {
		return a+b < a
	}
	return a*b >= 1<<32 || (a+1)*b >= 1<<32
}

type callOutcome struct {
	res      *pagedResult
	err      error
	panicked interface{}
	hung     bool
}

// callTimeout bounds one direct api call. It is not an oracle for slowness: a call that does not come back within a
// minute, twice, is reported as "no answer" and the work item stops (the abandoned goroutine may hold locks).
const callTimeout = 60 * time.Second

var abortA bool

func safeCall(in *instance, a, b uint64) (o callOutcome) {
	if abortA {
		return callOutcome{hung: true}
	}
	for attempt := 0; attempt < 2; attempt++ {
		ch := make(chan callOutcome, 1)
		go func() {
			var x callOutcome
			defer func() {
				if r := recover(); r != nil {
					x.panicked = r
				}
				ch <- x
			}()
			x.res, x.err = in.Call(a, b)
		}()
		select {
		case o = <-ch:
			return o
		case <-time.After(callTimeout):
		}
	}
	abortA = true
	return callOutcome{hung: true}
}

func describe(es []elem, max int) string {
	var s []string
	for i, e := range es {
		if i >= max {
			s = append(s, fmt.Sprintf("…(%d)", len(es)))
			break
		}
		id := e.ID
		if len(id) > 28 {
			id = id[:28]
		}
		s = append(s, id)
	}
	return "[" + strings.Join(s, " ") + "]"
}

// checkCell evaluates one (instance, a, b) and reports whether it was clean.
func checkCell(r *xs.Result, chain string, in *instance, a, b uint64) bool {
	r.Count("a_evaluations", 1)
	spec := cellSpec{chain, in.Method, in.Arg, a, b}
	viol := func(key, what string) bool {
		r.Violate("C18:"+key, fmt.Sprintf("chain %q %s a=%d b=%d (list of %d): %s", chain, in.label(), a, b, len(in.Truth), what), map[string]interface{}{"tier": curTier, "part": "a", "cell": spec})
		return false
	}
	o := safeCall(in, a, b)
	class := func(c string) {
		r.Add("paging_cases", in.Method+"|"+c)
		if c != "empty-list" && c != "zero-size" {
			r.Add("nontrivial", digest([]byte(fmt.Sprintf("a|%s|%s|%d|%d", chain, in.label(), a, b))))
			if c == "partial-page" || c == "wrapped" || c == "oversize-rejected" {
				sampleOnce(r, "a"+c[:1], map[string]interface{}{"tier": curTier, "part": "a", "chain": chain, "method": in.Method, "fixed_args": in.Arg, "a": a, "b": b, "list_len": len(in.Truth), "outcome": c})
			}
		}
	}
	if o.hung {
		class("no-answer")
		r.Incomplete = true
		return viol(in.Method+":no-answer", "the call did not return within 60 s, twice; the rest of this work item is skipped")
	}
	if o.panicked != nil {
		class("panic")
		if b > in.Limit {
			// only reachable because the method does not apply the advertised page-size limit
			return viol(in.Method+":missing-page-size-limit", fmt.Sprintf("page size %d is above the advertised limit %d, was not refused, and the call panicked: %v", b, in.Limit, o.panicked))
		}
		return viol(in.Method+":panic", fmt.Sprintf("panicked: %v", o.panicked))
	}
	exp := expectedSlice(in, a, b)
	if b > in.Limit {
		if o.err != nil {
			class("oversize-rejected")
			return true
		}
		if o.res != nil && uint64(len(o.res.List)) > in.Limit {
			class("oversize-served-over-limit")
			return viol(in.Method+":missing-page-size-limit", fmt.Sprintf("page size %d is above the advertised limit %d and was served with %d elements", b, in.Limit, len(o.res.List)))
		}
		class("oversize-served-within-limit")
		r.Count("a_oversize_served_within_limit", 1)
		r.Add("a_methods_without_size_limit", in.Method)
	}
	if in.Height && a == 0 {
		if o.err != nil {
			class("height0-rejected")
			return true
		}
	}
	if in.MaxIndex > 0 && a >= in.MaxIndex {
		if o.err != nil {
			class("index-above-documented-max-rejected")
			return true
		}
	}
	if o.err != nil {
		class("error")
		return viol(in.Method+":error-on-valid-input", fmt.Sprintf("returned error %q for arguments inside the documented domain", o.err.Error()))
	}
	if o.res == nil {
		class("nil")
		return viol(in.Method+":nil-result", "returned neither a result nor an error")
	}
	got := o.res.List
	if uint64(len(got)) > in.Limit {
		class("over-limit")
		return viol(in.Method+":page-exceeds-limit", fmt.Sprintf("returned %d elements, advertised limit is %d", len(got), in.Limit))
	}
	same := len(got) == len(exp)
	if same {
		for i := range got {
			if got[i].Key != exp[i].Key {
				same = false
				break
			}
		}
	}
	if same { // equal keys: every element must be a distinct element of the list carrying that key. (Where the documented
		// order leaves ties open, a tie group may straddle a page boundary, so the page need not hold exactly the elements
		// a stable sort puts there; that every element is served exactly once is the concatenation property's.)
		if in.byKey == nil {
			in.byKey = map[string]map[string]int{}
			for _, e := range in.Truth {
				if in.byKey[e.Key] == nil {
					in.byKey[e.Key] = map[string]int{}
				}
				in.byKey[e.Key][e.ID]++
			}
		}
		used := map[string]int{}
		for _, e := range got {
			used[e.ID]++
			if used[e.ID] > in.byKey[e.Key][e.ID] {
				same = false
			}
		}
	}
	if !same {
		if len(exp) == 0 && len(got) > 0 && overflows(in, a, b) {
			class("wrapped")
			return viol(in.WrapKey, fmt.Sprintf("the requested range lies beyond the list, yet %d element(s) of an earlier range were returned %s — fixed-width arithmetic on the paging arguments wrapped around", len(got), describe(got, 3)))
		}
		class("wrong-page")
		return viol(in.Method+":wrong-page", fmt.Sprintf("expected %d element(s) %s, got %d %s", len(exp), describe(exp, 3), len(got), describe(got, 3)))
	}
	if o.res.Count != in.Total {
		class("wrong-count")
		return viol(in.Method+":wrong-count", fmt.Sprintf("count field is %d, the store holds %d", o.res.Count, in.Total))
	}
	switch {
	case len(exp) == 0 && b == 0:
		class("zero-size")
	case len(exp) == 0 && len(in.Truth) == 0:
		class("empty-list")
	case len(exp) == 0:
		class("out-of-range-empty")
	case uint64(len(exp)) == b:
		class("full-page")
	default:
		class("partial-page")
	}
	if len(exp) > 0 {
		r.Count("a_nonempty_pages", 1)
	}
	return true
}

// checkInstance runs the full grid and the concatenation property of one instance.
func checkInstance(c *xs.Ctx, r *xs.Result, chain string, in *instance) {
	r.Count("a_instances", 1)
	r.Add("a_methods", in.Method)
	if len(in.Truth) > 0 {
		r.Add("a_methods_nonempty", in.Method)
		r.Count("a_instances_nonempty", 1)
	}
	sizes := sizesFor(in)
	N := len(in.Truth)
	for _, b := range sizes {
		var as []uint64
		if in.Height {
			as = uniq([]uint64{0, 1, 2, uint64(N), uint64(N) + 1, 1 << 63, ^uint64(0)})
		} else {
			lp := lastPage(N, b)
			as = []uint64{0, 1, 2, lp, lp + 1, 1 << 16, 1 << 22, 1 << 31, 1<<32 - 1}
			if b > 0 && b < 1<<32 {
				// the first page index whose offset does not fit 32 bits, its predecessor, and the first index whose
				// offset wraps to exactly 0 or to a small positive value (when there is one below 2^32)
				w := (uint64(1)<<32 + b - 1) / b
				as = append(as, w-1, w)
			}
			as = uniq(as)
		}
		for _, a := range as {
			if !in.Height && a > 1<<32-1 {
				continue
			}
			if abortA {
				return
			}
			checkCell(r, chain, in, a, b)
		}
	}
	// concatenation: for every legal non-zero size, walking the list page by page yields each element exactly once
	for _, b := range sizes {
		if b == 0 || b > in.Limit {
			continue
		}
		if b < 3 && len(in.Truth) > int(in.Limit) && strings.HasPrefix(in.Method, "embedded.bridge.") {
			// every call of the bridge request lists decodes (and, for the unsigned list, decorates) the whole list of
			// more than a thousand requests: the walks with page sizes 1 and 2 (1500 calls) are left to sizes 3 and limit;
			// the grid above still evaluates sizes 1 and 2 at the first, last and out-of-range pages
			r.Count("a_concatenations_skipped_small_sizes_on_long_bridge_lists", 1)
			continue
		}
		var concat []elem
		clean := true
		reach := N
		if in.Height {
			for h := uint64(1); h <= uint64(N)+b; h += b {
				o := safeCall(in, h, b)
				r.Count("a_evaluations", 1)
				if o.hung || o.panicked != nil || o.err != nil || o.res == nil {
					clean = checkCell(r, chain, in, h, b) && false
					break
				}
				concat = append(concat, o.res.List...)
			}
		} else {
			pages := lastPage(N, b) + 2
			if in.MaxIndex > 0 && pages > in.MaxIndex {
				pages = in.MaxIndex
				if uint64(reach) > in.MaxIndex*b {
					reach = int(in.MaxIndex * b) // the documentation caps the reachable prefix
				}
			}
			for p := uint64(0); p < pages; p++ {
				o := safeCall(in, p, b)
				r.Count("a_evaluations", 1)
				if o.hung || o.panicked != nil || o.err != nil || o.res == nil {
					clean = checkCell(r, chain, in, p, b) && false
					break
				}
				concat = append(concat, o.res.List...)
			}
		}
		if !clean {
			continue
		}
		r.Count("a_concatenations", 1)
		want := in.Truth[:reach]
		ok := len(concat) == len(want)
		if ok {
			seen := map[string]int{}
			for i := range want {
				if concat[i].Key != want[i].Key {
					ok = false
				}
				seen[want[i].ID]++
			}
			for _, e := range concat {
				seen[e.ID]--
			}
			for _, v := range seen {
				if v != 0 {
					ok = false
				}
			}
		}
		if !ok {
			r.Violate("C18:"+in.Method+":concatenation", fmt.Sprintf("chain %q %s size %d: concatenating all pages gives %d element(s) %s, the store holds %d %s", chain, in.label(), b, len(concat), describe(concat, 4), len(want), describe(want, 4)),
				map[string]interface{}{"tier": curTier, "part": "a", "concat": cellSpec{chain, in.Method, in.Arg, 0, b}})
		}
	}
}
