package c05

import (
	"fmt"
	"os"
	"os/exec"
	"path/filepath"
	"strings"
	"sync"
	"time"

	"verifmc/internal/vnode"
	"verifmc/internal/xs"
)

// Concurrent elections. The consensus module answers schedule questions from several goroutines of a node at once
// (momentum verification, the momentum-insert hook, its own work loop, RPC handlers). The cooperative scheduler only
// interleaves at lock operations, so state that is shared WITHOUT a lock is invisible to it; as for C14 the same bodies
// therefore also run free-running: three goroutines ask a follower with cold consensus caches for the producer of every
// slot of every tick (ascending, descending, ascending) and every answer must equal the sequential reference election.
// In the -race build (cmd/zmc-race) the race detector additionally reports unsynchronised accesses. This is an
// auxiliary: it can only report, never prove.

// RacePass returns the number of concurrent executions and a description of the first answer that differed from the
// reference ("" if none).
func RacePass(dir string, iters int, cfi int) (int, string) {
	c := &xs.Ctx{ID: "C05", Tier: "quick", Scratch: dir, Deadline: time.Now().Add(10 * time.Minute)}
	n := 0
	{ // consensus configurations are process-global: one per process
		cf := cfgs[cfi]
		applyCfg(cf)
		gv := variant(3, false)
		h := histories(cf, gv, false)[1] // "redelegate": the weights change, so ticks have different schedules
		b, p := produce(c, cf, gv, h.Ops)
		p.Destroy()
		upTo := b.rc.lastTick()
		want, _ := refObs(b.rc, upTo)
		for it := 0; it < iters; it++ {
			f := newNode(c, gv, false)
			if _, err, pan := f.InsertChain(vnode.CloneBatch(b.chain)); err != nil || pan != nil {
				panic(fmt.Sprintf("race pass: follower refuses the chain: %v %v", err, pan))
			}
			f.RestartWipedConsensus() // cold caches: every question is computed
			got := make([][]string, 3)
			var wg sync.WaitGroup
			for g := 0; g < 3; g++ {
				wg.Add(1)
				go func(g int) {
					defer wg.Done()
					got[g] = observe(f, b.rc, upTo, g == 1)
				}(g)
			}
			wg.Wait()
			n++
			for g := 0; g < 3; g++ {
				if d := firstDiff(want, got[g]); d >= 0 {
					f.Destroy()
					return n, fmt.Sprintf("configuration %s, history %s, iteration %d: goroutine %d was told %s for slot %d of tick %d, the reference election (and the chain's own producers) say %s",
						cf.Name, h.Name, it, g, got[g][d], d%cf.NodeCount, d/cf.NodeCount, want[d])
				}
			}
			f.Destroy()
		}
	}
	return n, ""
}

// runRacePass executes the -race binary (if it was built) as a child process and turns its findings into violations.
func runRacePass(c *xs.Ctx, r *xs.Result) {
	bin := filepath.Join(xs.VerifRoot, ".work", "bin", "zmc-race")
	if b := os.Getenv("VERIF_RACE_BIN"); b != "" {
		bin = b
	}
	if _, err := os.Stat(bin); err != nil {
		r.Note("C05 concurrent-elections pass skipped: %s not built", bin)
		return
	}
	iters := "4"
	if c.Thorough() {
		iters = "30"
	}
	// 3 slots / 3 pillars, and 30 slots / 3 pillars (fewer pillars than slots: fill rounds)
	for _, cfi := range []string{"0", "2"} {
		runRaceChild(c, r, bin, iters, cfi)
	}
}

func runRaceChild(c *xs.Ctx, r *xs.Result, bin, iters, cfi string) {
	cmd := exec.Command(bin, iters, c.TempDir(), "c05", cfi)
	cmd.Env = append(os.Environ(), "GORACE=halt_on_error=1 exitcode=66")
	out, err := cmd.CombinedOutput()
	code := cmd.ProcessState.ExitCode()
	text := string(out)
	switch {
	case code == 66 || strings.Contains(text, "WARNING: DATA RACE"):
		var frames []string
		for _, l := range strings.Split(text, "\n") {
			l = strings.TrimSpace(l)
			if strings.HasPrefix(l, "github.com/zenon-network/go-zenon/") && len(frames) < 2 {
				fn := strings.TrimPrefix(l, "github.com/zenon-network/go-zenon/")
				if i := strings.LastIndex(fn, "("); i > 0 {
					fn = fn[:i] // drop the argument list, keep receivers such as (*accountPool)
				}
				frames = append(frames, fn)
			}
		}
		if i := strings.Index(text, "WARNING: DATA RACE"); i >= 0 {
			text = text[i:]
		}
		if len(text) > 2500 {
			text = text[:2500]
		}
		r.Violate("C05:race:"+strings.Join(frames, "|"), "data race reported while three goroutines asked a cold consensus module for the schedule (free-running -race pass):\n"+text, map[string]interface{}{"part": "race"})
	case code == 67:
		msg := text
		if i := strings.Index(text, "SCHEDULE MISMATCH"); i >= 0 {
			msg = text[i:]
		}
		if len(msg) > 1500 {
			msg = msg[:1500]
		}
		r.Violate("C05:concurrent-elections:answer-differs-from-the-sequential-election", msg, map[string]interface{}{"part": "race"})
	case err != nil:
		t := text
		if i := strings.Index(t, "panic: "); i >= 0 {
			t = t[i:]
		}
		if len(t) > 3000 {
			t = t[:3000]
		}
		if frame, inNode := xs.CrashSite(t); inNode {
			r.Violate("C05:concurrent-elections:node-code-panics:"+frame, "the free-running concurrent-elections pass died inside go-zenon code:\n"+t, map[string]interface{}{"part": "race"})
			return
		}
		panic(fmt.Sprintf("concurrent-elections pass failed (exit %d): %s", code, text[max0(len(text)-1500):]))
	default:
		var nexec int
		for _, l := range strings.Split(text, "\n") {
			fmt.Sscanf(l, "race-pass executions=%d", &nexec)
		}
		r.Count("concurrent_election_executions", int64(nexec))
	}
}

func max0(v int) int {
	if v < 0 {
		return 0
	}
	return v
}
