// Package sched is the stateless schedule explorer (iterative preemption bounding, Musuvathi & Qadeer) on top of the
// cooperative scheduler in the vsync overlay package.
package sched

import (
	"fmt"
	"time"

	"github.com/zenon-network/go-zenon/common/vsync"
)

// Exec is one complete execution of a scenario under a given choice prefix.
type Exec struct {
	Points   []vsync.Point
	Choices  []int
	Deadlock bool
	Diverged string
	Panics   []interface{}
	Obs      interface{} // scenario-specific observation (set by the scenario's check function)
}

// Scenario builds a fresh instance, declares its threads on s, and returns a function that is called after the run to
// check the oracle and tear the instance down. It must be deterministic.
type Scenario func(s *vsync.Sched) (after func(x *Exec))

type Stats struct {
	Executions   int64
	Points       int64
	MaxPoints    int
	Deadlocks    int64
	BoundDone    int // highest preemption bound completed (-1 if none)
	Incomplete   bool
	Preemptions  map[int]int64 // executions by number of preemptions
	Pruned       int64
	FirstChoices [][]int
}

type Explorer struct {
	Scenario Scenario
	Bound    int
	Deadline time.Time
	// Shard/NShards split the level-1 alternatives of the root execution over worker processes.
	Shard, NShards int
	// OnExec is called after every execution (after the scenario's own check).
	OnExec func(x *Exec)
	// Skip, optional: return true to not branch at point i of x (sound reductions only).
	Skip  func(x *Exec, i int) bool
	Stats Stats
	n     int
}

func (e *Explorer) run(prefix []int) *Exec {
	s := vsync.NewSched(prefix)
	after := e.Scenario(s)
	panics := s.Run()
	x := &Exec{Points: s.Points, Deadlock: s.Deadlock, Diverged: s.Diverged, Panics: panics}
	if s.Overflow {
		x.Diverged = "point limit exceeded (livelock?)"
	}
	x.Choices = make([]int, len(s.Points))
	for i, p := range s.Points {
		x.Choices[i] = p.Choice
	}
	if x.Diverged != "" {
		panic("schedule explorer: " + x.Diverged)
	}
	after(x)
	e.Stats.Executions++
	e.Stats.Points += int64(len(x.Points))
	if len(x.Points) > e.Stats.MaxPoints {
		e.Stats.MaxPoints = len(x.Points)
	}
	if x.Deadlock {
		e.Stats.Deadlocks++
	}
	if e.OnExec != nil {
		e.OnExec(x)
	}
	return x
}

func preemptionsBefore(x *Exec, i int) int {
	n := 0
	for j := 0; j < i; j++ {
		if x.Points[j].RunningStillEnabled && x.Points[j].Choice != 0 {
			n++
		}
	}
	return n
}

// Explore runs the depth-first search for exactly the configured bound (all executions with <= Bound preemptions).
func (e *Explorer) Explore() {
	e.Stats.Preemptions = map[int]int64{}
	e.Stats.BoundDone = -1
	e.explore(nil, 0)
	if !e.Stats.Incomplete {
		e.Stats.BoundDone = e.Bound
	}
}

func (e *Explorer) explore(prefix []int, depth int) {
	if !e.Deadline.IsZero() && time.Now().After(e.Deadline) {
		e.Stats.Incomplete = true
		return
	}
	x := e.run(prefix)
	e.Stats.Preemptions[preemptionsBefore(x, len(x.Points))]++
	for i := len(prefix); i < len(x.Points); i++ {
		p := x.Points[i]
		if len(p.Enabled) < 2 {
			continue
		}
		cost := preemptionsBefore(x, i)
		if p.RunningStillEnabled {
			cost++
		}
		if cost > e.Bound {
			continue
		}
		if e.Skip != nil && e.Skip(x, i) {
			e.Stats.Pruned++
			continue
		}
		for alt := 1; alt < len(p.Enabled); alt++ {
			if depth == 0 && e.NShards > 1 {
				e.n++
				if e.n%e.NShards != e.Shard {
					continue
				}
			}
			np := append(append([]int{}, x.Choices[:i]...), alt)
			e.explore(np, depth+1)
			if e.Stats.Incomplete {
				return
			}
		}
	}
}

// Replay runs one recorded choice sequence twice and requires identical point sequences.
func (e *Explorer) Replay(choices []int) (*Exec, error) {
	a := e.run(choices)
	b := e.run(choices)
	if len(a.Points) != len(b.Points) {
		return a, fmt.Errorf("replay nondeterminism: %d vs %d points", len(a.Points), len(b.Points))
	}
	for i := range a.Points {
		if a.Points[i].Kind != b.Points[i].Kind || a.Points[i].Thread != b.Points[i].Thread || len(a.Points[i].Enabled) != len(b.Points[i].Enabled) {
			return a, fmt.Errorf("replay nondeterminism at point %d", i)
		}
	}
	return a, nil
}
