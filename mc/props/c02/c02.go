package c02

import (
	"encoding/json"
	"fmt"
	"sort"
	"strings"
	"time"

	"github.com/zenon-network/go-zenon/chain/nom"
	"github.com/zenon-network/go-zenon/common/types"

	"verifmc/internal/ops"
	"verifmc/internal/vnode"
	"verifmc/internal/xs"
	"verifmc/props/c11"
)

// C02 — replay determinism. For every producer history of a bounded family, enumerate exhaustively the follower's
// delivery-schedule space (batch boundaries, gossip of account blocks before their momentum, re-delivery, restart,
// warming historical views) by breadth-first search with exact-digest deduplication, and compare the follower's raw
// store with the producer's at the same height after every transition.

type prodRecord struct {
	H       uint64
	Ledger  []string // index = height; raw 0x55 digest when P's frontier was at that height
	Full    []string
	View    []string                // frontier view digest at that height
	Batch   []*nom.DetailedMomentum // index = height (0,1 unused)
	Ids     []types.HashHeight
	Gossip  [][]*nom.AccountBlock // per height h: user/contract-receive blocks confirmed by momentum h (in content order)
	Held    map[types.Hash]bool   // blocks that existed (and could be gossiped) long before the producer pooled them
	Outcome []string
}

func snapshotHeight(p *vnode.Node, rec *prodRecord) {
	h := p.Height()
	for uint64(len(rec.Ledger)) <= h {
		rec.Ledger = append(rec.Ledger, "")
		rec.Full = append(rec.Full, "")
		rec.View = append(rec.View, "")
		rec.Batch = append(rec.Batch, nil)
		rec.Ids = append(rec.Ids, types.HashHeight{})
		rec.Gossip = append(rec.Gossip, nil)
	}
	if rec.Ledger[h] != "" {
		return
	}
	rec.Ledger[h] = p.LedgerDigest()
	rec.Full[h] = p.FullDigest()
	f := p.Frontier()
	rec.Ids[h] = f.Identifier()
	rec.View[h] = p.ViewDigest(f.Identifier())
	rec.H = h
}

// produce runs history on a fresh producer and records per-height digests. A height whose digest could not be taken at
// the moment it was the frontier (several momentums in one op never happens: every op creates at most one) is an error.
func produce(c *xs.Ctx, hist []ops.Op) (*prodRecord, *vnode.Node) {
	p := vnode.New(vnode.Options{Dir: c.TempDir()})
	rec := &prodRecord{}
	snapshotHeight(p, rec)
	for _, o := range hist {
		out := ops.Apply(p, o)
		rec.Outcome = append(rec.Outcome, out)
		snapshotHeight(p, rec)
	}
	rec.Held = map[types.Hash]bool{}
	for _, b := range held[p] {
		rec.Held[b.Hash] = true
	}
	delete(held, p)
	for h := uint64(2); h <= rec.H; h++ {
		d := p.Detailed(h)
		rec.Batch[h] = d
		for _, b := range d.AccountBlocks {
			if b.BlockType != nom.BlockTypeContractSend {
				rec.Gossip[h] = append(rec.Gossip[h], b)
				if b.BlockType == nom.BlockTypeContractReceive && b.MomentumAcknowledged.Height+1 < h {
					// a contract receive is made against the frontier of its time: one that was confirmed later than by the
					// next momentum existed (in some pillar's pool, hence on the wire) all that time
					rec.Held[b.Hash] = true
				}
			}
		}
	}
	return rec, p
}

// world: "" = standard consensus constants; "short-epochs" = C11's constants (election tick 3 slots, epoch 6 momentums,
// reward settlement 10 s after an epoch's end), process-global, hence a worker process of its own
var world = ""

func worldPrefix() string {
	if world == "" {
		return ""
	}
	return "[" + world + "] "
}

// shortEpochHistory: delegations move, pillar 3 is revoked in the first epoch, three epochs go by and are settled by the
// pillar contract's Update. What a follower accepts must not depend on read-only consensus queries it answered on the way
// (they touch the consensus module's caches of period and epoch points) nor on whether it was restarted after them.
// shortEpochGapHistory: production gaps at the tail of two epochs. The momentum at height 7 (first slot of the second
// epoch) is the last one that epoch will ever hold: nobody produces for the remaining five slots and height 8 opens the
// third epoch; height 10 closes the first election tick of the third epoch and nobody produces during its second tick.
// The follower's batches end at heights 4, 7, 10, ... (the first momentum of a tick when no slot is skipped), so 7 and
// 10 are frontiers at which it may be asked for the running epoch's statistics: it then computes that epoch's point
// before the epoch is over, and what it accepts afterwards (the pillar contract settles the epoch from those statistics)
// must not depend on having been asked.
func shortEpochGapHistory() []ops.Op {
	M := ops.Op{K: "M"}
	h := []ops.Op{M, {K: "Call", S: "delegate", A: 2, B: 1}, M, M, M, M, M} // heights 2..7
	h = append(h, ops.Op{K: "M", V: 5}, M, M)                               // 8 (slot 12), 9, 10
	h = append(h, ops.Op{K: "M", V: 3})                                     // 11 (slot 18)
	for i := 0; i < 8; i++ {
		h = append(h, M)
	}
	return h
}

func shortEpochHistory() []ops.Op {
	M := ops.Op{K: "M"}
	h := []ops.Op{M, {K: "Call", S: "delegate", A: 2, B: 1}, M, {K: "RevokeP3"}, M}
	for i := 0; i < 16; i++ {
		h = append(h, M)
	}
	return h
}

type fAct struct {
	K string `json:"k"` // D deliver [n+1..J] | G gossip block (H,I) | X restart | Y restart with wiped consensus db | W warm all views | Q re-deliver [I..n] | C read-only consensus queries (short-epoch world)
	J uint64 `json:"j,omitempty"`
	H uint64 `json:"h,omitempty"`
	I int    `json:"i,omitempty"`
}

func (a fAct) String() string {
	switch a.K {
	case "D":
		return fmt.Sprintf("D%d", a.J)
	case "G":
		return fmt.Sprintf("G%d.%d", a.H, a.I)
	case "Q":
		return fmt.Sprintf("Q%d", a.I)
	}
	return a.K
}
func actsString(as []fAct) string {
	var s []string
	for _, a := range as {
		s = append(s, a.String())
	}
	return strings.Join(s, " ")
}

type c02bounds struct {
	maxBatch              uint64
	gossipWin             uint64
	maxWarm               int
	maxRestart            int
	maxGossip             int
	maxRedeliv            int
	maxQuery              int    // read-only consensus queries (pillar weights, statistics of every epoch up to the running one, next producers)
	step                  uint64 // > 0: momentums are delivered in batches that end on multiples of step (short-epoch world: one election tick)
	restartAfterQueryOnly bool
}

// followerRun replays actions on a fresh follower, checking the oracle after every action. Returns the state key.
func followerRun(c *xs.Ctx, r *xs.Result, rec *prodRecord, hist []ops.Op, acts []fAct, checkLast bool) (key string, n uint64, viol bool) {
	f := vnode.New(vnode.Options{Dir: c.TempDir(), NoPillars: true})
	defer f.Destroy()
	warm := []string{}
	queried := []string{} // the ledger / pool key cannot see in-memory consensus caches: query heights are part of the state
	bad := func(what string, sig string) {
		viol = true
		r.Violate("C02:"+sig, fmt.Sprintf("%shistory [%s] schedule [%s]: %s", worldPrefix(), ops.Hist(hist), actsString(acts), what),
			map[string]interface{}{"history": hist, "schedule": acts, "world": world})
	}
	for ai, a := range acts {
		last := ai == len(acts)-1
		n = f.Height()
		before := ""
		switch a.K {
		case "D":
			batch := vnode.CloneBatch(rec.Batch[n+1 : a.J+1])
			idx, err, pan := f.InsertChain(batch)
			if pan != nil {
				bad(fmt.Sprintf("InsertChain panicked: %v", pan), "insertchain-panic")
				return
			}
			if err != nil || idx != 0 {
				bad(fmt.Sprintf("follower refused momentums %d..%d the producer accepted: idx=%d err=%v", n+1, a.J, idx, err), "follower-rejects-valid-momentum")
				return
			}
		case "Q":
			before = f.FullDigest() + f.PoolDigest()
			batch := vnode.CloneBatch(rec.Batch[a.I : n+1])
			idx, err, pan := f.InsertChain(batch)
			if pan != nil || err != nil || idx != 0 {
				bad(fmt.Sprintf("re-delivery of known momentums %d..%d: idx=%d err=%v panic=%v", a.I, n, idx, err, pan), "redelivery-fails")
				return
			}
			if after := f.FullDigest() + f.PoolDigest(); after != before {
				bad("re-delivery of known momentums changed the store", "redelivery-changes-store")
				return
			}
		case "G":
			b := vnode.CloneBlock(rec.Gossip[a.H][a.I])
			if !types.IsEmbeddedAddress(b.Address) {
				// "no matter how the data reached them": the two plasma totals travel with a block but are covered neither
				// by its hash nor by its signature; a receiving node computes them itself, so the copy a relay hands on
				// may carry anything there. The gossiped copy of a user block claims a base cost one below the real one
				// (still paid for) and a stale total.
				if b.BasePlasma > 0 {
					b.BasePlasma--
				}
				b.TotalPlasma++
			}
			before = f.FullDigest()
			_, pan := f.AddAccountBlocks([]*nom.AccountBlock{b})
			if pan != nil {
				bad(fmt.Sprintf("AddAccountBlocks panicked: %v", pan), "gossip-panic")
				return
			}
			if f.FullDigest() != before {
				bad("gossiped account block changed the confirmed store", "gossip-changes-store")
				return
			}
		case "C":
			// what the pillar RPC does for embedded.pillar.getAll: it must leave no trace in anything the node decides later
			before = f.FullDigest() + f.PoolDigest()
			f.ConsensusDigest(3)
			if after := f.FullDigest() + f.PoolDigest(); after != before {
				bad("a read-only consensus query changed the store", "query-changes-store")
				return
			}
			queried = append(queried, fmt.Sprint(f.Height()))
			r.Add("query_frontiers", fmt.Sprintf("%d momentums/%d", len(rec.Batch), f.Height())) // vacuity guard: the frontiers at which a query was explored, per history length
		case "X":
			f.Restart()
			warm = warm[:0]
		case "Y":
			f.RestartWipedConsensus()
			warm = warm[:0]
		case "W":
			for h := uint64(1); h <= f.Height(); h++ {
				f.ViewDigest(rec.Ids[h])
			}
			warm = append(warm, fmt.Sprint(f.Height()))
		}
		if !last && !checkLast {
			continue // prefix states were checked when they were first reached
		}
		n = f.Height()
		if got := f.LedgerDigest(); got != rec.Ledger[n] {
			bad(fmt.Sprintf("ledger at height %d differs from the producer's at the same height", n), "ledger-differs")
			return
		}
		if got := f.FullDigest(); got != rec.Full[n] {
			bad(fmt.Sprintf("stored undo/redo patches at height %d differ from the producer's", n), "patches-differ")
			return
		}
		if f.Frontier().Identifier() != rec.Ids[n] {
			bad("frontier identifier differs", "frontier-differs")
			return
		}
		for h := uint64(1); h <= n; h++ {
			if !c.Thorough() && h+3 <= n && h != 1 {
				continue
			}
			if got := f.ViewDigest(rec.Ids[h]); got != rec.View[h] {
				bad(fmt.Sprintf("historical view at height %d served at frontier %d differs from the state the producer had at height %d", h, n, h), "view-differs")
				return
			}
			r.Count("view_comparisons", 1)
		}
	}
	n = f.Height()
	// budgets used are part of the key: a state reached with less budget left must not hide one with more
	key = fmt.Sprintf("%d|%s|%s|x%d g%d q%d", n, f.PoolDigest(), strings.Join(warm, ","), count(acts, "X", "Y"), count(acts, "G"), count(acts, "Q"))
	if len(queried) > 0 {
		key += "|c" + strings.Join(queried, ",")
		// a restart after the query reloads the consensus points from disk: where it happened matters
		for i, a := range acts {
			if a.K == "X" || a.K == "Y" {
				key += fmt.Sprintf("|%s@%d", a.K, i)
			}
		}
	}
	return
}

func c02Histories(tier string) [][]ops.Op {
	M := ops.Op{K: "M"}
	var hs [][]ops.Op
	// scripted: transfer + receive + contract call with auto-receive + refund + delegation change + skipped slot
	hs = append(hs, []ops.Op{
		{K: "T", A: 0, B: 1, V: 500}, {K: "Call", S: "stake", A: 1, V: 10}, M,
		{K: "R", A: 1}, {K: "Call", S: "refund", A: 5}, M,
		{K: "Call", S: "delegate", A: 3, B: 2}, {K: "T", A: 1, B: 0, T: 1, V: 9}, {K: "M", V: 1},
		{K: "R", A: 0}, M, M,
	})
	hs = append(hs, []ops.Op{
		{K: "Call", S: "fuse", A: 0, B: 1, V: 50}, {K: "Call", S: "refund", A: 6}, M, M,
		{K: "Told", A: 2, B: 3, V: 11}, {K: "Call", S: "burn", A: 4, T: 0, V: 100}, M,
		{K: "R", A: 3}, {K: "R", A: 1}, M, M,
	})
	hs = append(hs, []ops.Op{
		{K: "Call", S: "issue", A: 0, V: 1000}, M, M, {K: "R", A: 0},
		{K: "Call", S: "sentinel-deposit-qsr", A: 5, V: 100}, {K: "Call", S: "undelegate", A: 0}, M, M, M,
	})
	// state read through the acknowledged momentum changes between that momentum and the frontier: user 1 cancels its own
	// genesis fusion (its fused plasma disappears with the momentum that confirms the contract receive) and afterwards sends
	// blocks that acknowledge the momentum before; same for a delegation change followed by old-acknowledging blocks
	hs = append(hs, []ops.Op{
		M, {K: "CancelGenesisFuse", A: 1}, M, M, {K: "Told", A: 1, B: 2, V: 4}, M,
		{K: "Call", S: "delegate", A: 0, B: 2}, M, {K: "Told", A: 0, B: 1, V: 2}, M, M,
	})
	// a ledger key that exists at genesis, is deleted and created again later (user 2's fused total: own genesis fusion
	// cancelled, then user 1 fuses for user 2): historical views below the deletion must keep showing the old value at
	// every later frontier, and a block acknowledging the momentum before the re-creation is executed against them
	hs = append(hs, []ops.Op{
		{K: "CancelGenesisFuse", A: 1}, M, M, {K: "Call", S: "fuse", A: 0, B: 1, V: 50}, M, M, {K: "Told", A: 1, B: 2, V: 4}, M,
	})
	// a block that exists three momentums before the producer pools it, while the plasma fused for its account changes:
	// followers may process it at any frontier in between, or only inside its momentum
	hs = append(hs, []ops.Op{
		M, {K: "Thold", A: 1, B: 2, V: 4}, {K: "Call", S: "fuse", A: 0, B: 1, V: 50}, M, {K: "T", A: 0, B: 3, V: 2}, M, M, {K: "Rel"}, M, M,
	})
	// a contract receive with descendants (token issue: the receive mints to the owner) that waits in the pools while a
	// momentum of a pillar that has not seen it goes by: followers may hold it through that momentum, get it later, or only
	// see it inside the momentum that finally confirms it
	hs = append(hs, []ops.Op{
		{K: "Call", S: "issue", A: 0, V: 1000}, M, {K: "Mforeign"}, M, M,
	})
	// enumerated: every sequence of d operations from the alphabet, each followed by the confirming momentums
	alpha := []ops.Op{
		{K: "T", A: 0, B: 1, V: 5},
		{K: "Told", A: 1, B: 2, V: 3},
		{K: "R", A: 1},
		{K: "Call", S: "stake", A: 2, V: 10},
		{K: "Call", S: "refund", A: 5},
		{K: "Call", S: "delegate", A: 1, B: 1},
		M,
	}
	d := 2
	if tier == "thorough" {
		d = 3
	}
	var rec func(prefix []ops.Op)
	rec = func(prefix []ops.Op) {
		if len(prefix) == d {
			h := append([]ops.Op{M}, prefix...) // one momentum first so that "Told" has an older momentum to acknowledge
			h = append(h, M, M)
			hs = append(hs, append([]ops.Op{}, h...))
			return
		}
		for _, o := range alpha {
			rec(append(prefix, o))
		}
	}
	rec(nil)
	return hs
}

// held: per producer node, blocks generated by "Thold" that the producer has not pooled yet
var held = map[*vnode.Node][]*nom.AccountBlock{}

func init() {
	// "Thold": a transfer is created and signed at the current frontier (as a wallet does through another node) but does not
	// reach the producer yet; "Rel" lets the oldest such block reach the producer by gossip (it is verified and applied
	// against the momentum it acknowledges, whatever the producer's frontier is by then)
	ops.Extra["Thold"] = func(n *vnode.Node, o ops.Op) string {
		tx, err := n.Generate(&nom.AccountBlock{BlockType: nom.BlockTypeUserSend, Address: ops.Users[o.A].Address, ToAddress: ops.Users[o.B].Address,
			TokenStandard: ops.Tokens[o.T], Amount: ops.Big(o.V)})
		if err != nil {
			return "err:" + err.Error()
		}
		held[n] = append(held[n], vnode.CloneBlock(tx.Block))
		return "ok"
	}
	ops.Extra["Rel"] = func(n *vnode.Node, o ops.Op) string {
		for _, b := range held[n] {
			if n.Chain.GetFrontierAccountStore(b.Address).Identifier().Height >= b.Height {
				continue // already released
			}
			if err, pan := n.AddAccountBlocks([]*nom.AccountBlock{vnode.CloneBlock(b)}); err != nil || pan != nil {
				return fmt.Sprintf("err:%v %v", err, pan)
			}
			return "ok"
		}
		return "noheld"
	}
	// "Mforeign": the next momentum comes from a pillar whose node has the chain but none of the pooled blocks (they have not
	// reached it yet): an empty momentum. The producer under observation inserts it like any momentum received from a peer
	// and keeps its pool.
	ops.Extra["Mforeign"] = func(n *vnode.Node, o ops.Op) string {
		before := n.PoolBlocks()
		if err := n.ProduceForeignEmptyMomentum(0); err != nil {
			return "err:" + err.Error()
		}
		// a node re-derives its pool on every momentum and lets go of entries it cannot re-apply (a contract receive with
		// descendants among them); the pillar that made such a block still has it and gossips it again
		again := 0
		for _, b := range before {
			if b.BlockType == nom.BlockTypeContractSend {
				continue
			}
			if n.Chain.GetFrontierAccountStore(b.Address).Identifier().Height >= b.Height {
				continue
			}
			if err, pan := n.AddAccountBlocks([]*nom.AccountBlock{vnode.CloneBlock(b)}); err == nil && pan == nil {
				again++
			}
		}
		return fmt.Sprintf("m1/b0/regossiped%d", again)
	}
	// "Told": transfer that acknowledges the momentum before the frontier (lag between acknowledged momentum and frontier)
	ops.Extra["Told"] = func(n *vnode.Node, o ops.Op) string {
		f := n.Frontier()
		st := n.Chain.GetFrontierMomentumStore()
		ackH := f.Height
		if ackH > 1 {
			ackH--
		}
		m, err := st.GetMomentumByHeight(ackH)
		if err != nil || m == nil {
			return "err:noack"
		}
		_, err = n.Submit(&nom.AccountBlock{BlockType: nom.BlockTypeUserSend, Address: ops.Users[o.A].Address, ToAddress: ops.Users[o.B].Address,
			TokenStandard: ops.Tokens[o.T], Amount: ops.Big(o.V), MomentumAcknowledged: m.Identifier()})
		if err != nil {
			return "err:" + err.Error()
		}
		return "ok"
	}

	xs.Register(&xs.Check{
		ID:    "C02",
		Level: "model_checking",
		Shards: func(tier string) int {
			return len(c02Units(tier)) // one worker process per (producer history, part of its level-1 subtrees), 16 at a time
		},
		Budget: func(tier string) time.Duration {
			if tier == "thorough" {
				return 25 * time.Minute
			}
			return 4 * time.Minute
		},
		Assumptions: []string{
			"mock genesis (3 pillars, chain id 100); producer histories limited to the stated family",
			"delivery seam is protocol.ChainBridge.InsertChain/AddAccountBlocks (what fetcher/downloader call); their timers are not explored",
			"tombstoned keys (empty raw value written by the enable-delete layer) are treated as absent keys",
		},
		Run: runC02,
		Finish: func(tier string, m *xs.Result, ev *xs.Evidence) {
			ev.Coverage["states"] = m.Counters["states"]
			ev.Coverage["transitions"] = m.Counters["transitions"]
			ev.Coverage["traces_validated_against_impl"] = m.Counters["transitions"]
			ev.Coverage["explanation"] = "states = distinct follower states (delivered prefix, pool bytes, warmed views) summed over producer histories; every transition is an execution of the real InsertChain/AddAccountBlocks on a real node"
		},
	})
}

// c02Units: the three long scripted histories are split into 4 parts each (by level-1 successor), the others are one unit.
func c02Units(tier string) [][3]int {
	var u [][3]int
	for hi := range c02Histories(tier) {
		parts := 1
		if hi < 7 {
			parts = 1
		}
		for p := 0; p < parts; p++ {
			u = append(u, [3]int{hi, p, parts})
		}
	}
	u = append(u, [3]int{-1, 0, 1}) // the short-epoch world
	u = append(u, [3]int{-2, 0, 1}) // the short-epoch world, history with production gaps at the tail of epochs
	return u
}

func runC02(c *xs.Ctx, r *xs.Result) {
	if c.Replay != nil {
		var rep struct {
			History  []ops.Op `json:"history"`
			Schedule []fAct   `json:"schedule"`
			World    string   `json:"world"`
		}
		if err := json.Unmarshal(c.Replay, &rep); err != nil {
			panic(err)
		}
		if rep.World == "short-epochs" {
			world = rep.World
			c11.Setup()
		}
		rec, p := produce(c, rep.History)
		p.Destroy()
		followerRun(c, r, rec, rep.History, rep.Schedule, true)
		r.Count("states", 1)
		r.Count("transitions", int64(len(rep.Schedule)))
		return
	}
	b := c02bounds{maxBatch: 3, gossipWin: 1, maxWarm: 1, maxRestart: 1, maxGossip: 2, maxRedeliv: 1}
	if c.Thorough() {
		b = c02bounds{maxBatch: 4, gossipWin: 2, maxWarm: 2, maxRestart: 2, maxGossip: 3, maxRedeliv: 1}
	}
	hs := c02Histories(c.Tier)
	r.Count("histories_total", 0)
	for ui, unit := range c02Units(c.Tier) {
		if !c.Mine(ui) {
			continue
		}
		if unit[0] < 0 {
			// the constants are process-global: this unit is the last one, so nothing of the standard world runs after it
			world = "short-epochs"
			c11.Setup()
			sb := c02bounds{maxBatch: 3, step: 3, maxQuery: 1, maxRestart: 1, restartAfterQueryOnly: true}
			if c.Thorough() {
				sb = c02bounds{maxBatch: 3, maxQuery: 2, maxRestart: 1, restartAfterQueryOnly: true}
			}
			t0 := time.Now()
			sh := shortEpochHistory()
			if unit[0] == -2 {
				sh = shortEpochGapHistory()
			}
			exploreSchedules(c, r, sh, sb)
			r.Count("histories", 1)
			r.Count("short_epoch_histories", 1)
			r.Note("short-epoch world took %.0fs", time.Since(t0).Seconds())
			continue
		}
		hi, hist := unit[0], hs[unit[0]]
		part, parts = unit[1], unit[2]
		if c.Expired() {
			r.Incomplete = true
			r.Note("deadline reached before history %d", hi)
			break
		}
		t0 := time.Now()
		hb := b
		if hi < 7 && !c.Thorough() {
			// the long scripted histories (6-7 momentums, a dozen gossipable blocks) get a smaller schedule space in the
			// quick tier: batches of at most 2, one gossiped block, one restart, one warm-up, no re-delivery
			hb = c02bounds{maxBatch: 2, gossipWin: 1, maxWarm: 1, maxRestart: 1, maxGossip: 1, maxRedeliv: 0}
		}
		exploreSchedules(c, r, hist, hb)
		r.Count("histories", 1)
		if d := time.Since(t0); d > 20*time.Second {
			r.Note("history %d took %.0fs", hi, d.Seconds())
		}
	}
}

func count(as []fAct, k ...string) int {
	n := 0
	for _, a := range as {
		for _, kk := range k {
			if a.K == kk {
				n++
			}
		}
	}
	return n
}

// part/parts select which level-1 subtrees of the schedule search this worker explores
var part, parts = 0, 1

func exploreSchedules(c *xs.Ctx, r *xs.Result, hist []ops.Op, b c02bounds) {
	rec, p := produce(c, hist)
	// the producer itself must serve the same historical views it had (its own caches were warmed along the way)
	for h := uint64(1); h <= rec.H; h++ {
		if got := p.ViewDigest(rec.Ids[h]); got != rec.View[h] {
			r.Violate("C02:producer-view-differs", fmt.Sprintf("history [%s]: producer's own view at height %d differs from the state it had then", ops.Hist(hist), h), map[string]interface{}{"history": hist})
		}
	}
	p.Destroy()
	r.Add("producer_outcomes", strings.Join(rec.Outcome, ","))
	ngossip := 0
	for _, gset := range rec.Gossip {
		ngossip += len(gset)
	}
	r.Count("gossipable_blocks", int64(ngossip))

	seen := map[string]bool{}
	l2 := 0
	type item struct{ acts []fAct }
	frontier := []item{{nil}}
	k0, _, _ := followerRun(c, r, rec, hist, nil, true)
	seen[k0] = true
	r.Count("states", 1)
	for len(frontier) > 0 {
		it := frontier[0]
		frontier = frontier[1:]
		if c.Expired() {
			r.Incomplete = true
			r.Note("deadline reached inside history [%s] with %d states queued", ops.Hist(hist), len(frontier))
			return
		}
		// determine n and pooled set by re-running (cheap) — n is derivable from the actions
		n := uint64(1)
		gossiped := map[string]bool{}
		for _, a := range it.acts {
			if a.K == "D" {
				n = a.J
			}
			if a.K == "G" {
				gossiped[fmt.Sprintf("%d.%d", a.H, a.I)] = true
			}
			if a.K == "X" || a.K == "Y" {
				gossiped = map[string]bool{}
			}
		}
		var succ []fAct
		for j := n + 1; j <= rec.H && j <= n+b.maxBatch; j++ {
			if b.step > 0 && j != rec.H && (j-1)%b.step != 0 {
				continue
			}
			succ = append(succ, fAct{K: "D", J: j})
		}
		if count(it.acts, "C") < b.maxQuery && n > 1 {
			succ = append(succ, fAct{K: "C"})
		}
		if count(it.acts, "G") < b.maxGossip {
			for h := n + 1; h <= rec.H; h++ {
				for i, blk := range rec.Gossip[h] {
					// a block reaches a follower by gossip at most gossipWin momentums before the momentum that confirms it; a
					// block its author published long before the producer pooled it ("held") at any frontier from the
					// momentum it acknowledges on
					inWin := h <= n+b.gossipWin || (rec.Held[blk.Hash] && blk.MomentumAcknowledged.Height <= n)
					if inWin && !gossiped[fmt.Sprintf("%d.%d", h, i)] {
						succ = append(succ, fAct{K: "G", H: h, I: i})
					}
				}
			}
		}
		if count(it.acts, "X", "Y") < b.maxRestart && n > 1 && (!b.restartAfterQueryOnly || count(it.acts, "C") > 0) {
			succ = append(succ, fAct{K: "X"})
			if !b.restartAfterQueryOnly {
				succ = append(succ, fAct{K: "Y"})
			}
		}
		if count(it.acts, "W") < b.maxWarm && n > 1 {
			succ = append(succ, fAct{K: "W"})
		}
		if count(it.acts, "Q") < b.maxRedeliv && n > 2 {
			succ = append(succ, fAct{K: "Q", I: int(n) - 1})
			if n > 3 {
				succ = append(succ, fAct{K: "Q", I: 2})
			}
		}
		for _, a := range succ {
			// levels 1 and 2 are explored identically by every part of a split history (counted by part 0 only); the
			// level-2 successors are then dealt round-robin to the parts
			if len(it.acts) == 1 && parts > 1 {
				l2++
				if l2%parts != part {
					continue // another worker's level-2 subtree
				}
			}
			acts := append(append([]fAct{}, it.acts...), a)
			counting := !(len(it.acts) == 0 && part != 0) // level-1 work is repeated by every part; part 0 counts it
			key, nn, viol := followerRun(c, r, rec, hist, acts, false)
			if counting {
				r.Count("transitions", 1)
			}
			if a.K == "G" && counting {
				r.Count("gossip_transitions", 1)
				blk := rec.Gossip[a.H][a.I]
				if blk.MomentumAcknowledged.Height < n {
					r.Count("gossip_with_lag", 1)
				}
			}
			if viol {
				continue
			}
			_ = nn
			if !seen[key] {
				seen[key] = true
				if counting {
					r.Count("states", 1)
				}
				frontier = append(frontier, item{acts})
				if nn == rec.H {
					r.Count("complete_schedules", 1)
					r.Sample(map[string]interface{}{"history": ops.Hist(hist), "schedule": actsString(acts)})
				}
			}
		}
	}
	keys := make([]string, 0, len(seen))
	for k := range seen {
		keys = append(keys, k)
	}
	sort.Strings(keys)
}
