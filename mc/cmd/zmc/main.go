package main

import (
	_ "verifmc/props/c02"
	_ "verifmc/props/c07"

	"verifmc/internal/xs"
)

func main() { xs.Main() }
