package c09

import (
	"crypto/sha256"
	"encoding/base64"
	"fmt"
	"math/big"

	ecommon "github.com/ethereum/go-ethereum/common"
	ecrypto "github.com/ethereum/go-ethereum/crypto"

	g "github.com/zenon-network/go-zenon/chain/genesis/mock"
	"github.com/zenon-network/go-zenon/chain/nom"
	"github.com/zenon-network/go-zenon/common/crypto"
	"github.com/zenon-network/go-zenon/common/types"
	"github.com/zenon-network/go-zenon/vm/constants"
	"github.com/zenon-network/go-zenon/vm/embedded/definition"
	"github.com/zenon-network/go-zenon/vm/embedded/implementation"
	"github.com/zenon-network/go-zenon/wallet"
)

// actors: the accounts calls are sent from
type actor struct {
	Name string
	Key  *wallet.KeyPair
}

var actors = []actor{
	{"owner", g.User1},    // creates every user-level entry of the base states
	{"stranger", g.User2}, // owns nothing but a few tokens
	{"admin", g.User5},    // bridge and liquidity administrator, guardian
	{"pillar", g.Pillar1}, // stake and producer address of a registered pillar
	{"spork", g.Spork},    // spork administrator
	{"rich", g.Pillar4},   // 16000 ZNN / 200000 QSR, has QSR deposited in the pillar and sentinel contracts
}

const (
	aOwner = iota
	aStranger
	aAdmin
	aPillar
	aSpork
	aRich
)

var probeKey = g.User3 // sends the probe calls (1000 ZNN, 10000 QSR, fused plasma)

// the TSS key pair the repository's bridge tests use
const (
	tssPubKey  = "AsAQx1M3LVXCuozDOqO5b9adj/PItYgwZFG/xTDBiZzT"
	tssPrivKey = "tuSwrTEUyJI1/3y5J8L8DSjzT/AQG2IK3JG+93qhhhI="
)

const (
	netClass    = uint32(2) // evm
	netChain    = uint32(123)
	netAddr     = "0x323b5d4c32345ced77393b3530b1eed0f346429d"
	tokAddrZnn  = "0x5fbdb2315678afecb367f032d93f642f64180aa3"
	tokAddrOwn  = "0x5aaaa2315678afecb367f032d93f642f64180aa3"
	tokAddrBad  = "0x5bbbb2315678afecb367f032d93f642f64180aa3"
	tokAddrFull = "0x5cccc2315678afecb367f032d93f642f64180aa3"
	evmDest     = "0xb794f5ea0ba39494ce839613fffba74279579268"
)

var htlcPreimage = []byte("c09-preimage")

// stateEnv: what the argument domains need to know about a base state.
type stateEnv struct {
	Regime     int
	Base       string
	Custom     types.ZenonTokenStandard // issued by owner: mintable, burnable
	Locked     types.ZenonTokenStandard // issued by stranger: not mintable, not burnable; owner holds some
	BridgeTok  types.ZenonTokenStandard // owned by the bridge contract, token pair with Owned=true
	BridgeFull types.ZenonTokenStandard // the same kind of token and pair, with the maximum fee (100 %): the wrapped amount is zero
	IDs        map[string][]types.Hash  // contract name -> ids of existing entries (first = owner's main entry)
	UnwrapTx   types.Hash
	UnwrapLog  uint32
	WrapSig    string // TSS signature for the base state's wrap request
	HasEntries bool
}

func (e *stateEnv) clone() *stateEnv {
	c := *e
	c.IDs = map[string][]types.Hash{}
	for k, v := range e.IDs {
		c.IDs[k] = append([]types.Hash{}, v...)
	}
	return &c
}

// builder scripts well-formed calls on a pair and drives the producer with safeStep.
type builder struct {
	p   *pair
	env *stateEnv
	// fail collects the first thing that went wrong (a scripted call refused, or the producer failing on it)
	fail string
}

func (b *builder) send(from *wallet.KeyPair, to types.Address, zts types.ZenonTokenStandard, amount *big.Int, data []byte) *nom.AccountBlock {
	if b.fail != "" {
		return &nom.AccountBlock{}
	}
	blk, err := b.p.P.Submit(&nom.AccountBlock{BlockType: nom.BlockTypeUserSend, Address: from.Address, ToAddress: to, TokenStandard: zts, Amount: amount, Data: data})
	if err != nil {
		b.fail = fmt.Sprintf("scripted call to %v refused: %v", to, err)
		return &nom.AccountBlock{}
	}
	return blk
}

// step = one producer event; every scripted contract call must be applied (no error returned by the method) unless
// tolerated.
func (b *builder) step(tolerate ...string) {
	if b.fail != "" {
		return
	}
	rs, err := safeStep(b.p.P)
	if err != nil {
		b.fail = "producer step: " + err.Error()
		return
	}
	for _, r := range rs {
		if r.failed() || !r.Inserted {
			b.fail = fmt.Sprintf("producer failed on scripted call (to %v data %x): %s insErr=%v", r.Send.ToAddress, r.Send.Data, r.describe(), r.InsErr)
			return
		}
		if r.Exec.ReturnedError != nil && types.IsEmbeddedAddress(r.Send.ToAddress) && !types.IsEmbeddedAddress(r.Send.Address) {
			ok := false
			for _, t := range tolerate {
				if r.Exec.ReturnedError.Error() == t {
					ok = true
				}
			}
			if !ok {
				b.fail = fmt.Sprintf("scripted call (to %v data %x) was not applied: %v", r.Send.ToAddress, r.Send.Data, r.Exec.ReturnedError)
			}
		}
	}
}

// settle: producer events until two consecutive events found every contract inbox empty (the second one confirms the
// receive blocks the first may still have inserted: unconfirmed blocks do not survive the freeze).
func (b *builder) settle() {
	quiet := 0
	for i := 0; i < 16 && b.fail == ""; i++ {
		rs, err := safeStep(b.p.P)
		if err != nil {
			b.fail = "producer step: " + err.Error()
			return
		}
		for _, r := range rs {
			if r.failed() || !r.Inserted {
				b.fail = fmt.Sprintf("producer failed while settling (to %v data %x): %s insErr=%v", r.Send.ToAddress, r.Send.Data, r.describe(), r.InsErr)
				return
			}
		}
		if len(rs) == 0 {
			quiet++
			if quiet == 2 {
				return
			}
		} else {
			quiet = 0
		}
	}
	if b.fail == "" {
		b.fail = "inboxes do not settle"
	}
}

func (b *builder) steps(k int) {
	for i := 0; i < k; i++ {
		b.step()
	}
}

// receiveAll makes user accounts receive what contracts sent them (so that balances are usable).
func (b *builder) receiveAll(keys ...*wallet.KeyPair) {
	if b.fail != "" {
		return
	}
	for _, k := range keys {
		st := b.p.P.Chain.GetFrontierMomentumStore()
		hashes, err := st.GetAccountMailbox(k.Address).GetUnreceivedAccountBlockHashes(32)
		must(err)
		for _, h := range hashes {
			if _, err := b.p.P.Receive(k.Address, h); err != nil {
				b.fail = fmt.Sprintf("receive by %v: %v", k.Address, err)
				return
			}
		}
	}
}

func big8(v int64) *big.Int { return new(big.Int).Mul(big.NewInt(v), big.NewInt(g.Zexp)) }

var (
	znn = types.ZnnTokenStandard
	qsr = types.QsrTokenStandard
)

func tssSign(hash []byte) string {
	raw, err := base64.StdEncoding.DecodeString(tssPrivKey)
	must(err)
	key, err := ecrypto.ToECDSA(raw)
	must(err)
	sig, err := ecrypto.Sign(hash, key)
	must(err)
	return base64.StdEncoding.EncodeToString(sig)
}

func unwrapSignature(nc, chain uint32, tx types.Hash, logIndex uint32, to types.Address, tokenAddr string, amount *big.Int) string {
	msg, err := implementation.GetUnwrapTokenRequestMessage(&definition.UnwrapTokenParam{NetworkClass: nc, ChainId: chain, TransactionHash: tx,
		LogIndex: logIndex, ToAddress: to, TokenAddress: tokenAddr, Amount: amount})
	if err != nil {
		return "unsignable: " + err.Error() // e.g. an unsupported network class: there is no message to sign
	}
	return tssSign(msg)
}

// activateSpork creates and activates a spork with the spork administrator key, the way the repository's tests do, and
// returns its id. The caller registers the id in the process globals before the enforcement height is reached.
func (b *builder) activateSpork(name string) types.Hash {
	blk := b.send(g.Spork, types.SporkContract, znn, big.NewInt(0), definition.ABISpork.PackMethodPanic(definition.SporkCreateMethodName, name, "activated by c09"))
	b.step()
	id := blk.Hash
	b.send(g.Spork, types.SporkContract, znn, big.NewInt(0), definition.ABISpork.PackMethodPanic(definition.SporkActivateMethodName, id))
	types.ImplementedSporksMap[id] = true
	return id
}

// buildRegime: genesis + the regime's sporks enforced.
func buildRegime(p *pair, ri int) (*stateEnv, string) {
	rg := regimes[ri]
	b := &builder{p: p, env: &stateEnv{Regime: ri, Base: "genesis", IDs: map[string][]types.Hash{}}}
	if rg.Accel {
		types.AcceleratorSpork.SporkId = b.activateSpork("spork-accelerator")
		b.step()
	}
	if rg.Bridge {
		types.BridgeAndLiquiditySpork.SporkId = b.activateSpork("spork-bridge")
		b.step()
	}
	if rg.Htlc {
		types.HtlcSpork.SporkId = b.activateSpork("spork-htlc")
		b.step()
	}
	b.steps(sporkDelay + 1)
	b.settle()
	// the plasma contract holds the genesis fusion of owner for itself (id fixed by the mock genesis)
	b.env.IDs["plasma"] = []types.Hash{types.HexToHashPanic("117613e734b6cb0fd7b7583f5b0e863a3f0c856cd32fa36f1b60b464d068c5a6")}
	return b.env, b.fail
}

// buildEntries: on top of the regime state, one entry of every kind the regime allows.
func buildEntries(p *pair, env0 *stateEnv) (*stateEnv, string) {
	env := env0.clone()
	env.Base = "entries"
	env.HasEntries = true
	rg := regimes[env.Regime]
	b := &builder{p: p, env: env}
	owner, stranger, admin, rich := actors[aOwner].Key, actors[aStranger].Key, actors[aAdmin].Key, actors[aRich].Key
	add := func(c string, h types.Hash) { env.IDs[c] = append([]types.Hash{h}, env.IDs[c]...) }

	// stake, fusion, delegation, deposits
	add("stake", b.send(owner, types.StakeContract, znn, big8(10), definition.ABIStake.PackMethodPanic(definition.StakeMethodName, int64(constants.StakeTimeMinSec))).Hash)
	add("plasma", b.send(owner, types.PlasmaContract, qsr, big8(50), definition.ABIPlasma.PackMethodPanic(definition.FuseMethodName, stranger.Address)).Hash)
	b.send(owner, types.PillarContract, znn, big.NewInt(0), definition.ABIPillars.PackMethodPanic(definition.DelegateMethodName, g.Pillar1Name))
	b.send(rich, types.PillarContract, qsr, big8(150000), definition.ABIPillars.PackMethodPanic(definition.DepositQsrMethodName))
	b.send(stranger, types.SentinelContract, qsr, big8(10), definition.ABISentinel.PackMethodPanic(definition.DepositQsrMethodName))
	b.step()
	b.send(owner, types.PillarContract, qsr, big8(10), definition.ABIPillars.PackMethodPanic(definition.DepositQsrMethodName))
	b.send(owner, types.SentinelContract, qsr, big8(50000), definition.ABISentinel.PackMethodPanic(definition.DepositQsrMethodName))
	b.send(rich, types.SentinelContract, qsr, big8(50000), definition.ABISentinel.PackMethodPanic(definition.DepositQsrMethodName))
	b.step()
	b.send(owner, types.SentinelContract, znn, new(big.Int).Set(constants.SentinelZnnRegisterAmount), definition.ABISentinel.PackMethodPanic(definition.RegisterSentinelMethodName))
	// tokens
	tok := b.send(owner, types.TokenContract, znn, new(big.Int).Set(constants.TokenIssueAmount),
		definition.ABIToken.PackMethodPanic(definition.IssueMethodName, "c09-token", "CTOK", "zenon.network", big.NewInt(1000000), big.NewInt(1000000000), uint8(2), true, true, false))
	env.Custom = types.NewZenonTokenStandard(tok.Hash.Bytes())
	tok2 := b.send(stranger, types.TokenContract, znn, new(big.Int).Set(constants.TokenIssueAmount),
		definition.ABIToken.PackMethodPanic(definition.IssueMethodName, "c09-locked", "LOCK", "", big.NewInt(500000), big.NewInt(500000), uint8(0), false, false, false))
	env.Locked = types.NewZenonTokenStandard(tok2.Hash.Bytes())
	// an inactive spork entry
	sp := b.send(g.Spork, types.SporkContract, znn, big.NewInt(0), definition.ABISpork.PackMethodPanic(definition.SporkCreateMethodName, "c09-entry", "never activated by the base state"))
	add("spork", sp.Hash)
	types.ImplementedSporksMap[sp.Hash] = true
	b.step()
	b.step()
	b.receiveAll(owner, stranger)
	b.send(owner, stranger.Address, env.Custom, big.NewInt(1000), nil)
	b.send(stranger, owner.Address, env.Locked, big.NewInt(1000), nil)
	b.step()
	b.receiveAll(owner, stranger)
	b.step()

	if rg.Accel {
		pr := b.send(owner, types.AcceleratorContract, znn, new(big.Int).Set(constants.ProjectCreationAmount),
			definition.ABIAccelerator.PackMethodPanic(definition.CreateProjectMethodName, "c09 project", "a project", "zenon.network", big8(100), big8(1000)))
		pr2 := b.send(stranger, types.AcceleratorContract, znn, new(big.Int).Set(constants.ProjectCreationAmount),
			definition.ABIAccelerator.PackMethodPanic(definition.CreateProjectMethodName, "c09 project 2", "a project without phases", "zenon.network", big8(50), big8(500)))
		b.send(g.Pillar5, types.AcceleratorContract, znn, big8(2000), definition.ABICommon.PackMethodPanic(definition.DonateMethodName))
		b.step()
		b.send(g.Pillar5, types.AcceleratorContract, qsr, big8(20000), definition.ABICommon.PackMethodPanic(definition.DonateMethodName))
		for i, k := range []*wallet.KeyPair{g.Pillar1, g.Pillar2, g.Pillar3} {
			name := []string{g.Pillar1Name, g.Pillar2Name, g.Pillar3Name}[i]
			b.send(k, types.AcceleratorContract, znn, big.NewInt(0), definition.ABICommon.PackMethodPanic(definition.VoteByNameMethodName, pr.Hash, name, uint8(0)))
		}
		b.step()
		for _, k := range []*wallet.KeyPair{g.Pillar1, g.Pillar2, g.Pillar3} {
			b.send(k, types.AcceleratorContract, znn, big.NewInt(0), definition.ABICommon.PackMethodPanic(definition.VoteByProdAddressMethodName, pr2.Hash, uint8(0)))
		}
		b.step()
		b.steps(updateMinMomentums)
		b.send(stranger, types.AcceleratorContract, znn, big.NewInt(0), definition.ABIAccelerator.PackMethodPanic(definition.UpdateMethodName))
		b.step()
		ph := b.send(owner, types.AcceleratorContract, znn, big.NewInt(0),
			definition.ABIAccelerator.PackMethodPanic(definition.AddPhaseMethodName, pr.Hash, "phase 1", "first phase", "zenon.network", big8(10), big8(100)))
		// ids: owner's active project (phase in voting), its phase, stranger's active project without phases
		env.IDs["accelerator"] = []types.Hash{pr.Hash, ph.Hash, pr2.Hash}
		b.step()
	}
	if rg.Htlc {
		lock := crypto.Hash(htlcPreimage)
		far := int64(g.EmbeddedGenesis.GenesisTimestampSec) + 365*24*3600
		h1 := b.send(owner, types.HtlcContract, znn, big8(10), definition.ABIHtlc.PackMethodPanic(definition.CreateHtlcMethodName, stranger.Address, far, uint8(definition.HashTypeSHA3), uint8(32), lock))
		b.step()
		s256 := sha256.Sum256(htlcPreimage)
		soon := int64(g.EmbeddedGenesis.GenesisTimestampSec) + 12*3600
		h2 := b.send(owner, types.HtlcContract, env.Custom, big.NewInt(100), definition.ABIHtlc.PackMethodPanic(definition.CreateHtlcMethodName, stranger.Address, soon, uint8(definition.HashTypeSHA256), uint8(255), s256[:]))
		b.step()
		now := p.P.Frontier().Timestamp.Unix()
		h3 := b.send(owner, types.HtlcContract, znn, big8(1), definition.ABIHtlc.PackMethodPanic(definition.CreateHtlcMethodName, stranger.Address, now+25, uint8(definition.HashTypeSHA3), uint8(32), lock))
		b.step()
		// ids: live long-term entry, expired entry, entry expiring after 12 hours
		env.IDs["htlc"] = []types.Hash{h1.Hash, h3.Hash, h2.Hash}
	}
	// the bridge and liquidity methods are in the tables of both the bridge regime and (cumulative tables) the htlc regime
	if rg.Bridge || rg.Htlc {
		guardians := []types.Address{g.User1.Address, g.User2.Address, g.User3.Address, g.User4.Address, g.User5.Address}
		twice := func(to types.Address, data []byte, delay int) {
			b.send(admin, to, znn, big.NewInt(0), data)
			b.step()
			b.steps(delay + 1)
			b.send(admin, to, znn, big.NewInt(0), data)
			b.step()
		}
		b.send(admin, types.BridgeContract, znn, big.NewInt(0), definition.ABIBridge.PackMethodPanic(definition.SetOrchestratorInfoMethodName, uint64(6), uint32(3), uint32(15), uint32(10)))
		b.step()
		twice(types.BridgeContract, definition.ABIBridge.PackMethodPanic(definition.NominateGuardiansMethodName, guardians), adminDelay)
		twice(types.BridgeContract, definition.ABIBridge.PackMethodPanic(definition.ChangeTssECDSAPubKeyMethodName, tssPubKey, "", ""), softDelay)
		b.send(admin, types.BridgeContract, znn, big.NewInt(0), definition.ABIBridge.PackMethodPanic(definition.SetNetworkMethodName, netClass, netChain, "Ethereum", netAddr, "{}"))
		b.step()
		twice(types.BridgeContract, definition.ABIBridge.PackMethodPanic(definition.SetTokenPairMethod, netClass, netChain, znn, tokAddrZnn, true, true, false, big.NewInt(100), uint32(15), uint32(2), "{}"), softDelay)
		// a token owned by the bridge
		bt := b.send(admin, types.TokenContract, znn, new(big.Int).Set(constants.TokenIssueAmount),
			definition.ABIToken.PackMethodPanic(definition.IssueMethodName, "c09-bridged", "BRT", "", big.NewInt(100000), big.NewInt(100000000), uint8(0), true, true, false))
		env.BridgeTok = types.NewZenonTokenStandard(bt.Hash.Bytes())
		b.step()
		b.step()
		b.receiveAll(admin)
		b.send(admin, types.TokenContract, znn, big.NewInt(0), definition.ABIToken.PackMethodPanic(definition.UpdateTokenMethodName, env.BridgeTok, types.BridgeContract, true, true))
		b.send(admin, owner.Address, env.BridgeTok, big.NewInt(10000), nil)
		b.step()
		b.receiveAll(owner)
		twice(types.BridgeContract, definition.ABIBridge.PackMethodPanic(definition.SetTokenPairMethod, netClass, netChain, env.BridgeTok, tokAddrOwn, true, true, true, big.NewInt(10), uint32(100), uint32(2), "{}"), softDelay)
		// a second bridge-owned token whose pair carries the maximum fee the contract accepts (100 %)
		bf := b.send(admin, types.TokenContract, znn, new(big.Int).Set(constants.TokenIssueAmount),
			definition.ABIToken.PackMethodPanic(definition.IssueMethodName, "c09-bridged-full-fee", "BRF", "", big.NewInt(100000), big.NewInt(100000000), uint8(0), true, true, false))
		env.BridgeFull = types.NewZenonTokenStandard(bf.Hash.Bytes())
		b.step()
		b.step()
		b.receiveAll(admin)
		b.send(admin, types.TokenContract, znn, big.NewInt(0), definition.ABIToken.PackMethodPanic(definition.UpdateTokenMethodName, env.BridgeFull, types.BridgeContract, true, true))
		b.send(admin, owner.Address, env.BridgeFull, big.NewInt(10000), nil)
		b.step()
		b.receiveAll(owner)
		twice(types.BridgeContract, definition.ABIBridge.PackMethodPanic(definition.SetTokenPairMethod, netClass, netChain, env.BridgeFull, tokAddrFull, true, true, true, big.NewInt(10), constants.MaximumFee, uint32(2), "{}"), softDelay)
		// administrator mistake the contract does not prevent: a pair flagged Owned for a token the bridge neither owns nor
		// may burn (stranger's non-burnable token; owner holds 1000 of it)
		twice(types.BridgeContract, definition.ABIBridge.PackMethodPanic(definition.SetTokenPairMethod, netClass, netChain, env.Locked, tokAddrBad, true, true, true, big.NewInt(10), uint32(100), uint32(2), "{}"), softDelay)
		// a wrap request and an unwrap request
		w := b.send(owner, types.BridgeContract, znn, big.NewInt(100000), definition.ABIBridge.PackMethodPanic(definition.WrapTokenMethodName, netClass, netChain, evmDest))
		add("bridge", w.Hash)
		env.UnwrapTx = types.HexToHashPanic("00000000000000000000000000000000000000000000000000000000000c0901")
		env.UnwrapLog = 7
		amount := big.NewInt(5000)
		b.send(stranger, types.BridgeContract, znn, big.NewInt(0), definition.ABIBridge.PackMethodPanic(definition.UnwrapTokenMethodName, netClass, netChain, env.UnwrapTx, env.UnwrapLog,
			owner.Address, tokAddrZnn, amount, unwrapSignature(netClass, netChain, env.UnwrapTx, env.UnwrapLog, owner.Address, tokAddrZnn, amount)))
		b.step()
		b.steps(3) // redeem delay of the pair elapses
		if b.fail == "" {
			st := p.P.Chain.GetFrontierAccountStore(types.BridgeContract).Storage()
			req, err := definition.GetWrapTokenRequestById(st, w.Hash)
			must(err)
			ca := ecommon.HexToAddress(netAddr)
			msg, err := implementation.GetWrapTokenRequestMessage(req, &ca)
			must(err)
			env.WrapSig = tssSign(msg)
		}

		// liquidity: guardians, token tuples, a stake
		twice(types.LiquidityContract, definition.ABILiquidity.PackMethodPanic(definition.NominateGuardiansMethodName, guardians), adminDelay)
		twice(types.LiquidityContract, definition.ABILiquidity.PackMethodPanic(definition.SetTokenTupleMethodName,
			[]string{znn.String(), env.Custom.String()}, []uint32{5000, 5000}, []uint32{5000, 5000}, []*big.Int{big.NewInt(1000), big.NewInt(10)}), softDelay)
		ls := b.send(owner, types.LiquidityContract, env.Custom, big.NewInt(500), definition.ABILiquidity.PackMethodPanic(definition.LiquidityStakeMethodName, int64(constants.StakeTimeMinSec)))
		add("liquidity", ls.Hash)
		b.step()
	}
	b.settle()
	return env, b.fail
}

const maturedAfter = 26 * 3600 // seconds after genesis

// buildMatured: entries + a jump to 26 hours after genesis: the stake, the short HTLC, the fusion and the liquidity stake
// are past expiration, the pillars and the sentinel are inside their revoke windows, the first reward epoch is due; then
// every contract is updated once so that rewards can be collected.
func buildMatured(p *pair, env0 *stateEnv) (*stateEnv, string) {
	env := env0.clone()
	env.Base = "matured"
	b := &builder{p: p, env: env}
	n := p.P
	skip := int((genesisT+maturedAfter-n.Frontier().Timestamp.Unix())/10) - 1
	// one momentum far in the future (slots in between are missed), produced by whoever is elected for that slot
	if err := n.ProduceMomentumOnly(skip); err != nil {
		return env, "matured: " + err.Error()
	}
	if _, err := drainInboxes(n); err != nil {
		return env, err.Error()
	}
	b.steps(updateMinMomentums)
	stranger := actors[aStranger].Key
	upd := []struct {
		to   types.Address
		data []byte
	}{
		{types.PillarContract, definition.ABIPillars.PackMethodPanic(definition.UpdateMethodName)},
		{types.SentinelContract, definition.ABISentinel.PackMethodPanic(definition.UpdateMethodName)},
		{types.StakeContract, definition.ABIStake.PackMethodPanic(definition.UpdateMethodName)},
		{types.LiquidityContract, definition.ABILiquidity.PackMethodPanic(definition.UpdateMethodName)},
	}
	for _, u := range upd {
		b.send(stranger, u.to, znn, big.NewInt(0), u.data)
	}
	b.step()
	b.settle() // the token contract mints what the updates asked for, the liquidity contract receives it
	return env, b.fail
}

// buildLate: nothing was staked / no sentinel was registered during epoch 0; the chain jumps to one hour after the end
// of epoch 0 WITHOUT any Update having settled it, and only then the first stake and the first sentinel are created.
// The contracts now hold entries whose weight in the epoch that is about to be settled is zero.
func buildLate(p *pair, env0 *stateEnv) (*stateEnv, string) {
	env := env0.clone()
	env.Base = "late-entries"
	env.HasEntries = false
	b := &builder{p: p, env: env}
	n := p.P
	skip := int((genesisT+25*3600-n.Frontier().Timestamp.Unix())/10) - 1
	if err := n.ProduceMomentumOnly(skip); err != nil {
		return env, "late-entries: " + err.Error()
	}
	if _, err := drainInboxes(n); err != nil {
		return env, err.Error()
	}
	owner := actors[aOwner].Key
	add := func(c string, h types.Hash) { env.IDs[c] = append([]types.Hash{h}, env.IDs[c]...) }
	add("stake", b.send(owner, types.StakeContract, znn, big8(10), definition.ABIStake.PackMethodPanic(definition.StakeMethodName, int64(constants.StakeTimeMinSec))).Hash)
	b.send(owner, types.SentinelContract, qsr, big8(50000), definition.ABISentinel.PackMethodPanic(definition.DepositQsrMethodName))
	b.step()
	b.send(owner, types.SentinelContract, znn, new(big.Int).Set(constants.SentinelZnnRegisterAmount), definition.ABISentinel.PackMethodPanic(definition.RegisterSentinelMethodName))
	b.step()
	b.settle()
	return env, b.fail
}
