// Package sched is the stateless schedule explorer (iterative preemption bounding, Musuvathi & Qadeer) on top of the
// cooperative scheduler in the vsync overlay package.
package sched

import (
	"fmt"
	"time"

	"github.com/zenon-network/go-zenon/common/vsync"
)

// Exec is one complete execution of a scenario under a given choice prefix.
type Exec struct {
	Points   []vsync.Point
	Choices  []int
	Deadlock bool
	Diverged string
	Panics   []interface{}
	Obs      interface{} // scenario-specific observation (set by the scenario's check function)
	Skipped  bool        // set when the execution diverged from its recorded prefix: the scenario's check must only tear down
}

// Scenario builds a fresh instance, declares its threads on s, and returns a function that is called after the run to
// check the oracle and tear the instance down. It must be deterministic.
type Scenario func(s *vsync.Sched) (after func(x *Exec))

type Stats struct {
	Executions   int64
	Points       int64
	MaxPoints    int
	Deadlocks    int64
	BoundDone    int // highest preemption bound completed (-1 if none)
	Incomplete   bool
	Preemptions  map[int]int64 // executions by number of preemptions
	Pruned       int64
	FirstChoices [][]int
	// replay divergences (same prefix, different execution): retried up to 5 times, then the subtree is skipped
	DivergenceRetries int64
	DivergentSkipped  int64
	LastDivergence    string
}

type Explorer struct {
	Scenario Scenario
	Bound    int
	Deadline time.Time
	// Shard/NShards split the level-1 alternatives of the root execution over worker processes.
	Shard, NShards int
	// OnExec is called after every execution (after the scenario's own check).
	OnExec func(x *Exec)
	// Skip, optional: return true to not branch at point i of x (sound reductions only).
	Skip  func(x *Exec, i int) bool
	Stats Stats
	n     int
}

func (e *Explorer) run(prefix []int) *Exec {
	s := vsync.NewSched(prefix)
	after := e.Scenario(s)
	panics := s.Run()
	x := &Exec{Points: s.Points, Deadlock: s.Deadlock, Diverged: s.Diverged, Panics: panics}
	if s.Overflow {
		panic("schedule explorer: point limit exceeded (livelock?)")
	}
	x.Choices = make([]int, len(s.Points))
	for i, p := range s.Points {
		x.Choices[i] = p.Choice
	}
	if x.Diverged != "" {
		// the same choice prefix did not reproduce the execution it was recorded from: nondeterminism the harness does
		// not own. Tear the instance down without judging it; the caller retries and, failing that, skips the subtree
		// and reports the exploration as incomplete (never as a verdict about the property).
		func() {
			defer func() { recover() }()
			x.Skipped = true
			after(x)
		}()
		return x
	}
	after(x)
	e.Stats.Executions++
	e.Stats.Points += int64(len(x.Points))
	if len(x.Points) > e.Stats.MaxPoints {
		e.Stats.MaxPoints = len(x.Points)
	}
	if x.Deadlock {
		e.Stats.Deadlocks++
	}
	if e.OnExec != nil {
		e.OnExec(x)
	}
	return x
}

func preemptionsBefore(x *Exec, i int) int {
	n := 0
	for j := 0; j < i; j++ {
		if x.Points[j].RunningStillEnabled && x.Points[j].Choice != 0 {
			n++
		}
	}
	return n
}

// Explore runs the depth-first search for exactly the configured bound (all executions with <= Bound preemptions).
func (e *Explorer) Explore() {
	e.Stats.Preemptions = map[int]int64{}
	e.Stats.BoundDone = -1
	e.explore(nil, 0)
	if !e.Stats.Incomplete {
		e.Stats.BoundDone = e.Bound
	}
}

func (e *Explorer) explore(prefix []int, depth int) {
	if !e.Deadline.IsZero() && time.Now().After(e.Deadline) {
		e.Stats.Incomplete = true
		return
	}
	x := e.run(prefix)
	for try := 0; x.Diverged != "" && try < 5; try++ {
		e.Stats.DivergenceRetries++
		x = e.run(prefix)
	}
	if x.Diverged != "" {
		e.Stats.DivergentSkipped++
		e.Stats.LastDivergence = fmt.Sprintf("prefix %v: %s", prefix, x.Diverged)
		return
	}
	e.Stats.Preemptions[preemptionsBefore(x, len(x.Points))]++
	for i := len(prefix); i < len(x.Points); i++ {
		p := x.Points[i]
		if len(p.Enabled) < 2 {
			continue
		}
		cost := preemptionsBefore(x, i)
		if p.RunningStillEnabled {
			cost++
		}
		if cost > e.Bound {
			continue
		}
		if e.Skip != nil && e.Skip(x, i) {
			e.Stats.Pruned++
			continue
		}
		for alt := 1; alt < len(p.Enabled); alt++ {
			if depth == 0 && e.NShards > 1 {
				e.n++
				if e.n%e.NShards != e.Shard {
					continue
				}
			}
			np := append(append([]int{}, x.Choices[:i]...), alt)
			e.explore(np, depth+1)
			if e.Stats.Incomplete {
				return
			}
		}
	}
}

// Replay runs one recorded choice sequence twice and requires identical point sequences.
func (e *Explorer) Replay(choices []int) (*Exec, error) {
	a := e.run(choices)
	b := e.run(choices)
	if a.Diverged != "" || b.Diverged != "" {
		return a, fmt.Errorf("replay diverged from the recorded schedule: %s %s", a.Diverged, b.Diverged)
	}
	if len(a.Points) != len(b.Points) {
		return a, fmt.Errorf("replay nondeterminism: %d vs %d points", len(a.Points), len(b.Points))
	}
	for i := range a.Points {
		if a.Points[i].Kind != b.Points[i].Kind || a.Points[i].Thread != b.Points[i].Thread || len(a.Points[i].Enabled) != len(b.Points[i].Enabled) {
			return a, fmt.Errorf("replay nondeterminism at point %d", i)
		}
	}
	return a, nil
}

// Probe is a determinism self-test: it runs the root execution and every level-1 alternative `runs` times each and
// reports the first pair of executions of the same choice prefix whose point sequences differ ("" if none).
func (e *Explorer) Probe(runs int) string {
	sig := func(x *Exec) []string {
		var out []string
		objs := map[int64]int{} // mutex ids are process-global: number them by first appearance within the run
		for _, p := range x.Points {
			if _, ok := objs[p.Obj]; !ok {
				objs[p.Obj] = len(objs)
			}
			out = append(out, fmt.Sprintf("t%d %s obj=%d en=%v", p.Thread, p.Kind, objs[p.Obj], p.Enabled))
		}
		return out
	}
	cmp := func(prefix []int) string {
		var first []string
		for r := 0; r < runs; r++ {
			s := vsync.NewSched(prefix)
			after := e.Scenario(s)
			panics := s.Run()
			x := &Exec{Points: s.Points, Deadlock: s.Deadlock, Diverged: s.Diverged, Panics: panics}
			x.Choices = make([]int, len(s.Points))
			for i, p := range s.Points {
				x.Choices[i] = p.Choice
			}
			g := sig(x)
			div := x.Diverged
			func() {
				defer func() { recover() }()
				after(x)
			}()
			if div != "" {
				return fmt.Sprintf("prefix %v run %d: %s", prefix, r, div)
			}
			if first == nil {
				first = g
				continue
			}
			for i := 0; i < len(first) || i < len(g); i++ {
				a, b := "<end>", "<end>"
				if i < len(first) {
					a = first[i]
				}
				if i < len(g) {
					b = g[i]
				}
				if a != b {
					lo := i - 6
					if lo < 0 {
						lo = 0
					}
					ctx := ""
					for j := lo; j < i; j++ {
						ctx += fmt.Sprintf("\n   %d: %s", j, first[j])
					}
					return fmt.Sprintf("prefix %v: run 0 and run %d differ at point %d:\n  run0: %s\n  run%d: %s\n  common context:%s", prefix, r, i, a, r, b, ctx)
				}
			}
		}
		return ""
	}
	if d := cmp(nil); d != "" {
		return d
	}
	root := e.run(nil)
	for i, p := range root.Points {
		for alt := 1; alt < len(p.Enabled); alt++ {
			np := append(append([]int{}, root.Choices[:i]...), alt)
			if d := cmp(np); d != "" {
				return d
			}
		}
	}
	return ""
}
