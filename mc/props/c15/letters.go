package c15

import (
	"encoding/binary"
	"fmt"
	"math/big"

	"github.com/ethereum/go-ethereum/crypto"
	"github.com/ethereum/go-ethereum/rlp"

	g "github.com/zenon-network/go-zenon/chain/genesis/mock"
	"github.com/zenon-network/go-zenon/chain/nom"
	"github.com/zenon-network/go-zenon/common/types"
	"github.com/zenon-network/go-zenon/protocol"
)

// A letter is one message a remote peer can put on the wire. Payloads depend on the chain the node has (known hashes,
// H), so they are built per env; names do not, so that a session is identified by its letter names.
type letter struct {
	Name     string
	Code     uint64
	CodeName string
	Kind     string              // valid | empty | wrong-kind | truncated | oversize | unknown-code
	Class    string              // parameter class used in violation keys (e.g. unknown-hash, amount-0)
	Reply    int                 // -1: none ; otherwise the message code of the single reply a well-formed request is owed
	Async    bool                // may start work on goroutines other than the peer's handler
	Status   bool                // a well-formed status message that passes the handshake
	AmountOf func(e *env) uint64 // requested amount (hash requests only)
	CapClass func(e *env) string // class of the request for the key of a cap violation
	Build    func(e *env) []byte
	Oversize bool
}

const (
	protoVersion = 61
	oversizeLen  = protocol.ProtocolMaxMsgSize + 1
)

var codeNames = map[uint64]string{
	protocol.StatusMsg: "StatusMsg", protocol.NewBlockHashesMsg: "NewBlockHashesMsg", protocol.TxMsg: "TxMsg",
	protocol.GetBlockHashesMsg: "GetBlockHashesMsg", protocol.BlockHashesMsg: "BlockHashesMsg", protocol.GetBlocksMsg: "GetBlocksMsg",
	protocol.BlocksMsg: "BlocksMsg", protocol.NewBlockMsg: "NewBlockMsg", protocol.GetBlockHashesFromNumberMsg: "GetBlockHashesFromNumberMsg",
}

func codeName(c uint64) string {
	if n, ok := codeNames[c]; ok {
		return n
	}
	return fmt.Sprintf("Code%d", c)
}

// wire copies of the unexported message structs of package protocol (field for field, same RLP)
type statusData struct {
	ProtocolVersion uint32
	NetworkId       uint32
	TD              uint64
	CurrentBlock    types.Hash
	GenesisBlock    types.Hash
}
type getBlockHashesData struct {
	Hash   types.Hash
	Amount uint64
}
type getBlockHashesFromNumberData struct {
	Number uint64
	Amount uint64
}

func enc(v interface{}) []byte {
	b, err := rlp.EncodeToBytes(v)
	if err != nil {
		panic(err)
	}
	return b
}

var unknownHash = types.NewHash([]byte("verif-c15-unknown-hash"))

func unknownHashN(i int) types.Hash {
	var b [8]byte
	binary.BigEndian.PutUint64(b[:], uint64(i))
	return types.NewHash(append([]byte("verif-c15-unknown-"), b[:]...))
}

type namedU64 struct {
	name string
	val  func(e *env) uint64
}

func constU(name string, v uint64) namedU64 {
	return namedU64{name, func(*env) uint64 { return v }}
}

var boundaryU64 = []namedU64{
	constU("0", 0), constU("1", 1), constU("127", 127), constU("128", 128), constU("129", 129), constU("511", 511), constU("512", 512), constU("513", 513),
	{"H", func(e *env) uint64 { return e.H }}, {"H+1", func(e *env) uint64 { return e.H + 1 }},
	constU("2^63", 1<<63), constU("2^64-1", ^uint64(0)),
}

type namedHash struct {
	name  string
	known bool
	val   func(e *env) types.Hash
}

var boundaryHashes = []namedHash{
	{"genesis", true, func(e *env) types.Hash { return e.genesis }},
	{"frontier", true, func(e *env) types.Hash { return e.frontier }},
	{"mid", true, func(e *env) types.Hash { return e.mid }},
	{"unknown", false, func(e *env) types.Hash { return unknownHash }},
	{"zero", false, func(e *env) types.Hash { return types.ZeroHash }},
}

var listLens = []int{0, 1, 128, 129, 600}

func knownList(e *env, n int) []types.Hash {
	out := make([]types.Hash, n)
	for i := range out {
		out[i] = e.byHeight[e.H-uint64(i)%e.H] // frontier downwards, cycling on a short chain
	}
	return out
}
func unknownList(n int) []types.Hash {
	out := make([]types.Hash, n)
	for i := range out {
		out[i] = unknownHashN(i)
	}
	return out
}

// forgedMomentum is an unsigned momentum a peer can make up: correct hash for its content, chosen parent and height.
func forgedMomentum(e *env, parent types.Hash, height uint64, salt byte, signedGarbage bool) *nom.Momentum {
	m := &nom.Momentum{
		Version:         1,
		ChainIdentifier: e.chainID,
		PreviousHash:    parent,
		Height:          height,
		TimestampUnix:   uint64(1000000000 + 10*int64(e.H+1)),
		Data:            []byte{salt},
		Content:         nom.MomentumContent{},
	}
	if signedGarbage {
		m.PublicKey = crypto.Keccak256([]byte("verif-c15-pubkey"))
		m.Signature = append(crypto.Keccak256([]byte("sig-a")), crypto.Keccak256([]byte("sig-b"))...)
	}
	m.Hash = m.ComputeHash()
	return m
}

func garbageAccountBlock(variant int) *nom.AccountBlock {
	b := &nom.AccountBlock{Amount: big.NewInt(0)}
	switch variant {
	case 0: // all zero
	case 1: // plausible header, no signature
		b.Version, b.ChainIdentifier, b.BlockType = 1, 100, nom.BlockTypeUserSend
		b.Address, b.ToAddress = g.User1.Address, g.User2.Address
		b.Height = 1
		b.Amount = big.NewInt(5)
		b.TokenStandard = types.ZnnTokenStandard
		b.Hash = b.ComputeHash()
	case 2: // contract-send type from a user address, huge numbers
		b.Version, b.ChainIdentifier, b.BlockType = ^uint64(0), ^uint64(0), nom.BlockTypeContractSend
		b.Address = g.User1.Address
		b.Height = ^uint64(0)
		b.Amount = new(big.Int).Lsh(big.NewInt(1), 300)
		b.FusedPlasma, b.Difficulty = ^uint64(0), ^uint64(0)
	case 3: // receive of an unknown send, garbage key and signature, unknown block type
		b.Version, b.ChainIdentifier, b.BlockType = 1, 100, 77
		b.Address = g.User1.Address
		b.Height = 0
		b.FromBlockHash = unknownHash
		b.PublicKey = []byte{1, 2, 3}
		b.Signature = []byte{4, 5, 6}
	case 4: // descendants nested 40 deep
		cur := b
		for i := 0; i < 40; i++ {
			c := &nom.AccountBlock{Amount: big.NewInt(0), BlockType: nom.BlockTypeContractSend, Height: uint64(i)}
			cur.DescendantBlocks = []*nom.AccountBlock{c}
			cur = c
		}
		b.BlockType = nom.BlockTypeContractReceive
		b.Address = types.PillarContract
		b.Height = 1
	}
	return b
}

func malformedTriple(code uint64, valid func(e *env) []byte, wrongKind []byte) []*letter {
	cn := codeName(code)
	return []*letter{
		{Name: cn + ":empty", Code: code, CodeName: cn, Kind: "empty", Class: "empty-payload", Reply: -1, Build: func(*env) []byte { return nil }},
		{Name: cn + ":wrong-kind", Code: code, CodeName: cn, Kind: "wrong-kind", Class: "wrong-rlp-kind", Reply: -1, Build: func(*env) []byte { return wrongKind }},
		{Name: cn + ":truncated", Code: code, CodeName: cn, Kind: "truncated", Class: "truncated", Reply: -1, Build: func(e *env) []byte {
			v := valid(e)
			return v[:len(v)-1]
		}},
	}
}

func amountClass(a uint64) string {
	switch {
	case a == 0:
		return "amount-0"
	case a > 512:
		return "amount>512"
	}
	return "amount<=512"
}

// alphabet builds the full list of letters (the order is part of the enumeration and must not depend on anything).
func alphabet() []*letter {
	var A []*letter
	add := func(l ...*letter) { A = append(A, l...) }
	rlpString := enc("verif")               // an RLP string where every handler expects a list
	rlpListOfList := enc([][]uint{{1}, {}}) // a list whose elements are lists (wrong element kind for hash lists)

	// --- StatusMsg -----------------------------------------------------------------------------------------------
	status := func(name string, f func(e *env) statusData, ok bool) *letter {
		return &letter{Name: "StatusMsg(" + name + ")", Code: protocol.StatusMsg, CodeName: "StatusMsg", Kind: "valid", Class: name, Reply: -1, Status: ok, Async: ok,
			Build: func(e *env) []byte { return enc(f(e)) }}
	}
	base := func(e *env) statusData {
		return statusData{ProtocolVersion: protoVersion, NetworkId: uint32(e.chainID), TD: 0, CurrentBlock: e.genesis, GenesisBlock: e.genesis}
	}
	add(malformedTriple(protocol.StatusMsg, func(e *env) []byte { return enc(base(e)) }, rlpString)...)
	add(status("td=0", base, true))
	add(status("td=H+10,head=unknown", func(e *env) statusData { s := base(e); s.TD = e.H + 10; s.CurrentBlock = unknownHash; return s }, true))
	add(status("td=2^64-1,head=zero", func(e *env) statusData { s := base(e); s.TD = ^uint64(0); s.CurrentBlock = types.ZeroHash; return s }, true))
	add(status("wrong-genesis", func(e *env) statusData { s := base(e); s.GenesisBlock = unknownHash; return s }, false))
	add(status("wrong-network", func(e *env) statusData { s := base(e); s.NetworkId++; return s }, false))
	add(status("wrong-version", func(e *env) statusData { s := base(e); s.ProtocolVersion = 60; return s }, false))

	// --- hash-list messages ------------------------------------------------------------------------------------
	hashList := func(code uint64, async bool, reply int) {
		cn := codeName(code)
		add(malformedTriple(code, func(e *env) []byte { return enc(knownList(e, 2)) }, rlpListOfList)...)
		for _, n := range listLens {
			n := n
			add(&letter{Name: fmt.Sprintf("%s(unknown*%d)", cn, n), Code: code, CodeName: cn, Kind: "valid", Class: fmt.Sprintf("unknown*%d", n), Reply: reply, Async: async,
				Build: func(e *env) []byte { return enc(unknownList(n)) }})
		}
		for _, n := range listLens[1:] {
			n := n
			add(&letter{Name: fmt.Sprintf("%s(known*%d)", cn, n), Code: code, CodeName: cn, Kind: "valid", Class: fmt.Sprintf("known*%d", n), Reply: reply, Async: async,
				Build: func(e *env) []byte { return enc(knownList(e, n)) }})
		}
	}
	hashList(protocol.NewBlockHashesMsg, true, -1)

	// --- TxMsg -------------------------------------------------------------------------------------------------
	add(malformedTriple(protocol.TxMsg, func(e *env) []byte { return enc([]*nom.AccountBlock{garbageAccountBlock(1)}) }, rlpString)...)
	tx := func(name string, f func(e *env) []byte) {
		add(&letter{Name: "TxMsg(" + name + ")", Code: protocol.TxMsg, CodeName: "TxMsg", Kind: "valid", Class: name, Reply: -1, Async: true, Build: f})
	}
	tx("none", func(*env) []byte { return enc([]*nom.AccountBlock{}) })
	for v, name := range []string{"zero-block", "unsigned-send", "contract-send-huge", "garbage-receive", "nested-descendants"} {
		v := v
		tx(name, func(*env) []byte { return enc([]*nom.AccountBlock{garbageAccountBlock(v)}) })
	}
	tx("element-empty-string", func(*env) []byte { return []byte{0xC1, 0x80} })
	tx("element-empty-list", func(*env) []byte { return []byte{0xC1, 0xC0} })

	// --- GetBlockHashesMsg -----------------------------------------------------------------------------------------
	add(malformedTriple(protocol.GetBlockHashesMsg, func(e *env) []byte { return enc(getBlockHashesData{e.genesis, 1}) }, rlpString)...)
	for _, h := range boundaryHashes {
		for _, a := range boundaryU64 {
			h, a := h, a
			cls := "known-hash"
			if !h.known {
				cls = "unknown-hash"
			}
			add(&letter{Name: fmt.Sprintf("GetBlockHashesMsg(%s,%s)", h.name, a.name), Code: protocol.GetBlockHashesMsg, CodeName: "GetBlockHashesMsg", Kind: "valid", Class: cls,
				Reply: protocol.BlockHashesMsg, AmountOf: a.val, CapClass: func(e *env) string { return amountClass(a.val(e)) }, Build: func(e *env) []byte { return enc(getBlockHashesData{h.val(e), a.val(e)}) }})
		}
	}

	// --- BlockHashesMsg ----------------------------------------------------------------------------------------
	hashList(protocol.BlockHashesMsg, true, -1)

	// --- GetBlocksMsg ------------------------------------------------------------------------------------------
	hashList(protocol.GetBlocksMsg, false, protocol.BlocksMsg)

	// --- BlocksMsg -----------------------------------------------------------------------------------------------
	dm := func(m *nom.Momentum, blocks ...*nom.AccountBlock) *nom.DetailedMomentum {
		if blocks == nil {
			blocks = []*nom.AccountBlock{}
		}
		return &nom.DetailedMomentum{Momentum: m, AccountBlocks: blocks}
	}
	add(malformedTriple(protocol.BlocksMsg, func(e *env) []byte {
		return enc([]*nom.DetailedMomentum{dm(forgedMomentum(e, e.frontier, e.H+1, 0, false))})
	}, rlpString)...)
	blocks := func(name string, f func(e *env) []byte) {
		add(&letter{Name: "BlocksMsg(" + name + ")", Code: protocol.BlocksMsg, CodeName: "BlocksMsg", Kind: "valid", Class: name, Reply: -1, Async: true, Build: f})
	}
	blocks("none", func(*env) []byte { return enc([]*nom.DetailedMomentum{}) })
	blocks("forged:h=H+1,parent=frontier", func(e *env) []byte {
		return enc([]*nom.DetailedMomentum{dm(forgedMomentum(e, e.frontier, e.H+1, 0, false))})
	})
	blocks("forged:h=0,parent=frontier", func(e *env) []byte {
		return enc([]*nom.DetailedMomentum{dm(forgedMomentum(e, e.frontier, 0, 0, false))})
	})
	blocks("forged:h=1,parent=genesis", func(e *env) []byte {
		return enc([]*nom.DetailedMomentum{dm(forgedMomentum(e, e.genesis, 1, 0, false))})
	})
	blocks("own-frontier", func(e *env) []byte { return enc([]*nom.DetailedMomentum{e.n.Detailed(e.H)}) })
	blocks("forged*129", func(e *env) []byte {
		var l []*nom.DetailedMomentum
		for i := 0; i < 129; i++ {
			l = append(l, dm(forgedMomentum(e, e.frontier, e.H+1+uint64(i), byte(i), false)))
		}
		return enc(l)
	})
	blocks("element-empty-list", func(*env) []byte { return []byte{0xC1, 0xC0} })
	blocks("momentum-empty-list", func(*env) []byte { return []byte{0xC3, 0xC2, 0xC0, 0xC0} })
	blocks("momentum-empty-string", func(*env) []byte { return []byte{0xC3, 0xC2, 0x80, 0xC0} })

	// --- NewBlockMsg ---------------------------------------------------------------------------------------------
	add(malformedTriple(protocol.NewBlockMsg, func(e *env) []byte { return enc(dm(forgedMomentum(e, e.frontier, e.H+1, 0, false))) }, rlpString)...)
	newBlock := func(name string, f func(e *env) []byte) {
		add(&letter{Name: "NewBlockMsg(" + name + ")", Code: protocol.NewBlockMsg, CodeName: "NewBlockMsg", Kind: "valid", Class: name, Reply: -1, Async: true, Build: f})
	}
	heights := []namedU64{constU("0", 0), constU("1", 1), {"H", func(e *env) uint64 { return e.H }}, {"H+1", func(e *env) uint64 { return e.H + 1 }}, {"H+2", func(e *env) uint64 { return e.H + 2 }}}
	for _, p := range boundaryHashes[:2] { // known parents: genesis, frontier
		for _, h := range heights {
			p, h := p, h
			newBlock(fmt.Sprintf("forged:h=%s,parent=%s", h.name, p.name), func(e *env) []byte { return enc(dm(forgedMomentum(e, p.val(e), h.val(e), 0, false))) })
		}
	}
	newBlock("forged:h=H+1,parent=unknown", func(e *env) []byte { return enc(dm(forgedMomentum(e, unknownHash, e.H+1, 0, false))) })
	newBlock("forged:h=H+1,parent=frontier,garbage-signature", func(e *env) []byte { return enc(dm(forgedMomentum(e, e.frontier, e.H+1, 0, true))) })
	newBlock("forged:h=H+1,parent=frontier,garbage-account-block", func(e *env) []byte {
		return enc(dm(forgedMomentum(e, e.frontier, e.H+1, 1, false), garbageAccountBlock(1)))
	})
	newBlock("own-frontier", func(e *env) []byte { return enc(e.n.Detailed(e.H)) })
	newBlock("momentum-empty-list", func(*env) []byte { return []byte{0xC2, 0xC0, 0xC0} })
	newBlock("momentum-empty-string", func(*env) []byte { return []byte{0xC2, 0x80, 0xC0} })
	newBlock("blocks-wrong-kind", func(e *env) []byte {
		m := enc(forgedMomentum(e, e.frontier, e.H+1, 0, false))
		body := append(append([]byte{}, m...), 0x80)
		return append(rlpListHeader(len(body)), body...)
	})

	// --- GetBlockHashesFromNumberMsg ---------------------------------------------------------------------------
	add(malformedTriple(protocol.GetBlockHashesFromNumberMsg, func(e *env) []byte { return enc(getBlockHashesFromNumberData{1, 1}) }, rlpString)...)
	for _, n := range boundaryU64 {
		for _, a := range boundaryU64 {
			n, a := n, a
			add(&letter{Name: fmt.Sprintf("GetBlockHashesFromNumberMsg(%s,%s)", n.name, a.name), Code: protocol.GetBlockHashesFromNumberMsg, CodeName: "GetBlockHashesFromNumberMsg",
				Kind: "valid", Class: "number-" + n.name, Reply: protocol.BlockHashesMsg, AmountOf: a.val,
				CapClass: func(e *env) string {
					// the handler clamps the amount and then looks up height number+amount-1; when that is not a height
					// of the chain it recomputes the amount from the frontier
					am := a.val(e)
					if am > 512 {
						am = 512
					}
					if last := n.val(e) + am - 1; last == 0 || last > e.H {
						return "last-height-not-on-chain"
					}
					return amountClass(a.val(e))
				},
				Build: func(e *env) []byte { return enc(getBlockHashesFromNumberData{n.val(e), a.val(e)}) }})
		}
	}

	// --- unknown codes -----------------------------------------------------------------------------------------
	for _, code := range []uint64{9, 1 << 40} {
		code := code
		cn := codeName(code)
		add(&letter{Name: cn + ":empty", Code: code, CodeName: cn, Kind: "unknown-code", Class: "unknown-code", Reply: -1, Build: func(*env) []byte { return nil }})
		add(&letter{Name: cn + ":hash-list", Code: code, CodeName: cn, Kind: "unknown-code", Class: "unknown-code", Reply: -1, Build: func(e *env) []byte { return enc(knownList(e, 2)) }})
	}

	// --- oversize ------------------------------------------------------------------------------------------------
	add(&letter{Name: "StatusMsg:oversize(10MiB+1)", Code: protocol.StatusMsg, CodeName: "StatusMsg", Kind: "oversize", Class: "oversize", Reply: -1, Oversize: true,
		Build: func(*env) []byte { return nil }})
	add(&letter{Name: "NewBlockHashesMsg:oversize(10MiB+1)", Code: protocol.NewBlockHashesMsg, CodeName: "NewBlockHashesMsg", Kind: "oversize", Class: "oversize", Reply: -1, Oversize: true, Async: true,
		Build: func(*env) []byte { return nil }})

	return A
}

func rlpListHeader(n int) []byte {
	if n < 56 {
		return []byte{0xC0 + byte(n)}
	}
	var b []byte
	for x := n; x > 0; x >>= 8 {
		b = append([]byte{byte(x)}, b...)
	}
	return append([]byte{0xF7 + byte(len(b))}, b...)
}

// oversizePayload is a well-formed hash list of exactly oversizeLen bytes: list header (5 bytes) followed by hashes and
// one padding string. It is generated on the fly so that the harness can count how much of it the node reads.
func oversizeBytes() []byte {
	// content length so that header+content = oversizeLen
	header := rlpListHeader(oversizeLen - 4) // 0xF9+3 bytes = 4 byte header for lengths < 2^24
	if len(header) != 4 {
		panic("unexpected header size")
	}
	content := oversizeLen - 4
	buf := make([]byte, 0, oversizeLen)
	buf = append(buf, header...)
	h := unknownHash
	for content >= 33 {
		buf = append(buf, 0xA0)
		buf = append(buf, h[:]...)
		content -= 33
	}
	for ; content > 0; content-- {
		buf = append(buf, 0x01) // single-byte strings (wrong size for a hash: rejected only after being read)
	}
	return buf
}

var alphaIndex map[string]*letter
var alpha []*letter

func init() {
	alpha = alphabet()
	alphaIndex = map[string]*letter{}
	for _, l := range alpha {
		if alphaIndex[l.Name] != nil {
			panic("duplicate letter " + l.Name)
		}
		alphaIndex[l.Name] = l
	}
}

// extraLetters are used by scripted (responder) sessions only: they refer to forged momentums by hash, which only makes
// sense as an answer to the node's own requests or as an announcement followed by such an answer.
var extraLetters = map[string]*letter{}

func forgedFor(e *env, tag string) *nom.Momentum {
	switch tag {
	case "h=0":
		return forgedMomentum(e, e.genesis, 0, 0xD0, false)
	case "h=1":
		return forgedMomentum(e, e.genesis, 1, 0xD1, false)
	case "h=2":
		return forgedMomentum(e, e.genesis, 2, 0xD2, false)
	case "h=H+1":
		return forgedMomentum(e, e.frontier, e.H+1, 0xD3, false)
	}
	panic("unknown forged tag " + tag)
}

var forgedTags = []string{"h=0", "h=1", "h=2", "h=H+1"}

func init() {
	addX := func(l *letter) {
		l.Kind, l.Reply, l.Async = "valid", -1, true
		l.CodeName = codeName(l.Code)
		extraLetters[l.Name] = l
	}
	addX(&letter{Name: "R:hashes[]", Code: protocol.BlockHashesMsg, Class: "scripted", Build: func(*env) []byte { return enc([]types.Hash{}) }})
	addX(&letter{Name: "R:hashes[unknown]", Code: protocol.BlockHashesMsg, Class: "scripted", Build: func(*env) []byte { return enc([]types.Hash{unknownHash}) }})
	addX(&letter{Name: "R:hashes[genesis]", Code: protocol.BlockHashesMsg, Class: "scripted", Build: func(e *env) []byte { return enc([]types.Hash{e.genesis}) }})
	addX(&letter{Name: "R:hashes[frontier]", Code: protocol.BlockHashesMsg, Class: "scripted", Build: func(e *env) []byte { return enc([]types.Hash{e.frontier}) }})
	addX(&letter{Name: "R:blocks[]", Code: protocol.BlocksMsg, Class: "scripted", Build: func(*env) []byte { return enc([]*nom.DetailedMomentum{}) }})
	addX(&letter{Name: "R:blocks[own-frontier]", Code: protocol.BlocksMsg, Class: "scripted", Build: func(e *env) []byte { return enc([]*nom.DetailedMomentum{e.n.Detailed(e.H)}) }})
	for _, tag := range forgedTags {
		tag := tag
		addX(&letter{Name: "R:hashes[forged:" + tag + "]", Code: protocol.BlockHashesMsg, Class: "scripted", Build: func(e *env) []byte { return enc([]types.Hash{forgedFor(e, tag).Hash}) }})
		addX(&letter{Name: "R:blocks[forged:" + tag + "]", Code: protocol.BlocksMsg, Class: "scripted", Build: func(e *env) []byte {
			return enc([]*nom.DetailedMomentum{{Momentum: forgedFor(e, tag), AccountBlocks: []*nom.AccountBlock{}}})
		}})
		addX(&letter{Name: "NewBlockHashesMsg([forged:" + tag + "])", Code: protocol.NewBlockHashesMsg, Class: "scripted", Build: func(e *env) []byte { return enc([]types.Hash{forgedFor(e, tag).Hash}) }})
	}
}

func lookupLetter(name string) *letter {
	if l := alphaIndex[name]; l != nil {
		return l
	}
	if l := extraLetters[name]; l != nil {
		return l
	}
	panic("unknown letter " + name)
}
