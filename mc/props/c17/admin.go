package c17

import (
	"fmt"
	"sort"
	"strings"

	g "github.com/zenon-network/go-zenon/chain/genesis/mock"
	"github.com/zenon-network/go-zenon/common"
	"github.com/zenon-network/go-zenon/common/types"
	"github.com/zenon-network/go-zenon/vm/constants"
	"github.com/zenon-network/go-zenon/vm/embedded/definition"

	"verifmc/internal/xs"
)

// Administration of sporks. "Activation momentum" in implementation/spork.go is the frontier of the receive block's
// context, i.e. the momentum the contract receive acknowledges, which for an embedded contract is the momentum that
// CONFIRMS the ActivateSpork send: EnforcementHeight = that height + SporkMinHeightDelay. The effect of a spork-contract
// call becomes part of the ledger with the momentum that confirms the contract's receive block (one later).

type sporkModel struct {
	Activated bool
	E         uint64
}

type adminAct struct {
	Name     string
	At       uint64 // submitted when the frontier is at this height
	Call     func() call
	SendOK   bool
	Effect   func(m map[types.Hash]*sporkModel, sendHash types.Hash, conf uint64) // nil: must have no effect
	Counter  string
	sendHash types.Hash
	accepted bool
}

const (
	commStart = 8
	commEnd   = 11
)

func runAdmin(c *xs.Ctx, r *xs.Result, it item) {
	savedAddr, savedStart, savedEnd := types.CommunitySporkAddress, definition.CommunitySporkAddressStartHeight, definition.CommunitySporkAddressEndHeight
	types.CommunitySporkAddress = g.Pillar4.Address
	definition.CommunitySporkAddressStartHeight = commStart
	definition.CommunitySporkAddressEndHeight = commEnd
	defer func() {
		types.CommunitySporkAddress, definition.CommunitySporkAddressStartHeight, definition.CommunitySporkAddressEndHeight = savedAddr, savedStart, savedEnd
	}()

	x := newCluster(c, r, it)
	defer x.destroy()
	delay := constants.SporkMinHeightDelay
	f := it.Feature
	admin, community := g.Spork, g.Pillar4

	var mainID, secondID types.Hash
	unknownID := types.HexToHashPanic("00000000000000000000000000000000000000000000000000000000000c0017")
	create := func(name string) func(m map[types.Hash]*sporkModel, h types.Hash, conf uint64) {
		return func(m map[types.Hash]*sporkModel, h types.Hash, conf uint64) { m[h] = &sporkModel{} }
	}
	activate := func(id *types.Hash) func(m map[types.Hash]*sporkModel, h types.Hash, conf uint64) {
		return func(m map[types.Hash]*sporkModel, h types.Hash, conf uint64) {
			m[*id].Activated = true
			m[*id].E = conf + delay
		}
	}
	acts := []*adminAct{
		{Name: "CreateSpork by a plain user key", At: 1, SendOK: false, Counter: "admin_refused_at_send", Call: func() call { return createCall("by-user", g.User4) }},
		{Name: "CreateSpork by a producing pillar's key", At: 1, SendOK: false, Counter: "admin_refused_at_send", Call: func() call { return createCall("by-pillar", g.Pillar1) }},
		{Name: "CreateSpork(main) by the spork key", At: 1, SendOK: true, Counter: "admin_effective", Effect: create("main"), Call: func() call { return createCall("spork-main", admin) }},
		{Name: "CreateSpork(second) by the spork key", At: 1, SendOK: true, Counter: "admin_effective", Effect: create("second"), Call: func() call { return createCall("spork-second", admin) }},
		{Name: "ActivateSpork(main) by the community key before its window", At: 2, SendOK: true, Counter: "admin_no_effect_at_receive", Call: func() call { return activateCall(mainID, community) }},
		{Name: "ActivateSpork(unknown id) by the spork key", At: 3, SendOK: true, Counter: "admin_no_effect_at_receive", Call: func() call { return activateCall(unknownID, admin) }},
		{Name: "ActivateSpork(main) by a plain user key", At: 3, SendOK: false, Counter: "admin_refused_at_send", Call: func() call { return activateCall(mainID, g.User4) }},
		{Name: "ActivateSpork(main) by the spork key", At: 3, SendOK: true, Counter: "admin_effective", Effect: activate(&mainID), Call: func() call { return activateCall(mainID, admin) }},
		{Name: "ActivateSpork(second) by the community key before its window", At: 5, SendOK: true, Counter: "admin_no_effect_at_receive", Call: func() call { return activateCall(secondID, community) }},
		{Name: "second ActivateSpork(main) by the spork key before the enforcement height", At: 6, SendOK: true, Counter: "admin_no_effect_at_receive", Call: func() call { return activateCall(mainID, admin) }},
		{Name: "ActivateSpork(second) by the community key inside its window", At: 8, SendOK: true, Counter: "admin_effective", Effect: activate(&secondID), Call: func() call { return activateCall(secondID, community) }},
		{Name: "second ActivateSpork(second) by the community key inside its window", At: 9, SendOK: true, Counter: "admin_no_effect_at_receive", Call: func() call { return activateCall(secondID, community) }},
		{Name: "third ActivateSpork(main) by the spork key after the enforcement height", At: 11, SendOK: true, Counter: "admin_no_effect_at_receive", Call: func() call { return activateCall(mainID, admin) }},
		{Name: "ActivateSpork(second) by the spork key when already activated by the community key", At: 12, SendOK: true, Counter: "admin_no_effect_at_receive", Call: func() call { return activateCall(secondID, admin) }},
	}
	// the community key creates a spork at EVERY height: effective iff the confirming momentum is inside [start, end)
	for h := uint64(1); h <= 12; h++ {
		h := h
		a := &adminAct{Name: fmt.Sprintf("CreateSpork by the community key (window [%d,%d)) confirmed by momentum %d", commStart, commEnd, h+1), At: h, SendOK: true,
			Call: func() call { return createCall(fmt.Sprintf("community-%d", h), community) }}
		if h+1 >= commStart && h+1 < commEnd {
			a.Effect = create("community")
			a.Counter = "community_created_inside_window"
		} else {
			a.Counter = "community_refused_outside_window"
		}
		acts = append(acts, a)
	}
	sort.SliceStable(acts, func(i, j int) bool { return acts[i].At < acts[j].At })

	type pending struct {
		from uint64
		act  *adminAct
		conf uint64
	}
	var queue []pending
	model := map[types.Hash]*sporkModel{}
	E := make([]uint64, 3) // enforcement height of the feature's spork for the probe oracle, known once main is activated
	const last = uint64(19)
	var probes []probe
	for h := uint64(1); h <= last && !x.failed; h++ {
		if x.P.Height() != h {
			panic("height bookkeeping")
		}
		for _, a := range acts {
			if a.At != h {
				continue
			}
			v := x.submit(a.Call(), x.P.Frontier().Identifier())
			what := fmt.Sprintf("%s (frontier %d)", a.Name, h)
			x.checkPaths(what, v)
			if v.Accepted != a.SendOK {
				if v.Accepted {
					x.violate("C17:spork-admin-call-by-wrong-key-accepted", fmt.Sprintf("%s is accepted as a send block", what))
				} else {
					x.violate("C17:spork-admin-call-refused", fmt.Sprintf("%s is refused: %v", what, v.OwnErr))
				}
				x.failed = true
				break
			}
			if !v.Accepted {
				if v.OwnErr != constants.ErrPermissionDenied {
					x.violate("C17:spork-admin-call-refused-for-another-reason", fmt.Sprintf("%s is refused with %q, expected permission denied", what, v.OwnErr))
				}
				r.Count(a.Counter, 1)
				continue
			}
			a.accepted, a.sendHash = true, v.Block.Hash
			switch {
			case strings.HasPrefix(a.Name, "CreateSpork(main)"):
				mainID = v.Block.Hash
				bind(f, mainID, true)
			case strings.HasPrefix(a.Name, "CreateSpork(second)"):
				secondID = v.Block.Hash
				types.ImplementedSporksMap[secondID] = true // never bound to a feature; must not stop the nodes of this execution
			}
			// confirmed by momentum h+1, received by the contract acknowledging h+1, effect in the ledger from h+2
			queue = append(queue, pending{from: h + 2, act: a, conf: h + 1})
		}
		if x.failed {
			break
		}
		if h >= 3 && h <= 13 {
			probes = append(probes, x.probeAll(h, E, f)...)
		}
		x.step()
		if x.failed {
			break
		}
		H := x.P.Height()
		for _, p := range queue {
			if p.from == H && p.act.Effect != nil {
				p.act.Effect(model, p.act.sendHash, p.conf)
				if strings.HasPrefix(p.act.Name, "ActivateSpork(main) by the spork key") {
					E[f] = model[mainID].E
				}
			}
		}
		// the contract's spork list against the model, after every momentum
		got := sporkList(x.P)
		if diff := diffSporks(model, got); diff != "" {
			recent := ""
			for _, p := range queue {
				if p.from == H {
					recent += p.act.Name + "; "
				}
			}
			key := "C17:spork-list-differs-from-model"
			if strings.Contains(recent, "second ActivateSpork") || strings.Contains(recent, "third ActivateSpork") || strings.Contains(recent, "already activated") {
				key = "C17:repeated-activation-takes-effect"
			} else if strings.Contains(recent, "community key") {
				key = "C17:community-key-effective-outside-its-window-or-ineffective-inside"
			} else if strings.Contains(recent, "unknown id") || strings.Contains(recent, "user key") {
				key = "C17:invalid-spork-admin-call-takes-effect"
			}
			x.violate(key, fmt.Sprintf("after momentum %d (receives of: %s) the spork contract's list differs from the model: %s", H, recent, diff))
			x.failed = true
		}
	}
	if x.failed {
		return
	}
	for i := 0; i < 2; i++ {
		x.step()
	}
	// receive status of every accepted admin call: success iff it was to take effect
	recv := x.receives()
	for _, a := range acts {
		if !a.accepted {
			continue
		}
		rb := recv[a.sendHash]
		if rb == nil {
			x.violate("C17:spork-admin-call-never-received", a.Name)
			continue
		}
		status := common.BytesToUint64(rb.Data)
		if (status == 1) != (a.Effect != nil) {
			x.violate("C17:spork-admin-call-status-differs-from-model", fmt.Sprintf("%s: receive status %d", a.Name, status))
			continue
		}
		r.Count(a.Counter, 1)
	}
	if m := model[mainID]; m == nil || !m.Activated || m.E != 4+delay {
		panic(fmt.Sprintf("admin model: main spork %+v", m))
	}
	x.judgeReceives(probes, E)
	x.finalSync()
}

func diffSporks(model map[types.Hash]*sporkModel, got map[types.Hash]*definition.Spork) string {
	var out []string
	for id, m := range model {
		s := got[id]
		if s == nil {
			out = append(out, fmt.Sprintf("spork %.8s missing", id.String()))
			continue
		}
		if s.Activated != m.Activated || s.EnforcementHeight != m.E {
			out = append(out, fmt.Sprintf("spork %q: contract has activated=%v enforcementHeight=%d, model activated=%v enforcementHeight=%d", s.Name, s.Activated, s.EnforcementHeight, m.Activated, m.E))
		}
	}
	for id, s := range got {
		if model[id] == nil {
			out = append(out, fmt.Sprintf("unexpected spork %q (activated=%v)", s.Name, s.Activated))
		}
	}
	sort.Strings(out)
	return strings.Join(out, "; ")
}
