package ops

import (
	"math/big"

	g "github.com/zenon-network/go-zenon/chain/genesis/mock"
	"github.com/zenon-network/go-zenon/chain/nom"
	"github.com/zenon-network/go-zenon/common/types"
	"github.com/zenon-network/go-zenon/vm/constants"
	"github.com/zenon-network/go-zenon/vm/embedded/definition"
)

func call(o Op, to types.Address, zts types.ZenonTokenStandard, amount *big.Int, data []byte) *nom.AccountBlock {
	return &nom.AccountBlock{BlockType: nom.BlockTypeUserSend, Address: Users[o.A].Address, ToAddress: to, TokenStandard: zts, Amount: amount, Data: data}
}

func init() {
	znn, qsr := types.ZnnTokenStandard, types.QsrTokenStandard
	// --- stake
	Calls["stake"] = func(o Op) *nom.AccountBlock { // V = amount (in Zexp), B = duration multiple (0 => min)
		d := int64(constants.StakeTimeMinSec)
		if o.B > 0 {
			d = int64(o.B) * constants.StakeTimeUnitSec
		}
		return call(o, types.StakeContract, znn, Big(o.V*g.Zexp), definition.ABIStake.PackMethodPanic(definition.StakeMethodName, d))
	}
	Calls["stake-bad-duration"] = func(o Op) *nom.AccountBlock { // accepted send? rejected at send time; either way an outcome
		return call(o, types.StakeContract, znn, Big(o.V*g.Zexp), definition.ABIStake.PackMethodPanic(definition.StakeMethodName, int64(7)))
	}
	Calls["stake-qsr"] = func(o Op) *nom.AccountBlock { // wrong token: must be refunded or refused
		return call(o, types.StakeContract, qsr, Big(o.V*g.Zexp), definition.ABIStake.PackMethodPanic(definition.StakeMethodName, int64(constants.StakeTimeMinSec)))
	}
	Calls["stake-collect"] = func(o Op) *nom.AccountBlock {
		return call(o, types.StakeContract, znn, Big(0), definition.ABIStake.PackMethodPanic(definition.CollectRewardMethodName))
	}
	// --- plasma
	Calls["fuse"] = func(o Op) *nom.AccountBlock { // fuse V QSR for user B
		return call(o, types.PlasmaContract, qsr, Big(o.V*g.Zexp), definition.ABIPlasma.PackMethodPanic(definition.FuseMethodName, Users[o.B].Address))
	}
	Calls["fuse-znn"] = func(o Op) *nom.AccountBlock { // wrong token
		return call(o, types.PlasmaContract, znn, Big(o.V*g.Zexp), definition.ABIPlasma.PackMethodPanic(definition.FuseMethodName, Users[o.B].Address))
	}
	Calls["cancel-fuse-unknown"] = func(o Op) *nom.AccountBlock {
		return call(o, types.PlasmaContract, znn, Big(0), definition.ABIPlasma.PackMethodPanic(definition.CancelFuseMethodName, types.HexToHashPanic("00000000000000000000000000000000000000000000000000000000000000aa")))
	}
	// --- pillar
	Calls["delegate"] = func(o Op) *nom.AccountBlock { // delegate to pillar B (1..3)
		names := []string{g.Pillar1Name, g.Pillar2Name, g.Pillar3Name, "no-such-pillar"}
		return call(o, types.PillarContract, znn, Big(0), definition.ABIPillars.PackMethodPanic(definition.DelegateMethodName, names[o.B]))
	}
	Calls["undelegate"] = func(o Op) *nom.AccountBlock {
		return call(o, types.PillarContract, znn, Big(0), definition.ABIPillars.PackMethodPanic(definition.UndelegateMethodName))
	}
	Calls["pillar-deposit-qsr"] = func(o Op) *nom.AccountBlock {
		return call(o, types.PillarContract, qsr, Big(o.V*g.Zexp), definition.ABIPillars.PackMethodPanic(definition.DepositQsrMethodName))
	}
	Calls["pillar-withdraw-qsr"] = func(o Op) *nom.AccountBlock {
		return call(o, types.PillarContract, znn, Big(0), definition.ABIPillars.PackMethodPanic(definition.WithdrawQsrMethodName))
	}
	Calls["pillar-collect"] = func(o Op) *nom.AccountBlock {
		return call(o, types.PillarContract, znn, Big(0), definition.ABIPillars.PackMethodPanic(definition.CollectRewardMethodName))
	}
	// --- sentinel
	Calls["sentinel-deposit-qsr"] = func(o Op) *nom.AccountBlock {
		return call(o, types.SentinelContract, qsr, Big(o.V*g.Zexp), definition.ABISentinel.PackMethodPanic(definition.DepositQsrMethodName))
	}
	Calls["sentinel-register"] = func(o Op) *nom.AccountBlock {
		return call(o, types.SentinelContract, znn, new(big.Int).Set(constants.SentinelZnnRegisterAmount), definition.ABISentinel.PackMethodPanic(definition.RegisterSentinelMethodName))
	}
	// "refund": a call with an amount that passes send-time validation and fails on receive, so that the contract returns
	// the amount through a descendant send (sentinel Register without the QSR deposit; needs >= 5000 ZNN: users 0,1,5..9)
	Calls["refund"] = Calls["sentinel-register"]
	Calls["sentinel-revoke"] = func(o Op) *nom.AccountBlock {
		return call(o, types.SentinelContract, znn, Big(0), definition.ABISentinel.PackMethodPanic(definition.RevokeSentinelMethodName))
	}
	// --- token
	Calls["issue"] = func(o Op) *nom.AccountBlock { // V = total supply, B = variant: 0 ok mintable, 1 max<total (invalid), 2 non-mintable
		total := Big(o.V)
		max := Big(o.V * 2)
		mintable := true
		switch o.B {
		case 1:
			max = Big(o.V - 1)
		case 2:
			mintable = false
			max = Big(o.V)
		}
		return call(o, types.TokenContract, znn, new(big.Int).Set(constants.TokenIssueAmount),
			definition.ABIToken.PackMethodPanic(definition.IssueMethodName, "tok", "TOK", "zenon.network", total, max, uint8(2), mintable, true, false))
	}
	Calls["burn"] = func(o Op) *nom.AccountBlock { // burn V of token T (ZNN/QSR)
		return call(o, types.TokenContract, Tokens[o.T], Big(o.V), definition.ABIToken.PackMethodPanic(definition.BurnMethodName))
	}
	Calls["mint-znn-by-user"] = func(o Op) *nom.AccountBlock { // not the owner: must fail without supply change
		return call(o, types.TokenContract, znn, Big(0), definition.ABIToken.PackMethodPanic(definition.MintMethodName, znn, Big(o.V), Users[o.A].Address))
	}
	// --- raw data / unknown method to a contract with an amount: must be refused at send time or refunded
	Calls["garbage"] = func(o Op) *nom.AccountBlock {
		to := []types.Address{types.StakeContract, types.PlasmaContract, types.PillarContract, types.TokenContract, types.SentinelContract}[o.B]
		return call(o, to, Tokens[o.T], Big(o.V), []byte{1, 2, 3, 4, 5})
	}
	Calls["donate"] = func(o Op) *nom.AccountBlock {
		return call(o, types.AcceleratorContract, Tokens[o.T], Big(o.V), definition.ABICommon.PackMethodPanic(definition.DonateMethodName))
	}
}
