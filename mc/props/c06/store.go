package c06

import (
	"fmt"
	"os"

	"github.com/zenon-network/go-zenon/common"
	"github.com/zenon-network/go-zenon/common/db"
	"github.com/zenon-network/go-zenon/common/types"

	"verifmc/internal/xs"
)

// Store-level part for value classes the ledger traffic of the node-level part never produces ("for every key"): on the
// real leveldb manager, for every state of two keys before a commit (absent, present with an empty value, present with
// a value) and every write of that commit to each of them (untouched, deleted, set to empty, set to a value), rolling
// the commit back must leave the raw store, the frontier view and the view of the parent exactly as they were.

type storeCommit struct {
	hash, prev types.Hash
	height     uint64
}

func (c *storeCommit) Identifier() types.HashHeight { return types.HashHeight{Height: c.height, Hash: c.hash} }
func (c *storeCommit) Previous() types.HashHeight {
	return types.HashHeight{Height: c.height - 1, Hash: c.prev}
}
func (c *storeCommit) Serialize() ([]byte, error) {
	return common.JoinBytes(c.hash.Bytes(), c.prev.Bytes(), common.Uint64ToBytes(c.height)), nil
}

type storeTx struct {
	patch  db.Patch
	commit db.Commit
}

func (t *storeTx) GetCommits() []db.Commit { return []db.Commit{t.commit} }
func (t *storeTx) StealChanges() db.Patch {
	p := t.patch
	t.patch = nil
	return p
}

var storeKeys = [][]byte{{0x41, 0x01}, {0x41, 0x02}}

const (
	stAbsent = iota
	stEmpty
	stValue
	nStates
)
const (
	wNone = iota
	wDelete
	wEmpty
	wValue
	nWrites
)

var stateNames = []string{"absent", "empty", "value"}
var writeNames = []string{"untouched", "delete", "put-empty", "put-value"}

type StoreCase struct {
	Mode   string `json:"mode"` // "store"
	Before [2]int `json:"before"`
	Write  [2]int `json:"write"`
}

func (sc StoreCase) String() string {
	return fmt.Sprintf("before=(%s,%s) commit=(%s,%s)", stateNames[sc.Before[0]], stateNames[sc.Before[1]], writeNames[sc.Write[0]], writeNames[sc.Write[1]])
}

func viewDump(d db.DB) string {
	if d == nil {
		return "<no view>"
	}
	out := ""
	for _, k := range storeKeys {
		v, err := d.Get(k)
		has, herr := d.Has(k)
		out += fmt.Sprintf("%x:has=%v/%v get=%x/%v;", k, has, herr, v, err)
	}
	it := d.NewIterator([]byte{0x41})
	defer it.Release()
	for it.Next() {
		if it.Value() == nil {
			continue // the repository's tombstone convention: a deleted key may stay visible to iteration with a nil value
		}
		out += fmt.Sprintf("scan %x=%x;", it.Key(), it.Value())
	}
	return out
}

// StoreValueCases is also run by C08 (prefix "C08"): "a rollback returns the store to the state before the commit" there.
func StoreValueCases(c *xs.Ctx, r *xs.Result, prefix string, only *StoreCase) {
	storePrefix = prefix
	storeLevel(c, r, only)
}

var storePrefix = "C06"

func storeLevel(c *xs.Ctx, r *xs.Result, only *StoreCase) {
	for b0 := 0; b0 < nStates; b0++ {
		for b1 := 0; b1 < nStates; b1++ {
			for w0 := 0; w0 < nWrites; w0++ {
				for w1 := 0; w1 < nWrites; w1++ {
					sc := StoreCase{"store", [2]int{b0, b1}, [2]int{w0, w1}}
					if only != nil && *only != sc {
						continue
					}
					runStoreCase(c, r, sc)
				}
			}
		}
	}
}

func runStoreCase(c *xs.Ctx, r *xs.Result, sc StoreCase) {
	dir := c.TempDir()
	mgr := db.NewLevelDBManager(dir)
	defer func() {
		mgr.Stop()
		os.RemoveAll(dir)
	}()
	refused := false
	add := func(salt byte, fill func(p db.Patch)) types.HashHeight {
		prev := db.GetFrontierIdentifier(mgr.Frontier())
		cm := &storeCommit{prev: prev.Hash, height: prev.Height + 1}
		cm.hash = types.NewHash(common.JoinBytes(prev.Hash.Bytes(), []byte{salt}))
		p := db.NewPatch()
		fill(p)
		if err := mgr.Add(&storeTx{patch: p, commit: cm}); err != nil {
			refused = true // a refused commit on the frontier is C07's to judge; this case says nothing about rollbacks
		}
		return cm.Identifier()
	}
	// commit 1: the state before
	c1 := add(1, func(p db.Patch) {
		for i, k := range storeKeys {
			switch sc.Before[i] {
			case stEmpty:
				p.Put(k, []byte{})
			case stValue:
				p.Put(k, []byte{0x58, byte(i)})
			}
		}
		p.Put([]byte{0x41, 0x7f}, []byte{1}) // an unrelated key so that no commit is empty
	})
	if refused {
		r.Count("store_cases_commit_refused", 1)
		return
	}
	rawBefore := rawDigest(mgr)
	frontBefore := viewDump(mgr.Frontier())
	// commit 2: the writes
	add(2, func(p db.Patch) {
		for i, k := range storeKeys {
			switch sc.Write[i] {
			case wDelete:
				p.Delete(k)
			case wEmpty:
				p.Put(k, []byte{})
			case wValue:
				p.Put(k, []byte{0x59, byte(i)})
			}
		}
		p.Put([]byte{0x41, 0x7e}, []byte{2})
	})
	if refused {
		r.Count("store_cases_commit_refused", 1)
		return
	}
	// the view of the parent, served while the commit is above it, reads the same undo record
	if got := viewDump(mgr.Get(c1)); got != frontBefore {
		r.Violate(storePrefix+":store:historical-view-below-a-commit-differs-from-the-state-before-it", fmt.Sprintf("%v: view of the parent %s, state before the commit %s", sc, got, frontBefore), sc)
	}
	if err := mgr.Pop(); err != nil {
		r.Violate(storePrefix+":store:pop-fails", fmt.Sprintf("%v: %v", sc, err), sc)
		return
	}
	r.Count("store_cases", 1)
	r.Count("pops_compared", 1)
	r.Add("store_states", frontBefore)
	if got := viewDump(mgr.Frontier()); got != frontBefore {
		r.Violate(storePrefix+":store:pop-does-not-restore-every-key", fmt.Sprintf("%v: after the rollback %s, before the commit %s", sc, got, frontBefore), sc)
		return
	}
	if got := rawDigest(mgr); got != rawBefore {
		r.Violate(storePrefix+":store:pop-does-not-restore-the-raw-store", fmt.Sprintf("%v: raw store (data, undo and redo records) differs from the store before the commit was added", sc), sc)
	}
}

func rawDigest(m db.Manager) string {
	l := db.VerifLevelDB(m)
	if l == nil {
		panic("not a leveldb manager")
	}
	it := l.NewIterator(nil, nil)
	defer it.Release()
	out := ""
	for it.Next() {
		if len(it.Value()) == 0 {
			continue // tombstone left by a delete (as in vnode.Raw with dropTombstones)
		}
		out += fmt.Sprintf("%x=%x;", it.Key(), it.Value())
	}
	return out
}
