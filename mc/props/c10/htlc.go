package c10

import (
	"bytes"
	"crypto/sha256"
	"math"
	"math/big"

	g "github.com/zenon-network/go-zenon/chain/genesis/mock"
	"github.com/zenon-network/go-zenon/chain/nom"
	"github.com/zenon-network/go-zenon/common/crypto"
	"github.com/zenon-network/go-zenon/common/types"
	"github.com/zenon-network/go-zenon/vm/constants"
	"github.com/zenon-network/go-zenon/vm/embedded/definition"

	"verifmc/internal/hx"
	"verifmc/internal/ledger"
	"verifmc/internal/ops"
	"verifmc/internal/vnode"
)

// HTLC family. The HTLC spork is created and activated by the base prefix (spork admin key of the mock genesis); the spork
// id is the hash of the CreateSpork send block, identical in every execution of a worker, and is bound to
// types.HtlcSpork / types.ImplementedSporksMap the first time it is seen (as the repository's tests do).

var secret = []byte("the-secret-preimage")

func htlcSel(name string, args ...interface{}) string {
	return string(definition.ABIHtlc.PackMethodPanic(name, args...)[:4])
}

type htlcEntry struct {
	timeLocked, hashLocked types.Address
	amount                 *big.Int
	token                  types.ZenonTokenStandard
	exp                    int64
	hashType, keyMax       uint8
	hashLock               []byte
	released               bool
}

// htlc audits the HTLC contract; returns liabilities per token.
func (a *audit) htlc() map[types.ZenonTokenStandard]*big.Int {
	liab := map[types.ZenonTokenStandard]*big.Int{}
	add := func(z types.ZenonTokenStandard, v *big.Int) {
		if liab[z] == nil {
			liab[z] = new(big.Int)
		}
		liab[z].Add(liab[z], v)
	}
	entries := map[types.Hash]*htlcEntry{}
	proxyDenied := map[types.Address]bool{}
	selCreate := htlcSel(definition.CreateHtlcMethodName, types.ZeroAddress, int64(0), uint8(0), uint8(0), []byte{})
	selUnlock := htlcSel(definition.UnlockHtlcMethodName, types.ZeroHash, []byte{})
	selReclaim := htlcSel(definition.ReclaimHtlcMethodName, types.ZeroHash)
	selDeny := htlcSel(definition.DenyHtlcProxyUnlockMethodName)
	selAllow := htlcSel(definition.AllowHtlcProxyUnlockMethodName)
	for _, rc := range a.receives(types.HtlcContract) {
		var pay []*nom.AccountBlock
		for _, d := range rc.d {
			if d.Amount.Sign() > 0 {
				pay = append(pay, d)
			}
		}
		switch {
		case isRefund(rc.s, rc.d):
			a.refused++
		case rc.sel4 == selCreate:
			if len(pay) != 0 {
				a.bad("htlc:payout-on-deposit", "Create pays out")
				continue
			}
			p := new(definition.CreateHtlcParam)
			if err := definition.ABIHtlc.UnpackMethod(p, definition.CreateHtlcMethodName, rc.s.Data); err != nil {
				panic(err)
			}
			entries[rc.s.Hash] = &htlcEntry{timeLocked: rc.s.Address, hashLocked: p.HashLocked, amount: new(big.Int).Set(rc.s.Amount), token: rc.s.TokenStandard,
				exp: p.ExpirationTime, hashType: p.HashType, keyMax: p.KeyMaxSize, hashLock: p.HashLock}
			add(rc.s.TokenStandard, rc.s.Amount)
		case rc.sel4 == selDeny:
			if len(rc.d) == 0 {
				proxyDenied[rc.s.Address] = true
			}
		case rc.sel4 == selAllow:
			if len(rc.d) == 0 {
				delete(proxyDenied, rc.s.Address)
			}
		case rc.sel4 == selUnlock:
			p := new(definition.UnlockHtlcParam)
			if err := definition.ABIHtlc.UnpackMethod(p, definition.UnlockHtlcMethodName, rc.s.Data); err != nil {
				panic(err)
			}
			e := entries[p.Id]
			right := false
			if e != nil {
				var h []byte
				if e.hashType == definition.HashTypeSHA3 {
					h = crypto.Hash(p.Preimage)
				} else {
					s := sha256.Sum256(p.Preimage)
					h = s[:]
				}
				right = bytes.Equal(h, e.hashLock) && len(p.Preimage) <= int(e.keyMax)
			}
			// the statement: released to the hash-lock beneficiary on presentation of the correct preimage before expiry
			entitled := e != nil && !e.released && right && rc.t < e.exp
			byBeneficiary := e != nil && rc.s.Address == e.hashLocked
			if len(pay) == 0 {
				if entitled && byBeneficiary {
					a.bad("htlc:matured-withdrawal-refused", "Unlock(%v) by the hash-lock beneficiary with the correct preimage before expiry pays nothing", p.Id)
				}
				a.refused++
				continue
			}
			a.payouts++
			switch {
			case e == nil:
				a.bad("htlc:payout-without-entry", "Unlock(%v) pays although no such entry exists", p.Id)
			case e.released:
				a.bad("htlc:released-twice", "Unlock(%v) pays a second time", p.Id)
			case !right:
				a.bad("htlc:unlocked-with-wrong-preimage", "Unlock(%v) pays for a preimage that does not hash to the lock (or exceeds the key size)", p.Id)
			case rc.t >= e.exp:
				a.bad("htlc:unlocked-after-expiry", "Unlock(%v) pays at t=%d, expiration %d", p.Id, rc.t, e.exp)
			case !byBeneficiary && proxyDenied[e.hashLocked]:
				a.bad("htlc:proxy-unlock-although-denied", "Unlock(%v) by %v pays although the beneficiary %v denied proxy unlocks", p.Id, rc.s.Address, e.hashLocked)
			}
			if e != nil && (len(pay) != 1 || pay[0].ToAddress != e.hashLocked || pay[0].Amount.Cmp(e.amount) != 0 || pay[0].TokenStandard != e.token) {
				a.bad("htlc:payout-amount-or-recipient-wrong", "Unlock(%v) pays %v of %v to %v, the entry holds %v for beneficiary %v", p.Id, pay[0].Amount, pay[0].TokenStandard, pay[0].ToAddress, e.amount, e.hashLocked)
			}
			if e != nil && !e.released {
				e.released = true
				add(e.token, new(big.Int).Neg(e.amount))
			}
		case rc.sel4 == selReclaim:
			id := new(types.Hash)
			if err := definition.ABIHtlc.UnpackMethod(id, definition.ReclaimHtlcMethodName, rc.s.Data); err != nil {
				panic(err)
			}
			e := entries[*id]
			entitled := e != nil && !e.released && rc.s.Address == e.timeLocked && rc.t >= e.exp
			if len(pay) == 0 {
				if entitled {
					a.bad("htlc:matured-withdrawal-refused", "Reclaim(%v) by its depositor after expiry pays nothing", id)
				}
				a.refused++
				continue
			}
			a.payouts++
			switch {
			case e == nil:
				a.bad("htlc:payout-without-entry", "Reclaim(%v) pays although no such entry exists", id)
			case e.released:
				a.bad("htlc:released-twice", "Reclaim(%v) pays a second time", id)
			case rc.s.Address != e.timeLocked:
				a.bad("htlc:reclaimed-by-non-depositor", "Reclaim(%v) by %v pays although the depositor is %v", id, rc.s.Address, e.timeLocked)
			case rc.t < e.exp:
				a.bad("htlc:reclaimed-before-expiry", "Reclaim(%v) pays at t=%d, expiration %d", id, rc.t, e.exp)
			}
			if e != nil && (len(pay) != 1 || pay[0].ToAddress != e.timeLocked || pay[0].Amount.Cmp(e.amount) != 0 || pay[0].TokenStandard != e.token) {
				a.bad("htlc:payout-amount-or-recipient-wrong", "Reclaim(%v) pays %v to %v, the entry holds %v of depositor %v", id, pay[0].Amount, pay[0].ToAddress, e.amount, e.timeLocked)
			}
			if e != nil && !e.released {
				e.released = true
				add(e.token, new(big.Int).Neg(e.amount))
			}
		default:
			if len(pay) != 0 {
				a.bad("htlc:payout-by-other-method", "call %x makes the htlc contract pay", rc.sel4)
			}
		}
	}
	// storage agrees entry by entry
	st := a.store(types.HtlcContract)
	for id, e := range entries {
		info, err := definition.GetHtlcInfo(st, id)
		exists := err == nil && info != nil
		if exists == e.released {
			a.bad("htlc:storage-differs-from-ledger", "entry %v: released per ledger = %v, present in storage = %v", id, e.released, exists)
		}
	}
	return liab
}

func nthHtlc(n *vnode.Node, k int) types.Hash {
	v := ledger.WithPool(n, ledger.Confirmed(n))
	a := newAudit(n, v)
	selCreate := htlcSel(definition.CreateHtlcMethodName, types.ZeroAddress, int64(0), uint8(0), uint8(0), []byte{})
	i := 0
	for _, rc := range a.receives(types.HtlcContract) {
		if rc.sel4 == selCreate && len(rc.d) == 0 {
			if i == k {
				return rc.s.Hash
			}
			i++
		}
	}
	return types.HexToHashPanic("00000000000000000000000000000000000000000000000000000000000000ee")
}

func htlcCall(n *vnode.Node, from int, zts types.ZenonTokenStandard, amount int64, data []byte) string {
	_, err := n.Submit(&nom.AccountBlock{BlockType: nom.BlockTypeUserSend, Address: ops.Users[from].Address, ToAddress: types.HtlcContract,
		TokenStandard: zts, Amount: big.NewInt(amount), Data: data})
	if err != nil {
		return "err:" + err.Error()
	}
	return "ok"
}

func initHtlcOps() {
	constants.SporkMinHeightDelay = 2
	ops.Extra["HtlcSporkCreate"] = func(n *vnode.Node, o ops.Op) string {
		b, err := n.Submit(&nom.AccountBlock{BlockType: nom.BlockTypeUserSend, Address: g.Spork.Address, ToAddress: types.SporkContract,
			TokenStandard: types.ZnnTokenStandard, Amount: big.NewInt(0), Data: definition.ABISpork.PackMethodPanic(definition.SporkCreateMethodName, "spork-htlc", "htlc spork for verification")})
		if err != nil {
			return "err:" + err.Error()
		}
		types.HtlcSpork.SporkId = b.Hash
		types.ImplementedSporksMap[b.Hash] = true
		return "ok"
	}
	ops.Extra["HtlcSporkActivate"] = func(n *vnode.Node, o ops.Op) string {
		_, err := n.Submit(&nom.AccountBlock{BlockType: nom.BlockTypeUserSend, Address: g.Spork.Address, ToAddress: types.SporkContract,
			TokenStandard: types.ZnnTokenStandard, Amount: big.NewInt(0), Data: definition.ABISpork.PackMethodPanic(definition.SporkActivateMethodName, types.HtlcSpork.SporkId)})
		if err != nil {
			return "err:" + err.Error()
		}
		return "ok"
	}
	// HtlcCreate: A locks V of token T for beneficiary B; S "sha256" selects the hash type; expires 3 momentums from now
	ops.Extra["HtlcCreate"] = func(n *vnode.Node, o ops.Op) string {
		ht, lock := definition.HashTypeSHA3, crypto.Hash(secret)
		if o.S == "sha256" {
			s := sha256.Sum256(secret)
			ht, lock = definition.HashTypeSHA256, s[:]
		}
		exp := n.Frontier().Timestamp.Unix() + 35 // expires 3-4 momentums from now
		switch o.S {
		case "sha256":
			exp += 70 // the second kind of entry stays locked much longer
		case "never":
			exp = math.MaxInt64 // "never expires"
		case "year2400":
			exp += 400 * 365 * 86400 // a legitimate far-future expiration (more seconds than nanoseconds fit 63 bits)
		}
		return htlcCall(n, o.A, ops.Tokens[o.T], o.V, definition.ABIHtlc.PackMethodPanic(definition.CreateHtlcMethodName, ops.Users[o.B].Address, exp, ht, uint8(32), lock))
	}
	// HtlcUnlock: A unlocks entry B with preimage variant S ("", "wrong", "long")
	ops.Extra["HtlcUnlock"] = func(n *vnode.Node, o ops.Op) string {
		pre := secret
		switch o.S {
		case "wrong":
			pre = []byte("not-the-secret")
		case "long":
			pre = append(append([]byte{}, secret...), make([]byte, 40)...)
		}
		return htlcCall(n, o.A, types.ZnnTokenStandard, 0, definition.ABIHtlc.PackMethodPanic(definition.UnlockHtlcMethodName, nthHtlc(n, o.B), pre))
	}
	ops.Extra["HtlcReclaim"] = func(n *vnode.Node, o ops.Op) string {
		return htlcCall(n, o.A, types.ZnnTokenStandard, 0, definition.ABIHtlc.PackMethodPanic(definition.ReclaimHtlcMethodName, nthHtlc(n, o.B)))
	}
	ops.Extra["HtlcDeny"] = func(n *vnode.Node, o ops.Op) string {
		return htlcCall(n, o.A, types.ZnnTokenStandard, 0, definition.ABIHtlc.PackMethodPanic(definition.DenyHtlcProxyUnlockMethodName))
	}
	ops.Extra["HtlcAllow"] = func(n *vnode.Node, o ops.Op) string {
		return htlcCall(n, o.A, types.ZnnTokenStandard, 0, definition.ABIHtlc.PackMethodPanic(definition.AllowHtlcProxyUnlockMethodName))
	}
}

func htlcFamily() family {
	act := []ops.Op{{K: "HtlcSporkCreate"}, M, M, {K: "HtlcSporkActivate"}, M, M, M, M}
	f := family{name: "htlc", alpha: []ops.Op{
		M,
		{K: "HtlcCreate", A: 0, B: 1, T: 0, V: 10},
		{K: "HtlcCreate", A: 2, B: 1, T: 1, V: 7, S: "sha256"},
		{K: "HtlcUnlock", A: 1, B: 0},             // beneficiary, right preimage
		{K: "HtlcUnlock", A: 1, B: 0, S: "wrong"}, // wrong preimage
		{K: "HtlcUnlock", A: 3, B: 0},             // proxy unlock by a stranger with the right preimage
		{K: "HtlcUnlock", A: 1, B: 1, S: "long"},
		{K: "HtlcUnlock", A: 3, B: 1},  // proxy unlock of the long-lived entry
		{K: "HtlcReclaim", A: 0, B: 0}, // depositor
		{K: "HtlcReclaim", A: 3, B: 0}, // stranger
		{K: "HtlcReclaim", A: 2, B: 1},
		{K: "HtlcDeny", A: 1},
		{K: "HtlcAllow", A: 1},
	}}
	f.bases = []hx.Base{
		{Name: "htlc/spork-active", Prefix: act},
		{Name: "htlc/entries", Prefix: append(append([]ops.Op{}, act...),
			ops.Op{K: "HtlcCreate", A: 0, B: 1, T: 0, V: 10}, M, M, M, ops.Op{K: "HtlcCreate", A: 2, B: 1, T: 1, V: 7, S: "sha256"}, M)},
		// expirations far in the future: the depositor cannot reclaim, the beneficiary can unlock
		{Name: "htlc/far-expiry", Prefix: append(append([]ops.Op{}, act...),
			ops.Op{K: "HtlcCreate", A: 0, B: 1, T: 0, V: 10, S: "never"}, M, ops.Op{K: "HtlcCreate", A: 2, B: 1, T: 1, V: 7, S: "year2400"}, M)},
		{Name: "htlc/proxy-denied", Prefix: append(append([]ops.Op{}, act...),
			ops.Op{K: "HtlcCreate", A: 0, B: 1, T: 0, V: 10}, M, M, M, ops.Op{K: "HtlcCreate", A: 2, B: 1, T: 1, V: 7, S: "sha256"}, M, ops.Op{K: "HtlcDeny", A: 1}, M, M)},
	}
	return f
}
