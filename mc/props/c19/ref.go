package c19

// Independent reference implementations used as oracles by the C19 check. Nothing in this file calls into package
// wallet. Primitives come from the Go standard library (HMAC, SHA-2, AES-GCM, ed25519) and x/crypto (SHA-3, argon2id);
// the constructions on top of them (SLIP-0010, BIP-39 mnemonic + seed, the key-file cipher, the address rule, the path
// grammar) are written here from the specifications and validated against published vectors in selfTest().

import (
	"bytes"
	"crypto/aes"
	"crypto/cipher"
	"crypto/ed25519"
	"crypto/hmac"
	"crypto/sha256"
	"crypto/sha512"
	"encoding/binary"
	"encoding/hex"
	"fmt"
	"strings"

	"github.com/tyler-smith/go-bip39/wordlists"
	"golang.org/x/crypto/argon2"
	"golang.org/x/crypto/sha3"
)

// ---------------------------------------------------------------------------------------------------------------------
// SLIP-0010, curve ed25519 (hardened children only)

type refNode struct {
	key   [32]byte
	chain [32]byte
}

func hmac512(key, data []byte) []byte {
	m := hmac.New(sha512.New, key)
	m.Write(data)
	return m.Sum(nil)
}

func refMaster(seed []byte) refNode {
	var n refNode
	i := hmac512([]byte("ed25519 seed"), seed)
	copy(n.key[:], i[:32])
	copy(n.chain[:], i[32:])
	return n
}

// refChild derives hardened child number idx (0 <= idx < 2^31), i.e. index idx + 2^31 on the wire.
func (n refNode) refChild(idx uint32) refNode {
	if idx >= 1<<31 {
		panic("reference: child index out of range")
	}
	data := make([]byte, 0, 37)
	data = append(data, 0x00)
	data = append(data, n.key[:]...)
	var ib [4]byte
	binary.BigEndian.PutUint32(ib[:], idx|0x80000000)
	data = append(data, ib[:]...)
	i := hmac512(n.chain[:], data)
	var c refNode
	copy(c.key[:], i[:32])
	copy(c.chain[:], i[32:])
	return c
}

func refDerive(seed []byte, path []uint32) refNode {
	n := refMaster(seed)
	for _, p := range path {
		n = n.refChild(p)
	}
	return n
}

type refKeyPair struct {
	Private ed25519.PrivateKey
	Public  ed25519.PublicKey
	Address [20]byte
}

func (n refNode) keyPair() refKeyPair {
	priv := ed25519.NewKeyFromSeed(n.key[:])
	pub := priv.Public().(ed25519.PublicKey)
	return refKeyPair{Private: priv, Public: pub, Address: refAddress(pub)}
}

// refAddress: one zero byte (user address class) followed by the first 19 bytes of SHA3-256(public key).
func refAddress(pub []byte) [20]byte {
	h := sha3.Sum256(pub)
	var a [20]byte
	a[0] = 0
	copy(a[1:], h[:19])
	return a
}

// zenonPath is m/44'/73404'/i'.
func zenonPath(i uint32) []uint32 { return []uint32{44, 73404, i} }

// ---------------------------------------------------------------------------------------------------------------------
// Path grammar oracle: "m" followed by one or more "/<decimal>'" with 0 <= decimal < 2^31. Everything else (unhardened
// segment, missing apostrophe, empty segment, sign, blank, other letters, value >= 2^31, trailing characters) is not a
// valid hardened path and must be refused.

type pathClass int

const (
	pathInvalid pathClass = iota
	pathValid
	pathMasterOnly // exactly "m": a valid SLIP-0010 path, but the statement does not demand that the wallet accepts it
)

func refParsePath(p string) ([]uint32, pathClass) {
	if p == "m" {
		return nil, pathMasterOnly
	}
	if !strings.HasPrefix(p, "m/") {
		return nil, pathInvalid
	}
	var out []uint32
	for _, seg := range strings.Split(p[2:], "/") {
		if len(seg) < 2 || seg[len(seg)-1] != '\'' {
			return nil, pathInvalid
		}
		digits := seg[:len(seg)-1]
		var v uint64
		for _, ch := range []byte(digits) {
			if ch < '0' || ch > '9' {
				return nil, pathInvalid
			}
			v = v*10 + uint64(ch-'0')
			if v >= 1<<31 {
				return nil, pathInvalid
			}
		}
		out = append(out, uint32(v))
	}
	return out, pathValid
}

// ---------------------------------------------------------------------------------------------------------------------
// BIP-39: mnemonic from entropy (English word list, which is data, taken from the library), seed by
// PBKDF2-HMAC-SHA512(mnemonic, "mnemonic"+passphrase, 2048 rounds, 64 bytes).

func refMnemonic(entropy []byte) (string, bool) {
	n := len(entropy)
	if n < 16 || n > 32 || n%4 != 0 {
		return "", false
	}
	cs := sha256.Sum256(entropy)
	csBits := n * 8 / 32
	total := n*8 + csBits
	bit := func(i int) int {
		if i < n*8 {
			return int(entropy[i/8]>>(7-uint(i%8))) & 1
		}
		j := i - n*8
		return int(cs[j/8]>>(7-uint(j%8))) & 1
	}
	var words []string
	for w := 0; w < total/11; w++ {
		idx := 0
		for b := 0; b < 11; b++ {
			idx = idx<<1 | bit(w*11+b)
		}
		words = append(words, wordlists.English[idx])
	}
	return strings.Join(words, " "), true
}

func refPBKDF2SHA512(password, salt []byte, iter, keyLen int) []byte {
	var out []byte
	for block := uint32(1); len(out) < keyLen; block++ {
		var ib [4]byte
		binary.BigEndian.PutUint32(ib[:], block)
		u := hmac512(password, append(append([]byte{}, salt...), ib[:]...))
		t := append([]byte{}, u...)
		for i := 1; i < iter; i++ {
			u = hmac512(password, u)
			for j := range t {
				t[j] ^= u[j]
			}
		}
		out = append(out, t...)
	}
	return out[:keyLen]
}

func refSeed(mnemonic, passphrase string) []byte {
	return refPBKDF2SHA512([]byte(mnemonic), []byte("mnemonic"+passphrase), 2048, 64)
}

// ---------------------------------------------------------------------------------------------------------------------
// Key-file cipher: key = argon2id(password, salt, t=1, m=64 MiB, p=4, 32 bytes); AES-256-GCM, additional data "zenon".

func refKDF(password string, salt []byte) []byte {
	return argon2.IDKey([]byte(password), salt, 1, 64*1024, 4, 32)
}

func refSeal(key, nonce, entropy []byte) []byte {
	blk, err := aes.NewCipher(key)
	if err != nil {
		panic(err)
	}
	g, err := cipher.NewGCM(blk)
	if err != nil {
		panic(err)
	}
	return g.Seal(nil, nonce, entropy, []byte("zenon"))
}

// ---------------------------------------------------------------------------------------------------------------------
// Published vectors

func unhex(s string) []byte {
	b, err := hex.DecodeString(s)
	if err != nil {
		panic(err)
	}
	return b
}

type slip10Vec struct {
	path             []uint32
	chain, priv, pub string
}

// SLIP-0010, "Test vector 1 for ed25519", seed 000102030405060708090a0b0c0d0e0f.
var slip10Vector1 = []slip10Vec{
	{nil, "90046a93de5380a72b5e45010748567d5ea02bbf6522f979e05c0d8d8ca9fffb", "2b4be7f19ee27bbf30c667b642d5f4aa69fd169872f8fc3059c08ebae2eb19e7", "a4b2856bfec510abab89753fac1ac0e1112364e7d250545963f135f2a33188ed"},
	{[]uint32{0}, "8b59aa11380b624e81507a27fedda59fea6d0b779a778918a2fd3590e16e9c69", "68e0fe46dfb67e368c75379acec591dad19df3cde26e63b93a8e704f1dade7a3", "8c8a13df77a28f3445213a0f432fde644acaa215fc72dcdf300d5efaa85d350c"},
	{[]uint32{0, 1}, "a320425f77d1b5c2505a6b1b27382b37368ee640e3557c315416801243552f14", "b1d0bad404bf35da785a64ca1ac54b2617211d2777696fbffaf208f746ae84f2", "1932a5270f335bed617d5b935c80aedb1a35bd9fc1e31acafd5372c30f5c1187"},
	{[]uint32{0, 1, 2}, "2e69929e00b5ab250f49c3fb1c12f252de4fed2c1db88387094a0f8c4c9ccd6c", "92a5b23c0b8a99e37d07df3fb9966917f5d06e02ddbd909c7e184371463e9fc9", "ae98736566d30ed0e9d2f4486a64bc95740d89c7db33f52121f8ea8f76ff0fc1"},
	{[]uint32{0, 1, 2, 2}, "8f6d87f93d750e0efccda017d662a1b31a266e4a6f5993b15f5c1f07f74dd5cc", "30d1dc7e5fc04c31219ab25a27ae00b50f6fd66622f6e9c913253d6511d1e662", "8abae2d66361c879b900d204ad2cc4984fa2aa344dd7ddc46007329ac76c429c"},
	{[]uint32{0, 1, 2, 2, 1000000000}, "68789923a0cac2cd5a29172a475fe9e0fb14cd6adb5ad98a3fa70333e7afa230", "8f94d394a8e8fd6b1bc2f3f49f5c47e385281d5c17e65324b0f62483e37e8793", "3c24da049451555d51a7014a37337aa4e12d41e485abccfa46b47dfb2af54b7a"},
}

var slip10Seed1 = unhex("000102030405060708090a0b0c0d0e0f")

// selfTest validates the reference against published vectors; an error means the check itself is broken.
func selfTest() error {
	for _, v := range slip10Vector1 {
		n := refDerive(slip10Seed1, v.path)
		if hex.EncodeToString(n.chain[:]) != v.chain || hex.EncodeToString(n.key[:]) != v.priv {
			return fmt.Errorf("SLIP-0010 vector 1 path %v: reference gives chain %x key %x", v.path, n.chain, n.key)
		}
		if kp := n.keyPair(); hex.EncodeToString(kp.Public) != v.pub {
			return fmt.Errorf("SLIP-0010 vector 1 path %v: reference public key %x", v.path, kp.Public)
		}
	}
	// BIP-39 (Trezor vectors): all-zero 16-byte entropy, and 0x7f.. 16 bytes; seeds with passphrase "TREZOR"; the
	// widely published empty-passphrase seed of the first mnemonic.
	m, ok := refMnemonic(make([]byte, 16))
	if !ok || m != "abandon abandon abandon abandon abandon abandon abandon abandon abandon abandon abandon about" {
		return fmt.Errorf("BIP-39 mnemonic vector 1: %q", m)
	}
	if s := hex.EncodeToString(refSeed(m, "TREZOR")); s != "c55257c360c07c72029aebc1b53c05ed0362ada38ead3e3e9efa3708e53495531f09a6987599d18264c1e1c92f2cf141630c7a3c4ab7c81b2f001698e7463b04" {
		return fmt.Errorf("BIP-39 seed vector 1 (TREZOR): %s", s)
	}
	if s := hex.EncodeToString(refSeed(m, "")); s != "5eb00bbddcf069084889a8ab9155568165f5c453ccb85e70811aaed6f6da5fc19a5ac40b389cd370d086206dec8aa6c43daea6690f20ad3d8d48b2d2ce9e38e4" {
		return fmt.Errorf("BIP-39 seed vector 1 (empty passphrase): %s", s)
	}
	m, ok = refMnemonic(bytes.Repeat([]byte{0x7f}, 16))
	if !ok || m != "legal winner thank year wave sausage worth useful legal winner thank yellow" {
		return fmt.Errorf("BIP-39 mnemonic vector 2: %q", m)
	}
	m, ok = refMnemonic(bytes.Repeat([]byte{0xff}, 32))
	if !ok || m != "zoo zoo zoo zoo zoo zoo zoo zoo zoo zoo zoo zoo zoo zoo zoo zoo zoo zoo zoo zoo zoo zoo zoo vote" {
		return fmt.Errorf("BIP-39 mnemonic vector (32 x ff): %q", m)
	}
	// SHA3-256 known answers (FIPS 202): empty message and "abc".
	if h := sha3.Sum256(nil); hex.EncodeToString(h[:]) != "a7ffc6f8bf1ed76651c14756a061d662f580ff4de43b49fa82d80a4b80f8434a" {
		return fmt.Errorf("SHA3-256(\"\") = %x", h)
	}
	if h := sha3.Sum256([]byte("abc")); hex.EncodeToString(h[:]) != "3a985da74fe225b2045c172d6bd390bd855f086e3e9d525b46bfe24511431532" {
		return fmt.Errorf("SHA3-256(\"abc\") = %x", h)
	}
	// path grammar
	for p, want := range map[string]pathClass{
		"m/44'/73404'/0'": pathValid, "m/0'": pathValid, "m/2147483647'": pathValid, "m/00'": pathValid,
		"m": pathMasterOnly, "": pathInvalid, "m/": pathInvalid, "m/0": pathInvalid, "m/44'/73404'/0": pathInvalid,
		"m/2147483648'": pathInvalid, "m/4294967296'": pathInvalid, "m/0''": pathInvalid, "m/'": pathInvalid,
		"M/0'": pathInvalid, "m/0'/": pathInvalid, "m/-1'": pathInvalid, "m/0' ": pathInvalid, "/0'": pathInvalid,
	} {
		if _, got := refParsePath(p); got != want {
			return fmt.Errorf("path grammar oracle: %q classified %v, want %v", p, got, want)
		}
	}
	return nil
}
