package vm

import (
	"github.com/zenon-network/go-zenon/chain/nom"
)

// VerifForgeContractReceive (harness only, added through the build overlay) builds the contract receive block for
// sendBlock on top of the contract's frontier with the node's own generation code, exactly as GenerateAutoReceive does,
// but without asking the account-block verifier whether that send is the next one in line: contract receive blocks are
// unsigned, so this is the block anybody on the network can build and gossip. The block is returned, nothing is inserted.
func (s *Supervisor) VerifForgeContractReceive(sendBlock *nom.AccountBlock) (*nom.AccountBlock, error) {
	template := &nom.AccountBlock{
		BlockType:     nom.BlockTypeContractReceive,
		Address:       sendBlock.ToAddress,
		FromBlockHash: sendBlock.Hash,
	}
	if err := s.setAll(template); err != nil {
		return nil, err
	}
	context := s.newBlockContext(template)
	if err := s.setBlockPlasma(context, template); err != nil {
		return nil, err
	}
	block, _, err := NewVM(context).generateEmbeddedReceive(template.FromBlockHash)
	if err != nil {
		return nil, err
	}
	transaction, err := s.packBlock(context, block, nil)
	if err != nil {
		return nil, err
	}
	return transaction.Block, nil
}
