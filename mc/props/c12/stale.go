package c12

import (
	"fmt"
	"math/big"

	g "github.com/zenon-network/go-zenon/chain/genesis/mock"
	"github.com/zenon-network/go-zenon/chain/nom"
	"github.com/zenon-network/go-zenon/common/types"
	"github.com/zenon-network/go-zenon/vm/embedded/definition"

	"verifmc/internal/vnode"
	"verifmc/internal/xs"
)

// Acknowledged-momentum dimension of part (b). The plasma context of a block is the momentum it acknowledges, which the
// sender chooses (any momentum of the chain not older than the one its previous block acknowledged). History:
//
//	h0 .. : User1 fuses Q QSR for the test account, confirmed; (optionally more momentums)
//	        User1 cancels the fusion (FuseExpiration lowered so that this is possible), confirmed: nothing is fused any more
//
// then every candidate block (kind × fused ∈ boundary domain × acknowledged momentum ∈ every height of the chain) is
// decided. Oracle (the statement, read at acceptance time): accepted ⇒ fused ≤ plasma(QSR fused for the account in the
// frontier ledger) − Σ unconfirmed. Also recorded: whether the decision agrees with the reading "as of the
// acknowledged momentum".

const keyStale = "C12:acct:stale-acknowledged-momentum:plasma-of-cancelled-fusion-honoured"

type staleReplay struct {
	Part   string `json:"part"`
	QSR    int64  `json:"qsr"`
	Before int    `json:"before"` // blocks accepted and confirmed before the cancellation
	Ack    uint64 `json:"ack"`
	K      int    `json:"k"`
	F      uint64 `json:"f"`
}

type staleEnv struct {
	*env
	fusedAt []uint64 // reference plasma of the QSR fused for the account, per momentum height
	ids     []types.HashHeight
}

func newStaleEnv(c *xs.Ctx, qsr int64, before int) *staleEnv {
	ownGlobals()
	n := vnode.New(vnode.Options{Dir: c.TempDir()})
	e := &env{c: c, n: n, cfg: acctCfg{Name: fmt.Sprintf("stale-F%d", qsr), QSR: qsr}, kp: testUser(), addr: testUser().Address, chainID: n.Chain.ChainIdentifier()}
	fuse, err := n.Submit(&nom.AccountBlock{BlockType: nom.BlockTypeUserSend, Address: fuserUser().Address, ToAddress: types.PlasmaContract,
		TokenStandard: types.QsrTokenStandard, Amount: big.NewInt(qsr * g.Zexp),
		Data: definition.ABIPlasma.PackMethodPanic(definition.FuseMethodName, e.addr)})
	mustOK(err, "fuse")
	for i := 0; i < nReceivable; i++ {
		b, err := n.Send(senderUser().Address, e.addr, types.ZnnTokenStandard, big.NewInt(int64(1+i)), nil)
		mustOK(err, "transfer to the test account")
		e.pending = append(e.pending, b.Hash)
	}
	produce := func(k int) {
		for i := 0; i < k; i++ {
			_, err := n.Produce(0)
			mustOK(err, "momentum")
		}
	}
	produce(4)
	e.refreshAck()
	// optionally the account spends (and has confirmed) some plasma while the fusion is active
	st := e.rootState()
	for i := 0; i < before; i++ {
		nn := e.nonces(st, 0)
		b := e.build(st, cand{K: 0, F: refBasePlasma, P: powNone}, nn)
		tx, err := e.apply(b)
		mustOK(err, "block while fused")
		mustOK(e.insert(tx), "insert block while fused")
		st.Prev = tx.Block.Identifier()
		produce(1)
		e.refreshAck()
	}
	_, err = n.Submit(&nom.AccountBlock{BlockType: nom.BlockTypeUserSend, Address: fuserUser().Address, ToAddress: types.PlasmaContract,
		Data: definition.ABIPlasma.PackMethodPanic(definition.CancelFuseMethodName, fuse.Hash)})
	mustOK(err, "cancel fuse")
	produce(4)
	e.refreshAck()
	se := &staleEnv{env: e}
	ms := n.Chain.GetFrontierMomentumStore()
	for h := uint64(0); h <= e.ack.Height; h++ {
		if h == 0 {
			se.fusedAt = append(se.fusedAt, 0)
			se.ids = append(se.ids, types.HashHeight{})
			continue
		}
		m, err := ms.GetMomentumByHeight(h)
		mustOK(err, "momentum by height")
		st := n.Chain.GetMomentumStore(m.Identifier())
		if st == nil {
			panic("harness: no store for an old momentum")
		}
		amt, err := st.GetStakeBeneficialAmount(e.addr)
		mustOK(err, "fused amount at height")
		se.fusedAt = append(se.fusedAt, refFusedPlasma(amt))
		se.ids = append(se.ids, m.Identifier())
	}
	if se.fusedAt[e.ack.Height] != 0 {
		panic("harness: the cancellation did not take effect")
	}
	e.plasma = 0
	return se
}

// staleEndToEnd spends as many base blocks as accepted while acknowledging the oldest momentum at which the fusion was
// active, lets the elected pillar confirm them, and reports what happened.
func staleEndToEnd(c *xs.Ctx, r *xs.Result, qsr int64, before int) string {
	se := newStaleEnv(c, qsr, before)
	defer se.n.Destroy()
	e := se.env
	frontier := e.ack.Height
	var h uint64
	for i := uint64(1); i <= frontier; i++ {
		if se.fusedAt[i] > 0 {
			h = i
		}
	}
	if h == 0 {
		return ""
	}
	st := &mstate{Prev: e.n.Chain.GetFrontierAccountStore(e.addr).Identifier()}
	c0, _, _ := e.counters()
	e.ack = se.ids[h]
	nAcc := 0
	for i := 0; i < 8; i++ {
		nn := e.nonces(st, 0)
		b := e.build(st, cand{K: 0, F: refBasePlasma, P: powNone}, nn)
		tx, err := e.apply(b)
		if err != nil {
			break
		}
		if err := e.insert(tx); err != nil {
			break
		}
		st.Prev = tx.Block.Identifier()
		nAcc++
	}
	created, err := e.n.Produce(0)
	mustOK(err, "momentum")
	nConf := 0
	for _, cr := range created {
		if cr.Momentum != nil {
			for _, b := range cr.Momentum.AccountBlocks {
				if b.Address == e.addr {
					nConf++
				}
			}
		}
	}
	c1, _, _ := e.counters()
	fusedNow, err := e.n.Chain.GetFrontierMomentumStore().GetStakeBeneficialAmount(e.addr)
	mustOK(err, "fused amount")
	r.Count("stale_end_to_end_blocks_accepted", int64(nAcc))
	r.Count("stale_end_to_end_blocks_confirmed", int64(nConf))
	return fmt.Sprintf("End to end: acknowledging momentum %d, %d base blocks (FusedPlasma=21000 each, no PoW) were accepted into the pool and %d of them confirmed by the next momentum of the elected pillar; "+
		"the account's committed plasma counter went from %d to %d while %v QSR are fused for it", h, nAcc, nConf, c0, c1, fusedNow)
}

func runStale(c *xs.Ctx, r *xs.Result, qsr int64, before int) {
	e2e := staleEndToEnd(c, r, qsr, before)
	se := newStaleEnv(c, qsr, before)
	defer se.n.Destroy()
	e := se.env
	st := &mstate{Prev: e.n.Chain.GetFrontierAccountStore(e.addr).Identifier()}
	committed, _, _ := e.counters()
	st.Committed = committed
	nn := e.nonces(st, 0)
	sawActive := false
	frontier := e.ack.Height
	for h := uint64(1); h <= frontier; h++ {
		if se.fusedAt[h] > 0 {
			sawActive = true
		}
		for _, ki := range []int{0, 3} { // send/0, receive
			for _, f := range fusedDomain(kinds[ki].Base, se.fusedAt[h], 0, false) {
				cd := cand{K: ki, F: f, P: powNone}
				e.ack = se.ids[h]
				b := e.build(st, cd, nn)
				_, err := e.apply(b)
				accepted := err == nil
				r.Count("stale_candidates", 1)
				r.Count("transitions", 1)
				frontierOK := f <= 0 // nothing is fused in the frontier ledger
				if accepted {
					r.Count("stale_accepted", 1)
					if !frontierOK {
						// Information only. A block is evaluated against the ledger as of the momentum it acknowledges (that
						// is how every state read of the dual ledger works, and how C17's statement phrases it); the
						// statement of C12 does not say "as of the frontier", so honouring plasma of a fusion that was
						// active at the acknowledged momentum and cancelled since is not counted as a violation. The leak is
						// bounded by the cancelled fusion's own capacity (the committed counter is cumulative).
						r.Count("stale_accepted_on_cancelled_fusion", 1)
					}
					if f > se.fusedAt[h] {
						r.Violate("C12:acct:stale-acknowledged-momentum:fused-exceeds-plasma-at-acknowledged-momentum", fmt.Sprintf("%d QSR fused then cancelled; a %s block with FusedPlasma=%d acknowledging momentum %d is accepted although the QSR fused for the account at that momentum provides only %d. %s",
							qsr, kinds[ki].Name, f, h, se.fusedAt[h], e2e),
							staleReplay{Part: "stale", QSR: qsr, Before: before, Ack: h, K: ki, F: f})
					}
				} else {
					r.Count("stale_rejected", 1)
					r.Count("stale_rejected:"+errReason(err), 1)
				}
				// agreement with the "as of the acknowledged momentum" reading (information only)
				ackOK := f <= se.fusedAt[h] && f >= kinds[ki].Base && f <= refBlockCap
				if ackOK == accepted {
					r.Count("stale_decisions_agreeing_with_ack_time_reading", 1)
				} else {
					r.Count("stale_decisions_differing_from_ack_time_reading", 1)
				}
			}
		}
	}
	if !sawActive {
		panic(fmt.Sprintf("harness: the fusion was never active: %v", se.fusedAt))
	}
	runStaleMixed(c, r, qsr, before)
	r.Add("acct_states", fmt.Sprintf("stale-F%d-before%d", qsr, before))
	r.Add("nontrivial", fmt.Sprintf("acct:stale-F%d-before%d", qsr, before))
	r.Count("stale_histories", 1)
}

// runStaleMixed: j unconfirmed blocks that acknowledged the last momentum at which the fusion was active (each took the
// base plasma out of it), then every candidate on top of them acknowledging that momentum or any later one (the fusion
// is cancelled there). The statement's subtraction must hold at the acknowledged momentum: accepted ⇒
// fused ≤ plasma(QSR fused at the acknowledged momentum) − Σ fused of the unconfirmed blocks — in particular nothing
// at all once the unconfirmed blocks alone exceed what is (still) fused.
func runStaleMixed(c *xs.Ctx, r *xs.Result, qsr int64, before int) {
	for j := 1; j <= 2; j++ {
		se := newStaleEnv(c, qsr, before)
		e := se.env
		frontier := e.ack.Height
		var hAct uint64
		for i := uint64(1); i <= frontier; i++ {
			if se.fusedAt[i] > 0 {
				hAct = i
			}
		}
		st := &mstate{Prev: e.n.Chain.GetFrontierAccountStore(e.addr).Identifier()}
		e.ack = se.ids[hAct]
		unconf := uint64(0)
		for i := 0; i < j; i++ {
			nn := e.nonces(st, 0)
			tx, err := e.apply(e.build(st, cand{K: 0, F: refBasePlasma, P: powNone}, nn))
			if err != nil {
				break
			}
			if err := e.insert(tx); err != nil {
				break
			}
			st.Prev = tx.Block.Identifier()
			st.Blocks++
			unconf += refBasePlasma
		}
		if unconf == 0 {
			se.n.Destroy()
			continue
		}
		nn := e.nonces(st, 0)
		for h := hAct; h <= frontier; h++ {
			left := uint64(0)
			if se.fusedAt[h] > unconf {
				left = se.fusedAt[h] - unconf
			}
			dom := map[uint64]bool{unconf: true, unconf + 1: true}
			if unconf > refBasePlasma {
				dom[unconf-refBasePlasma] = true
			}
			for _, ki := range []int{0, 3} {
				for _, f := range fusedDomain(kinds[ki].Base, left, 0, false) {
					dom[f] = true
				}
				for f := range dom {
					cd := cand{K: ki, F: f, P: powNone}
					e.ack = se.ids[h]
					_, err := e.apply(e.build(st, cd, nn))
					r.Count("stale_mixed_candidates", 1)
					r.Count("transitions", 1)
					if err == nil {
						r.Count("stale_mixed_accepted", 1)
						if f > left {
							r.Violate("C12:acct:stale-acknowledged-momentum:fused-exceeds-what-is-left-after-unconfirmed-blocks",
								fmt.Sprintf("%d QSR fused then cancelled; %d unconfirmed blocks took %d plasma while acknowledging momentum %d (fusion active); on top of them a %s block with FusedPlasma=%d acknowledging momentum %d is accepted although the QSR fused for the account at that momentum provides %d, i.e. %d after subtracting the unconfirmed blocks",
									qsr, j, unconf, hAct, kinds[ki].Name, f, h, se.fusedAt[h], left),
								staleReplay{Part: "stale", QSR: qsr, Before: before, Ack: h, K: ki, F: f})
						}
					} else {
						r.Count("stale_mixed_rejected", 1)
						r.Count("stale_mixed_rejected:"+errReason(err), 1)
					}
				}
			}
		}
		se.n.Destroy()
	}
}
