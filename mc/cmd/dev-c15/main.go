package main

import (
	_ "verifmc/props/c15"

	"verifmc/internal/xs"
)

func main() { xs.Main() }
