// Package c16 — sync adopts only verified, strictly longer chains within the rollback window.
//
// A node holding a local chain is handed every batch shape of a stated family (extensions, known prefix + extension,
// duplicates, forks at several depths with shorter/equal/longer side chains, gaps, non-linking batches, forged heights,
// an invalid element of each kind at every position, empty batch, overlapping re-delivery after a failure) through the
// real protocol.ChainBridge.InsertChain. A reference decision computed from the construction of the batch says which
// chain the node must end on; the node's raw store must equal that of a fresh node fed exactly that chain, the
// returned index must be the position of the first failing momentum, and nothing may panic.
package c16

import (
	"encoding/json"
	"fmt"
	"strings"
	"time"

	g "github.com/zenon-network/go-zenon/chain/genesis/mock"
	"github.com/zenon-network/go-zenon/chain/nom"
	"github.com/zenon-network/go-zenon/common/db"
	"github.com/zenon-network/go-zenon/common/types"
	"github.com/zenon-network/go-zenon/wallet"

	"verifmc/internal/ops"
	"verifmc/internal/vnode"
	"verifmc/internal/xs"
)

var M = ops.Op{K: "M"}

func rep(o ops.Op, n int) []ops.Op {
	out := make([]ops.Op, n)
	for i := range out {
		out[i] = o
	}
	return out
}

// world: local chain (prefix+local), its valid extension, and side chains forking `depth` below the local tip.
type world struct {
	name    string
	local   []*nom.DetailedMomentum // heights 2..L
	ext     []*nom.DetailedMomentum // 3 valid momentums extending local (with account blocks incl. a contract receive)
	sides   map[int][]*nom.DetailedMomentum
	sideLen map[int]int
	alien   []*nom.DetailedMomentum // a chain from another history sharing only genesis (for non-linking batches)
	// a block valid on the local chain (acknowledges the local tip, account untouched by either branch) and, per depth, a
	// longer side chain whose LAST momentum was produced by a misbehaving elected pillar that cemented that block without
	// verifying it (on the side chain the acknowledged momentum does not exist)
	stale     *nom.AccountBlock
	dishonest map[int][]*nom.DetailedMomentum
	genesis   types.HashHeight
	// momentums that are correctly produced and signed but fail verification on any honest node (the dishonest tails)
	unverifiable map[*nom.DetailedMomentum]bool
	// short-tick worlds only: per fork depth, the key of the pillar that the LOCAL chain elects for the time slot of the
	// side chain's last momentum, when that differs from the side chain's own (correct) election
	ownElected map[int]*wallet.KeyPair
	small      bool
	// per variant (an account with confirmed blocks / an account whose first block is among the two): two blocks of one
	// account that are valid on the local tip (b1, b2 on top of b1) and a momentum on the local tip, correctly sealed by
	// the pillar elected for its slot, that confirms b2 but not b1
	gapped []gappedCase
}

type gappedCase struct {
	name   string
	blocks []*nom.AccountBlock
	m      *nom.DetailedMomentum
}

func keyOf(addr types.Address) *wallet.KeyPair {
	for _, k := range g.AllKeyPairs {
		if k.Address == addr {
			return k
		}
	}
	panic("no key")
}

func buildWorld(c *xs.Ctx, length int, depths []int, small bool) *world {
	w := &world{name: fmt.Sprintf("L%d", length), sides: map[int][]*nom.DetailedMomentum{}, sideLen: map[int]int{}, dishonest: map[int][]*nom.DetailedMomentum{},
		unverifiable: map[*nom.DetailedMomentum]bool{}, ownElected: map[int]*wallet.KeyPair{}, small: small}
	if small {
		w.name = fmt.Sprintf("S%d", length) // election ticks of 3 slots: forks can reach back over two ticks and change an election
	}
	p := vnode.New(vnode.Options{Dir: c.TempDir()})
	defer p.Destroy()
	// local chain of `length` momentums above genesis, with some content at the start and near the tip
	ops.Apply(p, ops.Op{K: "T", A: 0, B: 1, V: 500})
	ops.Apply(p, ops.Op{K: "Call", S: "fuse", A: 0, B: 13, V: 50}) // plasma for an account that has no block yet
	ops.Apply(p, ops.Op{K: "T", A: 0, B: 13, V: 77})               // and something for it to receive
	ops.Apply(p, M)
	for p.Height() < uint64(length) {
		ops.Apply(p, M)
	}
	ops.Apply(p, ops.Op{K: "Call", S: "fuse", A: 0, B: 1, V: 50})
	ops.Apply(p, M) // height length+1
	L := p.Height()
	w.local = p.Range(2, L)
	w.genesis = p.Detailed(1).Momentum.Identifier()
	staleTx, err := p.Generate(&nom.AccountBlock{BlockType: nom.BlockTypeUserSend, Address: ops.Users[9].Address, ToAddress: ops.Users[8].Address,
		TokenStandard: types.ZnnTokenStandard, Amount: ops.Big(3)})
	if err != nil {
		panic(err)
	}
	w.stale = staleTx.Block
	staleChanges := staleTx.Changes.Dump()
	// side chains: a second producer synced to L-depth, then different content, up to depth+1 momentums
	for _, d := range depths {
		if uint64(d) >= L-1 {
			continue
		}
		q := vnode.New(vnode.Options{Dir: c.TempDir()})
		if L-uint64(d) >= 2 {
			if _, err, pan := q.InsertChain(vnode.CloneBatch(p.Range(2, L-uint64(d)))); err != nil || pan != nil {
				panic(fmt.Sprintf("side sync: %v %v", err, pan))
			}
		}
		if small {
			// the fork moves election weight (user 1, the largest backer, re-delegates to pillar 3): later ticks of the two
			// branches have different proof momentums and different weights, hence different schedules
			ops.Apply(q, ops.Op{K: "Call", S: "delegate", A: 0, B: 2})
		}
		ops.Apply(q, ops.Op{K: "T", A: 4, B: 2, V: 9})
		ops.Apply(q, ops.Op{K: "M", V: 1})
		for i := 0; i < d; i++ {
			if i%2 == 0 {
				ops.Apply(q, ops.Op{K: "T", A: 3, B: 2, V: int64(i + 1)})
			}
			ops.Apply(q, M)
		}
		w.sides[d] = q.Range(L-uint64(d)+1, q.Height()) // d+1 momentums
		if small {
			tail := w.sides[d][len(w.sides[d])-1].Momentum
			if own, err := p.Cons.GetMomentumProducer(*tail.Timestamp); err == nil && own != nil && *own != tail.Producer() {
				w.ownElected[d] = keyOf(*own)
			}
		}
		if d <= 3 {
			// the misbehaving pillar puts the stale block into its pool unverified and produces
			if e, _ := q.AddAccountBlocks([]*nom.AccountBlock{vnode.CloneBlock(w.stale)}); e == nil {
				panic("harness: an honest node on the side chain must refuse the block acknowledging the abandoned momentum")
			}
			patch, perr := db.NewPatchFromDump(append([]byte{}, staleChanges...))
			if perr != nil {
				panic(perr)
			}
			ins := q.Chain.AcquireInsert("c16 misbehaving pillar")
			perr = q.Chain.AddAccountBlockTransaction(ins, &nom.AccountBlockTransaction{Block: vnode.CloneBlock(w.stale), Changes: patch})
			ins.Unlock()
			if perr != nil {
				panic(perr)
			}
			ops.Apply(q, M)
			w.dishonest[d] = q.Range(L-uint64(d)+1, q.Height()) // d+2 momentums, the last one cements the stale block
			w.unverifiable[w.dishonest[d][len(w.dishonest[d])-1]] = true
			if n := len(w.dishonest[d]); len(w.dishonest[d][n-1].AccountBlocks) == 0 {
				panic("harness: dishonest momentum is empty")
			}
		}
		q.Destroy()
	}
	// momentums on the local tip that skip a pooled predecessor (built on a twin that holds the blocks)
	for _, v := range []struct {
		name string
		ops  []ops.Op
		who  int
	}{
		{"account-with-history", []ops.Op{{K: "T", A: 9, B: 8, V: 3}, {K: "T", A: 9, B: 8, V: 4}}, 9},
		{"first-block-of-a-new-account", []ops.Op{{K: "R", A: 13}, {K: "T", A: 13, B: 2, V: 5}}, 13},
	} {
		tw := vnode.New(vnode.Options{Dir: c.TempDir()})
		if _, err, pan := tw.InsertChain(vnode.CloneBatch(w.local)); err != nil || pan != nil {
			panic(fmt.Sprintf("gapped twin sync: %v %v", err, pan))
		}
		var mine []*nom.AccountBlock
		for _, o := range v.ops {
			if out := ops.Apply(tw, o); out != "ok" {
				panic(fmt.Sprintf("harness: gapped case %s: op %v: %s", v.name, o, out))
			}
		}
		for _, b := range tw.PoolBlocks() {
			if b.Address == ops.Users[v.who].Address {
				mine = append(mine, vnode.CloneBlock(b))
			}
		}
		if len(mine) != 2 || mine[1].Height != mine[0].Height+1 {
			panic(fmt.Sprintf("harness: gapped case %s: expected two pooled blocks, got %d", v.name, len(mine)))
		}
		gm, err := tw.ForgeMomentum(0, mine[1:])
		if err != nil {
			panic(fmt.Sprintf("harness: gapped case %s: %v", v.name, err))
		}
		w.gapped = append(w.gapped, gappedCase{v.name, mine, gm})
		w.unverifiable[gm] = true
		tw.Destroy()
	}
	// a momentum on the local tip, sealed by the elected pillar, whose content lists the same pooled send to an embedded
	// contract twice (changes hash computed over the doubled content); the blocks shipped with it are dressed up so that
	// the count of distinct identifiers matches the content: a copy of the send typed as a contract send, and a filler
	{
		tw := vnode.New(vnode.Options{Dir: c.TempDir()})
		if _, err, pan := tw.InsertChain(vnode.CloneBatch(w.local)); err != nil || pan != nil {
			panic(fmt.Sprintf("twice twin sync: %v %v", err, pan))
		}
		if out := ops.Apply(tw, ops.Op{K: "Call", S: "fuse", A: 3, B: 3, V: 20}); out != "ok" {
			panic("harness: twice case: " + out)
		}
		pool := tw.PoolBlocks()
		if len(pool) != 1 {
			panic("harness: twice case: one pooled block expected")
		}
		send := vnode.CloneBlock(pool[0])
		gm, err := tw.ForgeMomentum(0, []*nom.AccountBlock{pool[0], pool[0]})
		if err != nil {
			panic(fmt.Sprintf("harness: twice case: %v", err))
		}
		if len(gm.Momentum.Content) != 2 {
			panic("harness: twice case: the content does not list the header twice")
		}
		gm.AccountBlocks = []*nom.AccountBlock{
			{BlockType: nom.BlockTypeContractSend, Address: send.ToAddress, Hash: send.Hash, Height: send.Height, Amount: ops.Big(0)},
			{BlockType: nom.BlockTypeContractSend, Address: send.ToAddress, Hash: types.NewHash([]byte("filler")), Height: 77, Amount: ops.Big(0)},
		}
		w.gapped = append(w.gapped, gappedCase{"same-send-listed-twice", []*nom.AccountBlock{send}, gm})
		w.unverifiable[gm] = true
		tw.Destroy()
	}
	// extension on top of local
	ops.Apply(p, ops.Op{K: "T", A: 1, B: 2, V: 7})
	ops.Apply(p, ops.Op{K: "Call", S: "stake", A: 3, V: 10})
	ops.Apply(p, ops.Op{K: "Call", S: "refund", A: 5})
	ops.Apply(p, M)
	ops.Apply(p, ops.Op{K: "R", A: 2})
	ops.Apply(p, M) // contains the contract receives of the stake calls, the second (sentinel Register without deposit) with a batched refund block
	if firstContractSend(p.Detailed(p.Height())) < 0 {
		panic("harness: the extension has no batched contract-send block")
	}
	ops.Apply(p, ops.Op{K: "T", A: 2, B: 0, V: 1})
	ops.Apply(p, M)
	w.ext = p.Range(L+1, p.Height())
	// alien chain
	a := vnode.New(vnode.Options{Dir: c.TempDir()})
	ops.Apply(a, ops.Op{K: "T", A: 2, B: 3, V: 1})
	ops.Apply(a, ops.Op{K: "M", V: 2})
	for i := 0; i < int(L)+2; i++ {
		ops.Apply(a, M)
	}
	w.alien = a.Range(2, a.Height())
	a.Destroy()
	return w
}

// ---------------------------------------------------------------------------------------------------------------------
// batch shapes

type shape struct {
	Name  string `json:"name"`
	World string `json:"world"`
	// construction
	batch func(w *world) []*nom.DetailedMomentum
	// expectation
	expectChain func(w *world) []*nom.DetailedMomentum // chain (heights 2..) the node must end on
	expectErr   bool
	pre         func(n *vnode.Node, w *world) // optional: something that happens on the node before the delivery
	expectIdx   int                           // expected returned index when expectErr (−1 = not checked: the statement only fixes it for a failing momentum)
	then        *shape
}

func cat(a ...[]*nom.DetailedMomentum) []*nom.DetailedMomentum {
	var out []*nom.DetailedMomentum
	for _, x := range a {
		out = append(out, x...)
	}
	return out
}

// mutate clones d, applies f and re-decodes (so cached producer/timestamp are recomputed as they would be off the wire)
func mutate(d *nom.DetailedMomentum, f func(d *nom.DetailedMomentum)) *nom.DetailedMomentum {
	c := vnode.CloneDetailed(d)
	f(c)
	out := vnode.CloneDetailed(c)
	invalidByConstruction[out] = true
	return out
}

// invalidByConstruction: batch elements that were produced by altering a valid momentum (or one of its blocks)
var invalidByConstruction = map[*nom.DetailedMomentum]bool{}

// refInsert is the reference decision: given the chain the node is on (heights 2..) and a delivered batch whose elements'
// validity is known by construction, which chain must the node be on afterwards, must an error be reported, and at which
// index. It encodes the statement only: known momentums change nothing; the rest must link to one of the node's own
// momentums at most 30 below its frontier; an extension is applied up to the first failing element; a side chain is
// adopted only if it is strictly longer and verifies completely.
func refInsert(cur []*nom.DetailedMomentum, genesis types.HashHeight, batch []*nom.DetailedMomentum, invalid func(*nom.DetailedMomentum) bool) (next []*nom.DetailedMomentum, wantErr bool, idx int) {
	at := func(h uint64) (types.HashHeight, bool) { // identifier of the node's momentum at height h
		if h == 1 {
			return genesis, true
		}
		if h >= 2 && h-2 < uint64(len(cur)) {
			return cur[h-2].Momentum.Identifier(), true
		}
		return types.HashHeight{}, false
	}
	tip, _ := at(uint64(len(cur)) + 1)
	start := 0
	for start < len(batch) {
		id, ok := at(batch[start].Momentum.Height)
		if !ok || id.Hash != batch[start].Momentum.Hash {
			break
		}
		start++
	}
	if start == len(batch) {
		return cur, false, 0
	}
	rest := batch[start:]
	head := rest[0].Momentum
	if head.Previous() == tip {
		next = append([]*nom.DetailedMomentum{}, cur...)
		for i, d := range rest {
			if invalid(d) || (i > 0 && d.Momentum.Previous() != rest[i-1].Momentum.Identifier()) {
				return next, true, start + i
			}
			next = append(next, d)
		}
		return next, false, 0
	}
	if head.Height < 2 {
		return cur, true, -1
	}
	parent, ok := at(head.Height - 1)
	if !ok || parent != head.Previous() {
		return cur, true, -1
	}
	if tip.Height-parent.Height > 30 {
		return cur, true, -1
	}
	tail := rest[len(rest)-1].Momentum
	if tail.Height <= tip.Height {
		return cur, true, -1
	}
	for i, d := range rest {
		if invalid(d) || (i > 0 && d.Momentum.Previous() != rest[i-1].Momentum.Identifier()) {
			return cur, true, start + i // a node leaves its chain only for a chain that verifies completely
		}
	}
	next = append([]*nom.DetailedMomentum{}, cur[:parent.Height-1]...)
	return append(next, rest...), false, 0
}

func resign(m *nom.Momentum, key *wallet.KeyPair) {
	m.Hash = m.ComputeHash()
	m.Signature = key.Sign(m.Hash.Bytes())
	m.PublicKey = key.Public
}

type invalidKind struct {
	name string
	ok   func(d *nom.DetailedMomentum) bool
	f    func(d *nom.DetailedMomentum)
}

func otherPillar(m *nom.Momentum) *wallet.KeyPair {
	for _, k := range []*wallet.KeyPair{g.Pillar1, g.Pillar2, g.Pillar3} {
		if k.Address != m.Producer() {
			return k
		}
	}
	panic("no other pillar")
}

var invalidKinds = []invalidKind{
	{"bad-signature", nil, func(d *nom.DetailedMomentum) { d.Momentum.Signature[5] ^= 1 }},
	{"signature-followed-by-an-extra-byte", nil, func(d *nom.DetailedMomentum) { d.Momentum.Signature = append(append([]byte{}, d.Momentum.Signature...), 0) }},
	{"signed-by-non-elected-pillar", nil, func(d *nom.DetailedMomentum) { resign(d.Momentum, otherPillar(d.Momentum)) }},
	{"signed-by-user-key", nil, func(d *nom.DetailedMomentum) { resign(d.Momentum, g.User1) }},
	{"wrong-changes-hash", nil, func(d *nom.DetailedMomentum) {
		k := keyOf(d.Momentum.Producer())
		d.Momentum.ChangesHash[0] ^= 1
		resign(d.Momentum, k)
	}},
	{"wrong-hash", nil, func(d *nom.DetailedMomentum) { d.Momentum.Hash[3] ^= 1 }},
	{"off-slot-timestamp", nil, func(d *nom.DetailedMomentum) {
		k := keyOf(d.Momentum.Producer())
		d.Momentum.TimestampUnix++
		d.Momentum.Timestamp = nil
		resign(d.Momentum, k)
	}},
	{"wrong-chain-id", nil, func(d *nom.DetailedMomentum) {
		k := keyOf(d.Momentum.Producer())
		d.Momentum.ChainIdentifier++
		resign(d.Momentum, k)
	}},
	{"missing-account-block", func(d *nom.DetailedMomentum) bool { return len(d.AccountBlocks) > 0 }, func(d *nom.DetailedMomentum) {
		d.AccountBlocks = d.AccountBlocks[1:]
	}},
	{"account-block-bad-signature", func(d *nom.DetailedMomentum) bool { return firstUser(d) >= 0 }, func(d *nom.DetailedMomentum) {
		d.AccountBlocks[firstUser(d)].Signature[7] ^= 1
	}},
	{"account-block-amount-altered", func(d *nom.DetailedMomentum) bool { return firstUserSend(d) >= 0 }, func(d *nom.DetailedMomentum) {
		b := d.AccountBlocks[firstUserSend(d)]
		b.Amount = ops.Big(b.Amount.Int64() + 1)
	}},
	{"contract-receive-data-altered", func(d *nom.DetailedMomentum) bool { return firstContractReceive(d) >= 0 }, func(d *nom.DetailedMomentum) {
		b := d.AccountBlocks[firstContractReceive(d)]
		b.Data = append(b.Data, 1)
	}},
	{"content-header-dropped", func(d *nom.DetailedMomentum) bool { return len(d.Momentum.Content) > 0 }, func(d *nom.DetailedMomentum) {
		k := keyOf(d.Momentum.Producer())
		d.Momentum.Content = d.Momentum.Content[1:]
		resign(d.Momentum, k)
	}},
	// an account block nobody verified: a contract-send-type block (the type the per-block verification of a delivered
	// momentum skips because honest ones are covered by their contract receive) that no contract receive produced,
	// listed in the content and shipped with the momentum, correctly sealed by the elected producer
	{"extra-invented-contract-send", nil, func(d *nom.DetailedMomentum) {
		k := keyOf(d.Momentum.Producer())
		b := &nom.AccountBlock{Version: 1, ChainIdentifier: d.Momentum.ChainIdentifier, BlockType: nom.BlockTypeContractSend,
			Height: 1000, MomentumAcknowledged: d.Momentum.Previous(), Address: types.TokenContract, ToAddress: g.User3.Address,
			Amount: ops.Big(1000000 * g.Zexp), TokenStandard: types.ZnnTokenStandard}
		b.Hash = b.ComputeHash()
		extraHeader(d, b)
		resign(d.Momentum, k)
	}},
	// the same, for a batched block that an earlier part of the same momentum already confirmed
	{"extra-repeated-batched-block", func(d *nom.DetailedMomentum) bool { return firstContractSend(d) >= 0 }, func(d *nom.DetailedMomentum) {
		k := keyOf(d.Momentum.Producer())
		extraHeader(d, d.AccountBlocks[firstContractSend(d)])
		resign(d.Momentum, k)
	}},
}

func extraHeader(d *nom.DetailedMomentum, b *nom.AccountBlock) {
	content := append(nom.MomentumContent{}, d.Momentum.Content...)
	h := b.Header()
	d.Momentum.Content = append(content, &h)
	d.AccountBlocks = append(append([]*nom.AccountBlock{}, d.AccountBlocks...), b)
}
func firstContractSend(d *nom.DetailedMomentum) int {
	for i, b := range d.AccountBlocks {
		if b.BlockType == nom.BlockTypeContractSend {
			return i
		}
	}
	return -1
}

func firstUser(d *nom.DetailedMomentum) int {
	for i, b := range d.AccountBlocks {
		if b.BlockType == nom.BlockTypeUserSend || b.BlockType == nom.BlockTypeUserReceive {
			return i
		}
	}
	return -1
}
func firstUserSend(d *nom.DetailedMomentum) int {
	for i, b := range d.AccountBlocks {
		if b.BlockType == nom.BlockTypeUserSend {
			return i
		}
	}
	return -1
}
func firstContractReceive(d *nom.DetailedMomentum) int {
	for i, b := range d.AccountBlocks {
		if b.BlockType == nom.BlockTypeContractReceive {
			return i
		}
	}
	return -1
}

func localOf(w *world) []*nom.DetailedMomentum { return w.local }

func shapesFor(w *world) []*shape {
	var out []*shape
	add := func(s *shape) {
		s.World = w.name
		// a shape's batch is built once: the reference decision identifies altered elements by pointer
		for st := s; st != nil; st = st.then {
			build := st.batch
			var memo []*nom.DetailedMomentum
			done := false
			st.batch = func(w *world) []*nom.DetailedMomentum {
				if !done {
					memo, done = build(w), true
				}
				return memo
			}
		}
		out = append(out, s)
	}
	L := len(w.local)
	// extensions
	for k := 1; k <= 3; k++ {
		k := k
		add(&shape{Name: fmt.Sprintf("extension-%d", k), batch: func(w *world) []*nom.DetailedMomentum { return w.ext[:k] },
			expectChain: func(w *world) []*nom.DetailedMomentum { return cat(w.local, w.ext[:k]) }})
		for _, j := range []int{1, 2, L} {
			j := j
			if j > L {
				continue
			}
			add(&shape{Name: fmt.Sprintf("known-%d+extension-%d", j, k), batch: func(w *world) []*nom.DetailedMomentum { return cat(w.local[L-j:], w.ext[:k]) },
				expectChain: func(w *world) []*nom.DetailedMomentum { return cat(w.local, w.ext[:k]) }})
		}
	}
	// duplicates
	for _, j := range []int{1, 2, L} {
		j := j
		if j > L {
			continue
		}
		add(&shape{Name: fmt.Sprintf("duplicate-last-%d", j), batch: func(w *world) []*nom.DetailedMomentum { return w.local[L-j:] }, expectChain: localOf})
	}
	if L >= 3 {
		add(&shape{Name: "duplicate-middle", batch: func(w *world) []*nom.DetailedMomentum { return w.local[1 : L-1] }, expectChain: localOf})
	}
	// forks
	for d, side := range w.sides {
		d, side := d, side
		base := func(w *world) []*nom.DetailedMomentum { return w.local[:L-d] }
		if key := w.ownElected[d]; key != nil && d <= 30 {
			// short-tick world: the longer side chain is genuine except for its last momentum, which is signed by the pillar
			// that the node's OWN chain elects for that slot (the side chain elects another one). Before the delivery the
			// node is asked for that slot's producer, as an RPC client or its own pillar would.
			tailTime := *side[len(side)-1].Momentum.Timestamp
			add(&shape{Name: fmt.Sprintf("fork-depth-%d-longer-last-signed-by-pillar-elected-on-own-chain", d),
				pre: func(n *vnode.Node, w *world) { n.Cons.GetMomentumProducer(tailTime) },
				batch: func(w *world) []*nom.DetailedMomentum {
					b := vnode.CloneBatch(side)
					b[len(b)-1] = mutate(b[len(b)-1], func(x *nom.DetailedMomentum) { resign(x.Momentum, key) })
					return b
				},
				expectChain: localOf, expectErr: true, expectIdx: len(side) - 1})
		}
		for _, rel := range []string{"shorter", "equal", "longer"} {
			n := map[string]int{"shorter": d - 1, "equal": d, "longer": d + 1}[rel]
			if n < 1 {
				continue
			}
			tooDeep := d > 30
			adopt := rel == "longer" && !tooDeep
			s := &shape{Name: fmt.Sprintf("fork-depth-%d-%s", d, rel), batch: func(w *world) []*nom.DetailedMomentum { return side[:n] }}
			if adopt {
				s.expectChain = func(w *world) []*nom.DetailedMomentum { return cat(base(w), side[:n]) }
			} else {
				s.expectChain = localOf
				s.expectErr = true
				s.expectIdx = -1
			}
			add(s)
			if !adopt && !tooDeep {
				// the same shorter / equal side chain with one of its elements repeated until the batch has more elements than
				// the node would abandon: a repeated (empty) momentum verifies again, but the chain is not any longer for it
				for _, dp := range []int{0, n - 1} {
					dp := dp
					if dp == n-1 && n == 1 {
						continue
					}
					add(&shape{Name: fmt.Sprintf("fork-depth-%d-%s-duplicated@%d", d, rel, dp),
						batch: func(w *world) []*nom.DetailedMomentum {
							var b []*nom.DetailedMomentum
							for i, m := range side[:n] {
								b = append(b, m)
								if i == dp {
									for k := 0; k < d-n+1; k++ {
										b = append(b, m)
									}
								}
							}
							return b
						},
						expectChain: localOf, expectErr: true, expectIdx: -1})
				}
			}
			if adopt && d <= 3 {
				// with the known common part in front
				add(&shape{Name: fmt.Sprintf("fork-depth-%d-longer-with-known-prefix", d), batch: func(w *world) []*nom.DetailedMomentum { return cat(base(w)[len(base(w))-1:], side[:n]) },
					expectChain: func(w *world) []*nom.DetailedMomentum { return cat(base(w), side[:n]) }})
				// invalid element inside a longer side chain: the node must not leave its chain for it
				for pos := 0; pos < n; pos++ {
					for _, ik := range []string{"bad-signature", "wrong-changes-hash"} {
						pos, ik := pos, ik
						add(&shape{Name: fmt.Sprintf("fork-depth-%d-longer-invalid@%d-%s", d, pos, ik),
							batch: func(w *world) []*nom.DetailedMomentum {
								b := vnode.CloneBatch(side[:n])
								for _, k := range invalidKinds {
									if k.name == ik {
										b[pos] = mutate(b[pos], k.f)
									}
								}
								return b
							},
							expectChain: localOf, expectErr: true, expectIdx: pos})
					}
				}
			}
		}
	}
	// a longer side chain whose last momentum cements a block that fails verification there; with and without the node
	// having pooled that (locally valid) block beforehand
	for d, dis := range w.dishonest {
		d, dis := d, dis
		for _, gossip := range []bool{false, true} {
			gossip := gossip
			s := &shape{Name: fmt.Sprintf("fork-depth-%d-longer-cementing-unverifiable-block-gossiped-%v", d, gossip),
				batch:       func(w *world) []*nom.DetailedMomentum { return dis },
				expectChain: localOf, expectErr: true, expectIdx: len(dis) - 1}
			if gossip {
				s.pre = func(n *vnode.Node, w *world) {
					if e, pn := n.AddAccountBlocks([]*nom.AccountBlock{vnode.CloneBlock(w.stale)}); e != nil || pn != nil {
						panic(fmt.Sprintf("harness: the block must be valid on the local chain: %v %v", e, pn))
					}
				}
			}
			add(s)
		}
	}
	// a sealed momentum on the local tip that confirms the second of two pooled blocks of an account and not the first
	for _, gc := range w.gapped {
		gc := gc
		for _, known := range []int{0, 1} {
			known := known
			name := fmt.Sprintf("extension-skipping-a-pooled-predecessor-%s-known-%d", gc.name, known)
			if gc.name == "same-send-listed-twice" {
				name = fmt.Sprintf("extension-listing-%s-known-%d", gc.name, known)
			}
			add(&shape{Name: name,
				pre: func(n *vnode.Node, w *world) {
					for _, b := range gc.blocks {
						if e, pn := n.AddAccountBlocks([]*nom.AccountBlock{vnode.CloneBlock(b)}); e != nil || pn != nil {
							panic(fmt.Sprintf("harness: the block must be valid on the local chain: %v %v", e, pn))
						}
					}
				},
				batch:       func(w *world) []*nom.DetailedMomentum { return cat(w.local[L-known:], []*nom.DetailedMomentum{gc.m}) },
				expectChain: localOf, expectErr: true, expectIdx: known})
		}
	}
	// gap
	add(&shape{Name: "gap-skip-one", batch: func(w *world) []*nom.DetailedMomentum { return w.ext[1:] }, expectChain: localOf, expectErr: true, expectIdx: -1})
	add(&shape{Name: "gap-skip-two", batch: func(w *world) []*nom.DetailedMomentum { return w.ext[2:] }, expectChain: localOf, expectErr: true, expectIdx: -1})
	// not linking
	add(&shape{Name: "alien-tail-above-frontier", batch: func(w *world) []*nom.DetailedMomentum { return w.alien[L : L+2] }, expectChain: localOf, expectErr: true, expectIdx: -1})
	add(&shape{Name: "alien-from-height-3", batch: func(w *world) []*nom.DetailedMomentum { return w.alien[1:] }, expectChain: localOf, expectErr: true, expectIdx: -1})
	// forged heights with a known parent
	for _, dh := range []int64{-1, 1, 5} {
		dh := dh
		add(&shape{Name: fmt.Sprintf("forged-height%+d", dh), batch: func(w *world) []*nom.DetailedMomentum {
			return []*nom.DetailedMomentum{mutate(w.ext[0], func(d *nom.DetailedMomentum) { d.Momentum.Height = uint64(int64(d.Momentum.Height) + dh) })}
		}, expectChain: localOf, expectErr: true, expectIdx: -1})
	}
	add(&shape{Name: "forged-height-0", batch: func(w *world) []*nom.DetailedMomentum {
		return []*nom.DetailedMomentum{mutate(w.ext[0], func(d *nom.DetailedMomentum) { d.Momentum.Height = 0 })}
	}, expectChain: localOf, expectErr: true, expectIdx: -1})
	// empty batch
	add(&shape{Name: "empty-batch", batch: func(w *world) []*nom.DetailedMomentum { return nil }, expectChain: localOf})
	// invalid element of every kind at every position of the 3-momentum extension
	for pos := 0; pos < 3; pos++ {
		for _, ik := range invalidKinds {
			pos, ik := pos, ik
			if ik.ok != nil && !ik.ok(w.ext[pos]) {
				continue
			}
			s := &shape{Name: fmt.Sprintf("extension-invalid@%d-%s", pos, ik.name),
				batch: func(w *world) []*nom.DetailedMomentum {
					b := vnode.CloneBatch(w.ext)
					b[pos] = mutate(b[pos], ik.f)
					return b
				},
				expectChain: func(w *world) []*nom.DetailedMomentum { return cat(w.local, w.ext[:pos]) }, expectErr: true, expectIdx: pos}
			// overlapping re-delivery of the valid batch after the failure must complete the chain
			s.then = &shape{Name: "then-valid-redelivery", batch: func(w *world) []*nom.DetailedMomentum { return cat(w.local[L-1:], w.ext) },
				expectChain: func(w *world) []*nom.DetailedMomentum { return cat(w.local, w.ext) }}
			add(s)
		}
	}
	return out
}

// ---------------------------------------------------------------------------------------------------------------------

func feed(n *vnode.Node, chain []*nom.DetailedMomentum) {
	if len(chain) == 0 {
		return
	}
	if _, err, pan := n.InsertChain(vnode.CloneBatch(chain)); err != nil || pan != nil {
		panic(fmt.Sprintf("reference feed failed: %v %v", err, pan))
	}
}

var refCache = map[string]string{}

func refDigest(c *xs.Ctx, chain []*nom.DetailedMomentum) string {
	key := ""
	if len(chain) > 0 {
		key = chain[len(chain)-1].Momentum.Hash.String()
	}
	if d, ok := refCache[key]; ok {
		return d
	}
	f := vnode.New(vnode.Options{Dir: c.TempDir(), NoPillars: true})
	feed(f, chain)
	d := f.FullDigest()
	f.Destroy()
	refCache[key] = d
	return d
}

func runShape(c *xs.Ctx, r *xs.Result, w *world, s *shape) {
	n := vnode.New(vnode.Options{Dir: c.TempDir(), NoPillars: true})
	defer n.Destroy()
	feed(n, w.local)
	name := s.Name
	for step := s; step != nil; step = step.then {
		if step != s {
			name = s.Name + "/" + step.Name
		}
		rep := map[string]string{"world": w.name, "shape": s.Name}
		bad := func(sig, format string, a ...interface{}) {
			r.Violate("C16:"+sig, fmt.Sprintf("local chain %s, batch %q: ", w.name, name)+fmt.Sprintf(format, a...), rep)
		}
		if step.pre != nil {
			step.pre(n, w)
		}
		batch := vnode.CloneBatch(step.batch(w))
		idx, err, pan := n.InsertChain(batch)
		r.Count("batches_delivered", 1)
		if pan != nil {
			bad(classify(step.Name)+":panic", "InsertChain panicked: %v", pan)
			return
		}
		want := step.expectChain(w)
		// the general reference decision must agree with the expectation written down by construction of the shape
		if step == s {
			rn, rerr, ridx := refInsert(w.local, w.genesis, step.batch(w), func(d *nom.DetailedMomentum) bool { return invalidByConstruction[d] || w.unverifiable[d] })
			if tipOf(rn, w.genesis) != tipOf(want, w.genesis) || rerr != step.expectErr || (rerr && step.expectIdx >= 0 && ridx >= 0 && ridx != step.expectIdx) {
				panic(fmt.Sprintf("harness: reference decision (tip %v err %v idx %d) disagrees with the shape's own expectation (tip %v err %v idx %d) for %s/%s",
					tipOf(rn, w.genesis), rerr, ridx, tipOf(want, w.genesis), step.expectErr, step.expectIdx, w.name, step.Name))
			}
		}
		wantTip := types.HashHeight{}
		if len(want) > 0 {
			wantTip = want[len(want)-1].Momentum.Identifier()
		}
		got := n.Frontier().Identifier()
		if step.expectErr && err == nil {
			bad(classify(step.Name)+":accepted", "returned no error (idx=%d), frontier now height %d", idx, got.Height)
		}
		if !step.expectErr && err != nil {
			bad(classify(step.Name)+":refused", "refused: idx=%d err=%v", idx, err)
		}
		if got != wantTip {
			sig := classify(step.Name) + ":wrong-final-chain"
			if step.expectErr && err != nil && strings.HasPrefix(step.Name, "fork-") && strings.Contains(step.Name, "-invalid@") {
				// one root cause, one key: InsertChain rolls the local chain back before the side chain is verified
				sig = "InsertChain:side-chain-with-invalid-element:rolled-back-before-verification"
			}
			bad(sig, "node ends at height %d (%v), expected to stay/end at height %d (%v); err=%v idx=%d", got.Height, got.Hash, wantTip.Height, wantTip.Hash, err, idx)
			return
		}
		if d := n.FullDigest(); d != refDigest(c, want) {
			bad(classify(step.Name)+":store-differs", "frontier is as expected but the raw store differs from a fresh node fed the expected chain")
			return
		}
		if step.expectErr && step.expectIdx >= 0 && err != nil && idx != step.expectIdx {
			bad(classify(step.Name)+":wrong-index", "returned index %d, the first failing momentum is at %d (err=%v)", idx, step.expectIdx, err)
		}
		if err != nil {
			r.Add("rejection_reasons", short(err.Error()))
		}
		// every pooled block must be valid: acceptable to a fresh node fed the same chain
		r.Add("outcomes", fmt.Sprintf("%s err=%v", classify(step.Name), err != nil))
	}
}

func tipOf(chain []*nom.DetailedMomentum, genesis types.HashHeight) types.HashHeight {
	if len(chain) == 0 {
		return genesis
	}
	return chain[len(chain)-1].Momentum.Identifier()
}

// runSequence delivers two batches one after the other; expectations come from the reference decision alone.
func runSequence(c *xs.Ctx, r *xs.Result, w *world, s1, s2 *shape) {
	n := vnode.New(vnode.Options{Dir: c.TempDir(), NoPillars: true})
	defer n.Destroy()
	feed(n, w.local)
	cur := w.local
	inv := func(d *nom.DetailedMomentum) bool { return invalidByConstruction[d] || w.unverifiable[d] }
	for _, st := range []*shape{s1, s2} {
		// Shapes whose invalid element is an attached account block that keeps its hash (or a missing one) are covered
		// singly only: InsertChain rightly skips blocks the node already holds under that identifier (they were verified
		// when a previous delivery pooled them), so whether such an element fails depends on the pool, which this
		// reference does not model.
		if st.pre != nil || strings.Contains(st.Name, "account-block-") || strings.Contains(st.Name, "contract-receive-data") || strings.Contains(st.Name, "missing-account-block") {
			return
		}
	}
	for i, st := range []*shape{s1, s2} {
		batch := st.batch(w)
		want, wantErr, wantIdx := refInsert(cur, w.genesis, batch, inv)
		idx, err, pan := n.InsertChain(vnode.CloneBatch(batch))
		r.Count("batches_delivered", 1)
		rep := map[string]string{"world": w.name, "shape": s1.Name, "then": s2.Name}
		bad := func(sig, format string, a ...interface{}) {
			r.Violate("C16:seq:"+sig, fmt.Sprintf("local chain %s, batches %q then %q (step %d): ", w.name, s1.Name, s2.Name, i+1)+fmt.Sprintf(format, a...), rep)
		}
		if pan != nil {
			bad(classify(st.Name)+":panic", "InsertChain panicked: %v", pan)
			return
		}
		if (err != nil) != wantErr {
			bad(classify(st.Name)+":verdict", "err=%v, reference expects error=%v", err, wantErr)
		}
		if got := n.Frontier().Identifier(); got != tipOf(want, w.genesis) {
			bad(classify(st.Name)+":wrong-final-chain", "node ends at height %d (%v), reference at height %d", got.Height, got.Hash, tipOf(want, w.genesis).Height)
			return
		}
		if d := n.FullDigest(); d != refDigest(c, want) {
			bad(classify(st.Name)+":store-differs", "raw store differs from a fresh node fed the reference chain")
			return
		}
		if err != nil && wantErr && wantIdx >= 0 && idx != wantIdx {
			bad(classify(st.Name)+":wrong-index", "returned index %d, reference %d", idx, wantIdx)
		}
		cur = want
	}
	r.Count("sequences", 1)
}

func short(s string) string {
	if len(s) > 48 {
		s = s[:48]
	}
	return s
}

// classify maps a shape name to its class (the part of a violation key that identifies the call site / input class).
func classify(name string) string {
	for i := 0; i < len(name); i++ {
		if name[i] == '@' {
			j := i
			for j < len(name) && name[j] != '-' {
				j++
			}
			return name[:i] + name[j:]
		}
	}
	return name
}

// smallWorlds: worlds built under election ticks of 3 slots (a process-global setting: they get worker processes of their own)
func smallWorlds(tier string) [][2]interface{} {
	return [][2]interface{}{{14, []int{4, 5, 6, 7}}}
}

func worlds(tier string) [][2]interface{} {
	ws := [][2]interface{}{{3, []int{1, 2}}, {8, []int{1, 2, 3}}}
	if tier == "thorough" {
		ws = append(ws, [2]interface{}{35, []int{1, 3, 29, 30, 31}})
	} else {
		ws = append(ws, [2]interface{}{35, []int{30, 31}})
	}
	return ws
}

func init() {
	xs.Register(&xs.Check{
		ID:     "C16",
		Level:  "model_checking",
		Shards: func(tier string) int { return 16 },
		Budget: func(tier string) time.Duration {
			if tier == "thorough" {
				return 15 * time.Minute
			}
			return 3 * time.Minute
		},
		Assumptions: []string{
			"mock genesis; batches are delivered through protocol.ChainBridge.InsertChain (what fetcher/downloader call)",
			"validity of every batch element is known by construction (valid chains come from real producers; invalid elements are single alterations of a valid momentum / account block, re-signed by the elected pillar where the alteration is meant to survive the signature check)",
		},
		Run: run,
		Finish: func(tier string, m *xs.Result, ev *xs.Evidence) {
			ev.Coverage["states"] = m.Counters["shapes"]
			ev.Coverage["transitions"] = m.Counters["batches_delivered"]
			ev.Coverage["traces_validated_against_impl"] = m.Counters["batches_delivered"]
		},
	})
}

func run(c *xs.Ctx, r *xs.Result) {
	var only struct{ World, Shape string }
	if c.Replay != nil {
		json.Unmarshal(c.Replay, &only)
	}
	i := 0
	// the last two workers run the short-tick worlds (consensus configuration is process-global); the others the default ones
	smallMode := (c.NShards >= 4 && c.Shard >= c.NShards-2) || strings.HasPrefix(only.World, "S")
	mine := func(i int) bool { return c.Mine(i) }
	list, prefix := worlds(c.Tier), "L"
	if c.NShards >= 4 {
		if smallMode {
			mine = func(i int) bool { return i%2 == c.Shard-(c.NShards-2) }
		} else {
			mine = func(i int) bool { return i%(c.NShards-2) == c.Shard }
		}
	}
	if smallMode {
		vnode.SmallConsensus(2)
		list, prefix = smallWorlds(c.Tier), "S"
	}
	for _, wd := range list {
		var w *world
		name := fmt.Sprintf("%s%d", prefix, wd[0].(int))
		if only.World != "" && only.World != name {
			continue
		}
		// shapes are enumerated from a world; build lazily only if this shard has work (cheap enough: always build)
		w = buildWorld(c, wd[0].(int), wd[1].([]int), smallMode)
		for _, s := range shapesFor(w) {
			i++
			if only.Shape != "" {
				if only.Shape != s.Name {
					continue
				}
			} else if !mine(i) {
				continue
			}
			if c.Expired() {
				r.Incomplete = true
				return
			}
			runShape(c, r, w, s)
			r.Count("shapes", 1)
			r.Sample(map[string]string{"world": w.name, "shape": s.Name})
		}
		if c.Thorough() && only.Shape == "" {
			// all ordered pairs of batches (depth-2 histories of deliveries), judged by the reference decision
			all := shapesFor(w)
			for _, s1 := range all {
				for _, s2 := range all {
					i++
					if !mine(i) {
						continue
					}
					if c.Expired() {
						r.Incomplete = true
						return
					}
					runSequence(c, r, w, s1, s2)
				}
			}
		}
	}
}
