#!/bin/bash
# ./run.sh <Cxx> <quick|thorough>     run one check (rebuilds the checker from /repo's current working tree first)
# ./run.sh <Cxx> --replay <file>      re-execute one recorded violation without the explorer
# exit 0: property held on everything explored; exit 1 + "VIOLATION property=.. replay=.." line: violation;
# exit 2: the check itself is broken (build failure, harness error) — never a verdict about the property.
cd /verif
if [ -z "$VERIF_NOBUILD" ]; then
  if ! /verif/build.sh "$1" > /verif/.work/build.log 2>&1; then
    echo "CHECK-BROKEN: build failed (see /verif/.work/build.log)"; tail -20 /verif/.work/build.log; exit 2
  fi
fi
exec /verif/.work/bin/zmc "$@"
