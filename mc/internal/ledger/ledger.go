// Package ledger reads the whole ledger of a node independently of the repository's higher-level accessors: it walks
// the raw key space of the frontier momentum store (account chains, balances) and overlays the unconfirmed pool.
package ledger

import (
	"fmt"
	"math/big"
	"sort"

	"github.com/zenon-network/go-zenon/chain/nom"
	"github.com/zenon-network/go-zenon/common/db"
	"github.com/zenon-network/go-zenon/common/types"
	"github.com/zenon-network/go-zenon/vm/embedded/definition"

	"verifmc/internal/vnode"
)

type Account struct {
	Address  types.Address
	Balances map[types.ZenonTokenStandard]*big.Int
	Blocks   []*nom.AccountBlock // by height, top-level chain entries (descendant sends appear as their own entries)
}

type View struct {
	Accounts map[types.Address]*Account
	Tokens   []*definition.TokenInfo
	Height   uint64
	Pool     bool
}

func (v *View) account(a types.Address) *Account {
	ac := v.Accounts[a]
	if ac == nil {
		ac = &Account{Address: a, Balances: map[types.ZenonTokenStandard]*big.Int{}}
		v.Accounts[a] = ac
	}
	return ac
}

// Confirmed scans the frontier momentum store.
func Confirmed(n *vnode.Node) *View {
	st := n.Chain.GetFrontierMomentumStore()
	it, ok := st.(interface {
		NewIterator([]byte) db.StorageIterator
	})
	if !ok {
		panic("momentum store does not expose an iterator")
	}
	v := &View{Accounts: map[types.Address]*Account{}, Height: st.Identifier().Height}
	iter := it.NewIterator([]byte{3})
	defer iter.Release()
	for iter.Next() {
		val := iter.Value()
		if val == nil {
			continue
		}
		k := iter.Key()
		if len(k) < 1+types.AddressSize+1 {
			continue
		}
		addr, err := types.BytesToAddress(k[1 : 1+types.AddressSize])
		if err != nil {
			panic(err)
		}
		sub := k[1+types.AddressSize:]
		ac := v.account(addr)
		switch sub[0] {
		case 3: // balance
			zts, err := types.BytesToZTS(sub[1:])
			if err != nil {
				panic(fmt.Sprintf("bad balance key %x: %v", k, err))
			}
			ac.Balances[zts] = new(big.Int).SetBytes(val)
		case 2: // block by height
			b, err := nom.DeserializeAccountBlock(val)
			if err != nil {
				panic(err)
			}
			ac.Blocks = append(ac.Blocks, b)
		}
	}
	for _, ac := range v.Accounts {
		sort.Slice(ac.Blocks, func(i, j int) bool { return ac.Blocks[i].Height < ac.Blocks[j].Height })
	}
	toks, err := definition.GetTokenInfoList(st.GetAccountStore(types.TokenContract).Storage())
	if err != nil {
		panic(err)
	}
	v.Tokens = toks
	return v
}

// WithPool overlays the unconfirmed pool on a confirmed view: balances and token infos are read from the pool's frontier
// account stores, pooled blocks are appended to the account chains.
func WithPool(n *vnode.Node, conf *View) *View {
	v := &View{Accounts: map[types.Address]*Account{}, Height: conf.Height, Pool: true}
	for a, ac := range conf.Accounts {
		na := v.account(a)
		for z, b := range ac.Balances {
			na.Balances[z] = b
		}
		na.Blocks = append(na.Blocks, ac.Blocks...)
	}
	touched := map[types.Address]bool{}
	for _, b := range n.PoolBlocks() {
		v.account(b.Address).Blocks = append(v.account(b.Address).Blocks, b)
		touched[b.Address] = true
	}
	for a := range touched {
		m, err := n.Chain.GetFrontierAccountStore(a).GetBalanceMap()
		if err != nil {
			panic(err)
		}
		ac := v.account(a)
		ac.Balances = map[types.ZenonTokenStandard]*big.Int{}
		for z, b := range m {
			ac.Balances[z] = b
		}
	}
	toks, err := definition.GetTokenInfoList(n.Chain.GetFrontierAccountStore(types.TokenContract).Storage())
	if err != nil {
		panic(err)
	}
	v.Tokens = toks
	return v
}

func IsSend(b *nom.AccountBlock) bool {
	return b.BlockType == nom.BlockTypeUserSend || b.BlockType == nom.BlockTypeContractSend
}
func IsReceive(b *nom.AccountBlock) bool {
	return b.BlockType == nom.BlockTypeUserReceive || b.BlockType == nom.BlockTypeContractReceive || b.BlockType == nom.BlockTypeGenesisReceive
}

// Receivers maps send hash -> receive blocks that reference it.
func (v *View) Receivers() map[types.Hash][]*nom.AccountBlock {
	out := map[types.Hash][]*nom.AccountBlock{}
	for _, ac := range v.Accounts {
		for _, b := range ac.Blocks {
			if IsReceive(b) && !b.FromBlockHash.IsZero() {
				out[b.FromBlockHash] = append(out[b.FromBlockHash], b)
			}
		}
	}
	return out
}

// SupplyEquation checks, for every token: TotalSupply == sum of balances + sum of amounts of sends not yet received, and
// TotalSupply <= MaxSupply. Returns "" or a description of the first failure.
func (v *View) SupplyEquation() string {
	recv := v.Receivers()
	inflight := map[types.ZenonTokenStandard]*big.Int{}
	held := map[types.ZenonTokenStandard]*big.Int{}
	add := func(m map[types.ZenonTokenStandard]*big.Int, z types.ZenonTokenStandard, a *big.Int) {
		if m[z] == nil {
			m[z] = new(big.Int)
		}
		m[z].Add(m[z], a)
	}
	for _, ac := range v.Accounts {
		for z, b := range ac.Balances {
			if b.Sign() < 0 {
				return fmt.Sprintf("negative balance of %v on %v", z, ac.Address)
			}
			add(held, z, b)
		}
		for _, b := range ac.Blocks {
			if IsSend(b) && len(recv[b.Hash]) == 0 && b.Amount != nil && b.Amount.Sign() > 0 {
				add(inflight, b.TokenStandard, b.Amount)
			}
		}
	}
	view := "confirmed ledger"
	if v.Pool {
		view = "pool view"
	}
	seen := map[types.ZenonTokenStandard]bool{}
	for _, t := range v.Tokens {
		seen[t.TokenStandard] = true
		sum := new(big.Int)
		if held[t.TokenStandard] != nil {
			sum.Add(sum, held[t.TokenStandard])
		}
		if inflight[t.TokenStandard] != nil {
			sum.Add(sum, inflight[t.TokenStandard])
		}
		if sum.Cmp(t.TotalSupply) != 0 {
			return fmt.Sprintf("%s at height %d: token %s (%v): recorded total supply %v but balances %v + in-flight %v = %v", view, v.Height, t.TokenSymbol, t.TokenStandard, t.TotalSupply, orZero(held[t.TokenStandard]), orZero(inflight[t.TokenStandard]), sum)
		}
		if t.TotalSupply.Cmp(t.MaxSupply) > 0 {
			return fmt.Sprintf("%s: token %s total supply %v exceeds max supply %v", view, t.TokenSymbol, t.TotalSupply, t.MaxSupply)
		}
	}
	for z, b := range held {
		if !seen[z] && b.Sign() != 0 {
			return fmt.Sprintf("%s: balances of %v for a token the token contract does not know (%v)", view, b, z)
		}
	}
	for z, b := range inflight {
		if !seen[z] && b.Sign() != 0 {
			return fmt.Sprintf("%s: in-flight amount %v of a token the token contract does not know (%v)", view, b, z)
		}
	}
	return ""
}

func orZero(b *big.Int) *big.Int {
	if b == nil {
		return new(big.Int)
	}
	return b
}

// Supplies returns token standard -> total supply.
func (v *View) Supplies() map[types.ZenonTokenStandard]*big.Int {
	out := map[types.ZenonTokenStandard]*big.Int{}
	for _, t := range v.Tokens {
		out[t.TokenStandard] = new(big.Int).Set(t.TotalSupply)
	}
	return out
}
