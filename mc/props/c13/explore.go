package c13

import (
	"bytes"
	"fmt"
	"sort"
	"strings"

	"github.com/ethereum/go-ethereum/rlp"

	"github.com/zenon-network/go-zenon/chain/nom"
	"github.com/zenon-network/go-zenon/chain/store"
	"github.com/zenon-network/go-zenon/common/types"

	"verifmc/internal/ops"
	"verifmc/internal/vnode"
	"verifmc/internal/xs"
)

// wireBlocks sends blocks through the exact encoding of protocol.peer.SendTransactions / handler TxMsg:
// rlp of []*nom.AccountBlock.
func wireBlocks(bs []*nom.AccountBlock) ([]*nom.AccountBlock, error) {
	enc, err := rlp.EncodeToBytes(bs)
	if err != nil {
		return nil, fmt.Errorf("encode: %w", err)
	}
	var out []*nom.AccountBlock
	if err := rlp.DecodeBytes(enc, &out); err != nil {
		return nil, fmt.Errorf("decode: %w", err)
	}
	return out, nil
}

// wireMomentum: rlp of *nom.DetailedMomentum (NewBlockMsg) followed by EnsureCache, as handler.go does.
func wireMomentum(d *nom.DetailedMomentum) (*nom.DetailedMomentum, error) {
	d.Momentum.EnsureCache()
	enc, err := rlp.EncodeToBytes(d)
	if err != nil {
		return nil, fmt.Errorf("encode: %w", err)
	}
	var out *nom.DetailedMomentum
	if err := rlp.DecodeBytes(enc, &out); err != nil {
		return nil, fmt.Errorf("decode: %w", err)
	}
	out.Momentum.EnsureCache()
	return out, nil
}

func wireBatch(ds []*nom.DetailedMomentum) []*nom.DetailedMomentum {
	out := make([]*nom.DetailedMomentum, len(ds))
	for i, d := range ds {
		w, err := wireMomentum(vnode.CloneDetailed(d))
		if err != nil {
			panic(err)
		}
		out[i] = w
	}
	return out
}

type poolView map[string][]byte // address/height -> stored bytes

func viewPool(n *vnode.Node) poolView {
	v := poolView{}
	for _, b := range n.PoolBlocks() {
		v[fmt.Sprintf("%s/%d", b.Address, b.Height)] = mustSer(b)
	}
	return v
}

func (a poolView) equal(b poolView) bool {
	if len(a) != len(b) {
		return false
	}
	for k, v := range a {
		if !bytes.Equal(v, b[k]) {
			return false
		}
	}
	return true
}

// rootGroup maps (class, target, field) to the name used in violation keys: one name per mechanism that is supposed to
// pin the field down.
func rootGroup(class string, v variant) string {
	f := v.Field
	if strings.HasPrefix(v.Target, "d") {
		return "descendant-" + f
	}
	return f
}

func effectGroup(class string, v variant) string {
	if class == "contract-receive" && strings.HasPrefix(v.Target, "d") {
		return "descendant-recipient-amount-or-token"
	}
	return rootGroup(class, v)
}

// keyGroup is the field name used in violation keys. A received contract-receive block is pinned down by one
// mechanism only (vm.applyBlock regenerates it and compares ChangesHash and Hash), so the fields that this mechanism
// leaves open share one name; everything else keeps its own field name.
func keyGroup(class string, v variant) string {
	g := rootGroup(class, v)
	if class == "contract-receive" && v.Flavor == "keep" {
		if g == "BasePlasma" || g == "TotalPlasma" || (strings.HasPrefix(g, "descendant-") && g != "descendant-Hash") {
			return "plasma-fields-or-descendant-contents"
		}
	}
	return g
}

func classOf(b *nom.AccountBlock) string {
	switch b.BlockType {
	case nom.BlockTypeUserSend, nom.BlockTypeUserReceive:
		return "user-block"
	case nom.BlockTypeContractReceive:
		return "contract-receive"
	case nom.BlockTypeContractSend:
		return "contract-send"
	}
	return fmt.Sprintf("type%d", b.BlockType)
}

type replayB struct {
	Part    string `json:"part"`
	Hist    int    `json:"hist"`
	Block   int    `json:"block"`
	Variant string `json:"variant"`
	Height  uint64 `json:"height,omitempty"`
}

// exploreBlock runs every variant of pooled block k against followers. only: restrict to one variant name (replay).
func exploreBlock(c *xs.Ctx, r *xs.Result, hi int, rec *prodRec, k *pooled, only string) {
	bb := boundsFor(c.Thorough())
	if only != "" {
		bb = boundsFor(true)
	}
	class := classOf(k.Block)
	detail := blockClass(k.Block)
	if k.Block.BlockType == nom.BlockTypeContractSend {
		// a batched contract send never travels alone: AddAccountBlocks ignores it. One delivery to observe exactly that.
		f := rec.follower(c, k)
		defer f.Destroy()
		before, beforeD := viewPool(f), f.FullDigest()
		w, err := wireBlocks([]*nom.AccountBlock{vnode.CloneBlock(k.Block)})
		if err != nil {
			panic(err)
		}
		_, pan := f.AddAccountBlocks(w)
		r.Count("states", 1)
		r.Count("transitions", 1)
		if pan != nil || !before.equal(viewPool(f)) || beforeD != f.FullDigest() {
			r.Violate("C13:contract-send:standalone-delivery:changes-follower", fmt.Sprintf("history %d block %d: a batched contract send delivered on its own changed the follower (panic=%v)", hi, k.Idx, pan),
				replayB{"B", hi, k.Idx, "", 0})
		}
		r.Count("standalone_contract_send_ignored", 1)
		return
	}
	vs := variantsOf(k.Block, bb)
	var f *vnode.Node
	var clean poolView
	var cleanD string
	// warm = the follower has already verified and pooled the unaltered block once and lost it again through a rollback of
	// its last momentum (what adopting a side chain does to the pool) before the variant arrives: anything the node
	// remembers about a hash it has seen must not make a second form of that hash acceptable.
	warm := false
	fresh := func() {
		if f != nil {
			f.Destroy()
		}
		if warm {
			f = rec.followerWarm(c, k)
			r.Count("warm_followers_built", 1)
		} else {
			f = rec.follower(c, k)
		}
		clean, cleanD = viewPool(f), f.FullDigest()
		r.Count("followers_built", 1)
	}
	fresh()
	defer func() {
		if f != nil {
			f.Destroy()
		}
	}()
	ident := fmt.Sprintf("%s/%d", k.Block.Address, k.Block.Height)
	passes := []bool{false}
	if k.HP >= 2 {
		passes = append(passes, true)
	}
	for _, warmPass := range passes {
		if warmPass {
			warm = true
			fresh()
		}
		for _, v := range vs {
			if only != "" && v.Name != strings.TrimSuffix(only, "@warm") {
				continue
			}
			if only != "" && warmPass != strings.HasSuffix(only, "@warm") {
				continue
			}
			if c.Expired() {
				r.Incomplete = true
				r.Note("deadline reached in history %d block %d", hi, k.Idx)
				return
			}
			r.Count("states", 1)
			r.Sample(map[string]interface{}{"history": hi, "block": ident, "class": class, "variant": v.Name, "flavour": v.Flavor})
			r.Add("variant_fields", class+":"+rootGroup(class, v)+"/"+v.Flavor)
			V := vnode.CloneBlock(k.Block)
			v.Mut(V)
			if bytes.Equal(mustSer(V), k.Bytes) {
				r.Count("variants_identical_to_original", 1)
				continue
			}
			sameHash := V.Hash == k.Block.Hash
			if warmPass && (!sameHash || v.Flavor == "resign") {
				continue // another block: what the node remembers about B's hash cannot matter
			}
			w, err := wireBlocks([]*nom.AccountBlock{V})
			if err != nil {
				r.Count("variants_not_encodable_on_wire", 1)
				r.Add("outcomes", class+":"+rootGroup(class, v)+"/"+v.Flavor+":unencodable")
				continue
			}
			rep := replayB{"B", hi, k.Idx, v.Name, 0}
			where := fmt.Sprintf("history %d [%s], block %d (%s, account %s height %d, pooled at momentum height %d), variant %s", hi, ops.Hist(rec.Hist), k.Idx, detail, k.Block.Address, k.Block.Height, k.HP, v.Name)
			if warmPass {
				rep.Variant += "@warm"
				where += " delivered after the follower had pooled the unaltered block and lost it again in a rollback of its last momentum"
				r.Count("warm_variants_delivered", 1)
			}
			aerr, pan := f.AddAccountBlocks(w)
			r.Count("transitions", 1)
			if pan != nil {
				r.Violate("C13:"+class+":"+rootGroup(class, v)+"-altered:delivery-panics", where+": AddAccountBlocks panicked: "+fmt.Sprint(pan), rep)
				fresh()
				continue
			}
			after := viewPool(f)
			if after.equal(clean) {
				// refused (or ignored): nothing may have changed
				if d := f.FullDigest(); d != cleanD {
					r.Violate("C13:"+class+":"+rootGroup(class, v)+"-altered:refused-variant-changes-store", where+": the variant was refused but the follower's store changed", rep)
					fresh()
					continue
				}
				r.Count("variants_refused", 1)
				reason := "ignored"
				if aerr != nil {
					reason = errClass(aerr)
				}
				r.Add("refusal_reasons", reason)
				r.Add("outcomes", class+":"+rootGroup(class, v)+"/"+v.Flavor+":refused")
				if strings.Contains(reason, "VM panic") {
					r.Add("vm_panic_variants", class+":"+rootGroup(class, v)+"/"+v.Flavor)
				}
				callData(r, k.Block, V, v, "refused("+reason+")")
				continue
			}
			// accepted: something entered the pool
			r.Count("variants_accepted", 1)
			// a block's hash pins down its stored bytes: whatever was stored must hash to the hash it is stored under
			hashMismatch := false
			for key, val := range after {
				if _, had := clean[key]; had {
					continue
				}
				sb, derr := nom.DeserializeAccountBlock(val)
				if derr != nil || sb.ComputeHash() != sb.Hash {
					r.Violate("C13:"+class+":"+rootGroup(class, v)+"-altered:stored-bytes-do-not-hash-to-stored-hash", where+fmt.Sprintf(": the follower accepted the block and stores, under hash %v (%s), bytes whose hash is different (stored data %x, delivered data %x)", V.Hash, key, sbData(sb), V.Data), rep)
					hashMismatch = true
				}
			}
			if hashMismatch {
				fresh()
				continue
			}
			if !sameHash || v.Flavor == "resign" {
				// a different block (other hash) signed by the key holder, or one whose hash moved: not a second variant of B.
				// What matters here is only the call-data question: is non-canonical call data stored?
				st := after[fmt.Sprintf("%s/%d", V.Address, V.Height)]
				r.Add("outcomes", class+":"+rootGroup(class, v)+"/"+v.Flavor+":other-block-accepted")
				if strings.HasPrefix(v.Field, "Data-abi-same-args") && st != nil {
					sb, _ := nom.DeserializeAccountBlock(st)
					if !bytes.Equal(sb.Data, k.Block.Data) {
						r.Violate("C13:user-call:non-canonical-call-data:accepted-and-stored", where+fmt.Sprintf(": a block signed by the account over call data %x (same decoded arguments as the canonical %x) was accepted and stored with the non-canonical bytes", V.Data, k.Block.Data), rep)
					}
				}
				r.Count("other_blocks_accepted", 1)
				callData(r, k.Block, V, v, "accepted-as-other-block")
				fresh()
				continue
			}
			stored := after[ident]
			identical := stored != nil && bytes.Equal(stored, k.Bytes)
			escNote := ""
			// every other new pool entry (descendants stored on their own) must equal the producer's too
			for key, val := range after {
				if _, had := clean[key]; had || key == ident {
					continue
				}
				sb, _ := nom.DeserializeAccountBlock(val)
				pe := rec.ByHash[sb.Hash]
				if pe == nil || !bytes.Equal(pe.Bytes, val) {
					identical = false
				}
			}
			// continue with the producer's chain
			idx, ierr, ipan := f.InsertChain(wireBatch(rec.Batch[k.HP+1 : rec.H+1]))
			r.Count("transitions", 1)
			outcome := ""
			switch {
			case ipan != nil:
				outcome = "follower-panics-on-producer-momentum"
			case ierr != nil:
				outcome = "follower-rejects-producer-momentum"
			case f.FullDigest() != rec.Full[rec.H]:
				outcome = "follower-store-differs-from-producer"
			}
			if outcome == "" {
				// confirmed block bytes on the follower
				st := f.Chain.GetFrontierMomentumStore()
				cb, err := st.GetAccountBlockByHash(k.Block.Hash)
				if err != nil || cb == nil || !bytes.Equal(mustSer(cb), k.Bytes) {
					outcome = "confirmed-block-bytes-differ"
				}
			}
			if identical && outcome == "" {
				callData(r, k.Block, V, v, "accepted-and-stored-as-the-canonical-bytes")
				r.Count("variants_accepted_normalised", 1)
				r.Add("outcomes", class+":"+rootGroup(class, v)+"/"+v.Flavor+":accepted-normalised-identical")
			} else {
				if outcome == "" {
					outcome = "pooled-bytes-differ-until-confirmation"
				}
				r.Count("variants_accepted_divergent", 1)
				r.Add("outcomes", class+":"+rootGroup(class, v)+"/"+v.Flavor+":accepted-divergent:"+outcome)
				// the same second form handed to a producing node (once per field of each block)
				if r.Add("escalated", fmt.Sprintf("%d/%d/%s", hi, k.Idx, rootGroup(class, v))) || only != "" {
					eo, ew := escalate(c, rec, k, V)
					r.Count("transitions", 3)
					r.Count("escalations_run", 1)
					r.Add("escalations", class+":"+rootGroup(class, v)+":"+eo)
					if ew != "" {
						escNote = "\nescalation: " + ew
					}
					if strings.Contains(eo, "balances-differ") {
						// the same root cause observed through its effect on the ledger: one more key, for the effect
						r.Violate("C13:"+class+":"+effectGroup(class, v)+"-altered:variant-confirmed-by-producer:fresh-node-accepts:balances-differ",
							where+": "+ew, rep)
					}
				}
				what := where + escNote + fmt.Sprintf(": the follower accepted a second form of block %v (stored bytes equal the producer's: %v); then InsertChain of the producer's momentums %d..%d: idx=%d err=%v panic=%v; outcome %s",
					k.Block.Hash, identical, k.HP+1, rec.H, idx, ierr, ipan, outcome)
				r.Violate("C13:"+class+":"+keyGroup(class, v)+"-altered:variant-accepted:"+outcome, what, rep)
			}
			fresh()
		}
	}
	if only != "" {
		return
	}
	// the follower that saw only refused variants must still be a faithful follower
	w, err := wireBlocks([]*nom.AccountBlock{vnode.CloneBlock(k.Block)})
	if err != nil {
		panic(err)
	}
	if aerr, pan := f.AddAccountBlocks(w); aerr != nil || pan != nil {
		r.Violate("C13:"+class+":original-refused-after-refused-variants", fmt.Sprintf("history %d block %d: the unaltered block was refused by a follower that had only refused variants before: err=%v panic=%v", hi, k.Idx, aerr, pan), replayB{"B", hi, k.Idx, "", 0})
		return
	}
	if st := viewPool(f)[ident]; !bytes.Equal(st, k.Bytes) {
		r.Violate("C13:"+class+":original-stored-differently", fmt.Sprintf("history %d block %d: the unaltered block is pooled with other bytes on the follower than on the producer", hi, k.Idx), replayB{"B", hi, k.Idx, "", 0})
		return
	}
	idx, ierr, ipan := f.InsertChain(wireBatch(rec.Batch[k.HP+1 : rec.H+1]))
	r.Count("transitions", 2)
	if ierr != nil || ipan != nil || f.FullDigest() != rec.Full[rec.H] {
		r.Violate("C13:"+class+":honest-follower-diverges", fmt.Sprintf("history %d block %d: follower with the unaltered block: InsertChain idx=%d err=%v panic=%v, digest equal=%v", hi, k.Idx, idx, ierr, ipan, f.FullDigest() == rec.Full[rec.H]), replayB{"B", hi, k.Idx, "", 0})
		return
	}
	r.Count("honest_followers_identical", 1)
}

func errClass(err error) string {
	s := err.Error()
	for _, cut := range []string{" - expected", "; ", " expected ", " reason:", ": "} {
		if i := strings.Index(s, cut); i > 0 {
			s = s[:i]
		}
	}
	if len(s) > 70 {
		s = s[:70]
	}
	return s
}

var _ = types.ZeroHash

// ---------------------------------------------------------------------------------------------------------------------
// escalation: the accepted second form reaches a producing node before the original does

// logicalView renders what the ledger means for the accounts: balances and receivable sends (with the amount and
// token the receiver would be credited), for every history account and every embedded contract used.
func logicalView(n *vnode.Node) string {
	var sb strings.Builder
	st := n.Chain.GetFrontierMomentumStore()
	for i, u := range ops.Users {
		fmt.Fprintf(&sb, "u%d %s pending[", i, balances(st.GetAccountStore(u.Address)))
		hashes, _ := st.GetAccountMailbox(u.Address).GetUnreceivedAccountBlockHashes(64)
		for _, h := range hashes {
			b, _ := st.GetAccountBlockByHash(h)
			if b != nil {
				fmt.Fprintf(&sb, "%x:%v:%v:to=%s ", h[:4], b.Amount, b.TokenStandard, b.ToAddress.String()[:8])
			} else {
				fmt.Fprintf(&sb, "%x:missing ", h[:4])
			}
		}
		sb.WriteString("]\n")
	}
	return sb.String()
}

func balances(acc store.Account) string {
	m, _ := acc.GetBalanceMap()
	var l []string
	for z, v := range m {
		if v.Sign() != 0 {
			l = append(l, fmt.Sprintf("%s=%v", z.String()[3:9], v))
		}
	}
	sort.Strings(l)
	return strings.Join(l, ",")
}

// drain lets every account receive everything it can, confirms, and returns the balances afterwards.
func drain(n *vnode.Node) string {
	for round := 0; round < 3; round++ {
		any := false
		for i := range ops.Users {
			for j := 0; j < 8; j++ {
				if out := ops.Apply(n, ops.Op{K: "R", A: i}); out != "ok" {
					break
				}
				any = true
			}
		}
		ops.Apply(n, M)
		if !any {
			break
		}
	}
	var sb strings.Builder
	st := n.Chain.GetFrontierMomentumStore()
	for i, u := range ops.Users {
		fmt.Fprintf(&sb, "u%d %s\n", i, balances(st.GetAccountStore(u.Address)))
	}
	return sb.String()
}

// escalate: a producing node Q (same chain as the producer up to HP, same pool) receives the second form V instead of
// B and produces the next momentum at the producer's timestamp. A fresh node then syncs Q's chain. Returns a short
// outcome string and a description.
func escalate(c *xs.Ctx, rec *prodRec, k *pooled, V *nom.AccountBlock) (outcome string, what string) {
	if k.HC != k.HP+1 {
		return "not-applicable", ""
	}
	mk := func(withV bool) *vnode.Node {
		q := vnode.New(vnode.Options{Dir: c.TempDir()})
		if k.HP >= 2 {
			if _, err, pan := q.InsertChain(wireBatch(rec.Batch[2 : k.HP+1])); err != nil || pan != nil {
				panic(fmt.Sprintf("escalate: sync: %v %v", err, pan))
			}
		}
		for _, e := range rec.Pooled {
			if e.HC != k.HC || e.Block.BlockType == nom.BlockTypeContractSend {
				continue
			}
			b := vnode.CloneBlock(e.Block)
			if e.Idx == k.Idx && withV {
				b = vnode.CloneBlock(V)
			}
			w, err := wireBlocks([]*nom.AccountBlock{b})
			if err != nil {
				panic(err)
			}
			if err, pan := q.AddAccountBlocks(w); err != nil || pan != nil {
				q.Destroy()
				return nil
			}
		}
		return q
	}
	q := mk(true)
	if q == nil {
		return "producer-refuses", ""
	}
	defer q.Destroy()
	ref := mk(false)
	if ref == nil {
		panic("escalate: reference producer refused the original blocks")
	}
	defer ref.Destroy()
	t := *rec.Batch[k.HC].Momentum.Timestamp
	if _, err := q.ProduceAt(t); err != nil || q.Height() != k.HC {
		return "producer-cannot-confirm", fmt.Sprintf("producer holding the second form: Produce err=%v height=%d", err, q.Height())
	}
	if _, err := ref.ProduceAt(t); err != nil || ref.Height() != k.HC {
		panic(fmt.Sprintf("escalate: reference producer failed: %v", err))
	}
	qm, rm := q.Detailed(k.HC), ref.Detailed(k.HC)
	sameContent := qm.Momentum.Content.Hash() == rm.Momentum.Content.Hash()
	g := vnode.New(vnode.Options{Dir: c.TempDir(), NoPillars: true})
	defer g.Destroy()
	_, gerr, gpan := g.InsertChain(wireBatch(q.Range(2, k.HC)))
	if gerr != nil || gpan != nil {
		return "producer-confirms:fresh-node-refuses-that-chain", fmt.Sprintf("fresh node: err=%v panic=%v", gerr, gpan)
	}
	lvQ, lvR := logicalView(g), logicalView(ref)
	gb, _ := g.Chain.GetFrontierMomentumStore().GetAccountBlockByHash(k.Block.Hash)
	bytesDiffer := gb == nil || !bytes.Equal(mustSer(gb), k.Bytes)
	what = fmt.Sprintf("a producing node that received the second form first confirmed it in momentum %d (content hash equal to the honest momentum's: %v, momentum hash %v vs %v); a fresh node accepted that chain through InsertChain; confirmed bytes of block %v differ from the honest ones: %v",
		k.HC, sameContent, qm.Momentum.Hash, rm.Momentum.Hash, k.Block.Hash, bytesDiffer)
	outcome = "producer-confirms:fresh-node-accepts"
	if lvQ != lvR {
		outcome += ":receivable-sends-differ"
		what += "; receivable sends / balances differ:\n" + firstDiff(lvR, lvQ)
		dq, dr := drain(q), drain(ref)
		if dq != dr {
			outcome += ":balances-differ-after-receiving"
			what += "\nbalances after every account received what it could:\n" + firstDiff(dr, dq)
		}
	} else if bytesDiffer {
		outcome += ":bytes-differ-only"
	}
	return
}

func firstDiff(a, b string) string {
	la, lb := strings.Split(a, "\n"), strings.Split(b, "\n")
	var out []string
	for i := range la {
		if i < len(lb) && la[i] != lb[i] {
			out = append(out, "  honest: "+la[i]+"\n  variant: "+lb[i])
		}
	}
	if len(out) > 4 {
		out = out[:4]
	}
	return strings.Join(out, "\n")
}

// callData records, per contract method, what happened to each non-canonical encoding.
func callData(r *xs.Result, orig, V *nom.AccountBlock, v variant, outcome string) {
	if !strings.HasPrefix(v.Field, "Data-abi-") {
		return
	}
	name, _, _ := decodeArgs(orig.ToAddress, orig.Data)
	who := "relay(hash+signature kept)"
	if v.Flavor == "resign" {
		who = "key-holder(hashed+signed over these bytes)"
	}
	r.Count("call_data_variants", 1)
	if strings.HasPrefix(v.Field, "Data-abi-same-args") {
		r.Count("call_data_same_args_variants", 1)
	}
	r.Add("call_data_forms", name+":"+strings.TrimSuffix(strings.TrimPrefix(v.Name, "Data:abi:"), "/resign"))
	r.Add("call_data", fmt.Sprintf("%s:%s:%s => %s", name, strings.TrimPrefix(v.Field, "Data-abi-"), who, outcome))
}

func sbData(b *nom.AccountBlock) []byte {
	if b == nil {
		return nil
	}
	return b.Data
}
