package main

import (
	"fmt"
	"os"
	"time"

	"github.com/zenon-network/go-zenon/common/types"
	"github.com/zenon-network/go-zenon/vm/embedded/definition"
	g "github.com/zenon-network/go-zenon/chain/genesis/mock"

	"verifmc/internal/xs"
	"verifmc/props/c18"
)

func main() {
	dir, _ := os.MkdirTemp("/dev/shm", "probe")
	defer os.RemoveAll(dir)
	tier := "quick"
	if len(os.Args) > 1 {
		tier = os.Args[1]
	}
	c := &xs.Ctx{Tier: tier, Scratch: dir, Deadline: time.Now().Add(time.Hour)}
	for _, name := range []string{"empty", "ledger", "embedded", "long"} {
		t0 := time.Now()
		n := c18.ProbeBuild(c, name)
		fmt.Println("==", name, "height", n.Height(), time.Since(t0))
		for _, a := range []types.Address{g.User1.Address, g.User2.Address, g.User3.Address, types.TokenContract, types.AcceleratorContract} {
			f, _ := n.Chain.GetFrontierAccountStore(a).Frontier()
			h := uint64(0)
			if f != nil {
				h = f.Height
			}
			fmt.Println("  acc", a, h, "pool", len(n.Chain.GetUncommittedAccountBlocksByAddress(a)))
		}
		st := func(a types.Address) interface{ } { return nil }
		_ = st
		toks, _ := definition.GetTokenInfoList(n.Chain.GetFrontierAccountStore(types.TokenContract).Storage())
		fmt.Println("  tokens", len(toks))
		for _, u := range []types.Address{g.User1.Address, g.User2.Address, g.User4.Address} {
			l, _, _, _ := definition.GetStakeListByAddress(n.Chain.GetFrontierAccountStore(types.StakeContract).Storage(), u)
			fl, _, _ := definition.GetFusionInfoListByOwner(n.Chain.GetFrontierAccountStore(types.PlasmaContract).Storage(), u)
			fmt.Println("  stakes", len(l), "fusions", len(fl))
		}
		fmt.Println("  sentinels", len(definition.GetAllSentinelInfo(n.Chain.GetFrontierAccountStore(types.SentinelContract).Storage())))
		fmt.Println("  sporks", len(definition.GetAllSporks(n.Chain.GetFrontierAccountStore(types.SporkContract).Storage())))
		pl, _ := definition.GetProjectList(n.Chain.GetFrontierAccountStore(types.AcceleratorContract).Storage())
		fmt.Println("  projects", len(pl))
		for _, cc := range []types.Address{types.PillarContract, types.StakeContract, types.SentinelContract, types.LiquidityContract} {
			le, err := definition.GetLastEpochUpdate(n.Chain.GetFrontierAccountStore(cc).Storage())
			fmt.Println("  lastEpoch", cc, le, err)
		}
		un, _ := n.Chain.GetFrontierMomentumStore().GetAccountMailbox(g.User3.Address).GetUnreceivedAccountBlockHashes(1000)
		fmt.Println("  unreceived u3", len(un))
		n.Destroy()
	}
}
