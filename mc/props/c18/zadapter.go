package c18

import (
	"github.com/zenon-network/go-zenon/chain"
	"github.com/zenon-network/go-zenon/chain/nom"
	"github.com/zenon-network/go-zenon/consensus"
	"github.com/zenon-network/go-zenon/pillar"
	"github.com/zenon-network/go-zenon/protocol"
	"github.com/zenon-network/go-zenon/verifier"
	"github.com/zenon-network/go-zenon/zenon"

	"verifmc/internal/vnode"
)

// zAdapter presents a vnode.Node as a zenon.Zenon, which is what the rpc api constructors take. The constructors and
// the query methods only use Chain() and Consensus(); Broadcaster() is used by PublishRawTransaction and stats.SyncInfo.
type zAdapter struct{ n *vnode.Node }

func (z *zAdapter) Init() error                         { return nil }
func (z *zAdapter) Start() error                        { return nil }
func (z *zAdapter) Stop() error                         { return nil }
func (z *zAdapter) Chain() chain.Chain                  { return z.n.Chain }
func (z *zAdapter) Consensus() consensus.Consensus      { return z.n.Cons }
func (z *zAdapter) Verifier() verifier.Verifier         { return z.n.Ver }
func (z *zAdapter) Protocol() *protocol.ProtocolManager { return nil }
func (z *zAdapter) Producer() pillar.Manager            { return nil }
func (z *zAdapter) Config() *zenon.Config               { return nil }
func (z *zAdapter) Broadcaster() protocol.Broadcaster   { return stubBroadcaster{} }

type stubBroadcaster struct{}

func (stubBroadcaster) SyncInfo() *protocol.SyncInfo {
	return &protocol.SyncInfo{State: protocol.SyncDone}
}
func (stubBroadcaster) CreateMomentum(*nom.MomentumTransaction)         {}
func (stubBroadcaster) CreateAccountBlock(*nom.AccountBlockTransaction) {}

var _ zenon.Zenon = (*zAdapter)(nil)
