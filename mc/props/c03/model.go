package c03

import (
	"bytes"
	"crypto/ed25519"
	"encoding/binary"
	"fmt"
	"math/big"

	"golang.org/x/crypto/sha3"

	g "github.com/zenon-network/go-zenon/chain/genesis/mock"
	"github.com/zenon-network/go-zenon/chain/nom"
	"github.com/zenon-network/go-zenon/common/types"
)

// ---------------------------------------------------------------------------------------------------------------------
// Independent ledger model: built from the blocks the harness itself fed to the node (chain + pool), never from the
// node's stores. Balances of user accounts are replayed from the genesis configuration.

type entry struct {
	b           *nom.AccountBlock
	confirmedAt uint64 // height of the confirming momentum; 0 = only in the pool
}

type ledger struct {
	momHeight map[types.Hash]uint64
	frontier  uint64
	byHash    map[types.Hash]*entry
	chains    map[types.Address][]*entry // per account, by height (index = height-1): confirmed blocks, then pool blocks
	genesis   map[types.Address]map[types.ZenonTokenStandard]*big.Int
}

func newLedger(genesisMomentum *nom.DetailedMomentum) *ledger {
	l := &ledger{momHeight: map[types.Hash]uint64{}, byHash: map[types.Hash]*entry{}, chains: map[types.Address][]*entry{},
		genesis: map[types.Address]map[types.ZenonTokenStandard]*big.Int{}}
	for _, gb := range g.EmbeddedGenesis.GenesisBlocks.Blocks {
		l.genesis[gb.Address] = gb.BalanceList
	}
	l.addMomentum(genesisMomentum)
	return l
}

func (l *ledger) addBlock(b *nom.AccountBlock, confirmedAt uint64) {
	if e, ok := l.byHash[b.Hash]; ok {
		if e.confirmedAt == 0 {
			e.confirmedAt = confirmedAt
		}
		return
	}
	for _, d := range b.DescendantBlocks {
		l.addBlock(d, confirmedAt)
	}
	e := &entry{b: b, confirmedAt: confirmedAt}
	l.byHash[b.Hash] = e
	ch := l.chains[b.Address]
	if uint64(len(ch)) != b.Height-1 {
		panic(fmt.Sprintf("model: block %v height %d does not extend a chain of length %d", b.Address, b.Height, len(ch)))
	}
	l.chains[b.Address] = append(ch, e)
}

func (l *ledger) addMomentum(d *nom.DetailedMomentum) {
	l.momHeight[d.Momentum.Hash] = d.Momentum.Height
	l.frontier = d.Momentum.Height
	// account blocks of one momentum may be listed in any order: insert per account by height
	var pending []*nom.AccountBlock
	for _, b := range d.AccountBlocks {
		if b.BlockType != nom.BlockTypeContractSend { // batched sends are listed again inside their contract receive
			pending = append(pending, b)
		}
	}
	for len(pending) > 0 {
		progressed := false
		var rest []*nom.AccountBlock
		for _, b := range pending {
			if _, ok := l.byHash[b.Hash]; ok {
				l.byHash[b.Hash].confirmedAt = d.Momentum.Height
				progressed = true
				continue
			}
			first := b.Height
			if len(b.DescendantBlocks) > 0 {
				first = b.DescendantBlocks[0].Height
			}
			if uint64(len(l.chains[b.Address])) == first-1 {
				l.addBlock(b, d.Momentum.Height)
				progressed = true
			} else {
				rest = append(rest, b)
			}
		}
		if !progressed {
			panic("model: momentum content does not form account chains")
		}
		pending = rest
	}
}

// confirmedLen is the number of confirmed blocks of the account.
func (l *ledger) confirmedLen(a types.Address) int {
	n := 0
	for _, e := range l.chains[a] {
		if e.confirmedAt != 0 {
			n++
		}
	}
	return n
}

// balanceAfter replays the account chain up to and including height h (user accounts and the simple contract flows of the
// world: every receive credits the referenced send, every send debits).
func (l *ledger) balanceAfter(a types.Address, h uint64, zts types.ZenonTokenStandard) *big.Int {
	bal := new(big.Int)
	if gb, ok := l.genesis[a][zts]; ok {
		bal.Set(gb)
	}
	for _, e := range l.chains[a] {
		if e.b.Height > h {
			break
		}
		switch e.b.BlockType {
		case nom.BlockTypeUserSend, nom.BlockTypeContractSend:
			if e.b.TokenStandard == zts {
				bal.Sub(bal, e.b.Amount)
			}
		case nom.BlockTypeUserReceive, nom.BlockTypeContractReceive:
			if s, ok := l.byHash[e.b.FromBlockHash]; ok && s.b.TokenStandard == zts {
				bal.Add(bal, s.b.Amount)
			}
		}
	}
	return bal
}

// ---------------------------------------------------------------------------------------------------------------------
// own encodings (written from the field list of the block, not calling the repository's ComputeHash)

func h256(data []byte) (out types.Hash) {
	s := sha3.Sum256(data)
	copy(out[:], s[:])
	return
}

func u64(v uint64) []byte {
	var b [8]byte
	binary.BigEndian.PutUint64(b[:], v)
	return b[:]
}

func amountBytes(a *big.Int) []byte {
	var raw []byte
	if a != nil {
		raw = a.Bytes() // magnitude, big endian
	}
	if len(raw) >= 32 {
		return raw
	}
	out := make([]byte, 32)
	copy(out[32-len(raw):], raw)
	return out
}

func blockPreimage(b *nom.AccountBlock) []byte {
	var buf bytes.Buffer
	buf.Write(u64(b.Version))
	buf.Write(u64(b.ChainIdentifier))
	buf.Write(u64(b.BlockType))
	buf.Write(b.PreviousHash[:])
	buf.Write(u64(b.Height))
	buf.Write(b.MomentumAcknowledged.Hash[:])
	buf.Write(u64(b.MomentumAcknowledged.Height))
	buf.Write(b.Address[:])
	buf.Write(b.ToAddress[:])
	buf.Write(amountBytes(b.Amount))
	buf.Write(b.TokenStandard[:])
	buf.Write(b.FromBlockHash[:])
	var dh bytes.Buffer
	for _, d := range b.DescendantBlocks {
		dh.Write(d.Hash[:])
	}
	dhh := h256(dh.Bytes())
	buf.Write(dhh[:])
	datah := h256(b.Data)
	buf.Write(datah[:])
	buf.Write(u64(b.FusedPlasma))
	buf.Write(u64(b.Difficulty))
	buf.Write(b.Nonce.Data[:])
	return buf.Bytes()
}

func ownHash(b *nom.AccountBlock) types.Hash { return h256(blockPreimage(b)) }

func ownAddress(pub []byte) (a types.Address) {
	s := sha3.Sum256(pub)
	a[0] = 0 // user address byte
	copy(a[1:], s[:19])
	return
}

func isContract(a types.Address) bool { return a[0] == 1 }

var two255 = new(big.Int).Lsh(big.NewInt(1), 255)

// ---------------------------------------------------------------------------------------------------------------------
// the validity predicate of the property statement

type verdict struct {
	ok     bool
	clause string // first violated clause
}

func bad(clause string, a ...interface{}) verdict { return verdict{false, fmt.Sprintf(clause, a...)} }

// tolerance switches off the clauses of one confirmed root cause, so that a candidate violating *only* that clause can be
// reported under the root cause's single key while any other violated clause still gets its own specific key.
type tolerance struct {
	descendantContent   bool // descendants compared by their Hash field only (RC1)
	unhashedContractFld bool // BasePlasma/TotalPlasma of contract blocks, ChangesHash/PublicKey/Signature of descendants ignored (RC2)
	receiveOfNonSend    bool // legacy regime: the received block need not be a send block (RC3)
}

func clearUnhashed(b *nom.AccountBlock, top bool) {
	b.BasePlasma, b.TotalPlasma = 0, 0
	if !top {
		b.ChangesHash = types.ZeroHash
		b.PublicKey, b.Signature = nil, nil
	}
	for _, d := range b.DescendantBlocks {
		clearUnhashed(d, false)
	}
}

// valid evaluates the statement on candidate b against the model l. enforced = the receiver clause applies. expected =
// the block the producer path generates for this contract account in this state (absent if none).
func (l *ledger) valid(b *nom.AccountBlock, enforced bool, expected map[types.Address]*nom.AccountBlock, tol tolerance) verdict {
	// hash matches content
	if b.Hash != ownHash(b) {
		return bad("hash does not match the content")
	}
	contract := isContract(b.Address)
	switch b.BlockType {
	case nom.BlockTypeUserSend, nom.BlockTypeUserReceive:
		if contract {
			return bad("user block type on a contract account")
		}
	case nom.BlockTypeContractReceive:
		if !contract {
			return bad("contract block type on a user account")
		}
	default:
		return bad("block type %d is not acceptable as a stand-alone block", b.BlockType)
	}
	if contract {
		// keyless and reproduced exactly by the receiver
		if len(b.PublicKey) != 0 || len(b.Signature) != 0 {
			return bad("contract block carries a key or signature")
		}
		exp, ok := expected[b.Address]
		if !ok {
			return bad("no block can be generated for this contract in this state")
		}
		for _, d := range b.DescendantBlocks {
			if !tol.unhashedContractFld && (len(d.PublicKey) != 0 || len(d.Signature) != 0) {
				return bad("contract send (descendant) carries a key or signature")
			}
			if !tol.descendantContent && d.Hash != ownHash(d) {
				return bad("descendant hash does not match the descendant's content")
			}
		}
		cmp, ref := cloneKeep(b), cloneKeep(exp)
		if tol.unhashedContractFld {
			clearUnhashed(cmp, true)
			clearUnhashed(ref, true)
		}
		if tol.descendantContent && len(cmp.DescendantBlocks) == len(ref.DescendantBlocks) {
			for i, d := range cmp.DescendantBlocks {
				if d.Hash == ref.DescendantBlocks[i].Hash {
					cmp.DescendantBlocks[i] = ref.DescendantBlocks[i]
				}
			}
		}
		got, err := cmp.Serialize()
		want, _ := ref.Serialize()
		if err != nil || !bytes.Equal(got, want) || (b.Amount != nil && b.Amount.Sign() < 0) {
			return bad("contract block differs from the block regenerated by the receiver")
		}
	} else {
		if len(b.PublicKey) != ed25519.PublicKeySize || ownAddress(b.PublicKey) != b.Address {
			return bad("public key does not own the account")
		}
		if !ed25519.Verify(b.PublicKey, b.Hash[:], b.Signature) {
			return bad("signature does not verify")
		}
	}
	// extends the account chain by exactly one height from the stated predecessor
	first := b
	if len(b.DescendantBlocks) > 0 {
		first = b.DescendantBlocks[0]
	}
	ch := l.chains[b.Address]
	var pred *entry
	if first.Height == 0 {
		return bad("height 0")
	}
	if first.Height == 1 {
		if !first.PreviousHash.IsZero() || l.confirmedLen(b.Address) != 0 {
			return bad("height 1 on a non-empty account or with a predecessor hash")
		}
	} else {
		if first.Height-1 > uint64(len(ch)) {
			return bad("stated predecessor height %d is above the account chain", first.Height-1)
		}
		pred = ch[first.Height-2]
		if pred.b.Hash != first.PreviousHash {
			return bad("stated predecessor is not the account's block at height %d", first.Height-1)
		}
		if int(first.Height-1) < l.confirmedLen(b.Address) {
			return bad("stated predecessor is below the confirmed frontier of the account")
		}
	}
	// internal heights of a batch
	prev, ph := first.PreviousHash, first.Height-1
	for _, d := range append(append([]*nom.AccountBlock{}, b.DescendantBlocks...), b) {
		if d.PreviousHash != prev || d.Height != ph+1 {
			return bad("batch does not advance by exactly one height per block")
		}
		prev, ph = d.Hash, d.Height
	}
	// momentum acknowledged
	mh, ok := l.momHeight[b.MomentumAcknowledged.Hash]
	if !ok || mh != b.MomentumAcknowledged.Height {
		return bad("acknowledged momentum is not on the chain")
	}
	if !contract {
		if pred != nil && pred.b.BlockType != nom.BlockTypeGenesisReceive && pred.b.MomentumAcknowledged.Height > b.MomentumAcknowledged.Height {
			return bad("acknowledges a momentum older than the predecessor's")
		}
	} else {
		s, ok := l.byHash[b.FromBlockHash]
		if !ok || s.confirmedAt != b.MomentumAcknowledged.Height {
			return bad("contract receive does not acknowledge the momentum that confirmed the send")
		}
	}
	// amounts (the range clause applies to every block of a batch, whatever else is wrong with it)
	for _, d := range append(append([]*nom.AccountBlock{}, b.DescendantBlocks...), b) {
		if d.Amount != nil && (d.Amount.Sign() < 0 || d.Amount.Cmp(two255) >= 0) {
			return bad("amount out of [0, 2^255)")
		}
	}
	if b.BlockType == nom.BlockTypeUserSend && b.Amount != nil && b.Amount.Sign() > 0 {
		bal := l.balanceAfter(b.Address, first.Height-1, b.TokenStandard)
		if b.Amount.Cmp(bal) > 0 {
			return bad("spends %v of %v, the account holds %v", b.Amount, b.TokenStandard, bal)
		}
	}
	// receive
	if b.BlockType == nom.BlockTypeUserReceive || b.BlockType == nom.BlockTypeContractReceive {
		s, ok := l.byHash[b.FromBlockHash]
		if !ok || s.confirmedAt == 0 {
			return bad("received block is not a confirmed block")
		}
		if s.b.BlockType != nom.BlockTypeUserSend && s.b.BlockType != nom.BlockTypeContractSend && !(tol.receiveOfNonSend && !enforced) {
			return bad("received block is not a send block")
		}
		for _, e := range ch {
			if e.b.Height >= first.Height {
				break
			}
			if (e.b.BlockType == nom.BlockTypeUserReceive || e.b.BlockType == nom.BlockTypeContractReceive) && e.b.FromBlockHash == b.FromBlockHash {
				return bad("send was already received by this account at height %d", e.b.Height)
			}
		}
		if enforced && s.b.ToAddress != b.Address {
			return bad("send is addressed to %v", s.b.ToAddress)
		}
	}
	return verdict{ok: true}
}

func cloneKeep(b *nom.AccountBlock) *nom.AccountBlock {
	data, err := b.Serialize()
	if err != nil {
		panic(err)
	}
	c, err := nom.DeserializeAccountBlock(data)
	if err != nil {
		panic(err)
	}
	return c
}
