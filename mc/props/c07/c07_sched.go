package c07

import (
	"bytes"
	"fmt"
	"os"
	"sort"
	"strconv"
	"strings"

	"github.com/syndtr/goleveldb/leveldb"

	"github.com/zenon-network/go-zenon/common/db"
	"github.com/zenon-network/go-zenon/common/types"
	"github.com/zenon-network/go-zenon/common/vsync"

	"verifmc/internal/sched"
	"verifmc/internal/xs"
)

func removeAll(p string) { os.RemoveAll(p) }

// Part B — one writer (Add, Add, Pop, Add) against three readers (two of a historical view, one of the frontier) on a real
// leveldb-backed manager, all schedules up to the preemption bound. Scheduling points: every mutex acquisition in
// common/db and every leveldb write of Add/Pop (VerifWriteHook).

type snapshotObs struct {
	who   string
	id    types.HashHeight
	reads string
}

func readAll(d db.DB) string {
	var parts []string
	for _, k := range keys {
		v, err := d.Get(k)
		if err == leveldb.ErrNotFound {
			parts = append(parts, fmt.Sprintf("%x:-", k))
		} else if err != nil {
			parts = append(parts, fmt.Sprintf("%x:err", k))
		} else {
			parts = append(parts, fmt.Sprintf("%x:%x", k, v))
		}
	}
	it := d.NewIterator([]byte{0x10})
	var sc []string
	for it.Next() {
		if it.Value() == nil {
			continue
		}
		sc = append(sc, fmt.Sprintf("%x=%x", it.Key(), it.Value()))
	}
	it.Release()
	return strings.Join(parts, ",") + "|scan:" + strings.Join(sc, ",")
}

func refReads(c content) string {
	var parts []string
	for _, k := range keys {
		v, ok := c[string(k)]
		if !ok {
			parts = append(parts, fmt.Sprintf("%x:-", k))
		} else {
			parts = append(parts, fmt.Sprintf("%x:%x", k, v))
		}
	}
	var sc []string
	var ks []string
	for k := range c {
		if bytes.HasPrefix([]byte(k), []byte{0x10}) {
			ks = append(ks, k)
		}
	}
	sort.Strings(ks)
	for _, k := range ks {
		sc = append(sc, fmt.Sprintf("%x=%x", k, c[k]))
	}
	return strings.Join(parts, ",") + "|scan:" + strings.Join(sc, ",")
}

type schedScenario struct {
	name    string
	setup   []int // write sets committed before the threads start
	writer  []Op  // C / P ops
	readers int
}

var schedScenarios = []schedScenario{
	{name: "add-add-pop-add", setup: []int{0, 1}, writer: []Op{{K: "C", A: 2}, {K: "C", A: 4}, {K: "P"}, {K: "C", A: 5}}},
	{name: "pop-pop-add", setup: []int{0, 1, 4}, writer: []Op{{K: "P"}, {K: "P"}, {K: "C", A: 3}}},
}

func buildScenario(c *xs.Ctx, r *xs.Result, sc schedScenario) sched.Scenario {
	return func(s *vsync.Sched) func(x *sched.Exec) {
		dir := c.TempDir()
		mgr := db.NewLevelDBManager(dir)
		ref := newRef()
		byID := map[types.HashHeight]content{types.ZeroHashHeight: {}}
		commit := func(ws int) {
			tx, cm := newTx(ref.frontier(), ws, 0)
			data, _ := cm.Serialize()
			nc := ref.frontierContent().clone()
			for _, w := range writeSets[ws] {
				nc.apply(w)
			}
			bookkeeping(nc, cm.Identifier(), data)
			ref.stack = append(ref.stack, cm.Identifier())
			ref.versions = append(ref.versions, nc)
			byID[cm.Identifier()] = nc
			if err := mgr.Add(tx); err != nil {
				panic(err)
			}
		}
		for _, ws := range sc.setup {
			commit(ws)
		}
		oldID := ref.stack[1]
		oldContent := ref.versions[1]
		var obs []snapshotObs
		db.VerifWriteHook = func(site string) { vsync.Yield(site) }
		s.Go("writer", func() {
			for _, o := range sc.writer {
				switch o.K {
				case "C":
					commit(o.A)
				case "P":
					if err := mgr.Pop(); err != nil {
						panic(err)
					}
					ref.stack = ref.stack[:len(ref.stack)-1]
					ref.versions = ref.versions[:len(ref.versions)-1]
				}
			}
		})
		s.Go("reader-old", func() {
			for i := 0; i < 2; i++ {
				v := mgr.Get(oldID)
				if v == nil {
					obs = append(obs, snapshotObs{"old", oldID, "nil-view"})
					continue
				}
				obs = append(obs, snapshotObs{"old", oldID, readAll(v)})
			}
		})
		// a second historical reader with a single late read: together with reader-old it makes "one reader warms the
		// cache inside a window of the writer, another one reads after the writer has moved on" reachable with ONE preemption
		s.Go("reader-old-late", func() {
			v := mgr.Get(oldID)
			if v == nil {
				obs = append(obs, snapshotObs{"old", oldID, "nil-view"})
				return
			}
			obs = append(obs, snapshotObs{"old", oldID, readAll(v)})
		})
		s.Go("reader-frontier", func() {
			for i := 0; i < 2; i++ {
				f := mgr.Frontier()
				id := db.GetFrontierIdentifier(f)
				obs = append(obs, snapshotObs{"frontier", id, readAll(f)})
			}
		})
		return func(x *sched.Exec) {
			db.VerifWriteHook = nil
			defer func() {
				mgr.Stop()
				removeAll(dir)
			}()
			if x.Skipped {
				return
			}
			rep := map[string]interface{}{"scenario": sc.name, "schedule": x.Choices}
			if x.Deadlock {
				r.Violate("C07:sched:"+sc.name+":deadlock", "deadlock between writer and readers", rep)
				return
			}
			for i, p := range x.Panics {
				if p != nil {
					r.Violate("C07:sched:"+sc.name+":panic", fmt.Sprintf("thread %d panicked: %v", i, p), rep)
					return
				}
			}
			var outcome []string
			for _, o := range obs {
				outcome = append(outcome, fmt.Sprintf("%s@%d", o.who, o.id.Height))
				switch o.who {
				case "old":
					if want := refReads(oldContent); o.reads != want {
						r.Violate("C07:sched:"+sc.name+":historical-view-wrong", fmt.Sprintf("view at commit %v read %s, want %s", o.id, o.reads, want), rep)
					}
				case "frontier":
					want, ok := byID[o.id]
					if !ok {
						r.Violate("C07:sched:"+sc.name+":frontier-id-unknown", fmt.Sprintf("frontier view reports identifier %v that was never committed", o.id), rep)
					} else if w := refReads(want); o.reads != w {
						r.Violate("C07:sched:"+sc.name+":frontier-view-half-applied", fmt.Sprintf("frontier view reporting commit %v (height %d) read %s, but that commit's state is %s", o.id.Hash, o.id.Height, o.reads, w), rep)
					}
				}
			}
			r.Add("sched_outcomes", sc.name+":"+strings.Join(outcome, ","))
			// final store must equal the reference frontier
			f := mgr.Frontier()
			if got, want := readAll(f), refReads(ref.frontierContent()); got != want {
				r.Violate("C07:sched:"+sc.name+":final-store-wrong", fmt.Sprintf("final frontier reads %s want %s", got, want), rep)
			}
		}
	}
}

func runSched(c *xs.Ctx, r *xs.Result) {
	bound := 1
	if c.Thorough() {
		bound = 2
	}
	if k, _ := strconv.Atoi(os.Getenv("VERIF_C07_PROBE")); k > 0 { // development aid: determinism self-test of the scenarios
		for _, sc := range schedScenarios {
			e := &sched.Explorer{Scenario: buildScenario(c, r, sc)}
			fmt.Fprintf(os.Stderr, "PROBE %s: %q\n", sc.name, e.Probe(k))
		}
		return
	}
	for _, sc := range schedScenarios {
		e := &sched.Explorer{Scenario: buildScenario(c, r, sc), Bound: bound, Deadline: c.Deadline, Shard: c.Shard, NShards: c.NShards}
		e.Explore()
		r.Count("sched_executions", e.Stats.Executions)
		r.Count("sched_points", e.Stats.Points)
		r.Count("sched_states", e.Stats.Executions)
		r.Count("sched_deadlocks", e.Stats.Deadlocks)
		if e.Stats.DivergentSkipped > 0 {
			r.Incomplete = true
			r.Count("sched_divergent_prefixes_skipped", e.Stats.DivergentSkipped)
			r.Note("C07 sched %s: %d choice prefixes did not reproduce their recorded execution after 5 retries and were skipped (last: %s)", sc.name, e.Stats.DivergentSkipped, e.Stats.LastDivergence)
		}
		r.Count("sched_divergence_retries", e.Stats.DivergenceRetries)
		if e.Stats.Incomplete {
			r.Incomplete = true
			r.Note("C07 sched %s: deadline before bound %d completed", sc.name, bound)
		} else {
			r.Add("sched_bound_completed", fmt.Sprintf("%s:%d", sc.name, bound))
		}
		if c.Shard == 0 {
			r.Note("C07 sched %s: max points per execution %d", sc.name, e.Stats.MaxPoints)
		}
	}
}

func replaySched(c *xs.Ctx, r *xs.Result, name string, choices []int) {
	for _, sc := range schedScenarios {
		if sc.name != name {
			continue
		}
		e := &sched.Explorer{Scenario: buildScenario(c, r, sc)}
		if _, err := e.Replay(choices); err != nil {
			panic(err)
		}
		r.Count("sched_executions", e.Stats.Executions)
		r.Count("sched_points", e.Stats.Points)
		r.Count("sched_states", 1)
	}
}
