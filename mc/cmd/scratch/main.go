package main

import (
	"github.com/zenon-network/go-zenon/chain/nom"
	"fmt"
	"os"

	"verifmc/internal/ops"
	"verifmc/internal/vnode"
	_ "verifmc/props/c02"
)

func main() {
	dir, _ := os.MkdirTemp("/dev/shm", "scratch")
	defer os.RemoveAll(dir)
	n := vnode.New(vnode.Options{Dir: dir + "/n"})
	M := ops.Op{K: "M"}
	seq := []ops.Op{{K: "Call", S: "issue", A: 0, V: 1000}, M, {K: "Mforeign"}, M, M}
	for _, o := range seq {
		fmt.Println(o, "->", ops.Apply(n, o), "height", n.Height(), "pool", len(n.PoolBlocks()))
		for _, b := range n.PoolBlocks() {
			fmt.Printf("   pool: type %d %v/%d ack %d desc %d\n", b.BlockType, b.Address, b.Height, b.MomentumAcknowledged.Height, len(b.DescendantBlocks))
		}
	}
	for h := uint64(2); h <= n.Height(); h++ {
		d := n.Detailed(h)
		for _, b := range d.AccountBlocks {
			fmt.Printf("M%d: type %d %v/%d ack %d desc %d\n", h, b.BlockType, b.Address, b.Height, b.MomentumAcknowledged.Height, len(b.DescendantBlocks))
		}
	}
}

func init() {
	if os.Getenv("FOLLOW") == "" {
		return
	}
	dir, _ := os.MkdirTemp("/dev/shm", "scratchf")
	defer os.RemoveAll(dir)
	n := vnode.New(vnode.Options{Dir: dir + "/n"})
	M := ops.Op{K: "M"}
	for _, o := range []ops.Op{{K: "Call", S: "issue", A: 0, V: 1000}, M, {K: "Mforeign"}, M, M} {
		ops.Apply(n, o)
	}
	f := vnode.New(vnode.Options{Dir: dir + "/f", NoPillars: true})
	fmt.Println(f.InsertChain(vnode.CloneBatch(n.Range(2, 2))))
	var R *nom.AccountBlock
	for _, b := range n.Detailed(4).AccountBlocks {
		if b.BlockType == 5 {
			R = b
		}
	}
	fmt.Println("gossip R:", fmt.Sprint(f.AddAccountBlocks([]*nom.AccountBlock{vnode.CloneBlock(R)})), "pool", len(f.PoolBlocks()))
	fmt.Println(f.InsertChain(vnode.CloneBatch(n.Range(3, 3))))
	fmt.Println("pool after M3", len(f.PoolBlocks()))
	fmt.Println(f.InsertChain(vnode.CloneBatch(n.Range(4, 4))))
	fmt.Println("height", f.Height())
	os.Exit(0)
}
