package discover

// Verification-only exports for check C15 (never part of the repository; compiled in through the build overlay).
// Wrappers only, no logic.

import (
	"crypto/ecdsa"
	"net"
)

type (
	VerifPing      = ping
	VerifPong      = pong
	VerifFindnode  = findnode
	VerifNeighbors = neighbors
	VerifRPCNode   = rpcNode
	VerifEndpoint  = rpcEndpoint
)

const (
	VerifPingPacket      = pingPacket
	VerifPongPacket      = pongPacket
	VerifFindnodePacket  = findnodePacket
	VerifNeighborsPacket = neighborsPacket
	VerifHeadSize        = headSize
	VerifMacSize         = macSize
)

func VerifMaxNeighbors() int { return maxNeighbors }

// VerifEncodePacket is the package's own packet encoder.
func VerifEncodePacket(priv *ecdsa.PrivateKey, ptype byte, req interface{}) ([]byte, error) {
	return encodePacket(priv, ptype, req)
}

// VerifDecodePacket is decodePacket; the decoded request is returned as an opaque value.
func VerifDecodePacket(buf []byte) (req interface{}, from NodeID, hash []byte, err error) {
	return decodePacket(buf)
}

// VerifConn is the (unexported) conn interface of the udp transport.
type VerifConn interface {
	ReadFromUDP(b []byte) (n int, addr *net.UDPAddr, err error)
	WriteToUDP(b []byte, addr *net.UDPAddr) (n int, err error)
	Close() error
	LocalAddr() net.Addr
}

// VerifUDP exposes the unexported udp transport.
type VerifUDP struct{ t *udp }

// VerifNewUDP is newUDP without NAT and with an in-memory node database.
func VerifNewUDP(priv *ecdsa.PrivateKey, c VerifConn) (*Table, *VerifUDP) {
	tab, t := newUDP(priv, c, nil, "")
	return tab, &VerifUDP{t}
}

// HandlePacket is what readLoop calls for every datagram.
func (u *VerifUDP) HandlePacket(from *net.UDPAddr, buf []byte) error {
	return u.t.handlePacket(from, buf)
}

// KnownNode tells whether the node database holds a bond with id.
func (u *VerifUDP) KnownNode(id NodeID) bool { return u.t.db.node(id) != nil }

func (u *VerifUDP) Close() { u.t.close() }
