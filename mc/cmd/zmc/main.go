package main

import (
	_ "verifmc/props/c02"

	"verifmc/internal/xs"
)

func main() { xs.Main() }
