package main

import (
	"fmt"
	"os"

	"github.com/zenon-network/go-zenon/chain/nom"

	"verifmc/internal/ops"
	"verifmc/internal/vnode"
)

func main() {
	dir, _ := os.MkdirTemp("/dev/shm", "scratch")
	defer os.RemoveAll(dir)
	n := vnode.New(vnode.Options{Dir: dir})
	for i, u := range ops.Users[:13] {
		st := n.Chain.GetFrontierAccountStore(u.Address)
		m, _ := st.GetBalanceMap()
		fmt.Println(i, m)
	}
	for _, o := range []ops.Op{
		{K: "Call", S: "sentinel-register", A: 0},
		{K: "Call", S: "sentinel-register", A: 5},
		{K: "Call", S: "pillar-deposit-qsr", A: 1, V: 10},
		{K: "Call", S: "burn", A: 2, T: 1, V: 5},
		{K: "M"},
		{K: "Call", S: "pillar-withdraw-qsr", A: 1},
		{K: "M"},
	} {
		fmt.Println(o, "->", ops.Apply(n, o))
	}
	fmt.Println(ops.Apply(n, ops.Op{K: "M"}))
	for h := uint64(2); h <= n.Height(); h++ {
		for _, b := range n.Detailed(h).AccountBlocks {
			fmt.Printf("m%d: type=%d addr=%v h=%d desc=%d amt=%v\n", h, b.BlockType, b.Address, b.Height, len(b.DescendantBlocks), b.Amount)
		}
	}
	_ = nom.BlockTypeUserSend
}
