package c09

import (
	"fmt"
	"sort"

	"github.com/zenon-network/go-zenon/common/types"
	"github.com/zenon-network/go-zenon/vm/abi"
	"github.com/zenon-network/go-zenon/vm/constants"
	"github.com/zenon-network/go-zenon/vm/embedded"
	"github.com/zenon-network/go-zenon/vm/embedded/definition"
	"github.com/zenon-network/go-zenon/vm/vm_context"

	"verifmc/internal/vnode"
)

// contractDef is one embedded contract: its address and the ABI GetEmbeddedMethod resolves selectors with.
type contractDef struct {
	Name string
	Addr types.Address
	ABI  abi.ABIContract
}

var contracts = []contractDef{
	{"plasma", types.PlasmaContract, definition.ABIPlasma},
	{"pillar", types.PillarContract, definition.ABIPillars},
	{"token", types.TokenContract, definition.ABIToken},
	{"sentinel", types.SentinelContract, definition.ABISentinel},
	{"swap", types.SwapContract, definition.ABISwap},
	{"stake", types.StakeContract, definition.ABIStake},
	{"spork", types.SporkContract, definition.ABISpork},
	{"liquidity", types.LiquidityContract, definition.ABILiquidity},
	{"accelerator", types.AcceleratorContract, definition.ABIAccelerator},
	{"htlc", types.HtlcContract, definition.ABIHtlc},
	{"bridge", types.BridgeContract, definition.ABIBridge},
}

func methodNames(a abi.ABIContract) []string {
	var out []string
	for n := range a.Methods {
		out = append(out, n)
	}
	sort.Strings(out)
	return out
}

type methodRef struct {
	C *contractDef
	M abi.Method
}

func (m methodRef) key() string { return m.C.Name + "." + m.M.Name }

// methodTable asks the implementation (embedded.GetEmbeddedMethod, at the node's frontier) which of the ABI-declared
// methods exist in the regime the node's chain is in. Returns the available ones and the declared-but-absent ones.
func methodTable(n *vnode.Node) (avail, absent []methodRef) {
	st := n.Chain.GetFrontierMomentumStore()
	fm, err := st.GetFrontierMomentum()
	must(err)
	for i := range contracts {
		c := &contracts[i]
		if len(types.EmbeddedContracts) != len(contracts) {
			panic("embedded contract list changed")
		}
		ctx := vm_context.NewAccountContext(st, n.Chain.GetFrontierAccountStore(c.Addr), n.Cons.FixedPillarReader(fm.Identifier()))
		for _, name := range methodNames(c.ABI) {
			m := c.ABI.Methods[name]
			impl, err := embedded.GetEmbeddedMethod(ctx, c.Addr, m.Id())
			switch {
			case err == nil && impl != nil:
				avail = append(avail, methodRef{c, m})
			case err == constants.ErrContractMethodNotFound || err == constants.ErrContractDoesntExist:
				absent = append(absent, methodRef{c, m})
			default:
				panic(fmt.Sprintf("GetEmbeddedMethod(%s.%s): %v", c.Name, name, err))
			}
		}
	}
	return
}

// expected table sizes per regime, from reading vm/embedded/embedded.go at the pinned commit (vacuity guard: the
// reflection over the ABI definitions and the implementation's tables must agree with the reading).
var expectedAvail = map[string]int{
	"origin":                  32,
	"accelerator":             40,
	"accelerator+bridge":      71,
	"accelerator+htlc":        76,
	"accelerator+bridge+htlc": 76,
}
