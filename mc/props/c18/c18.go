// Package c18 checks property C18: RPC answers match the ledger and are bounded; the JSON-RPC server survives bad input.
//
//	(a) paging     every paged method of LedgerApi and of the embedded APIs, full product of the stated page index /
//	               size (height / count) values, against ground truth read from the stores
//	(b) round trip every account block and momentum -> rpc type -> JSON -> rpc/nom type -> same protobuf bytes and hash
//	(c) server     rpc/server in-process (ServeHTTP with a recorder, ServeCodec over net.Pipe) fed a grammar-enumerated
//	               set of malformed / oversized / hostile requests, run in a child process so that a crash is attributable
package c18

import (
	"encoding/json"
	"fmt"
	"os"
	"sort"
	"time"

	"verifmc/internal/vnode"
	"verifmc/internal/xs"
)

// work items: one per (chain, slice of the instance list) for part (a), one per chain for (b), several for (c)
type workItem struct {
	Part  string
	Chain string
	K, Of int // slice K of Of
}

const aSlices = 3
const bridgeSlices = 8
const cSlices = 4

func workItems(tier string) []workItem {
	var w []workItem
	// the long chain is the most expensive to build: first, so that it starts first
	for _, ch := range []string{"bridge", "long", "embedded", "ledger", "empty"} {
		sl := aSlices
		if ch == "bridge" {
			sl = bridgeSlices // lists longer than RpcMaxPageSize: every call decodes a thousand entries
		}
		for k := 0; k < sl; k++ {
			w = append(w, workItem{"a", ch, k, sl})
		}
	}
	bChains := []string{"embedded", "ledger", "empty"}
	if tier == "thorough" {
		bChains = append([]string{"long"}, bChains...)
	}
	for _, ch := range bChains {
		w = append(w, workItem{"b", ch, 0, 1})
	}
	for k := 0; k < cSlices; k++ {
		w = append(w, workItem{"c", "ledger", k, cSlices})
	}
	w = append(w, workItem{"c", "embedded", 0, 1}) // the paging grid of a few methods through the server
	return w
}

func init() {
	childHook()
	xs.Register(&xs.Check{
		ID:    "C18",
		Level: "exploration",
		Shards: func(tier string) int {
			return len(workItems(tier))
		},
		Budget: func(tier string) time.Duration {
			if tier == "thorough" {
				return 14 * time.Minute
			}
			return 4 * time.Minute
		},
		Assumptions: []string{
			"mock genesis (chain id 100, 3 genesis pillars); five scripted chain histories: empty, ledger (account traffic, pool, unreceived), embedded (tokens, stakes, fusions, sentinels, pillars, sporks, accelerator projects, several epochs), long (1100 momentums; thorough: 1030 accelerator projects), bridge (bridge-and-liquidity spork active through C10's administrator prefix with its shrunk administrator delays and lock periods; 1031 wrap and 1030 unwrap requests, liquidity stakes)",
			"process globals owned by the worker: consensus.EpochDuration = 1h (as the repository's embedded tests), common.Clock = logical clock, types.AcceleratorSpork.SporkId / ImplementedSporksMap set to the spork the embedded/long chain activates itself",
			"the bridge and liquidity lists hold data on the bridge chain only (empty storage elsewhere); the HTLC spork is activated on no chain; on bridge request lists longer than RpcMaxPageSize the page-by-page walks use sizes 3 and 1024 (sizes 1 and 2 are evaluated on the first, last and out-of-range pages by the grid)",
			"the APIs are constructed over an adapter implementing zenon.Zenon from the harness node (Chain, Consensus); PillarApi in 'testing' mode (consensus cache refreshed synchronously)",
			"part (c) drives rpc/server in-process: ServeHTTP with httptest recorders and ServeCodec over net.Pipe, no sockets, no websocket / IPC transports",
		},
		Rule: "exhaustive enumeration, no sampling: (a) per chain and paged method the full product pageIndex {0,1,2,last,last+1,2^16,2^22,2^31,2^32-1, first index whose offset needs more than 32 bits and its predecessor} x pageSize {0,1,2,3,limit,limit+1,2^32-1} (heights {0,1,2,last,last+1,2^63,2^64-1} x counts {...,2^63,2^64-1}) plus every page of every legal size for the concatenation property; (b) every stored block and momentum and 7 synthetic variants per block; (c) a fixed grammar of requests (valid, wrong type per parameter position, missing/extra/null params, huge numbers, nesting up to 10^5, 5 MiB, batches, invalid UTF-8, unknown methods, every truncation of 3 valid requests) over two transports. A case is non-trivial unless its expected answer is trivially empty (empty list / size 0 / empty body); distinct = distinct inputs.",
		Run:  run,
		Finish: func(tier string, m *xs.Result, ev *xs.Evidence) {
			ev.Coverage["evaluations"] = m.Counters["a_evaluations"] + m.Counters["b_roundtrips"] + m.Counters["c_requests"]
			var samples []interface{}
			for _, part := range []string{"ap", "aw", "ao", "b", "c"} {
				var ks []string
				for k := range m.Sets["samples_"+part] {
					ks = append(ks, k)
				}
				sort.Strings(ks)
				for i, k := range ks {
					if i >= 2 || (i >= 1 && part[0] == 'a') {
						break
					}
					var v interface{}
					if json.Unmarshal([]byte(k), &v) == nil {
						samples = append(samples, v)
					}
				}
				delete(ev.Coverage, "distinct_samples_"+part)
			}
			if len(samples) > 0 {
				ev.Coverage["samples"] = samples
			}
			delete(ev.Coverage, "distinct_nontrivial")
			ev.Coverage["distinct_nontrivial"] = len(m.Sets["nontrivial"])
			ev.Coverage["distinct_outcome_classes"] = len(m.Sets["paging_cases"]) + len(m.Sets["c_outcomes"]) + len(m.Sets["b_kinds"])
			ev.Coverage["explanation"] = "evaluations = api calls of part (a) + JSON round trips of part (b) + (request, transport) executions of part (c). distinct_nontrivial counts distinct cases: (a) (chain, method, fixed args, a, b) cells except those on an empty list or with size 0 whose answer is trivially empty, plus each point query; (b) each stored block / momentum and each synthetic variant of a block; (c) each (request bytes, transport) pair that owes an answer. distinct_outcome_classes = distinct (method, outcome class) + (request family, transport, outcome) + block/momentum shapes."
			if os.Getenv("C18_DUMP") != "" {
				for name, set := range m.Sets {
					var ks []string
					for k := range set {
						ks = append(ks, k)
					}
					sort.Strings(ks)
					for _, k := range ks {
						fmt.Fprintf(os.Stderr, "SET %s %s\n", name, k)
					}
				}
			}
			if m.Incomplete || os.Getenv("C18_NOGUARD") != "" || m.Counters["replay_mode"] > 0 {
				return
			}
			// vacuity guards
			guard := func(ok bool, what string) {
				if !ok {
					panic("C18 vacuity guard failed: " + what)
				}
			}
			guard(m.Counters["a_nonempty_pages"] > 100, "too few non-empty pages compared")
			guard(len(m.Sets["a_methods_nonempty"]) >= 20, fmt.Sprintf("only %d paged methods had a non-empty list", len(m.Sets["a_methods_nonempty"])))
			guard(m.Counters["b_roundtrips"] > 100, "too few JSON round trips")
			guard(m.Counters["c_requests"] > 500, "too few server requests")
			guard(m.Counters["c_sentinel_ok"] > 500, "sentinel calls were not answered")
		},
	})
}

// sampleOnce keeps the first two samples of each part per shard (the driver's own sample list keeps the first four
// overall, which would all come from one part).
func sampleOnce(r *xs.Result, part string, v interface{}) {
	if len(r.Sets["samples_"+part]) >= 2 {
		return
	}
	b, err := json.Marshal(v)
	if err == nil {
		r.Add("samples_"+part, string(b))
	}
}

type replaySpec struct {
	Part   string          `json:"part"`
	Tier   string          `json:"tier,omitempty"`
	Cell   *cellSpec       `json:"cell,omitempty"`
	Concat *cellSpec       `json:"concat,omitempty"`
	B      *rtSpec         `json:"b,omitempty"`
	C      json.RawMessage `json:"c,omitempty"`
}

// curTier is the tier of the chains this worker builds (recorded in replay objects).
var curTier string

func run(c *xs.Ctx, r *xs.Result) {
	setGlobals()
	curTier = c.Tier
	if c.Replay != nil {
		replay(c, r)
		return
	}
	items := workItems(c.Tier)
	for i, it := range items {
		if !c.Mine(i) {
			continue
		}
		if c.Expired() {
			r.Incomplete = true
			r.Note("deadline reached before work item %d (%+v)", i, it)
			return
		}
		t0 := time.Now()
		switch it.Part {
		case "a":
			runA(c, r, it)
		case "b":
			runB(c, r, it)
		case "c":
			runC(c, r, it)
		}
		if d := time.Since(t0); d > 30*time.Second {
			r.Note("work item %+v took %.0fs", it, d.Seconds())
		}
	}
}

var chainCache = map[string]*chainIndex{}
var chainBuilt = map[string]time.Duration{}

func getChain(c *xs.Ctx, name string) *chainIndex {
	if ci, ok := chainCache[name]; ok {
		return ci
	}
	t0 := time.Now()
	n := buildChain(c, name)
	ci := indexChain(n, name)
	chainBuilt[name] = time.Since(t0)
	chainCache[name] = ci
	return ci
}

var _ = vnode.Quiet

func runA(c *xs.Ctx, r *xs.Result, it workItem) {
	ci := getChain(c, it.Chain)
	if d := chainBuilt[it.Chain]; d > 5*time.Second {
		r.Note("chain %s built in %s", it.Chain, d.Round(time.Second))
	}
	ins := buildInstances(ci)
	t1 := time.Now()
	defer func() {
		if d := time.Since(t1); d > 20*time.Second {
			r.Note("slice %d/%d of chain %s: instances took %s", it.K, it.Of, it.Chain, d.Round(time.Second))
		}
	}()
	for i, in := range ins {
		if i%it.Of != it.K {
			continue
		}
		if c.Expired() {
			r.Incomplete = true
			r.Note("deadline reached in part (a), chain %s instance %d/%d", it.Chain, i, len(ins))
			return
		}
		checkInstance(c, r, it.Chain, in)
		if abortA {
			r.Note("part (a) chain %s: a call did not return; remaining instances of this work item skipped", it.Chain)
			return
		}
	}
	if it.K == 0 {
		checkPoints(c, r, ci)
	}
}

func replay(c *xs.Ctx, r *xs.Result) {
	r.Count("replay_mode", 1)
	var rep replaySpec
	if err := json.Unmarshal(c.Replay, &rep); err != nil {
		panic(err)
	}
	if rep.Tier == "quick" || rep.Tier == "thorough" {
		c.Tier = rep.Tier // the chains differ between tiers
		curTier = rep.Tier
	}
	switch rep.Part {
	case "a":
		spec := rep.Cell
		if spec == nil {
			spec = rep.Concat
		}
		if spec == nil {
			panic("replay: no cell")
		}
		ci := getChain(c, spec.Chain)
		for _, in := range buildInstances(ci) {
			if in.Method == spec.Method && in.Arg == spec.Arg {
				if rep.Cell != nil {
					checkCell(r, spec.Chain, in, spec.A, spec.B)
				} else {
					checkInstance(c, r, spec.Chain, in)
				}
				return
			}
		}
		panic("replay: instance not found")
	case "a-point":
		ci := getChain(c, rep.Cell.Chain)
		checkPoints(c, r, ci)
	case "b":
		replayB(c, r, rep.B)
	case "c":
		replayC(c, r, rep.C)
	default:
		panic("replay: unknown part " + rep.Part)
	}
}
