package c09

import (
	"fmt"
	"math/big"

	"github.com/zenon-network/go-zenon/vm/abi"
)

// Non-canonical ABI encodings of an otherwise valid argument list. data = selector ++ canonical encoding.

type encVariant struct {
	L    string
	Data []byte
}

func word(x *big.Int) []byte {
	b := x.Bytes()
	if len(b) > 32 {
		b = b[len(b)-32:]
	}
	out := make([]byte, 32)
	copy(out[32-len(b):], b)
	return out
}

func isDynamic(t abi.Type) bool {
	return t.T == abi.StringTy || t.T == abi.BytesTy || t.T == abi.SliceTy
}

// valueBytes: how many low-order bytes of the head word carry the value of a static type (32 = no padding).
func valueBytes(t abi.Type) int {
	switch t.T {
	case abi.UintTy, abi.IntTy:
		return t.Size / 8
	case abi.BoolTy:
		return 1
	case abi.AddressTy:
		return 20
	case abi.TokenStandardTy:
		return 10
	}
	return 32
}

func encodingVariants(m *abi.Method, data []byte) []encVariant {
	var out []encVariant
	add := func(l string, d []byte) { out = append(out, encVariant{l, d}) }
	clone := func() []byte { return append([]byte{}, data...) }
	n := len(m.Inputs)
	add("trailing-word", append(clone(), make([]byte, 32)...))
	add("trailing-byte", append(clone(), 1))
	if n == 0 {
		return out
	}
	add("truncated-byte", clone()[:len(data)-1])
	add("truncated-word", clone()[:len(data)-32])
	add("selector-only", clone()[:4])
	body := len(data) - 4
	var dyn []int
	for i, in := range m.Inputs {
		if isDynamic(in.Type) {
			dyn = append(dyn, i)
		}
	}
	for i, in := range m.Inputs {
		h := 4 + 32*i
		if !isDynamic(in.Type) {
			if vb := valueBytes(in.Type); vb < 32 {
				d := clone()
				for k := h; k < h+32-vb; k++ {
					d[k] = 0xff
				}
				add(fmt.Sprintf("dirty-padding-arg%d", i), d)
			}
			continue
		}
		off := int(new(big.Int).SetBytes(data[h : h+32]).Int64())
		setOff := func(l string, x *big.Int) {
			d := clone()
			copy(d[h:h+32], word(x))
			add(fmt.Sprintf("offset-arg%d-%s", i, l), d)
		}
		setOff("into-head", big.NewInt(int64(32*i)))
		setOff("at-end", big.NewInt(int64(body)))
		setOff("last-word", big.NewInt(int64(body-32)))
		setOff("2^255", new(big.Int).Lsh(big.NewInt(1), 255))
		setOff("2^64", p64)
		setOff("2^63-32", new(big.Int).Sub(new(big.Int).Lsh(big.NewInt(1), 63), big.NewInt(32)))
		setOff("unaligned", big.NewInt(int64(off+1)))
		for _, j := range dyn {
			if j != i {
				d := clone()
				copy(d[h:h+32], data[4+32*j:4+32*j+32])
				add(fmt.Sprintf("offset-arg%d-shared-with-arg%d", i, j), d)
				break
			}
		}
		l := 4 + off
		if l+32 <= len(data) {
			length := new(big.Int).SetBytes(data[l : l+32])
			setLen := func(lbl string, x *big.Int) {
				d := clone()
				copy(d[l:l+32], word(x))
				add(fmt.Sprintf("length-arg%d-%s", i, lbl), d)
			}
			setLen("2^256-1", p256m1)
			setLen("2^63", new(big.Int).Lsh(big.NewInt(1), 63))
			setLen("plus1", new(big.Int).Add(length, big.NewInt(1)))
			setLen("to-end", big.NewInt(int64(len(data)-(l+32))))
			setLen("past-end", big.NewInt(int64(len(data)-(l+32)+1)))
			if in.Type.T != abi.SliceTy {
				// non-zero bytes in the padding after the content
				ln := int(length.Int64())
				end := l + 32 + ln
				padEnd := l + 32 + (ln+31)/32*32
				if padEnd <= len(data) && end < padEnd {
					d := clone()
					for k := end; k < padEnd; k++ {
						d[k] = 0xee
					}
					add(fmt.Sprintf("dirty-tail-padding-arg%d", i), d)
				}
			}
		}
	}
	return out
}
