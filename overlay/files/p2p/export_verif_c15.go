package p2p

// Verification-only exports for check C15 (never part of the repository; compiled in through the build overlay).
// Wrappers only, no logic.

import (
	"crypto/ecdsa"
	"hash"
	"io"
	"net"

	"github.com/zenon-network/go-zenon/p2p/discover"
)

// VerifFrameRW exposes the unexported rlpxFrameRW.
type VerifFrameRW struct{ rw *rlpxFrameRW }

// VerifNewFrameRW builds a real rlpxFrameRW over conn from the given session secrets.
func VerifNewFrameRW(conn io.ReadWriter, aesKey, macKey []byte, egressMAC, ingressMAC hash.Hash) *VerifFrameRW {
	return &VerifFrameRW{newRLPXFrameRW(conn, secrets{AES: aesKey, MAC: macKey, EgressMAC: egressMAC, IngressMAC: ingressMAC})}
}

func (f *VerifFrameRW) WriteMsg(msg Msg) error { return f.rw.WriteMsg(msg) }
func (f *VerifFrameRW) ReadMsg() (Msg, error)  { return f.rw.ReadMsg() }

// VerifServerHandshakes runs, on fd, the transport calls Server.setupConn makes for an inbound connection: newRLPX, the
// encryption handshake as receiver, the protocol handshake. (The server's own checkpoints between the two are not part
// of the transport and are not run.)
func VerifServerHandshakes(fd net.Conn, prv *ecdsa.PrivateKey) error {
	t := newRLPX(fd)
	if _, err := t.doEncHandshake(prv, nil); err != nil {
		return err
	}
	_, err := t.doProtoHandshake(&protoHandshake{Version: baseProtocolVersion, Name: "verif-c15", ID: discover.PubkeyID(&prv.PublicKey)})
	return err
}

// VerifDialEncHandshake runs the encryption handshake as initiator towards remote on fd (what a dialing peer does first).
func VerifDialEncHandshake(fd net.Conn, prv *ecdsa.PrivateKey, remote *ecdsa.PublicKey) error {
	t := newRLPX(fd)
	_, err := t.doEncHandshake(prv, &discover.Node{ID: discover.PubkeyID(remote)})
	return err
}
