package chain

import (
	"sort"

	"github.com/zenon-network/go-zenon/chain/nom"
	"github.com/zenon-network/go-zenon/common/db"
	"github.com/zenon-network/go-zenon/common/types"
)

// verifSortAddresses / verifSortedAddresses: the checker's build iterates the account pool's per-address map in sorted
// order (see overlay/gen.py, MAP_ORDER), so that the same schedule always takes the same locks in the same order.
func verifSortAddresses(a []types.Address) {
	sort.Slice(a, func(i, j int) bool { return a[i].String() < a[j].String() })
}
func verifSortedAddresses(m map[types.Address]db.Manager) []types.Address {
	out := make([]types.Address, 0, len(m))
	for a := range m {
		out = append(out, a)
	}
	verifSortAddresses(out)
	return out
}

// Verification overlay only (never part of the repository): re-exports of unexported seams of the account pool.

// VerifFilterBlocksToCommit calls accountPool.filterBlocksToCommit on an explicit block list (the order of
// GetAllUncommittedAccountBlocks depends on Go map iteration; the harness enumerates the orders itself).
func VerifFilterBlocksToCommit(c Chain, blocks []*nom.AccountBlock) []*nom.AccountBlock {
	return c.(*chain).accountPool.filterBlocksToCommit(blocks)
}

// VerifPoolAddresses lists the addresses that currently have a pool manager, sorted.
func VerifPoolAddresses(c Chain) []types.Address {
	ap := c.(*chain).accountPool
	ap.changes.Lock()
	defer ap.changes.Unlock()
	out := make([]types.Address, 0, len(ap.managers))
	for a := range ap.managers {
		out = append(out, a)
	}
	sort.Slice(out, func(i, j int) bool { return out[i].String() < out[j].String() })
	return out
}
