package c07

import (
	"bytes"
	"fmt"
	"os"
	"os/exec"
	"path/filepath"
	"sort"
	"strconv"
	"strings"
	"sync"
	"time"

	"github.com/syndtr/goleveldb/leveldb"

	"github.com/zenon-network/go-zenon/common/db"
	"github.com/zenon-network/go-zenon/common/types"
	"github.com/zenon-network/go-zenon/common/vsync"

	"verifmc/internal/sched"
	"verifmc/internal/xs"
)

func removeAll(p string) { os.RemoveAll(p) }

// Part B — one writer (Add, Add, Pop, Add) against three readers (two of a historical view, one of the frontier) on a real
// leveldb-backed manager, all schedules up to the preemption bound. Scheduling points: every mutex acquisition in
// common/db and every leveldb write of Add/Pop (VerifWriteHook).

type snapshotObs struct {
	who   string
	id    types.HashHeight
	reads string
}

func readAll(d db.DB) string {
	var parts []string
	for _, k := range keys {
		v, err := d.Get(k)
		if err == leveldb.ErrNotFound {
			parts = append(parts, fmt.Sprintf("%x:-", k))
		} else if err != nil {
			parts = append(parts, fmt.Sprintf("%x:err", k))
		} else {
			parts = append(parts, fmt.Sprintf("%x:%x", k, v))
		}
	}
	it := d.NewIterator([]byte{0x10})
	var sc []string
	for it.Next() {
		if it.Value() == nil {
			continue
		}
		sc = append(sc, fmt.Sprintf("%x=%x", it.Key(), it.Value()))
	}
	it.Release()
	return strings.Join(parts, ",") + "|scan:" + strings.Join(sc, ",")
}

func refReads(c content) string {
	var parts []string
	for _, k := range keys {
		v, ok := c[string(k)]
		if !ok {
			parts = append(parts, fmt.Sprintf("%x:-", k))
		} else {
			parts = append(parts, fmt.Sprintf("%x:%x", k, v))
		}
	}
	var sc []string
	var ks []string
	for k := range c {
		if bytes.HasPrefix([]byte(k), []byte{0x10}) {
			ks = append(ks, k)
		}
	}
	sort.Strings(ks)
	for _, k := range ks {
		sc = append(sc, fmt.Sprintf("%x=%x", k, c[k]))
	}
	return strings.Join(parts, ",") + "|scan:" + strings.Join(sc, ",")
}

type schedScenario struct {
	name    string
	setup   []int // write sets committed before the threads start
	writer  []Op  // C / P ops
	readers int
}

var schedScenarios = []schedScenario{
	{name: "add-add-pop-add", setup: []int{0, 1}, writer: []Op{{K: "C", A: 2}, {K: "C", A: 4}, {K: "P"}, {K: "C", A: 5}}},
	{name: "pop-pop-add", setup: []int{0, 1, 4}, writer: []Op{{K: "P"}, {K: "P"}, {K: "C", A: 3}}},
}

// scenarioInst is one instance of a scenario: a real manager with the setup commits applied, the thread bodies, and the
// judgement of what the threads observed. The bodies are the same whether they run as threads of the controlled
// scheduler (buildScenario) or as free-running goroutines under the race detector (RacePass).
type scenarioInst struct {
	dir    string
	mgr    db.Manager
	bodies []func()
	names  []string
	judge  func(r *xs.Result, rep map[string]interface{}, name string) []string
	close  func()
}

func newScenarioInst(c *xs.Ctx, sc schedScenario) *scenarioInst {
	dir := c.TempDir()
	mgr := db.NewLevelDBManager(dir)
	ref := newRef()
	byID := map[types.HashHeight]content{types.ZeroHashHeight: {}}
	var byIDMu sync.Mutex // harness state shared between the writer body and the judgement only
	commit := func(ws int) {
		tx, cm := newTx(ref.frontier(), ws, 0)
		data, _ := cm.Serialize()
		nc := ref.frontierContent().clone()
		for _, w := range writeSets[ws] {
			nc.apply(w)
		}
		bookkeeping(nc, cm.Identifier(), data)
		ref.stack = append(ref.stack, cm.Identifier())
		ref.versions = append(ref.versions, nc)
		byIDMu.Lock()
		byID[cm.Identifier()] = nc
		byIDMu.Unlock()
		if err := mgr.Add(tx); err != nil {
			panic(err)
		}
	}
	for _, ws := range sc.setup {
		commit(ws)
	}
	oldID := ref.stack[1]
	oldContent := ref.versions[1]
	obs := make([][]snapshotObs, 4) // one slice per thread: the bodies share nothing but the manager
	// ... and one narrowed view of the old commit that both historical readers use at the same time (a store handed to
	// several goroutines, e.g. an account store inside a momentum store served to RPC handlers). Its prefix has spare
	// capacity, as prefixes built with append have.
	sharedPrefix := append(make([]byte, 0, 16), 0x10)
	var shared db.DB
	if v := mgr.Get(oldID); v != nil {
		shared = v.Subset(sharedPrefix)
	}
	oldSub := restrict(oldContent, []byte{0x10})
	readShared := func() string {
		if shared == nil {
			return "nil-view"
		}
		var parts []string
		for _, k := range [][]byte{{}, {0xff}, {0xff, 0x12}, {0x13}} {
			v, err := shared.Get(k)
			has, _ := shared.Has(k)
			if err == leveldb.ErrNotFound {
				parts = append(parts, fmt.Sprintf("%x:-/%v", k, has))
			} else if err != nil {
				parts = append(parts, fmt.Sprintf("%x:err", k))
			} else {
				parts = append(parts, fmt.Sprintf("%x:%x/%v", k, v, has))
			}
		}
		it := shared.NewIterator([]byte{0xff})
		for it.Next() {
			if it.Value() != nil {
				parts = append(parts, fmt.Sprintf("scan %x=%x", it.Key(), it.Value()))
			}
		}
		it.Release()
		return strings.Join(parts, ",")
	}
	wantShared := func() string {
		var parts []string
		for _, k := range [][]byte{{}, {0xff}, {0xff, 0x12}, {0x13}} {
			if v, ok := oldSub[string(k)]; ok {
				parts = append(parts, fmt.Sprintf("%x:%x/true", k, v))
			} else {
				parts = append(parts, fmt.Sprintf("%x:-/false", k))
			}
		}
		var ks []string
		for k := range oldSub {
			if bytes.HasPrefix([]byte(k), []byte{0xff}) {
				ks = append(ks, k)
			}
		}
		sort.Strings(ks)
		for _, k := range ks {
			parts = append(parts, fmt.Sprintf("scan %x=%x", k, oldSub[k]))
		}
		return strings.Join(parts, ",")
	}()
	in := &scenarioInst{dir: dir, mgr: mgr, names: []string{"writer", "reader-old", "reader-old-late", "reader-frontier"}}
	in.bodies = []func(){
		func() {
			for _, o := range sc.writer {
				switch o.K {
				case "C":
					commit(o.A)
				case "P":
					if err := mgr.Pop(); err != nil {
						panic(err)
					}
					ref.stack = ref.stack[:len(ref.stack)-1]
					ref.versions = ref.versions[:len(ref.versions)-1]
				}
			}
		},
		func() {
			for i := 0; i < 2; i++ {
				v := mgr.Get(oldID)
				if v == nil {
					obs[1] = append(obs[1], snapshotObs{"old", oldID, "nil-view"})
					continue
				}
				obs[1] = append(obs[1], snapshotObs{"old", oldID, readAll(v)})
				obs[1] = append(obs[1], snapshotObs{"shared", oldID, readShared()})
			}
		},
		// a second historical reader with a single late read: together with reader-old it makes "one reader warms the
		// cache inside a window of the writer, another one reads after the writer has moved on" reachable with ONE preemption
		func() {
			v := mgr.Get(oldID)
			if v == nil {
				obs[2] = append(obs[2], snapshotObs{"old", oldID, "nil-view"})
				return
			}
			obs[2] = append(obs[2], snapshotObs{"old", oldID, readAll(v)})
			obs[2] = append(obs[2], snapshotObs{"shared", oldID, readShared()})
		},
		func() {
			for i := 0; i < 2; i++ {
				f := mgr.Frontier()
				id := db.GetFrontierIdentifier(f)
				obs[3] = append(obs[3], snapshotObs{"frontier", id, readAll(f)})
			}
		},
	}
	in.judge = func(r *xs.Result, rep map[string]interface{}, name string) []string {
		var outcome []string
		for _, th := range obs {
			for _, o := range th {
				outcome = append(outcome, fmt.Sprintf("%s@%d", o.who, o.id.Height))
				switch o.who {
				case "old":
					if want := refReads(oldContent); o.reads != want {
						r.Violate("C07:sched:"+name+":historical-view-wrong", fmt.Sprintf("view at commit %v read %s, want %s", o.id, o.reads, want), rep)
					}
				case "shared":
					if o.reads != wantShared {
						r.Violate("C07:sched:"+name+":shared-subset-view-wrong", fmt.Sprintf("narrowed view (prefix 10) of commit %v used by two readers read %s, want %s", o.id, o.reads, wantShared), rep)
					}
				case "frontier":
					byIDMu.Lock()
					want, ok := byID[o.id]
					byIDMu.Unlock()
					if !ok {
						r.Violate("C07:sched:"+name+":frontier-id-unknown", fmt.Sprintf("frontier view reports identifier %v that was never committed", o.id), rep)
					} else if w := refReads(want); o.reads != w {
						r.Violate("C07:sched:"+name+":frontier-view-half-applied", fmt.Sprintf("frontier view reporting commit %v (height %d) read %s, but that commit's state is %s", o.id.Hash, o.id.Height, o.reads, w), rep)
					}
				}
			}
		}
		// final store must equal the reference frontier
		f := mgr.Frontier()
		if got, want := readAll(f), refReads(ref.frontierContent()); got != want {
			r.Violate("C07:sched:"+name+":final-store-wrong", fmt.Sprintf("final frontier reads %s want %s", got, want), rep)
		}
		return outcome
	}
	in.close = func() {
		mgr.Stop()
		removeAll(dir)
	}
	return in
}

func buildScenario(c *xs.Ctx, r *xs.Result, sc schedScenario) sched.Scenario {
	return func(s *vsync.Sched) func(x *sched.Exec) {
		in := newScenarioInst(c, sc)
		db.VerifWriteHook = func(site string) { vsync.Yield(site) }
		for i, b := range in.bodies {
			s.Go(in.names[i], b)
		}
		return func(x *sched.Exec) {
			db.VerifWriteHook = nil
			defer in.close()
			if x.Skipped {
				return
			}
			rep := map[string]interface{}{"scenario": sc.name, "schedule": x.Choices}
			if x.Deadlock {
				r.Violate("C07:sched:"+sc.name+":deadlock", "deadlock between writer and readers", rep)
				return
			}
			for i, p := range x.Panics {
				if p != nil {
					r.Violate("C07:sched:"+sc.name+":panic", fmt.Sprintf("thread %d panicked: %v", i, p), rep)
					return
				}
			}
			outcome := in.judge(r, rep, sc.name)
			r.Add("sched_outcomes", sc.name+":"+strings.Join(outcome, ","))
		}
	}
}

// RacePass runs the scenario bodies as free-running goroutines, `iters` times each (called from the -race build,
// cmd/zmc-race: the cooperative scheduler's hand-offs are happens-before edges and would blind the detector). The
// observations are judged by the same oracle; returns the executions made and the first violation text ("" if none).
func RacePass(dir string, iters int) (int, string) {
	c := &xs.Ctx{ID: "C07", Tier: "quick", Scratch: dir, Deadline: time.Now().Add(10 * time.Minute)}
	n := 0
	for it := 0; it < iters; it++ {
		for _, sc := range schedScenarios {
			in := newScenarioInst(c, sc)
			var wg sync.WaitGroup
			for _, b := range in.bodies {
				wg.Add(1)
				go func(b func()) { defer wg.Done(); b() }(b)
			}
			wg.Wait()
			n++
			r := xs.NewResult()
			in.judge(r, map[string]interface{}{"scenario": sc.name, "free-running": true}, sc.name)
			in.close()
			if len(r.Violations) > 0 {
				return n, r.Violations[0].Key + ": " + r.Violations[0].What
			}
		}
	}
	return n, ""
}

func runSched(c *xs.Ctx, r *xs.Result) {
	bound := 1
	if c.Thorough() {
		bound = 2
	}
	if k, _ := strconv.Atoi(os.Getenv("VERIF_C07_PROBE")); k > 0 { // development aid: determinism self-test of the scenarios
		for _, sc := range schedScenarios {
			e := &sched.Explorer{Scenario: buildScenario(c, r, sc)}
			fmt.Fprintf(os.Stderr, "PROBE %s: %q\n", sc.name, e.Probe(k))
		}
		return
	}
	for _, sc := range schedScenarios {
		e := &sched.Explorer{Scenario: buildScenario(c, r, sc), Bound: bound, Deadline: c.Deadline, Shard: c.Shard, NShards: c.NShards}
		e.Explore()
		r.Count("sched_executions", e.Stats.Executions)
		r.Count("sched_points", e.Stats.Points)
		r.Count("sched_states", e.Stats.Executions)
		r.Count("sched_deadlocks", e.Stats.Deadlocks)
		if e.Stats.DivergentSkipped > 0 {
			r.Incomplete = true
			r.Count("sched_divergent_prefixes_skipped", e.Stats.DivergentSkipped)
			r.Note("C07 sched %s: %d choice prefixes did not reproduce their recorded execution after 5 retries and were skipped (last: %s)", sc.name, e.Stats.DivergentSkipped, e.Stats.LastDivergence)
		}
		r.Count("sched_divergence_retries", e.Stats.DivergenceRetries)
		if e.Stats.Incomplete {
			r.Incomplete = true
			r.Note("C07 sched %s: deadline before bound %d completed", sc.name, bound)
		} else {
			r.Add("sched_bound_completed", fmt.Sprintf("%s:%d", sc.name, bound))
		}
		if c.Shard == 0 {
			r.Note("C07 sched %s: max points per execution %d", sc.name, e.Stats.MaxPoints)
		}
	}
}

func replaySched(c *xs.Ctx, r *xs.Result, name string, choices []int) {
	for _, sc := range schedScenarios {
		if sc.name != name {
			continue
		}
		e := &sched.Explorer{Scenario: buildScenario(c, r, sc)}
		if _, err := e.Replay(choices); err != nil {
			panic(err)
		}
		r.Count("sched_executions", e.Stats.Executions)
		r.Count("sched_points", e.Stats.Points)
		r.Count("sched_states", 1)
	}
}

// runRacePass executes the -race binary (if it was built) as a child process and turns its findings into violations.
func runRacePass(c *xs.Ctx, r *xs.Result) {
	bin := filepath.Join(xs.VerifRoot, ".work", "bin", "zmc-race")
	if b := os.Getenv("VERIF_RACE_BIN"); b != "" {
		bin = b // tools/mutcheck.sh points this at the binary built against the candidate change
	}
	if _, err := os.Stat(bin); err != nil {
		r.Note("C07 race pass skipped: %s not built", bin)
		return
	}
	iters := "20"
	if c.Thorough() {
		iters = "200"
	}
	cmd := exec.Command(bin, iters, c.TempDir(), "c07")
	cmd.Env = append(os.Environ(), "GORACE=halt_on_error=1 exitcode=66")
	out, err := cmd.CombinedOutput()
	code := cmd.ProcessState.ExitCode()
	text := string(out)
	switch {
	case code == 66 || strings.Contains(text, "WARNING: DATA RACE"):
		var frames []string
		for _, l := range strings.Split(text, "\n") {
			l = strings.TrimSpace(l)
			if strings.HasPrefix(l, "github.com/zenon-network/go-zenon/") && len(frames) < 2 {
				fn := strings.TrimPrefix(l, "github.com/zenon-network/go-zenon/")
				if i := strings.LastIndex(fn, "("); i > 0 {
					fn = fn[:i]
				}
				frames = append(frames, fn)
			}
		}
		if i := strings.Index(text, "WARNING: DATA RACE"); i >= 0 {
			text = text[i:]
		}
		if len(text) > 2500 {
			text = text[:2500]
		}
		r.Violate("C07:race:"+strings.Join(frames, "|"), "data race reported by the free-running -race pass of the writer / reader bodies:\n"+text, map[string]interface{}{"part": "race"})
	case code == 67:
		msg := text
		if i := strings.Index(text, "VIEW MISMATCH"); i >= 0 {
			msg = text[i:]
		}
		if len(msg) > 2000 {
			msg = msg[:2000]
		}
		r.Violate("C07:free-running:reader-observation-wrong", msg, map[string]interface{}{"part": "race"})
	case err != nil:
		t := text
		if i := strings.Index(t, "panic: "); i >= 0 {
			t = t[i:]
		}
		if len(t) > 3000 {
			t = t[:3000]
		}
		if frame, inNode := xs.CrashSite(t); inNode {
			r.Violate("C07:free-running:node-code-panics:"+frame, "the free-running pass of the writer / reader bodies died inside go-zenon code:\n"+t, map[string]interface{}{"part": "race"})
			return
		}
		panic(fmt.Sprintf("race pass failed (exit %d): %s", code, t))
	default:
		var nexec int
		for _, l := range strings.Split(text, "\n") {
			fmt.Sscanf(l, "race-pass executions=%d", &nexec)
		}
		r.Count("race_pass_executions", int64(nexec))
	}
}
