package c18

import (
	"bufio"
	"context"
	"encoding/json"
	"fmt"
	"os"
	"os/exec"
	"path/filepath"
	"strings"
	"time"

	"verifmc/internal/xs"
)

// Part (c) runs in a child process of the worker: a panic on one of the server's own goroutines (outside the recover in
// callback.call) would kill the process, and must be attributed to the request in flight instead of breaking the check.
//
// The child is the same binary: childHook (called from init) takes over when VERIF_C18_CHILD names a spec file.

type childSpec struct {
	Tier    string `json:"tier"`
	Scratch string `json:"scratch"`
	Chain   string `json:"chain"`
	K       int    `json:"k"`
	Of      int    `json:"of"`
	From    int    `json:"from"`
	Out     string `json:"out"`
	// replay of a single request
	OnlyClass     string `json:"onlyClass,omitempty"`
	OnlyTransport string `json:"onlyTransport,omitempty"`
}

type childEvent struct {
	Ev       string `json:"ev"` // begin | end | done
	I        int    `json:"i"`
	Class    string `json:"class,omitempty"`
	Tr       string `json:"tr,omitempty"`
	Outcome  string `json:"outcome,omitempty"`
	Problem  string `json:"problem,omitempty"`
	Key      string `json:"key,omitempty"`
	Sentinel string `json:"sentinel,omitempty"` // problem of the sentinel call after this request ("" = answered correctly)
	Total    int    `json:"total,omitempty"`
	Size     int    `json:"size,omitempty"`
	Req      string `json:"req,omitempty"` // the request bytes when short
}

func childHook() {
	specFile := os.Getenv("VERIF_C18_CHILD")
	if specFile == "" {
		return
	}
	data, err := os.ReadFile(specFile)
	if err != nil {
		fmt.Fprintln(os.Stderr, "c18 child:", err)
		os.Exit(3)
	}
	var spec childSpec
	if err := json.Unmarshal(data, &spec); err != nil {
		fmt.Fprintln(os.Stderr, "c18 child:", err)
		os.Exit(3)
	}
	childMain(&spec)
	os.Exit(0)
}

func shortReq(b []byte) string {
	if len(b) > 200 {
		return ""
	}
	return string(b)
}

func (e *rpcEnv) requestsFor(chain, tier string) []creq {
	if chain == "embedded" {
		return e.matrixRequests(tier)
	}
	return e.requests(tier)
}

func childMain(spec *childSpec) {
	setGlobals()
	out, err := os.OpenFile(spec.Out, os.O_APPEND|os.O_CREATE|os.O_WRONLY, 0o644)
	if err != nil {
		fmt.Fprintln(os.Stderr, "c18 child:", err)
		os.Exit(3)
	}
	emit := func(ev childEvent) {
		b, _ := json.Marshal(ev)
		out.Write(append(b, '\n'))
	}
	c := &xs.Ctx{ID: "C18", Tier: spec.Tier, Scratch: spec.Scratch, Deadline: time.Now().Add(time.Hour)}
	ci := getChain(c, spec.Chain)
	env := newRPCEnv(ci)
	reqs := env.requestsFor(spec.Chain, spec.Tier)
	seenP := map[string]bool{}
	for _, p := range setupProblems {
		if !seenP[p] && spec.K == 0 {
			emit(childEvent{Ev: "end", I: -1, Class: "setup:" + strings.SplitN(p, ":", 2)[0], Tr: "direct", Outcome: "bad", Problem: p, Key: "valid-call-fails-directly"})
		}
		seenP[p] = true
	}
	seen := map[string]bool{}
	for _, q := range reqs {
		if seen[q.Class] {
			fmt.Fprintln(os.Stderr, "c18 child: duplicate request class", q.Class)
			os.Exit(3)
		}
		seen[q.Class] = true
	}
	if p := env.sentinelHTTP(); p != "" {
		fmt.Fprintln(os.Stderr, "c18 child: sentinel fails on the fresh server:", p)
		os.Exit(3)
	}
	for i := range reqs {
		q := &reqs[i]
		if spec.OnlyClass != "" {
			if q.Class != spec.OnlyClass {
				continue
			}
		} else if i < spec.From || i%spec.Of != spec.K {
			continue
		}
		for _, tr := range []string{"http", "pipe"} {
			if (tr == "http" && q.PipeOnly) || (tr == "pipe" && q.HTTPOnly) {
				continue
			}
			if spec.OnlyTransport != "" && spec.OnlyTransport != tr {
				continue
			}
			emit(childEvent{Ev: "begin", I: i, Class: q.Class, Tr: tr})
			var t tResult
			if tr == "http" {
				t = env.doHTTP(q)
			} else {
				t = env.doPipe(q)
			}
			emit(childEvent{Ev: "end", I: i, Class: q.Class, Tr: tr, Outcome: t.Outcome, Problem: t.Problem, Key: t.Key, Sentinel: env.sentinelHTTP(), Size: len(q.Body), Req: shortReq(q.Body)})
		}
	}
	total := 0
	if spec.K == 0 {
		total = len(reqs)
	}
	emit(childEvent{Ev: "done", Total: total})
	out.Close()
}

// ---------------------------------------------------------------------------------------------------------------------
// parent side

type cReplay struct {
	Chain     string `json:"chain"`
	Class     string `json:"class"`
	Transport string `json:"transport"`
}

func runChild(c *xs.Ctx, r *xs.Result, spec childSpec) (events []childEvent, died bool, stderrTail string) {
	dir := c.TempDir()
	spec.Scratch = filepath.Join(dir, "scratch")
	os.MkdirAll(spec.Scratch, 0o755)
	spec.Out = filepath.Join(dir, "events.jsonl")
	spec.Tier = c.Tier
	specFile := filepath.Join(dir, "spec.json")
	data, _ := json.Marshal(spec)
	if err := os.WriteFile(specFile, data, 0o644); err != nil {
		panic(err)
	}
	ctx, cancel := context.WithDeadline(context.Background(), c.Deadline)
	defer cancel()
	cmd := exec.CommandContext(ctx, os.Args[0])
	cmd.Env = append(os.Environ(), "VERIF_C18_CHILD="+specFile)
	errFile := filepath.Join(dir, "stderr.txt")
	ef, _ := os.Create(errFile)
	cmd.Stdout = ef
	cmd.Stderr = ef
	runErr := cmd.Run()
	ef.Close()
	if f, err := os.Open(spec.Out); err == nil {
		sc := bufio.NewScanner(f)
		sc.Buffer(make([]byte, 1<<20), 1<<26)
		for sc.Scan() {
			var ev childEvent
			if json.Unmarshal(sc.Bytes(), &ev) == nil {
				events = append(events, ev)
			}
		}
		f.Close()
	}
	done := len(events) > 0 && events[len(events)-1].Ev == "done"
	if runErr != nil || !done {
		died = true
		eb, _ := os.ReadFile(errFile)
		s := string(eb)
		// the head of a Go panic is what matters
		if i := strings.Index(s, "panic:"); i >= 0 {
			s = s[i:]
		} else if i := strings.Index(s, "fatal error:"); i >= 0 {
			s = s[i:]
		}
		if len(s) > 1500 {
			s = s[:1500]
		}
		stderrTail = fmt.Sprintf("%v | %s", runErr, s)
	}
	os.RemoveAll(spec.Scratch)
	return
}

func absorb(r *xs.Result, chain string, events []childEvent) (lastBegun *childEvent) {
	var open *childEvent
	for i := range events {
		ev := &events[i]
		switch ev.Ev {
		case "begin":
			open = ev
		case "end":
			open = nil
			fam := classFamily(ev.Class)
			r.Count("c_requests", 1)
			r.Count("c_requests_"+ev.Tr, 1)
			r.Add("c_outcomes", fam+"|"+ev.Tr+"|"+ev.Outcome)
			r.Add("c_classes", fam)
			if ev.Outcome != "empty-request-empty-200" && ev.I >= 0 {
				r.Add("nontrivial", digest([]byte("c|"+chain+"|"+ev.Class+"|"+ev.Tr)))
			}
			if ev.I >= 0 && ev.Req != "" && (strings.HasPrefix(ev.Class, "wrongtype:") || strings.HasPrefix(ev.Class, "truncate:V2@1")) {
				sampleOnce(r, "c", map[string]interface{}{"tier": curTier, "part": "c", "request_class": ev.Class, "request": ev.Req, "transport": ev.Tr, "outcome": ev.Outcome})
			}
			if strings.HasPrefix(ev.Class, "truncate:") {
				r.Count("c_truncations", 1)
			}
			rep := map[string]interface{}{"tier": curTier, "part": "c", "c": cReplay{chain, ev.Class, ev.Tr}}
			if ev.Problem != "" {
				r.Violate("C18:server:"+ev.Key+":"+fam, fmt.Sprintf("request %q (%d bytes) over %s: %s", ev.Class, ev.Size, ev.Tr, ev.Problem), rep)
			}
			if ev.Sentinel != "" {
				r.Violate("C18:server:sentinel-fails-after:"+fam, fmt.Sprintf("after request %q over %s the server no longer answers a valid call correctly: %s", ev.Class, ev.Tr, ev.Sentinel), rep)
			} else {
				r.Count("c_sentinel_ok", 1)
			}
		case "done":
			r.Count("c_request_list_total", int64(ev.Total))
		}
	}
	return open
}

func runC(c *xs.Ctx, r *xs.Result, it workItem) {
	from := 0
	for restarts := 0; ; restarts++ {
		if c.Expired() {
			r.Incomplete = true
			r.Note("deadline reached in part (c) %+v at request %d", it, from)
			return
		}
		events, died, tail := runChild(c, r, childSpec{Chain: it.Chain, K: it.K, Of: it.Of, From: from})
		open := absorb(r, it.Chain, events)
		if !died {
			return
		}
		if c.Expired() {
			r.Incomplete = true
			r.Note("deadline reached in part (c) %+v (child stopped)", it)
			return
		}
		if open == nil {
			// died outside any request: harness problem, not a finding
			panic(fmt.Sprintf("C18 part (c) child died outside a request (%+v from %d): %s", it, from, tail))
		}
		r.Count("c_child_deaths", 1)
		r.Violate("C18:server:process-terminated:"+classFamily(open.Class), fmt.Sprintf("request %q over %s terminated the server process: %s", open.Class, open.Tr, tail),
			map[string]interface{}{"tier": curTier, "part": "c", "c": cReplay{it.Chain, open.Class, open.Tr}})
		from = open.I + 1
		if restarts > 25 {
			r.Incomplete = true
			r.Note("part (c) %+v: more than 25 child deaths, giving up at request %d", it, from)
			return
		}
	}
}

func replayC(c *xs.Ctx, r *xs.Result, raw json.RawMessage) {
	var rep cReplay
	if err := json.Unmarshal(raw, &rep); err != nil {
		panic(err)
	}
	events, died, tail := runChild(c, r, childSpec{Chain: rep.Chain, K: 0, Of: 1, OnlyClass: rep.Class, OnlyTransport: rep.Transport})
	open := absorb(r, rep.Chain, events)
	if died {
		if open == nil {
			panic("C18 replay child died outside the request: " + tail)
		}
		r.Violate("C18:server:process-terminated:"+classFamily(open.Class), fmt.Sprintf("request %q over %s terminated the server process: %s", open.Class, open.Tr, tail),
			map[string]interface{}{"tier": curTier, "part": "c", "c": rep})
	}
}
