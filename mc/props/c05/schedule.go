package c05

import (
	"fmt"
	"strings"
	"time"

	g "github.com/zenon-network/go-zenon/chain/genesis/mock"
	"github.com/zenon-network/go-zenon/chain/nom"
	"github.com/zenon-network/go-zenon/common/types"
	"github.com/zenon-network/go-zenon/consensus"
	"github.com/zenon-network/go-zenon/vm/constants"
	"github.com/zenon-network/go-zenon/vm/embedded/definition"

	"verifmc/internal/ops"
	"verifmc/internal/vnode"
	"verifmc/internal/xs"
)

var M = ops.Op{K: "M"}

func rep(o ops.Op, n int) []ops.Op {
	out := make([]ops.Op, n)
	for i := range out {
		out[i] = o
	}
	return out
}

func cat(a ...[]ops.Op) []ops.Op {
	var out []ops.Op
	for _, x := range a {
		out = append(out, x...)
	}
	return out
}

// ---------------------------------------------------------------------------------------------------------------------
// consensus configurations (process-global: one per worker process)

type cfgSpec struct {
	Name       string
	NodeCount  int
	RandCount  int
	EpochTicks int // 0 = leave consensus.EpochDuration alone
}

var cfgs = []cfgSpec{
	{"tick=3slots,rand=1", 3, 1, 2},
	{"tick=4slots,rand=2", 4, 2, 2},
	{"tick=30slots,rand=15(default)", 30, 15, 0},
}

func applyCfg(cf cfgSpec) {
	constants.ConsensusConfig.NodeCount = uint8(cf.NodeCount)
	constants.ConsensusConfig.RandCount = uint8(cf.RandCount)
	if cf.EpochTicks > 0 {
		consensus.EpochDuration = time.Duration(cf.EpochTicks*cf.NodeCount*slotSeconds) * time.Second
	}
	// make pillar revocation reachable inside short chains: revocable from 20 s after registration on
	constants.PillarEpochLockTime = 20
	constants.PillarEpochRevokeTime = 1 << 40
}

func init() {
	// extra history operations: register a fourth..ninth pillar, revoke a pillar
	ops.Extra["c05-register"] = func(n *vnode.Node, o ops.Op) string { // A = registrant (funded key with >= 15000 ZNN and the QSR deposited), S = name
		kp := ops.Users[o.A]
		data := definition.ABIPillars.PackMethodPanic(definition.RegisterMethodName, o.S, kp.Address, kp.Address, uint8(0), uint8(100))
		_, err := n.Submit(&nom.AccountBlock{BlockType: nom.BlockTypeUserSend, Address: kp.Address, ToAddress: types.PillarContract,
			TokenStandard: types.ZnnTokenStandard, Amount: constants.PillarStakeAmount, Data: data})
		if err != nil {
			return "err:" + err.Error()
		}
		return "ok"
	}
	ops.Extra["c05-revoke"] = func(n *vnode.Node, o ops.Op) string { // A = stake address owner, S = name
		kp := ops.Users[o.A]
		data := definition.ABIPillars.PackMethodPanic(definition.RevokeMethodName, o.S)
		_, err := n.Submit(&nom.AccountBlock{BlockType: nom.BlockTypeUserSend, Address: kp.Address, ToAddress: types.PillarContract,
			TokenStandard: types.ZnnTokenStandard, Amount: ops.Big(0), Data: data})
		if err != nil {
			return "err:" + err.Error()
		}
		return "ok"
	}
}

// ---------------------------------------------------------------------------------------------------------------------
// histories

type history struct {
	Name string
	Ops  []ops.Op
	Alt  []ops.Op // a shorter competing history from genesis (for the reorganisation variant)
}

// histories returns the histories for a configuration. ticks = how many ticks the chain should span after the last change.
func histories(cf cfgSpec, gv *genesisVariant, thorough bool) []history {
	n := cf.NodeCount
	tail := func(ticks int) []ops.Op { return rep(M, ticks*n+1) }
	alt := cat([]ops.Op{{K: "Call", S: "delegate", A: 1, B: 2}, M, {K: "T", A: 0, B: 3, V: 9000 * g.Zexp}, M, {K: "R", A: 3}}, rep(M, min(2*n+2, 24)))
	var hs []history
	add := func(name string, o []ops.Op) { hs = append(hs, history{name, o, alt}) }
	// no change at all, one skipped slot and one skipped tick boundary
	add("plain+skipped-slots", cat(rep(M, 2), []ops.Op{{K: "M", V: 1}}, rep(M, n-1), []ops.Op{{K: "M", V: 2}}, tail(2)))
	// User1 (12000 ZNN, backs pillar 1) re-delegates to pillar 3
	add("redelegate", cat([]ops.Op{M, {K: "Call", S: "delegate", A: 0, B: 2}}, tail(3)))
	// weights move through a transfer between backers of different pillars (send, later the receive)
	add("transfer-between-backers", cat([]ops.Op{{K: "T", A: 0, B: 2, V: 11500 * g.Zexp}, M, M, {K: "R", A: 2}}, tail(3)))
	if thorough || cf.NodeCount <= 4 {
		// undelegate, two changes in consecutive momentums, a change exactly in the last slot of a tick
		add("undelegate+late-change", cat([]ops.Op{{K: "Call", S: "undelegate", A: 1}}, rep(M, n-2), []ops.Op{{K: "Call", S: "delegate", A: 0, B: 1}, M, {K: "Call", S: "delegate", A: 3, B: 0}}, tail(3)))
		// make pillars 1 and 2 tie exactly: User3 (1000) leaves pillar 2 => pillar 2 = 1000 ; then pillar 1's backers leave => 1000
		if gv.cfg == nil {
			add("exact-tie", cat([]ops.Op{{K: "Call", S: "undelegate", A: 2}, {K: "Call", S: "undelegate", A: 0}, {K: "Call", S: "undelegate", A: 1}, M}, tail(3)))
		}
	}
	if cf.NodeCount <= 4 || thorough {
		// a new pillar registers (the number of active pillars grows), later pillar 3 is revoked (it shrinks)
		if gv.Pillars >= 3 && gv.Pillars <= 6 {
			registrant := 5 + (gv.Pillars - 3) // ops.Users[5..9] hold the keys Pillar4..8: 16000 ZNN, 200000 QSR each
			add("register-pillar+revoke-pillar", cat(
				[]ops.Op{{K: "Call", S: "pillar-deposit-qsr", A: registrant, V: 150000}, M, M, {K: "c05-register", A: registrant, S: pillarNames[gv.Pillars]}}, tail(2),
				[]ops.Op{{K: "c05-revoke", A: 12, S: g.Pillar3Name}}, tail(3)))
		} else {
			add("revoke-pillar", cat(rep(M, 3), []ops.Op{{K: "c05-revoke", A: 11, S: g.Pillar2Name}}, tail(3)))
		}
	}
	// reorganisations at a tick boundary: the abandoned branch missed the last slot(s) of a tick (or the first of the
	// next), the adopted one has them. The proof momentum of the following ticks lies right at the fork point.
	for tick := 1; tick <= 2; tick++ {
		for _, miss := range []int{1, 2} { // how many slots the abandoned branch skips
			for _, before := range []int{0, 1} { // skipped slots end exactly at the tick boundary / one slot into the next tick
				filled := tick*n - 1 - miss + before // momentums after genesis before the gap
				if filled < 1 {
					continue
				}
				altOps := cat(rep(M, filled), []ops.Op{{K: "M", V: int64(miss)}}, rep(M, 2))
				hs = append(hs, history{fmt.Sprintf("tick-boundary-reorg/tick%d-miss%d-shift%d", tick, miss, before), cat(rep(M, filled+miss+3), tail(2)), altOps})
			}
		}
	}
	// quick: single changes at every position, mock genesis, short ticks; thorough: everything
	if thorough {
		hs = append(hs, systematic(cf, alt, true)...)
	} else if gv.cfg == nil && cf.NodeCount <= 4 {
		hs = append(hs, systematic(cf, alt, false)...)
	}
	return hs
}

// change is one weight-moving event: operations at offsets (in momentums) from its position.
type change struct {
	Name string
	At   map[int][]ops.Op
}

var changes = []change{
	{"U1->pillar2", map[int][]ops.Op{0: {{K: "Call", S: "delegate", A: 0, B: 1}}}},
	{"U1->pillar3", map[int][]ops.Op{0: {{K: "Call", S: "delegate", A: 0, B: 2}}}},
	{"U1-undelegates", map[int][]ops.Op{0: {{K: "Call", S: "undelegate", A: 0}}}},
	{"U2-undelegates", map[int][]ops.Op{0: {{K: "Call", S: "undelegate", A: 1}}}},
	{"U4->pillar1", map[int][]ops.Op{0: {{K: "Call", S: "delegate", A: 3, B: 0}}}},
	{"Pillar6key(16000)->pillar2", map[int][]ops.Op{0: {{K: "Call", S: "delegate", A: 7, B: 1}}}},
	{"U1-sends-11500-to-U3,received-2-later", map[int][]ops.Op{0: {{K: "T", A: 0, B: 2, V: 11500 * g.Zexp}}, 2: {{K: "R", A: 2}}}},
	{"U2-sends-7900-to-U4,received-1-later", map[int][]ops.Op{0: {{K: "T", A: 1, B: 3, V: 7900 * g.Zexp}}, 1: {{K: "R", A: 3}}}},
}

// systematic: every change at every slot position of the first two ticks (long ticks: around the tick boundaries only),
// and every ordered pair of distinct changes at the positions (last slot of tick 0, first slot of tick 1).
func systematic(cf cfgSpec, alt []ops.Op, pairs bool) []history {
	n := cf.NodeCount
	var positions []int
	if n <= 4 {
		for p := 0; p < 2*n; p++ {
			positions = append(positions, p)
		}
	} else {
		positions = []int{0, n - 2, n - 1, n, 2*n - 2, 2*n - 1}
	}
	mk := func(name string, at map[int][]ops.Op, last int) history {
		var o []ops.Op
		for i := 0; i < last+3*n+2; i++ {
			o = append(o, at[i]...)
			o = append(o, M)
		}
		return history{name, o, alt}
	}
	var hs []history
	for _, ch := range changes {
		for _, p := range positions {
			at := map[int][]ops.Op{}
			for off, o := range ch.At {
				at[p+off] = append(at[p+off], o...)
			}
			hs = append(hs, mk(fmt.Sprintf("%s@%d", ch.Name, p), at, p+2))
		}
	}
	if n <= 4 && pairs {
		for _, c1 := range changes {
			for _, c2 := range changes {
				if c1.Name == c2.Name {
					continue
				}
				at := map[int][]ops.Op{}
				for off, o := range c1.At {
					at[n-2+off] = append(at[n-2+off], o...)
				}
				for off, o := range c2.At {
					at[n-1+off] = append(at[n-1+off], o...)
				}
				hs = append(hs, mk(fmt.Sprintf("%s@%d+%s@%d", c1.Name, n-2, c2.Name, n-1), at, n+2))
			}
		}
	}
	return hs
}

func min(a, b int) int {
	if a < b {
		return a
	}
	return b
}

// ---------------------------------------------------------------------------------------------------------------------

type built struct {
	chain   []*nom.DetailedMomentum // heights 2..H
	rc      *refChain
	liveObs []string
	changes int // number of momentums after which the ordered weight list differs from the previous one
}

var genesisTime = time.Unix(1000000000, 0)

func newNode(c *xs.Ctx, gv *genesisVariant, pillars bool) *vnode.Node {
	return vnode.New(vnode.Options{Dir: c.TempDir(), Genesis: gv.cfg, NoPillars: !pillars})
}

func strictOp(n *vnode.Node, o ops.Op) {
	out := ops.Apply(n, o)
	if out != "ok" && !strings.HasPrefix(out, "m1/") {
		if o.K != "M" && (out == "nopending" || strings.HasPrefix(out, "err:")) {
			refusedOps++ // refused at send time (e.g. nothing to receive): the history simply lacks this operation
			return
		}
		panic(fmt.Sprintf("history op %v failed: %s", o, out))
	}
}

var refusedOps int

// produce runs a history on a live producer, snapshotting the registry after every momentum.
func produce(c *xs.Ctx, cf cfgSpec, gv *genesisVariant, hops []ops.Op) (*built, *vnode.Node) {
	p := newNode(c, gv, true)
	b := &built{rc: &refChain{genesis: genesisTime, nodeCount: cf.NodeCount, randCount: cf.RandCount, snaps: map[types.Hash]*snap{}}}
	gm := p.Frontier()
	b.rc.moms = append(b.rc.moms, gm)
	b.rc.snaps[gm.Hash] = takeSnap(p)
	last := b.rc.snaps[gm.Hash].weightString()
	for _, o := range hops {
		strictOp(p, o)
		if o.K == "M" {
			m := p.Frontier()
			b.rc.moms = append(b.rc.moms, m)
			s := takeSnap(p)
			b.rc.snaps[m.Hash] = s
			if ws := s.weightString(); ws != last {
				b.changes++
				last = ws
			}
		}
	}
	b.chain = p.Range(2, p.Height())
	return b, p
}

func (rc *refChain) prefix(height uint64) *refChain {
	c := *rc
	c.moms = rc.moms[:height]
	return &c
}

func (rc *refChain) lastTick() uint64 {
	return rc.tickOf(time.Unix(int64(rc.moms[len(rc.moms)-1].TimestampUnix), 0)) + 2
}

// refObs renders the reference schedule for ticks 0..upTo.
func refObs(rc *refChain, upTo uint64) ([]string, [][]types.Address) {
	var out []string
	var active [][]types.Address
	for t := uint64(0); t <= upTo; t++ {
		l, s, err := rc.schedule(t)
		var act []types.Address
		if s != nil {
			for _, p := range s.Pillars {
				if p.Active {
					act = append(act, p.Producing)
				}
			}
		}
		for i := 0; i < rc.nodeCount; i++ {
			if err != nil {
				out = append(out, "err")
			} else {
				out = append(out, l[i].String())
			}
			active = append(active, act)
		}
	}
	return out, active
}

// observe asks the node's consensus module for the producer of every slot of ticks 0..upTo (descending order if desc).
func observe(n *vnode.Node, rc *refChain, upTo uint64, desc bool) []string {
	total := int(upTo+1) * rc.nodeCount
	out := make([]string, total)
	for k := 0; k < total; k++ {
		idx := k
		if desc {
			idx = total - 1 - k
		}
		t := rc.slotTime(uint64(idx/rc.nodeCount), idx%rc.nodeCount)
		func() {
			defer func() {
				if r := recover(); r != nil {
					out[idx] = fmt.Sprintf("PANIC:%v", r)
				}
			}()
			p, err := n.Cons.GetMomentumProducer(t)
			if err != nil || p == nil {
				out[idx] = "err"
			} else {
				out[idx] = p.String()
			}
		}()
	}
	return out
}

type schedCase struct {
	Part    string `json:"part"`
	Cfg     int    `json:"cfg"`
	Genesis string `json:"genesis"`
	History string `json:"history"`
}

func firstDiff(a, b []string) int {
	for i := range a {
		if i >= len(b) || a[i] != b[i] {
			return i
		}
	}
	if len(b) > len(a) {
		return len(a)
	}
	return -1
}

// refusal is raised when a node refuses a chain made by the real, elected producers: an observation about the code under
// test (the follower derived another schedule), reported as a violation by guard, not a harness failure.
type refusal struct{ msg string }

func guard(r *xs.Result, key string, replay interface{}, f func()) {
	defer func() {
		if p := recover(); p != nil {
			if rf, ok := p.(refusal); ok {
				r.Violate(key, rf.msg, replay)
				return
			}
			panic(p)
		}
	}()
	f()
}

func feed(n *vnode.Node, chain []*nom.DetailedMomentum) {
	if len(chain) == 0 {
		return
	}
	if idx, err, pan := n.InsertChain(vnode.CloneBatch(chain)); err != nil || pan != nil {
		panic(refusal{fmt.Sprintf("a fresh follower refuses the chain made by the elected producers at index %d: err=%v panic=%v", idx, err, pan)})
	}
}

func runSchedule(c *xs.Ctx, r *xs.Result, cfi int, gv *genesisVariant, h history) {
	cf := cfgs[cfi]
	cs := schedCase{"schedule", cfi, gv.Name, h.Name}
	b, p := produce(c, cf, gv, h.Ops)
	defer p.Destroy()
	rc := b.rc
	upTo := rc.lastTick()
	want, active := refObs(rc, upTo)
	r.Count("schedule_histories", 1)
	r.Sample(map[string]interface{}{"part": "schedule", "genesis": gv.Name, "history": h.Name})
	r.Count("schedule_momentums", int64(len(b.chain)))
	r.Count("schedule_weight_order_changes", int64(b.changes))
	for _, s := range rc.snaps {
		na := 0
		for _, p := range s.Pillars {
			if p.Active {
				na++
			}
		}
		r.Add("schedule_active_pillar_counts", fmt.Sprint(na))
	}
	r.Add("schedule_configurations", cf.Name+"/"+gv.Name)
	for t := uint64(0); t <= upTo; t++ {
		r.Add("schedules", strings.Join(want[int(t)*cf.NodeCount:int(t+1)*cf.NodeCount], ","))
	}
	// tryFeed delivers part of the producer's chain; a refusal means the node derived another schedule than the producer
	tryFeed := func(variant string, n *vnode.Node, chain []*nom.DetailedMomentum) bool {
		idx, err, pan := n.InsertChain(vnode.CloneBatch(chain))
		if err == nil && pan == nil && n.Frontier().Hash == chain[len(chain)-1].Momentum.Hash {
			return true
		}
		r.Violate(fmt.Sprintf("C05:schedule:%s:%s:refuses-the-elected-producers-chain", variant, cf.Name),
			fmt.Sprintf("config %s, genesis %s, history %q: %s refuses the chain made by the elected producers (batch of %d momentums starting at height %d): index %d, err=%v, panic=%v, frontier height %d",
				cf.Name, gv.Name, h.Name, variant, len(chain), chain[0].Momentum.Height, idx, err, pan, n.Height()), cs)
		return false
	}
	check := func(variant string, got []string, ref []string, act [][]types.Address) bool {
		r.Count("schedule_comparisons", 1)
		r.Count("schedule_slots_compared", int64(len(ref)))
		r.Add("schedule_variants", variant)
		if i := firstDiff(ref, got); i >= 0 {
			tick, slot := i/cf.NodeCount, i%cf.NodeCount
			g := "<missing>"
			if i < len(got) {
				g = got[i]
			}
			kind := "differs-from-reference-election"
			if strings.HasPrefix(g, "PANIC") {
				kind = "panics"
			} else if g == "err" {
				kind = "no-producer-where-reference-elects-one"
			}
			r.Violate(fmt.Sprintf("C05:schedule:%s:%s:%s", variant, cf.Name, kind),
				fmt.Sprintf("config %s, genesis %s, history %q: %s answers %s for tick %d slot %d (of ticks 0..%d), the reference election gives %s (proof momentum height %d, weights %s)",
					cf.Name, gv.Name, h.Name, variant, g, tick, slot, upTo, ref[i], rc.proof(uint64(tick)).Height, rc.snaps[rc.proof(uint64(tick)).Hash].weightString()), cs)
			return false
		}
		// every elected pillar is registered and active at the proof momentum (checked on the node's answers)
		for i, a := range got {
			ok := false
			for _, x := range act[i] {
				if x.String() == a {
					ok = true
				}
			}
			if !ok && a != "err" {
				r.Violate(fmt.Sprintf("C05:schedule:%s:%s:elected-pillar-not-active-at-proof-momentum", variant, cf.Name),
					fmt.Sprintf("config %s, genesis %s, history %q: %s elects %s for slot %d which is not an active registered pillar at the proof momentum", cf.Name, gv.Name, h.Name, variant, a, i), cs)
				return false
			}
		}
		return true
	}
	// 1. the live producer (its cache was filled while producing)
	live := observe(p, rc, upTo, false)
	check("live-producer", live, want, active)
	H := uint64(len(b.chain)) + 1
	// 2. follower fed in one batch; ticks queried in descending order (different cache fill order)
	f := newNode(c, gv, false)
	if tryFeed("follower-one-batch", f, b.chain) {
		check("follower-one-batch", observe(f, rc, upTo, true), want, active)
		// 3. restarted with the consensus cache kept, then with the cache wiped
		f.Restart()
		check("follower-restarted-cache-kept", observe(f, rc, upTo, false), want, active)
		f.RestartWipedConsensus()
		check("follower-restarted-cache-wiped", observe(f, rc, upTo, false), want, active)
	}
	f.Destroy()
	// 4. follower fed momentum by momentum, schedule compared at every prefix (future ticks are elected from the frontier)
	f = newNode(c, gv, false)
	step := 1
	if cf.NodeCount > 4 {
		step = 7 // long chains: compare at every 7th prefix and at the end
	}
	for i, d := range b.chain {
		if !tryFeed("follower-one-by-one", f, []*nom.DetailedMomentum{d}) {
			break
		}
		h := uint64(i) + 2
		if int(h)%step != 0 && h != H {
			continue
		}
		prc := rc.prefix(h)
		w, a := refObs(prc, prc.lastTick())
		if !check("follower-one-by-one", observe(f, prc, prc.lastTick(), false), w, a) {
			break
		}
		r.Count("schedule_prefixes_compared", 1)
	}
	f.Destroy()
	// 5. a node that followed a competing history (different delegations at the same heights), asked for every slot there,
	// and then reorganised to this chain
	if len(h.Alt) > 0 {
		ab, ap := produce(c, cf, gv, h.Alt)
		ap.Destroy()
		common := 0
		for common < len(ab.chain) && common < len(b.chain) && ab.chain[common].Momentum.Hash == b.chain[common].Momentum.Hash {
			common++
		}
		if len(ab.chain) >= len(b.chain) || len(ab.chain)-common > 30 {
			panic("alt history must be shorter than the main one and fork inside the rollback window")
		}
		n := newNode(c, gv, false)
		if tryFeed("follower-on-competing-branch", n, ab.chain) {
			aw, aa := refObs(ab.rc, ab.rc.lastTick())
			check("follower-on-competing-branch", observe(n, ab.rc, ab.rc.lastTick(), false), aw, aa)
			if tryFeed("follower-after-reorg", n, b.chain) {
				check("follower-after-reorg", observe(n, rc, upTo, false), want, active)
				n.Restart()
				check("follower-after-reorg-restarted", observe(n, rc, upTo, false), want, active)
			}
		}
		n.Destroy()
		r.Count("schedule_reorgs", 1)
	}
}
