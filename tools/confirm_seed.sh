#!/bin/bash
# tools/confirm_seed.sh <ID> <demo test regexp or command> — confirm an independently seeded change in its scratch worktree
# /tmp/wt-seed-<ID> (patch in /tmp/seed-<ID>/patch.diff, demo files below /tmp/seed-<ID>/demo/<relpath>):
#   build, demo with the change (must fail), demo without (must pass), pinned suite with the change (must match baseline).
# Writes /verif/seeded/<ID>/{patch.diff,demo/...,confirm.log}; prints a one-line summary.
# Second-round seeds: SEED_ROUND=b tools/confirm_seed.sh C07 ... uses /tmp/wt-seed2-C07, /tmp/seed-C07b and /verif/seeded/C07b.
ID=$1; RUN=$2; PKG=$3; WT=/tmp/wt-seed-$ID; S=/tmp/seed-$ID; OUT=/verif/seeded/$ID
if [ -n "$SEED_ROUND" ]; then WT=/tmp/wt-seed2-$ID; [ "$SEED_ROUND" = c ] && WT=/tmp/wt-seed3-$ID; [ "$SEED_ROUND" = d ] && WT=/tmp/wt-seed4-$ID; [ "$SEED_ROUND" = e ] && WT=/tmp/wt-seed5-$ID; [ "$SEED_ROUND" = f ] && WT=/tmp/wt-seed6-$ID; [ "$SEED_ROUND" = g ] && WT=/tmp/wt-seed7-$ID; S=/tmp/seed-$ID$SEED_ROUND; OUT=/verif/seeded/$ID$SEED_ROUND; fi
export GOFLAGS=-mod=mod GOPROXY=off GOSUMDB=off GOTOOLCHAIN=local
mkdir -p $OUT; cp $S/patch.diff $OUT/patch.diff; rm -rf $OUT/demo; cp -r $S/demo $OUT/demo; cp $S/notes.md $OUT/notes.md 2>/dev/null
LOG=$OUT/confirm.log; : > $LOG
cd $WT || exit 2
git reset -q; git checkout -q -- . ; git clean -fdq
git apply $OUT/patch.diff || { echo "PATCH DOES NOT APPLY" | tee -a $LOG; exit 2; }
go build ./... >> $LOG 2>&1 && echo "build: ok" >> $LOG || { echo "build: FAILED" | tee -a $LOG; exit 2; }
(cd $OUT/demo && find . -type f) | while read f; do mkdir -p $WT/$(dirname $f); cp $OUT/demo/$f $WT/$f; done
echo "== demo WITH change: go test -run '$RUN' $PKG" >> $LOG
go test $SEED_TEST_FLAGS -vet=off -count=1 -run "$RUN" $PKG >> $LOG 2>&1; WITH=$?
git apply -R $OUT/patch.diff
echo "== demo WITHOUT change" >> $LOG
go test $SEED_TEST_FLAGS -vet=off -count=1 -run "$RUN" $PKG >> $LOG 2>&1; WITHOUT=$?
git apply $OUT/patch.diff
(cd $OUT/demo && find . -type f) | while read f; do rm -f $WT/$f; done
echo "demo exit with change: $WITH, without: $WITHOUT" | tee -a $LOG
if [ -z "$SKIP_SUITE" ]; then /verif/tools/run_suite.sh $WT /tmp/suite_seed_$ID$SEED_ROUND.json >> $LOG 2>&1; tail -3 $LOG; fi
