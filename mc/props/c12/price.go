package c12

import (
	"errors"
	"fmt"

	"github.com/zenon-network/go-zenon/vm/constants"

	"verifmc/internal/xs"
	"verifmc/props/c09"
)

// Price part: "total plasma at least the base cost of the called contract method", for every method of every spork regime's
// method table (the tables are rebuilt per spork: a method's price is an entry that can be lost or changed in any of them).
// Per regime (a worker process of its own: reaching a regime sets process globals), for every method the table has:
//   - the price is one of the cost classes of embedded calls (2.5, 3.5, 4.5 base blocks or the sum of two of them), never
//     less than the cheapest class;
//   - a call by a user with ample fused plasma carrying price-1 plasma (and the cheapest class - 1) is refused for lack of
//     plasma, before anything else is looked at; with exactly the price it is not refused for lack of plasma.

const priceShards = 5

type priceReplay struct {
	Part     string `json:"part"` // "price"
	Regime   int    `json:"regime"`
	Contract string `json:"contract"`
	Method   string `json:"method"`
}

func refPriceClasses() map[uint64]bool {
	cl := []uint64{refEmbeddedSimple, refEmbeddedWith, refEmbeddedDouble}
	out := map[uint64]bool{}
	for _, a := range cl {
		out[a] = true
		for _, b := range cl {
			out[a+b] = true
		}
	}
	return out
}

func pricePart(c *xs.Ctx, r *xs.Result, ri int, only *priceReplay) {
	classes := refPriceClasses()
	regime := c09.RegimeName(ri)
	msg := c09.MethodPrices(c, ri, func(contract, method string, price uint64, priceErr error, try func(fused uint64) error) {
		if only != nil && (only.Contract != contract || only.Method != method) {
			return
		}
		rep := priceReplay{"price", ri, contract, method}
		name := regime + "/" + contract + "." + method
		r.Count("price_methods", 1)
		r.Add("price_values", fmt.Sprint(price))
		if priceErr != nil || !classes[price] || price < refEmbeddedSimple {
			r.Violate("C12:price:method-price-is-not-a-cost-class-of-embedded-calls:"+contract+"."+method,
				fmt.Sprintf("%s: price %d (err=%v); the cost classes are %d, %d, %d and sums of two of them", name, price, priceErr, refEmbeddedSimple, refEmbeddedWith, refEmbeddedDouble), rep)
			return
		}
		lack := func(err error) bool {
			return err != nil && (errors.Is(err, constants.ErrNotEnoughTotalPlasma) || err.Error() == constants.ErrNotEnoughTotalPlasma.Error())
		}
		for _, fused := range []uint64{1, refBasePlasma, refEmbeddedSimple - 1, price - 1} {
			r.Count("price_probes", 1)
			if err := try(fused); !lack(err) {
				r.Violate("C12:price:call-with-less-plasma-than-the-method-costs-not-refused-for-lack-of-plasma:"+contract+"."+method,
					fmt.Sprintf("%s (price %d): a call carrying %d plasma and no proof of work is answered with %v", name, price, fused, err), rep)
				return
			}
		}
		r.Count("price_probes", 1)
		if err := try(price); lack(err) {
			r.Violate("C12:price:call-with-exactly-the-price-refused-for-lack-of-plasma:"+contract+"."+method, fmt.Sprintf("%s (price %d): %v", name, price, err), rep)
			return
		}
		r.Add("nontrivial", "price:"+name)
	})
	if msg != "" {
		// whether a regime can be reached is C09's and C17's question; without it this part has nothing to say
		r.Note("price part, regime %s not explored: %s", regime, msg)
		r.Incomplete = true
		return
	}
	r.Count("price_regimes", 1)
}
