// Package xs is the driver shared by all checks: check registry, sharding over worker subprocesses, result merging,
// evidence files, known findings, replay artefacts and exit status.
package xs

import (
	"encoding/json"
	"fmt"
	"os"
	"os/exec"
	"path/filepath"
	"runtime/debug"
	"sort"
	"strconv"
	"strings"
	"sync"
	"sync/atomic"
	"syscall"
	"time"
)

const VerifRoot = "/verif"

// ---------------------------------------------------------------------------------------------------------------------

type Violation struct {
	Key    string      `json:"key"`  // canonical signature of the specific failing input / history / schedule
	What   string      `json:"what"` // human-readable description
	Replay interface{} `json:"replay,omitempty"`
}

// Result is what one shard reports.
type Result struct {
	Counters   map[string]int64           `json:"counters"`
	Sets       map[string]map[string]bool `json:"sets"` // named sets; the driver reports their cardinalities
	Samples    []interface{}              `json:"samples"`
	Violations []Violation                `json:"violations"`
	Notes      []string                   `json:"notes"`
	Incomplete bool                       `json:"incomplete"` // a deadline or cap was hit before the bound was completed
	Broken     string                     `json:"broken,omitempty"`
}

func NewResult() *Result {
	return &Result{Counters: map[string]int64{}, Sets: map[string]map[string]bool{}}
}

// progress is bumped by every Count / Add / Sample / Violate of a worker; the worker publishes it in a heartbeat file and
// the driver treats a worker whose value stops changing for stallLimit as hung (a call into the node did not return).
var progress atomic.Int64

// Tick lets a long silent phase of a check (a search loop that records nothing) tell the driver that it is alive.
func Tick() { progress.Add(1) }

func (r *Result) Count(name string, d int64) { progress.Add(1); r.Counters[name] += d }
func (r *Result) Add(set, elem string) bool {
	progress.Add(1)
	s := r.Sets[set]
	if s == nil {
		s = map[string]bool{}
		r.Sets[set] = s
	}
	if s[elem] {
		return false
	}
	s[elem] = true
	return true
}
func (r *Result) Sample(v interface{}) {
	progress.Add(1)
	if len(r.Samples) < 4 {
		r.Samples = append(r.Samples, v)
	}
}
func (r *Result) Violate(key, what string, replay interface{}) {
	for _, v := range r.Violations {
		if v.Key == key {
			r.Count("violations_duplicate_key", 1)
			return
		}
	}
	r.Violations = append(r.Violations, Violation{key, what, replay})
}
func (r *Result) Note(format string, a ...interface{}) {
	if len(r.Notes) < 40 {
		r.Notes = append(r.Notes, fmt.Sprintf(format, a...))
	}
}
func (r *Result) Merge(o *Result) {
	for k, v := range o.Counters {
		r.Counters[k] += v
	}
	for k, s := range o.Sets {
		for e := range s {
			r.Add(k, e)
		}
	}
	for _, s := range o.Samples {
		r.Sample(s)
	}
	for _, v := range o.Violations {
		r.Violate(v.Key, v.What, v.Replay)
	}
	for _, n := range o.Notes {
		r.Note("%s", n)
	}
	r.Incomplete = r.Incomplete || o.Incomplete
	if o.Broken != "" && r.Broken == "" {
		r.Broken = o.Broken
	}
}

// ---------------------------------------------------------------------------------------------------------------------

type Ctx struct {
	ID       string
	Tier     string // quick | thorough
	Seed     int64
	Shard    int
	NShards  int
	Scratch  string // private scratch directory of this worker, removed by the driver
	Deadline time.Time
	Replay   json.RawMessage // set in replay mode
	seq      int
}

func (c *Ctx) Thorough() bool { return c.Tier == "thorough" }
func (c *Ctx) Expired() bool  { return time.Now().After(c.Deadline) }

// TempDir returns a fresh directory below the worker's scratch directory.
func (c *Ctx) TempDir() string {
	c.seq++
	d := filepath.Join(c.Scratch, "d"+strconv.Itoa(c.seq))
	if err := os.MkdirAll(d, 0o755); err != nil {
		panic(err)
	}
	return d
}

// Mine tells whether work item i belongs to this shard.
func (c *Ctx) Mine(i int) bool { return c.NShards <= 1 || i%c.NShards == c.Shard }

type Check struct {
	ID    string
	Level string // model_checking | exploration | fault_enumeration
	// Shards returns how many worker processes to use for the tier (0 or 1 = run in one worker).
	Shards func(tier string) int
	// Budget is the internal wall-clock budget; when it expires the shard stops and reports Incomplete.
	Budget func(tier string) time.Duration
	// Run explores the shard.
	Run func(c *Ctx, r *Result)
	// Finish, optional, runs in the driver on the merged result (cross-shard vacuity guards, final evidence fields).
	Finish func(tier string, merged *Result, ev *Evidence)
	// Assumptions recorded in the evidence file.
	Assumptions []string
	// Rule text for exploration-style evidence.
	Rule string
}

var registry = map[string]*Check{}

func Register(c *Check) { registry[c.ID] = c }
func Lookup(id string) *Check {
	return registry[id]
}
func IDs() []string {
	var ids []string
	for id := range registry {
		ids = append(ids, id)
	}
	sort.Strings(ids)
	return ids
}

// ---------------------------------------------------------------------------------------------------------------------

type Evidence struct {
	PropertyID  string                 `json:"property_id"`
	Tier        string                 `json:"tier"`
	Seed        int64                  `json:"seed"`
	Level       string                 `json:"level"`
	Coverage    map[string]interface{} `json:"coverage"`
	Assumptions []string               `json:"assumptions"`
	WallS       float64                `json:"wall_s"`
	Violations  int                    `json:"violations"`
	Known       []string               `json:"known_findings_reported,omitempty"`
	Notes       []string               `json:"notes,omitempty"`
}

type KnownFinding struct {
	Property string `json:"property"`
	Key      string `json:"key"`
	Status   string `json:"status"` // known | fixed
	Commit   string `json:"commit,omitempty"`
	What     string `json:"what"`
}

func loadKnown() []KnownFinding {
	data, err := os.ReadFile(filepath.Join(VerifRoot, "known_findings.json"))
	if err != nil {
		return nil
	}
	var out struct {
		Findings []KnownFinding `json:"findings"`
	}
	if err := json.Unmarshal(data, &out); err != nil {
		fmt.Fprintf(os.Stderr, "known_findings.json unreadable: %v\n", err)
		os.Exit(2)
	}
	return out.Findings
}

// Main is the entry point of cmd/zmc.
//
//	zmc <ID> <quick|thorough>            driver
//	zmc <ID> --replay <file>             replay one recorded violation
//	zmc --worker <ID> <tier> <shard> <nshards> <outfile> <scratch> <deadline-unix> [replayfile]
func Main() {
	args := os.Args[1:]
	if len(args) >= 1 && args[0] == "--worker" {
		workerMain(args[1:])
		return
	}
	if len(args) == 1 && args[0] == "list" {
		fmt.Println(strings.Join(IDs(), " "))
		return
	}
	if len(args) < 2 {
		fmt.Fprintf(os.Stderr, "usage: zmc <ID> <quick|thorough> | zmc <ID> --replay <file>\n")
		os.Exit(2)
	}
	id := args[0]
	chk := Lookup(id)
	if chk == nil {
		fmt.Fprintf(os.Stderr, "unknown check %q (have %v)\n", id, IDs())
		os.Exit(2)
	}
	if args[1] == "--replay" {
		if len(args) < 3 {
			fmt.Fprintf(os.Stderr, "--replay needs a file\n")
			os.Exit(2)
		}
		os.Exit(drive(chk, "quick", args[2]))
	}
	tier := args[1]
	if tier != "quick" && tier != "thorough" {
		fmt.Fprintf(os.Stderr, "tier must be quick or thorough\n")
		os.Exit(2)
	}
	os.Exit(drive(chk, tier, ""))
}

// outRoot is /verif unless VERIF_OUT_DIR redirects evidence and replay artefacts (used by tools/mutcheck.sh so that
// a run against a candidate change never overwrites the evidence of the registered checks).
func outRoot() string {
	if d := os.Getenv("VERIF_OUT_DIR"); d != "" {
		return d
	}
	return VerifRoot
}

func seed() int64 {
	s, _ := strconv.ParseInt(os.Getenv("VERIF_SEED"), 10, 64)
	return s
}

func drive(chk *Check, tier string, replayFile string) int {
	start := time.Now()
	nsh := 1
	if chk.Shards != nil && replayFile == "" {
		if n := chk.Shards(tier); n > 1 {
			nsh = n
		}
	}
	budget := 10 * time.Minute
	if chk.Budget != nil {
		budget = chk.Budget(tier)
	}
	deadline := start.Add(budget)
	// per-execution leveldb directories are tiny and short-lived: keep them on tmpfs when there is one
	scratchRoot := filepath.Join(VerifRoot, ".work", "tmp")
	if st, err := os.Stat("/dev/shm"); err == nil && st.IsDir() && os.Getenv("VERIF_NO_SHM") == "" {
		scratchRoot = "/dev/shm/verif-scratch"
	}
	base := filepath.Join(scratchRoot, fmt.Sprintf("%s-%d", chk.ID, os.Getpid()))
	os.RemoveAll(base)
	if err := os.MkdirAll(base, 0o755); err != nil {
		fmt.Fprintln(os.Stderr, err)
		return 2
	}
	defer os.RemoveAll(base)

	// The order in which shards are handed to worker slots is the only thing the seed influences.
	order := make([]int, nsh)
	for i := range order {
		order[i] = i
	}
	if s := seed(); s != 0 && nsh > 1 {
		rot := int(uint64(s) % uint64(nsh))
		order = append(order[rot:], order[:rot]...)
	}

	maxPar := 16
	if v, err := strconv.Atoi(os.Getenv("VERIF_PAR")); err == nil && v > 0 {
		maxPar = v
	}
	sem := make(chan struct{}, maxPar)
	results := make([]*Result, nsh)
	var wg sync.WaitGroup
	for _, sh := range order {
		wg.Add(1)
		sem <- struct{}{}
		go func(sh int) {
			defer wg.Done()
			defer func() { <-sem }()
			results[sh] = runWorker(chk, tier, sh, nsh, base, deadline, replayFile)
		}(sh)
	}
	wg.Wait()

	merged := NewResult()
	for _, r := range results {
		merged.Merge(r)
	}
	if merged.Broken != "" {
		fmt.Fprintf(os.Stderr, "CHECK-BROKEN %s: %s\n", chk.ID, merged.Broken)
		return 2
	}

	ev := &Evidence{PropertyID: chk.ID, Tier: tier, Seed: seed(), Level: chk.Level, Coverage: map[string]interface{}{},
		Assumptions: chk.Assumptions, Notes: merged.Notes}
	for k, v := range merged.Counters {
		ev.Coverage[k] = v
	}
	for k, s := range merged.Sets {
		ev.Coverage["distinct_"+k] = len(s)
	}
	if merged.Samples == nil {
		merged.Samples = []interface{}{} // a list even when a check recorded none (the schema asks for a list)
	}
	ev.Coverage["samples"] = merged.Samples
	ev.Coverage["exhaustive"] = !merged.Incomplete
	ev.Coverage["shards"] = nsh
	if chk.Rule != "" {
		ev.Coverage["rule"] = chk.Rule
	}
	if chk.Finish != nil {
		chk.Finish(tier, merged, ev)
	}

	known := loadKnown()
	exit := 0
	nviol := 0
	sort.Slice(merged.Violations, func(i, j int) bool { return merged.Violations[i].Key < merged.Violations[j].Key })
	repDir := filepath.Join(outRoot(), "replays", chk.ID)
	for _, v := range merged.Violations {
		isKnown := false
		for _, k := range known {
			if k.Property == chk.ID && k.Status == "known" && k.Key == v.Key {
				isKnown = true
			}
		}
		if isKnown {
			fmt.Printf("KNOWN-FINDING: property=%s %s -- %s\n", chk.ID, v.Key, oneLine(v.What))
			ev.Known = append(ev.Known, v.Key)
			continue
		}
		nviol++
		os.MkdirAll(repDir, 0o755)
		path := filepath.Join(repDir, sanitize(v.Key)+".json")
		data, _ := json.MarshalIndent(map[string]interface{}{"property": chk.ID, "tier": tier, "key": v.Key, "what": v.What, "replay": v.Replay}, "", " ")
		os.WriteFile(path, data, 0o644)
		fmt.Printf("VIOLATION property=%s replay=%s\n", chk.ID, path)
		fmt.Printf("  key=%s\n  %s\n", v.Key, v.What)
		exit = 1
	}
	ev.Violations = nviol
	ev.WallS = time.Since(start).Seconds()
	if replayFile == "" {
		writeEvidence(ev)
	}
	fmt.Printf("%s %s: exit=%d violations=%d known=%d exhaustive=%v wall=%.1fs %s\n", chk.ID, tier, exit, nviol, len(ev.Known), !merged.Incomplete, ev.WallS, summary(ev))
	return exit
}

func summary(ev *Evidence) string {
	var keys []string
	for k := range ev.Coverage {
		switch ev.Coverage[k].(type) {
		case int64, int:
			keys = append(keys, k)
		}
	}
	sort.Strings(keys)
	var sb strings.Builder
	for _, k := range keys {
		fmt.Fprintf(&sb, "%s=%v ", k, ev.Coverage[k])
	}
	return sb.String()
}

func oneLine(s string) string {
	s = strings.ReplaceAll(s, "\n", " | ")
	if len(s) > 300 {
		s = s[:300] + "..."
	}
	return s
}

func sanitize(s string) string {
	var sb strings.Builder
	for _, c := range s {
		if (c >= 'a' && c <= 'z') || (c >= 'A' && c <= 'Z') || (c >= '0' && c <= '9') || c == '-' || c == '_' || c == '.' {
			sb.WriteRune(c)
		} else {
			sb.WriteByte('_')
		}
	}
	out := sb.String()
	if len(out) > 120 {
		out = out[:120]
	}
	return out
}

func writeEvidence(ev *Evidence) {
	dir := filepath.Join(outRoot(), "evidence")
	os.MkdirAll(dir, 0o755)
	data, err := json.MarshalIndent(ev, "", " ")
	if err != nil {
		panic(err)
	}
	if err := os.WriteFile(filepath.Join(dir, ev.PropertyID+".json"), data, 0o644); err != nil {
		panic(err)
	}
}

func runWorker(chk *Check, tier string, sh, nsh int, base string, deadline time.Time, replayFile string) *Result {
	scratch := filepath.Join(base, fmt.Sprintf("w%d", sh))
	os.MkdirAll(scratch, 0o755)
	defer os.RemoveAll(scratch)
	out := filepath.Join(base, fmt.Sprintf("w%d.json", sh))
	args := []string{"--worker", chk.ID, tier, strconv.Itoa(sh), strconv.Itoa(nsh), out, scratch, strconv.FormatInt(deadline.UnixNano(), 10)}
	if replayFile != "" {
		args = append(args, replayFile)
	}
	cmd := exec.Command(os.Args[0], args...)
	logPath := filepath.Join(base, fmt.Sprintf("w%d.log", sh))
	logf, _ := os.Create(logPath)
	cmd.Stdout = logf
	cmd.Stderr = logf
	cmd.Env = append(os.Environ(), "VERIF_WORKER=1")
	err := cmd.Start()
	stalled := time.Duration(0)
	if err == nil {
		done := make(chan error, 1)
		go func() { done <- cmd.Wait() }()
		limit := stallLimit()
		last, lastChange := "", time.Now()
		tick := time.NewTicker(5 * time.Second)
	wait:
		for {
			select {
			case err = <-done:
				break wait
			case <-tick.C:
				hb, _ := os.ReadFile(out + ".hb")
				if string(hb) != last {
					last, lastChange = string(hb), time.Now()
				} else if idle := time.Since(lastChange); idle > limit {
					// no recorded progress for `limit`: ask the Go runtime for a goroutine dump (SIGQUIT), then make sure it is gone
					stalled = idle
					cmd.Process.Signal(syscall.SIGQUIT)
					select {
					case err = <-done:
					case <-time.After(10 * time.Second):
						cmd.Process.Kill()
						err = <-done
					}
					break wait
				}
			}
		}
		tick.Stop()
	}
	logf.Close()
	res := NewResult()
	if stalled > 0 {
		dump := tailOf(logPath, 60000)
		if i := strings.Index(dump, "SIGQUIT"); i >= 0 {
			dump = dump[i:]
		}
		keep := filepath.Join(VerifRoot, ".work", fmt.Sprintf("stalled-%s-w%d.log", chk.ID, sh))
		os.WriteFile(keep, []byte(dump), 0o644)
		res.Violate(chk.ID+":stalled:a-call-into-the-node-did-not-return", fmt.Sprintf("worker %d of %d (%s tier) recorded no progress for %v and was stopped; on the unchanged tree every operation of this check returns within seconds. Goroutines that were inside go-zenon at that moment:\n%s\n(full dump: %s)",
			sh, nsh, tier, stalled.Round(time.Second), zenonFrames(dump, 40), keep), map[string]interface{}{"stalled_shard": sh, "shards": nsh, "tier": tier})
		res.Incomplete = true
		return res
	}
	data, rerr := os.ReadFile(out)
	if rerr == nil {
		if jerr := json.Unmarshal(data, res); jerr != nil {
			res.Broken = fmt.Sprintf("worker %d wrote unreadable result: %v", sh, jerr)
		}
	}
	if err != nil || rerr != nil {
		tail := headOf(logPath, 3000) + "\n[...]\n" + tailOf(logPath, 3000)
		// keep the log for diagnosis
		keep := filepath.Join(VerifRoot, ".work", fmt.Sprintf("lastfail-%s-w%d.log", chk.ID, sh))
		os.WriteFile(keep, []byte(tail), 0o644)
		if res.Broken == "" {
			full, _ := os.ReadFile(logPath)
			crash := ""
			for _, mark := range []string{"panic: ", "fatal error: "} {
				if i := strings.Index(string(full), mark); i >= 0 && (crash == "" || i < len(full)-len(crash)) {
					crash = string(full)[i:]
				}
			}
			if len(crash) > 6000 {
				crash = crash[:6000]
			}
			if frame, inNode := crashSite(crash); crash != "" && inNode && rerr != nil {
				// the worker process was terminated by a panic / fatal error on a goroutine running go-zenon code (a background
				// goroutine of the node: nothing recovers there, in the real node this ends the process too)
				res.Violate(chk.ID+":node-process-terminated:"+frame, fmt.Sprintf("worker %d of %d: the process hosting the node died (%v):\n%s\n(log: %s)", sh, nsh, err, crash, keep),
					map[string]interface{}{"shard": sh, "shards": nsh, "tier": tier})
				res.Incomplete = true
			} else {
				res.Broken = fmt.Sprintf("worker %d died (%v); log tail in %s:\n%s", sh, err, keep, lastLines(tail, 30))
			}
		}
	}
	return res
}

// crashSite finds, in a Go panic / fatal-error stack trace, the first frame that belongs neither to the runtime nor to the
// driver, and tells whether it is go-zenon code (true) or harness code (false).
// CrashSite is crashSite for checks that run child processes of their own.
func CrashSite(stack string) (string, bool) { return crashSite(stack) }

func crashSite(stack string) (string, bool) {
	for _, l := range strings.Split(stack, "\n") {
		if l == "" || strings.HasPrefix(l, "\t") || strings.HasPrefix(l, "goroutine ") || !strings.Contains(l, "(") {
			continue
		}
		fn := l[:strings.LastIndex(l, "(")]
		switch {
		case strings.HasPrefix(fn, "runtime"), strings.HasPrefix(fn, "panic"), strings.HasPrefix(fn, "sync."), strings.HasPrefix(fn, "sync/"),
			strings.HasPrefix(fn, "verifmc/internal/xs."), strings.HasPrefix(fn, "created by"), strings.HasPrefix(fn, "internal/"),
			strings.Contains(fn, "go-zenon/common/vsync."), strings.HasPrefix(fn, "github.com/zenon-network/go-zenon/common.DealWithErr"),
			strings.HasPrefix(fn, "github.com/zenon-network/go-zenon/common.RecoverStack"):
			continue
		case strings.HasPrefix(fn, "github.com/zenon-network/go-zenon/"):
			return strings.TrimPrefix(fn, "github.com/zenon-network/go-zenon/"), true
		default:
			return fn, false
		}
	}
	return "", false
}

// stallLimit: how long a worker may go without recording anything before it is considered hung (VERIF_STALL_S, default 600 s).
func stallLimit() time.Duration {
	if v, err := strconv.Atoi(os.Getenv("VERIF_STALL_S")); err == nil && v > 0 {
		return time.Duration(v) * time.Second
	}
	return 10 * time.Minute
}

// zenonFrames keeps the lines of a goroutine dump that name a go-zenon function (and the goroutine headers), up to n lines.
func zenonFrames(dump string, n int) string {
	var out []string
	for _, l := range strings.Split(dump, "\n") {
		if strings.HasPrefix(l, "goroutine ") || (strings.Contains(l, "zenon-network/go-zenon/") && !strings.HasPrefix(l, "\t")) {
			if strings.HasPrefix(l, "goroutine ") && len(out) > 0 && strings.HasPrefix(out[len(out)-1], "goroutine ") {
				out[len(out)-1] = l // a goroutine without go-zenon frames: drop its header
				continue
			}
			out = append(out, l)
			if len(out) >= n {
				break
			}
		}
	}
	return strings.Join(out, "\n")
}

func headOf(path string, n int) string {
	data, _ := os.ReadFile(path)
	if len(data) > n {
		data = data[:n]
	}
	return string(data)
}
func tailOf(path string, n int) string {
	data, _ := os.ReadFile(path)
	if len(data) > n {
		data = data[len(data)-n:]
	}
	return string(data)
}
func lastLines(s string, n int) string {
	ls := strings.Split(s, "\n")
	if len(ls) > n {
		ls = ls[len(ls)-n:]
	}
	return strings.Join(ls, "\n")
}

func workerMain(a []string) {
	if len(a) < 7 {
		fmt.Fprintln(os.Stderr, "bad worker args")
		os.Exit(2)
	}
	chk := Lookup(a[0])
	sh, _ := strconv.Atoi(a[2])
	nsh, _ := strconv.Atoi(a[3])
	dl, _ := strconv.ParseInt(a[6], 10, 64)
	c := &Ctx{ID: a[0], Tier: a[1], Seed: seed(), Shard: sh, NShards: nsh, Scratch: a[5], Deadline: time.Unix(0, dl)}
	if len(a) >= 8 {
		data, err := os.ReadFile(a[7])
		if err != nil {
			fmt.Fprintln(os.Stderr, err)
			os.Exit(2)
		}
		var rep struct {
			Replay json.RawMessage `json:"replay"`
		}
		if err := json.Unmarshal(data, &rep); err != nil {
			fmt.Fprintln(os.Stderr, err)
			os.Exit(2)
		}
		if len(rep.Replay) == 0 {
			fmt.Fprintf(os.Stderr, "%s has no \"replay\" member (expected a file written under replays/<ID>/)\n", a[7])
			os.Exit(2)
		}
		c.Replay = rep.Replay
	}
	go func() { // heartbeat: the driver watches this value
		for {
			os.WriteFile(a[4]+".hb", []byte(strconv.FormatInt(progress.Load(), 10)), 0o644)
			time.Sleep(2 * time.Second)
		}
	}()
	res := NewResult()
	func() {
		defer func() {
			if r := recover(); r != nil {
				stack := string(debug.Stack())
				if frame, inNode := crashSite(stack); inNode {
					// a panic raised inside go-zenon that reached the check's main goroutine: the node's code failed, not the harness
					res.Violate(chk.ID+":node-code-panics:"+frame, fmt.Sprintf("worker %d: a call into the node panicked: %v\n%s", sh, r, stack), map[string]interface{}{"shard": sh, "shards": nsh, "tier": a[1]})
					res.Incomplete = true
				} else {
					res.Broken = fmt.Sprintf("harness panic in worker %d: %v\n%s", sh, r, stack)
				}
			}
		}()
		chk.Run(c, res)
	}()
	data, err := json.Marshal(res)
	if err != nil {
		fmt.Fprintln(os.Stderr, err)
		os.Exit(2)
	}
	if err := os.WriteFile(a[4], data, 0o644); err != nil {
		fmt.Fprintln(os.Stderr, err)
		os.Exit(2)
	}
	os.Exit(0)
}
