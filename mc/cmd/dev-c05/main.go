package main

import (
	_ "verifmc/props/c05"

	"verifmc/internal/xs"
)

func main() { xs.Main() }
