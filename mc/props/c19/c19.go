// Package c19 — wallet key files: exact round trip, tamper evidence, deterministic hardened derivation.
//
// Every part is an exhaustive enumeration of a stated, finite space; outcomes are decided by an independent reference
// (ref.go) that is validated against published vectors before anything else runs.
//
//	derive    entropies (5 sizes x 3 values) x indices {0,1,2,127,2^31-1,2^31,2^32-1}: mnemonic, seed, key pair, address,
//	          base address, Sign/VerifySignature incl. every single-bit flip of signature and public key
//	path      every string of at most L tokens over a 9-token alphabet handed to DeriveForPath (plus a fixed list of
//	          hand-written malformed paths): accepted <=> hardened path by the grammar oracle, result == reference
//	roundtrip entropies x passwords: Encrypt -> Write -> ReadKeyFile -> Decrypt (also through Manager.Unlock), the file
//	          equals the reference cipher for the salt/nonce the wallet drew, every other/near password is refused
//	flip      fault enumeration: every single-bit flip of cipherData, nonce and salt of deterministic key files
//	length    length-changing edits of nonce, salt and cipherData
//	fileflip  every single-bit flip of the bytes of the key file itself
package c19

import (
	"bytes"
	"crypto/ed25519"
	"crypto/sha256"
	"encoding/hex"
	"encoding/json"
	"fmt"
	"os"
	"path/filepath"
	"sort"
	"strings"
	"time"

	"github.com/inconshreveable/log15"

	"github.com/zenon-network/go-zenon/common"
	"github.com/zenon-network/go-zenon/common/types"
	"github.com/zenon-network/go-zenon/wallet"

	"verifmc/internal/xs"
)

// ---------------------------------------------------------------------------------------------------------------------
// alphabet

var entropySizes = []int{16, 20, 24, 28, 32}
var entropyKinds = []string{"zeros", "ones", "pattern"}

type entropyCase struct {
	Name string
	Data []byte
}

func entropyCases() []entropyCase {
	var out []entropyCase
	for _, n := range entropySizes {
		for _, k := range entropyKinds {
			b := make([]byte, n)
			for i := range b {
				switch k {
				case "ones":
					b[i] = 0xff
				case "pattern":
					b[i] = byte(i*37 + 11)
				}
			}
			out = append(out, entropyCase{fmt.Sprintf("%s%d", k, n), b})
		}
	}
	return out
}

type passwordCase struct {
	Name string
	Pw   string
}

func passwordCases() []passwordCase {
	return []passwordCase{
		{"empty", ""},
		{"a", "a"},
		{"unicode", "pässwörd Ω 密码 \U0001F511"},
		{"1KiB", strings.Repeat("0123456789abcdef", 64)},
	}
}

// wrongPasswords: every other password of the set plus the nearest neighbours of p.
func wrongPasswords(pi int) []passwordCase {
	all := passwordCases()
	p := all[pi].Pw
	var out []passwordCase
	seen := map[string]bool{p: true}
	add := func(name, pw string) {
		if !seen[pw] {
			seen[pw] = true
			out = append(out, passwordCase{name, pw})
		}
	}
	for i, o := range all {
		if i != pi {
			add("other:"+o.Name, o.Pw)
		}
	}
	add("append-space", p+" ")
	add("append-nul", p+"\x00")
	add("space", " ")
	add("nul", "\x00")
	if len(p) > 0 {
		add("drop-last-byte", p[:len(p)-1])
		b := []byte(p)
		b[len(b)-1] ^= 0x01
		add("last-byte-bit0", string(b))
		b = []byte(p)
		b[0] ^= 0x20
		add("first-byte-case", string(b))
		add("doubled", p+p)
	}
	return out
}

var deriveIndices = []uint32{0, 1, 2, 127, 1<<31 - 1, 1 << 31, 1<<32 - 1}

var signMessages = [][]byte{{}, []byte("a"), bytes.Repeat([]byte("zenon-c19-"), 103)}

var pathTokens = []string{"m", "/", "0", "1", "'", "2147483647", "2147483648", "4294967296", "x"}

var extraPaths = []string{
	"m/44/73404/0", "m/44'/73404'/0", "m/44'/73404/0'", "m/44/73404'/0'", "44'/73404'/0'", "/44'/73404'/0'",
	"M/44'/73404'/0'", "m/44'/73404'/0''", "m/44h/73404h/0h", "m/44H/73404H/0H", "m/-1'", "m/+1'", "m/ 1'", "m/1 '",
	"m/1'\n", "\nm/1'", "m/1'/", "m//1'", "m/0x10'", "m/1e3'", "m/٤٤'", "m/44'/73404'/0'/0", "m\\44'", "m/44’/73404’/0’",
	"m/44'/73404'/0'\x00", "m/44'/73404'/4294967295'", "m/44'/73404'/2147483648'", "m/44'/73404'/4294967296'",
	"m/44'/73404'/18446744073709551616'", "m/44'/73404'/99999999999999999999999999'", "m/44'/73404'/2147483647'",
	"m/44'/73404'/0'/0'", "m/44'/73404'/0'/0'/0'/0'/0'/0'/0'/0'", "m/0'/1'/2'/2'/1000000000'", "m/000000000000000000000001'",
	"m/44'/73404'/00'", "m/44'/73404'/1", "m/1", "m/'", "m/''", "'", "", " ", "m ", " m/1'", "m/1'x",
}

// ---------------------------------------------------------------------------------------------------------------------
// cases

// Case is one evaluated input; it doubles as the replay object.
type Case struct {
	Kind  string `json:"kind"`
	E     int    `json:"e"`               // entropy case
	P     int    `json:"p"`               // password case
	Index uint32 `json:"index,omitempty"` // derive
	Path  string `json:"path,omitempty"`  // path
	Field string `json:"field,omitempty"` // flip / length: cipherData | nonce | salt
	Bit   int    `json:"bit,omitempty"`   // flip / fileflip
	Len   int    `json:"len,omitempty"`   // length
}

type noncePanic struct {
	cs   Case
	desc string
}

type env struct {
	sampled     map[string]bool
	noncePanics []noncePanic
	c           *xs.Ctx
	r           *xs.Result
	dir         string
	ents        []entropyCase
	pws         []passwordCase
	files       map[[2]int]*refFile
	seq         int
}

func newEnv(c *xs.Ctx, r *xs.Result) *env {
	return &env{sampled: map[string]bool{}, c: c, r: r, dir: c.TempDir(), ents: entropyCases(), pws: passwordCases(), files: map[[2]int]*refFile{}}
}

func (e *env) tmp() string {
	e.seq++
	return filepath.Join(e.dir, fmt.Sprintf("kf%d.json", e.seq))
}

func short(b []byte) string {
	h := sha256.Sum256(b)
	return hex.EncodeToString(h[:8])
}

// ---------------------------------------------------------------------------------------------------------------------
// deterministic key files built by the reference cipher (so that every shard and every run tampers the same bytes)

type refFile struct {
	E, P    int
	Entropy []byte
	Pw      string
	Salt    []byte
	Nonce   []byte
	Cipher  []byte
	Base    types.Address
	JSON    []byte // as KeyFile.Write would write it, with a fixed Path
}

const fixedTimestamp = 1600000000
const fixedPath = "/wallet/keyfile"

func hx(b []byte) string { return "0x" + hex.EncodeToString(b) }

func keyFileJSON(base types.Address, cipherData, nonce, salt []byte) []byte {
	// field order and indentation of json.MarshalIndent(KeyFile, "", "    ")
	return []byte(fmt.Sprintf(`{
    "Path": %q,
    "baseAddress": %q,
    "crypto": {
        "cipherName": "aes-256-gcm",
        "kdf": "argon2.IDKey",
        "cipherData": %q,
        "nonce": %q,
        "argon2Params": {
            "salt": %q
        }
    },
    "version": 1,
    "timestamp": %d
}`, fixedPath, base.String(), hx(cipherData), hx(nonce), hx(salt), fixedTimestamp))
}

func (e *env) file(ei, pi int) *refFile {
	if f := e.files[[2]int{ei, pi}]; f != nil {
		return f
	}
	ent, pw := e.ents[ei], e.pws[pi]
	s := sha256.Sum256([]byte(fmt.Sprintf("C19/salt/%d/%d", ei, pi)))
	n := sha256.Sum256([]byte(fmt.Sprintf("C19/nonce/%d/%d", ei, pi)))
	f := &refFile{E: ei, P: pi, Entropy: ent.Data, Pw: pw.Pw, Salt: s[:16], Nonce: n[:12]}
	f.Cipher = refSeal(refKDF(pw.Pw, f.Salt), f.Nonce, ent.Data)
	mn, _ := refMnemonic(ent.Data)
	f.Base = types.Address(refDerive(refSeed(mn, ""), zenonPath(0)).keyPair().Address)
	f.JSON = keyFileJSON(f.Base, f.Cipher, f.Nonce, f.Salt)
	e.files[[2]int{ei, pi}] = f
	return f
}

// ---------------------------------------------------------------------------------------------------------------------
// calling the code under test

type decOut struct {
	ks       *wallet.KeyStore
	err      error
	panicked interface{}
}

func safeDecrypt(kf *wallet.KeyFile, pw string) (out decOut) {
	defer func() {
		if p := recover(); p != nil {
			out.panicked = p
			out.ks = nil
		}
	}()
	out.ks, out.err = kf.Decrypt(pw)
	return
}

func safeRead(path string) (kf *wallet.KeyFile, err error, panicked interface{}) {
	defer func() {
		if p := recover(); p != nil {
			panicked = p
		}
	}()
	kf, err = wallet.ReadKeyFile(path)
	return
}

func cloneBytes(b []byte) []byte { return append([]byte{}, b...) }

func (e *env) violate(cs Case, key, format string, a ...interface{}) {
	e.r.Violate("C19:"+key, fmt.Sprintf(format, a...), cs)
}

// checkKeyStore compares a decrypted key store with the reference for the entropy.
func (e *env) checkKeyStore(cs Case, where string, ks *wallet.KeyStore, entropy []byte) bool {
	en := e.ents[cs.E].Name
	mn, ok := refMnemonic(entropy)
	if !ok {
		panic("reference cannot encode entropy")
	}
	seed := refSeed(mn, "")
	base := refDerive(seed, zenonPath(0)).keyPair().Address
	switch {
	case ks == nil:
		e.violate(cs, where+":nil-keystore:"+en, "%s: nil key store without error", where)
	case !bytes.Equal(ks.Entropy, entropy):
		e.violate(cs, where+":entropy:"+en, "%s: entropy %x, want %x", where, ks.Entropy, entropy)
	case ks.Mnemonic != mn:
		e.violate(cs, where+":mnemonic:"+en, "%s: mnemonic %q, reference %q", where, ks.Mnemonic, mn)
	case !bytes.Equal(ks.Seed, seed):
		e.violate(cs, where+":seed:"+en, "%s: seed %x, reference %x", where, ks.Seed, seed)
	case ks.BaseAddress != types.Address(base):
		e.violate(cs, where+":base-address:"+en, "%s: base address %v, reference index-0 address %v", where, ks.BaseAddress, types.Address(base))
	default:
		return true
	}
	return false
}

// ---------------------------------------------------------------------------------------------------------------------
// derive

func (e *env) runDerive(cs Case) {
	r := e.r
	ent := e.ents[cs.E]
	r.Count("derive_evals", 1)
	ks, err := wallet.VerifKeyStoreFromEntropy(cloneBytes(ent.Data))
	if err != nil {
		e.violate(cs, "derive:keystore-refused:"+ent.Name, "keyStoreFromEntropy(%x): %v", ent.Data, err)
		return
	}
	if !e.checkKeyStore(cs, "derive", ks, ent.Data) {
		return
	}
	key := fmt.Sprintf("%s:index%d", ent.Name, cs.Index)
	_, kp, err := ks.DeriveForIndexPath(cs.Index)
	if cs.Index >= 1<<31 {
		// not a hardened child number: must be refused
		if err == nil || kp != nil {
			e.violate(cs, "derive:out-of-range-index-accepted:"+key, "DeriveForIndexPath(%d) returned a key pair (err=%v)", cs.Index, err)
		} else {
			r.Count("derive_refused_out_of_range", 1)
		}
		return
	}
	if err != nil || kp == nil {
		e.violate(cs, "derive:refused:"+key, "DeriveForIndexPath(%d): %v", cs.Index, err)
		return
	}
	want := refDerive(refSeed(ks.Mnemonic, ""), zenonPath(cs.Index)).keyPair()
	switch {
	case !bytes.Equal(kp.Private, want.Private):
		e.violate(cs, "derive:private-key:"+key, "private key %x, reference (SLIP-0010 m/44'/73404'/%d') %x", kp.Private, cs.Index, want.Private)
		return
	case !bytes.Equal(kp.Public, want.Public):
		e.violate(cs, "derive:public-key:"+key, "public key %x, reference %x", kp.Public, want.Public)
		return
	case kp.Address != types.Address(want.Address):
		e.violate(cs, "derive:address:"+key, "address %v, reference 0x00||sha3-256(pub)[:19] = %v", kp.Address, types.Address(want.Address))
		return
	case types.PubKeyToAddress(kp.Public) != kp.Address:
		e.violate(cs, "derive:pubkey-to-address:"+key, "PubKeyToAddress(pub) = %v but key pair address %v", types.PubKeyToAddress(kp.Public), kp.Address)
		return
	}
	if cs.Index == 0 && ks.BaseAddress != kp.Address {
		e.violate(cs, "derive:base-address-not-index0:"+ent.Name, "base address %v, index-0 address %v", ks.BaseAddress, kp.Address)
		return
	}
	// determinism: the three entry points agree and repeat
	_, kp2, err2 := ks.DeriveForFullPath(fmt.Sprintf("m/44'/73404'/%d'", cs.Index))
	kp3, err3 := wallet.DeriveWithIndex(cs.Index, ks.Seed)
	if err2 != nil || err3 != nil || !bytes.Equal(kp2.Private, kp.Private) || !bytes.Equal(kp3.Private, kp.Private) || kp2.Address != kp.Address || kp3.Address != kp.Address {
		e.violate(cs, "derive:entry-points-disagree:"+key, "DeriveForIndexPath / DeriveForFullPath / DeriveWithIndex disagree (%v, %v)", err2, err3)
		return
	}
	r.Add("addresses", kp.Address.String())
	r.Count("derive_ok", 1)
	// FindAddress finds exactly the indices below its search bound
	if fk, fi, ferr := ks.FindAddress(kp.Address); cs.Index < 128 {
		if ferr != nil || fi != cs.Index || fk == nil || fk.Address != kp.Address {
			e.violate(cs, "derive:find-address:"+key, "FindAddress(%v) = index %d err %v", kp.Address, fi, ferr)
			return
		}
	} else if ferr == nil {
		e.violate(cs, "derive:find-address-phantom:"+key, "FindAddress found index %d for the address of index %d", fi, cs.Index)
		return
	}

	// signatures
	for mi, msg := range signMessages {
		sig := kp.Sign(msg)
		r.Count("sign_evals", 1)
		if !bytes.Equal(sig, ed25519.Sign(want.Private, msg)) {
			e.violate(cs, fmt.Sprintf("sign:differs-from-reference:%s:msg%d", key, mi), "signature differs from the reference key's deterministic ed25519 signature")
			return
		}
		if ok, err := wallet.VerifySignature(kp.Public, msg, sig); !ok || err != nil {
			e.violate(cs, fmt.Sprintf("sign:own-signature-rejected:%s:msg%d", key, mi), "VerifySignature(own signature) = %v, %v", ok, err)
			return
		}
		s2, a2, p2, err := kp.Signer(msg)
		if err != nil || !bytes.Equal(s2, sig) || a2 == nil || *a2 != kp.Address || !bytes.Equal(p2, kp.Public) {
			e.violate(cs, fmt.Sprintf("sign:signer-disagrees:%s:msg%d", key, mi), "KeyPair.Signer disagrees with KeyPair.Sign")
			return
		}
		if ok, _ := wallet.VerifySignature(kp.Public, append(cloneBytes(msg), 0), sig); ok {
			e.violate(cs, fmt.Sprintf("sign:verifies-other-message:%s:msg%d", key, mi), "signature verifies for message||0x00")
			return
		}
		if cs.Index != 0 {
			continue
		}
		// every single-bit flip of the signature and of the public key must fail verification
		for b := 0; b < len(sig)*8; b++ {
			t := cloneBytes(sig)
			t[b/8] ^= 1 << uint(b%8)
			r.Count("sigflip_evals", 1)
			if ok, _ := wallet.VerifySignature(kp.Public, msg, t); ok {
				e.violate(cs, fmt.Sprintf("sign:flipped-signature-verifies:%s:msg%d", key, mi), "signature with bit %d flipped verifies", b)
				return
			}
		}
		for b := 0; b < len(kp.Public)*8; b++ {
			t := cloneBytes(kp.Public)
			t[b/8] ^= 1 << uint(b%8)
			r.Count("sigflip_evals", 1)
			if ok, _ := wallet.VerifySignature(t, msg, sig); ok {
				e.violate(cs, fmt.Sprintf("sign:flipped-pubkey-verifies:%s:msg%d", key, mi), "signature verifies under the public key with bit %d flipped", b)
				return
			}
		}
		for _, n := range []int{0, 31, 33, 64} {
			if ok, err := wallet.VerifySignature(make([]byte, n), msg, sig); ok || err == nil {
				e.violate(cs, fmt.Sprintf("sign:bad-pubkey-length-%d:%s", n, key), "VerifySignature with a %d-byte public key = %v, %v", n, ok, err)
				return
			}
		}
	}
}

// ---------------------------------------------------------------------------------------------------------------------
// path

var pathSeed []byte

func (e *env) runPath(cs Case) {
	r := e.r
	if pathSeed == nil {
		mn, _ := refMnemonic(e.ents[2].Data)
		pathSeed = refSeed(mn, "")
	}
	r.Count("path_evals", 1)
	idx, class := refParsePath(cs.Path)
	var kp *wallet.KeyPair
	var err error
	var panicked interface{}
	func() {
		defer func() { panicked = recover() }()
		kp, err = wallet.DeriveForPath(cs.Path, pathSeed)
	}()
	if panicked != nil {
		e.violate(cs, fmt.Sprintf("path:panic:%q", cs.Path), "DeriveForPath(%q) panicked: %v", cs.Path, panicked)
		return
	}
	switch class {
	case pathInvalid:
		if err == nil || kp != nil {
			e.violate(cs, fmt.Sprintf("path:accepted:%q", cs.Path), "DeriveForPath(%q) returned a key pair for a path that is not a hardened path", cs.Path)
			return
		}
		r.Count("path_refused", 1)
		r.Add("path_refusal_reasons", err.Error())
	case pathMasterOnly:
		r.Count("path_master_only", 1)
	case pathValid:
		if err != nil || kp == nil {
			e.violate(cs, fmt.Sprintf("path:refused:%q", cs.Path), "DeriveForPath(%q) refused a hardened path: %v", cs.Path, err)
			return
		}
		want := refDerive(pathSeed, idx).keyPair()
		if !bytes.Equal(kp.Private, want.Private) || !bytes.Equal(kp.Public, want.Public) || kp.Address != types.Address(want.Address) {
			e.violate(cs, fmt.Sprintf("path:mismatch:%q", cs.Path), "DeriveForPath(%q): public key %x, reference %x", cs.Path, kp.Public, want.Public)
			return
		}
		r.Count("path_valid_ok", 1)
		if r.Add("valid_paths", cs.Path) && e.c.Shard == 0 && !e.sampled["path"] {
			e.sampled["path"] = true
			r.Sample(map[string]interface{}{"path": cs.Path, "address": kp.Address.String(), "public_key": hex.EncodeToString(kp.Public)})
		}
	}
}

// published vector through the wallet's own derivation
func (e *env) runVector() {
	for _, v := range slip10Vector1 {
		if len(v.path) == 0 {
			continue
		}
		p := "m"
		for _, i := range v.path {
			p += fmt.Sprintf("/%d'", i)
		}
		cs := Case{Kind: "vector", Path: p}
		e.r.Count("vector_evals", 1)
		kp, err := wallet.DeriveForPath(p, slip10Seed1)
		if err != nil || kp == nil || hex.EncodeToString(kp.Public) != v.pub || hex.EncodeToString(kp.Private[:32]) != v.priv {
			e.violate(cs, "vector:slip10-ed25519-1:"+p, "DeriveForPath(%q, vector seed) does not reproduce SLIP-0010 test vector 1 (err %v)", p, err)
		}
	}
}

// ---------------------------------------------------------------------------------------------------------------------
// roundtrip

func (e *env) runRoundTrip(cs Case) {
	r := e.r
	ent, pw := e.ents[cs.E], e.pws[cs.P]
	key := ent.Name + ":" + pw.Name
	r.Count("roundtrip_evals", 1)
	ks, err := wallet.VerifKeyStoreFromEntropy(cloneBytes(ent.Data))
	if err != nil {
		e.violate(cs, "roundtrip:keystore-refused:"+key, "keyStoreFromEntropy: %v", err)
		return
	}
	kf, err := ks.Encrypt(pw.Pw)
	if err != nil || kf == nil {
		e.violate(cs, "roundtrip:encrypt-failed:"+key, "Encrypt: %v", err)
		return
	}
	// the file is the reference cipher for the salt and nonce the wallet drew from the system CSPRNG
	if len(kf.Crypto.Argon2Params.Salt) != 16 || len(kf.Crypto.AesNonce) != 12 {
		e.violate(cs, "roundtrip:salt-nonce-size:"+key, "salt %d bytes, nonce %d bytes", len(kf.Crypto.Argon2Params.Salt), len(kf.Crypto.AesNonce))
		return
	}
	wantCipher := refSeal(refKDF(pw.Pw, kf.Crypto.Argon2Params.Salt), kf.Crypto.AesNonce, ent.Data)
	if !bytes.Equal(kf.Crypto.CipherData, wantCipher) {
		e.violate(cs, "roundtrip:cipher-differs-from-reference:"+key, "cipherData %x, reference argon2id+AES-256-GCM(ad=zenon) %x", []byte(kf.Crypto.CipherData), wantCipher)
		return
	}
	mn, _ := refMnemonic(ent.Data)
	base0 := types.Address(refDerive(refSeed(mn, ""), zenonPath(0)).keyPair().Address)
	if kf.BaseAddress != base0 {
		e.violate(cs, "roundtrip:file-base-address:"+key, "file base address %v, reference index-0 address %v", kf.BaseAddress, base0)
		return
	}
	r.Add("salts", short(kf.Crypto.Argon2Params.Salt))
	wdir := filepath.Join(e.dir, fmt.Sprintf("wallet-%d-%d", cs.E, cs.P))
	if err := os.MkdirAll(wdir, 0o700); err != nil {
		panic(err)
	}
	kf.Path = filepath.Join(wdir, "key")
	if err := kf.Write(); err != nil {
		e.violate(cs, "roundtrip:write-failed:"+key, "Write: %v", err)
		return
	}
	kf2, err := wallet.ReadKeyFile(kf.Path)
	if err != nil || kf2 == nil {
		e.violate(cs, "roundtrip:read-failed:"+key, "ReadKeyFile of a freshly written file: %v", err)
		return
	}
	if kf2.BaseAddress != kf.BaseAddress || !bytes.Equal(kf2.Crypto.CipherData, kf.Crypto.CipherData) || !bytes.Equal(kf2.Crypto.AesNonce, kf.Crypto.AesNonce) ||
		!bytes.Equal(kf2.Crypto.Argon2Params.Salt, kf.Crypto.Argon2Params.Salt) || kf2.Version != kf.Version || kf2.Timestamp != kf.Timestamp {
		e.violate(cs, "roundtrip:file-content-changed:"+key, "key file read back differs from the one written")
		return
	}
	out := safeDecrypt(kf2, pw.Pw)
	r.Count("decrypt_calls", 1)
	if out.panicked != nil || out.err != nil {
		e.violate(cs, "roundtrip:decrypt-failed:"+key, "Decrypt with the right password: err=%v panic=%v", out.err, out.panicked)
		return
	}
	if !e.checkKeyStore(cs, "roundtrip", out.ks, ent.Data) {
		return
	}
	r.Count("roundtrip_ok", 1)
	r.Add("roundtrips", key)

	// wrong passwords
	for _, w := range wrongPasswords(cs.P) {
		o := safeDecrypt(kf2, w.Pw)
		r.Count("decrypt_calls", 1)
		r.Count("wrongpw_evals", 1)
		switch {
		case o.panicked != nil:
			e.violate(cs, fmt.Sprintf("wrong-password:panic:%s->%s", pw.Name, w.Name), "Decrypt panicked: %v", o.panicked)
		case o.err == nil || o.ks != nil:
			e.violate(cs, fmt.Sprintf("wrong-password:accepted:%s->%s", pw.Name, w.Name), "file of %s encrypted with password %q decrypts with %q", ent.Name, pw.Name, w.Name)
		default:
			r.Count("wrongpw_rejected", 1)
			r.Add("wrongpw_pairs", pw.Name+"->"+w.Name)
		}
	}

	// the same through the manager
	m := wallet.New(&wallet.Config{WalletDir: wdir})
	if err := m.Start(); err != nil {
		e.violate(cs, "manager:start:"+key, "Manager.Start: %v", err)
		return
	}
	defer m.Stop()
	wr := wrongPasswords(cs.P)[0]
	if err := m.Unlock("key", wr.Pw); err == nil {
		e.violate(cs, fmt.Sprintf("manager:wrong-password-unlocks:%s->%s", pw.Name, wr.Name), "Manager.Unlock succeeded with a wrong password")
		return
	}
	if ksm, err := m.GetKeyStore("key"); err == nil || ksm != nil {
		e.violate(cs, "manager:unlocked-after-failed-unlock:"+key, "GetKeyStore returned a key store after a failed Unlock")
		return
	}
	r.Count("decrypt_calls", 2)
	if err := m.Unlock("key", pw.Pw); err != nil {
		e.violate(cs, "manager:unlock-failed:"+key, "Manager.Unlock with the right password: %v", err)
		return
	}
	ksm, err := m.GetKeyStore("key")
	if err != nil {
		e.violate(cs, "manager:get-keystore:"+key, "GetKeyStore after Unlock: %v", err)
		return
	}
	if e.checkKeyStore(cs, "manager", ksm, ent.Data) {
		r.Count("manager_ok", 1)
	}
}

// ---------------------------------------------------------------------------------------------------------------------
// flip / length: tampering with the three protected fields of a deterministic key file

func fieldOf(kf *wallet.KeyFile, name string) *[]byte {
	switch name {
	case "cipherData":
		return (*[]byte)(&kf.Crypto.CipherData)
	case "nonce":
		return (*[]byte)(&kf.Crypto.AesNonce)
	case "salt":
		return (*[]byte)(&kf.Crypto.Argon2Params.Salt)
	}
	panic("unknown field " + name)
}

var fields = []string{"cipherData", "nonce", "salt"}

// load writes the deterministic file, reads it through ReadKeyFile and checks that it decrypts (baseline).
func (e *env) load(f *refFile) *wallet.KeyFile {
	p := e.tmp()
	if err := os.WriteFile(p, f.JSON, 0o600); err != nil {
		panic(err)
	}
	kf, err := wallet.ReadKeyFile(p)
	os.Remove(p)
	if err != nil {
		// a well-formed file written by the reference cipher that the wallet cannot even read is the wallet's failure
		e.violate(Case{Kind: "baseline", E: f.E, P: f.P}, "reference-file-unreadable:"+e.ents[f.E].Name+":"+e.pws[f.P].Name, "ReadKeyFile refuses a key file built by the reference cipher: %v", err)
		return nil
	}
	return kf
}

func (e *env) baseline(f *refFile) bool {
	cs := Case{Kind: "baseline", E: f.E, P: f.P}
	key := e.ents[f.E].Name + ":" + e.pws[f.P].Name
	e.r.Count("baseline_evals", 1)
	kf := e.load(f)
	if kf == nil {
		return false
	}
	o := safeDecrypt(kf, f.Pw)
	e.r.Count("decrypt_calls", 1)
	if o.panicked != nil || o.err != nil {
		e.violate(cs, "reference-file-rejected:"+key, "a key file built by the reference cipher (argon2id t=1 m=64MiB p=4, AES-256-GCM, ad \"zenon\") does not decrypt: err=%v panic=%v", o.err, o.panicked)
		return false
	}
	return e.checkKeyStore(cs, "reference-file", o.ks, f.Entropy)
}

// tampered executes Decrypt on a tampered in-memory key file after a Write/ReadKeyFile round trip and classifies.
func (e *env) tampered(cs Case, kf *wallet.KeyFile, f *refFile, desc, keyTail string) {
	r := e.r
	kf.Path = e.tmp()
	if err := kf.Write(); err != nil {
		panic(err)
	}
	kf2, err := wallet.ReadKeyFile(kf.Path)
	os.Remove(kf.Path)
	if err != nil {
		// refused before Decrypt: the tampering is detected, which is all the property asks of a tampered file (the
		// untampered file of every entropy size must still be readable: runRoundTrip and baseline)
		r.Count("tamper_refused_by_ReadKeyFile", 1)
		return
	}
	if !bytes.Equal(kf2.Crypto.CipherData, kf.Crypto.CipherData) || !bytes.Equal(kf2.Crypto.AesNonce, kf.Crypto.AesNonce) || !bytes.Equal(kf2.Crypto.Argon2Params.Salt, kf.Crypto.Argon2Params.Salt) {
		panic("tampered file read back differently")
	}
	if bytes.Equal(kf2.Crypto.CipherData, f.Cipher) && bytes.Equal(kf2.Crypto.AesNonce, f.Nonce) && bytes.Equal(kf2.Crypto.Argon2Params.Salt, f.Salt) {
		panic("tampering did not change the file")
	}
	o := safeDecrypt(kf2, f.Pw)
	r.Count("decrypt_calls", 1)
	e.classifyTamper(cs, kf2, o, desc, keyTail)
}

func (e *env) classifyTamper(cs Case, kf *wallet.KeyFile, o decOut, desc, keyTail string) {
	r := e.r
	file := e.ents[cs.E].Name + ":" + e.pws[cs.P].Name
	switch {
	case o.panicked != nil:
		r.Count("tamper_panics", 1)
		if n := len(kf.Crypto.AesNonce); n != 12 {
			r.Add("panic_nonce_lengths", fmt.Sprint(n))
			if cs.Kind == "fileflip" {
				r.Add("fileflip_panic_bits", fmt.Sprintf("%s:bit%d", file, cs.Bit))
			}
			e.noncePanics = append(e.noncePanics, noncePanic{cs, fmt.Sprintf("nonce %d bytes, %s, file %s: %v", n, desc, file, o.panicked)})
		} else {
			e.violate(cs, "decrypt-panic:"+keyTail, "KeyFile.Decrypt panicked on a tampered file (%s, file %s): %v", desc, file, o.panicked)
		}
	case o.err == nil || o.ks != nil:
		r.Count("tamper_accepted", 1)
		got := []byte(nil)
		if o.ks != nil {
			got = o.ks.Entropy
		}
		e.violate(cs, "tamper-accepted:"+keyTail+":"+file, "a key file with %s decrypts without error (entropy %x)", desc, got)
	default:
		r.Count("tamper_rejected", 1)
		r.Count("tamper_rejected_"+cs.Kind, 1)
		if e.c.Shard == 0 && !e.sampled[cs.Kind] {
			e.sampled[cs.Kind] = true
			r.Sample(map[string]interface{}{"case": cs, "file": file, "tampering": desc, "decrypt_error": o.err.Error()})
		}
		r.Add("tamper_rejected_inputs", short(bytes.Join([][]byte{kf.Crypto.CipherData, kf.Crypto.AesNonce, kf.Crypto.Argon2Params.Salt, {byte(cs.E), byte(cs.P)}}, []byte{0xff, 0x00})))
	}
}

func (e *env) runFlip(cs Case) {
	f := e.file(cs.E, cs.P)
	kf := e.load(f)
	if kf == nil {
		return
	}
	fp := fieldOf(kf, cs.Field)
	b := cloneBytes(*fp)
	if cs.Bit/8 >= len(b) {
		panic("bit out of range")
	}
	b[cs.Bit/8] ^= 1 << uint(cs.Bit%8)
	*fp = b
	e.r.Count("flip_evals", 1)
	e.r.Count("flip_evals_"+cs.Field, 1)
	e.tampered(cs, kf, f, fmt.Sprintf("bit %d of %s flipped", cs.Bit, cs.Field), "bitflip:"+cs.Field)
}

// lengthEdits: new length of the field; shorter = truncated, longer = extended with zero bytes.
func lengthEdits(field string, cur int) []int {
	switch field {
	case "nonce":
		return []int{0, 1, 8, 11, 13, 16, 24}
	case "salt":
		return []int{0, 1, 8, 15, 17, 32}
	}
	return []int{0, 1, 15, 16, 17, cur - 1, cur + 1, cur + 16}
}

func (e *env) runLength(cs Case) {
	f := e.file(cs.E, cs.P)
	kf := e.load(f)
	if kf == nil {
		return
	}
	fp := fieldOf(kf, cs.Field)
	b := cloneBytes(*fp)
	if cs.Len <= len(b) {
		b = b[:cs.Len]
	} else {
		b = append(b, make([]byte, cs.Len-len(b))...)
	}
	*fp = b
	e.r.Count("length_evals", 1)
	e.tampered(cs, kf, f, fmt.Sprintf("%s resized to %d bytes", cs.Field, cs.Len), fmt.Sprintf("length:%s:%d", cs.Field, cs.Len))
}

// runFileFlip flips one bit of the file's bytes. Oracle: ReadKeyFile may refuse; if it does not, then either the three
// protected fields decode to exactly the original bytes (the flip hit something else: white space, letter case of a hex
// digit or of a key, the timestamp, ...) and Decrypt must return the original entropy, or they differ and Decrypt must
// return an error.
func (e *env) runFileFlip(cs Case) {
	r := e.r
	f := e.file(cs.E, cs.P)
	data := cloneBytes(f.JSON)
	if cs.Bit/8 >= len(data) {
		panic("bit out of range")
	}
	data[cs.Bit/8] ^= 1 << uint(cs.Bit%8)
	p := e.tmp()
	if err := os.WriteFile(p, data, 0o600); err != nil {
		panic(err)
	}
	defer os.Remove(p)
	r.Count("fileflip_evals", 1)
	kf, err, pan := safeRead(p)
	if pan != nil {
		e.violate(cs, fmt.Sprintf("readkeyfile-panic:file-bit%d", cs.Bit), "ReadKeyFile panicked on the file with bit %d flipped: %v", cs.Bit, pan)
		return
	}
	if err != nil || kf == nil {
		r.Count("fileflip_refused_by_read", 1)
		return
	}
	same := bytes.Equal(kf.Crypto.CipherData, f.Cipher) && bytes.Equal(kf.Crypto.AesNonce, f.Nonce) && bytes.Equal(kf.Crypto.Argon2Params.Salt, f.Salt)
	o := safeDecrypt(kf, f.Pw)
	r.Count("decrypt_calls", 1)
	desc := fmt.Sprintf("bit %d of the file flipped (byte %d %q -> %q)", cs.Bit, cs.Bit/8, f.JSON[cs.Bit/8], data[cs.Bit/8])
	if same {
		if o.panicked != nil || o.err != nil {
			e.violate(cs, "fileflip:unchanged-fields-rejected:"+e.ents[cs.E].Name+":"+e.pws[cs.P].Name, "%s leaves cipherData, nonce and salt unchanged but Decrypt fails: err=%v panic=%v", desc, o.err, o.panicked)
			return
		}
		if e.checkKeyStore(cs, "fileflip", o.ks, f.Entropy) {
			r.Count("fileflip_fields_unchanged_decrypts", 1)
		}
		return
	}
	e.classifyTamper(cs, kf, o, desc, "fileflip")
}

// flushNoncePanics reports the wrong-nonce-length panics of this worker under one key; a single-bit corruption of the
// file (inside the property's quantifier) is preferred over a length edit as the recorded instance.
func (e *env) flushNoncePanics() {
	if len(e.noncePanics) == 0 {
		return
	}
	pick := e.noncePanics[0]
	for _, p := range e.noncePanics {
		if p.cs.Kind == "fileflip" {
			pick = p
			break
		}
	}
	e.violate(pick.cs, "decrypt-panic:nonce-length-not-12",
		"KeyFile.Decrypt panics (crypto/cipher: incorrect nonce length given to GCM) instead of returning an error when the nonce stored in the file is not exactly 12 bytes; %d such inputs in this worker, recorded instance: %s",
		len(e.noncePanics), pick.desc)
}

// ---------------------------------------------------------------------------------------------------------------------
// enumeration

func (e *env) exec(cs Case) {
	switch cs.Kind {
	case "derive":
		e.runDerive(cs)
	case "path":
		e.runPath(cs)
	case "vector":
		e.runVector()
	case "roundtrip":
		e.runRoundTrip(cs)
	case "baseline":
		e.baseline(e.file(cs.E, cs.P))
	case "flip":
		e.runFlip(cs)
	case "length":
		e.runLength(cs)
	case "fileflip":
		e.runFileFlip(cs)
	default:
		panic("unknown case kind " + cs.Kind)
	}
}

type bounds struct {
	pathLen   int
	flipFiles [][2]int // (entropy case, password case)
	fileFlips [][2]int
}

func boundsFor(thorough bool) bounds {
	if !thorough {
		return bounds{
			pathLen:   6,
			flipFiles: [][2]int{{0, 0}, {13, 3}}, // zeros16/empty, ones32/1KiB
			fileFlips: [][2]int{{8, 2}},          // pattern24/unicode
		}
	}
	b := bounds{pathLen: 7}
	for ei := 0; ei < 15; ei++ {
		for pi := 0; pi < 4; pi++ {
			b.flipFiles = append(b.flipFiles, [2]int{ei, pi})
		}
	}
	b.fileFlips = [][2]int{{0, 0}, {4, 1}, {8, 2}, {9, 3}, {13, 3}, {14, 0}}
	return b
}

func pow(b, n int) int {
	o := 1
	for i := 0; i < n; i++ {
		o *= b
	}
	return o
}

func runC19(c *xs.Ctx, r *xs.Result) {
	common.WalletLogger.SetHandler(log15.DiscardHandler())
	log15.Root().SetHandler(log15.DiscardHandler())
	if err := selfTest(); err != nil {
		panic(fmt.Sprintf("reference self-test failed: %v", err))
	}
	e := newEnv(c, r)
	if c.Replay != nil {
		var cs Case
		if err := json.Unmarshal(c.Replay, &cs); err != nil {
			panic(err)
		}
		r.Count("replay_mode", 1)
		e.exec(cs)
		e.flushNoncePanics()
		return
	}
	b := boundsFor(c.Thorough())
	item := 0
	stop := false
	do := func(cs Case) {
		mine := c.Mine(item)
		item++
		if !mine || stop {
			return
		}
		if c.Expired() {
			r.Incomplete = true
			stop = true
			return
		}
		e.exec(cs)
	}

	// 1. the expensive, argon2-bound parts first, interleaved over shards item by item
	for _, f := range b.flipFiles {
		rf := [2]int{f[0], f[1]}
		clen := len(e.ents[rf[0]].Data) + 16
		do(Case{Kind: "baseline", E: rf[0], P: rf[1]})
		for _, fld := range fields {
			n := map[string]int{"cipherData": clen, "nonce": 12, "salt": 16}[fld]
			for bit := 0; bit < n*8; bit++ {
				do(Case{Kind: "flip", E: rf[0], P: rf[1], Field: fld, Bit: bit})
			}
			for _, l := range lengthEdits(fld, n) {
				if l != n && l >= 0 {
					do(Case{Kind: "length", E: rf[0], P: rf[1], Field: fld, Len: l})
				}
			}
		}
	}
	for _, f := range b.fileFlips {
		// the file's length does not depend on anything but the entropy size, so every shard sees the same bit range
		n := len(keyFileJSON(types.Address{}, make([]byte, len(e.ents[f[0]].Data)+16), make([]byte, 12), make([]byte, 16)))
		for bit := 0; bit < n*8; bit++ {
			do(Case{Kind: "fileflip", E: f[0], P: f[1], Bit: bit})
		}
	}
	for ei := range e.ents {
		for pi := range e.pws {
			do(Case{Kind: "roundtrip", E: ei, P: pi})
		}
	}

	// 2. derivation
	do(Case{Kind: "vector"})
	for ei := range e.ents {
		for _, idx := range deriveIndices {
			do(Case{Kind: "derive", E: ei, Index: idx})
		}
	}
	for _, p := range extraPaths {
		do(Case{Kind: "path", Path: p})
	}
	nt := len(pathTokens)
	for l := 0; l <= b.pathLen; l++ {
		total := pow(nt, l)
		for i := 0; i < total; i++ {
			mine := c.Mine(item)
			item++
			if !mine || stop {
				continue
			}
			if i&0xfff == 0 && c.Expired() {
				r.Incomplete = true
				stop = true
				continue
			}
			var sb strings.Builder
			for k, v := 0, i; k < l; k++ {
				sb.WriteString(pathTokens[v%nt])
				v /= nt
			}
			e.runPath(Case{Kind: "path", Path: sb.String()})
		}
	}
	e.flushNoncePanics()
	if c.Shard == 0 {
		r.Count("items_total", int64(item))
	}
	if c.Shard == 0 {
		f := e.file(0, 0)
		r.Sample(map[string]interface{}{"example_file": "zeros16:empty", "salt": hx(f.Salt), "nonce": hx(f.Nonce), "cipherData": hx(f.Cipher), "baseAddress": f.Base.String()})
	}
}

func init() {
	xs.Register(&xs.Check{
		ID:    "C19",
		Level: "fault_enumeration",
		Shards: func(tier string) int {
			return 16
		},
		Budget: func(tier string) time.Duration {
			if tier == "thorough" {
				return 25 * time.Minute
			}
			return 4 * time.Minute
		},
		Assumptions: []string{
			"entropies: sizes {16,20,24,28,32} bytes x {all zeros, all ones, a byte pattern}; passwords {empty, \"a\", a unicode phrase, 1 KiB}; wrong passwords = the other three plus nearest neighbours (appended blank/NUL, dropped last byte, last-byte bit 0, first-byte case, doubled)",
			"salt and nonce of files created by KeyStore.Encrypt come from the system CSPRNG and are outside the harness's control: such files are compared with the reference cipher (argon2id t=1 m=64MiB p=4 -> AES-256-GCM, additional data \"zenon\") evaluated on the salt/nonce the wallet drew, i.e. modulo those two fields; KeyFile.Timestamp (wall clock) is ignored",
			"tampering is enumerated on deterministic key files produced by the reference cipher with salt/nonce derived from the case number (the wallet is first shown to decrypt them and to produce byte-identical cipher text for equal salt/nonce), so every run flips the same bytes",
			"tamper-evidence is decided only for the enumerated corruptions (all single-bit flips of cipherData/nonce/salt, listed length edits, all single-bit flips of the file's bytes); nothing is claimed about cryptographic strength",
			"reference: SLIP-0010 ed25519 / BIP-39 / address rule written from the specifications on stdlib HMAC-SHA512, SHA-256, ed25519 and x/crypto SHA3, validated in every worker against SLIP-0010 ed25519 test vector 1, BIP-39 Trezor vectors and FIPS-202 known answers; the BIP-39 English word list (data) is taken from the library",
			"keyStoreFromEntropy is unexported and nothing in the repository exports a KeyStore constructor: reached through the overlay file wallet/export_verif_c19.go (wrapper only)",
			"path \"m\" alone (valid SLIP-0010, refused by the wallet) is counted but not judged: the statement demands neither",
		},
		Rule: "cases are enumerated, never sampled: every (entropy, password) round trip with every wrong password of the list; every single-bit flip of cipherData, nonce, salt and of the file's bytes plus the listed length edits on deterministic key files; every string of <= L tokens over a 9-token path alphabet plus a fixed list; every (entropy, index) derivation with every single-bit flip of signature and public key. Oracle (accept <=> reference): Decrypt returns exactly the entropy iff (cipherData, nonce, salt, password) are those the file was created with, otherwise an error (a panic is a violation); DeriveForPath(p) equals the reference SLIP-0010 ed25519 key/address iff p is 'm' followed by >= 1 \"/<n>'\" with n < 2^31, otherwise an error; signatures verify only for the exact (public key, message, signature). distinct_nontrivial = distinct tampered files that parsed, reached Decrypt and were rejected there (by digest of the three fields) + distinct accepted hardened paths + distinct completed round trips + distinct derived addresses + distinct rejected (password, wrong password) pairs; inputs refused before Decrypt (unparsable file, malformed path) are trivial and not counted",
		Run:  runC19,
		Finish: func(tier string, m *xs.Result, ev *xs.Evidence) {
			cnt := m.Counters
			evals := cnt["derive_evals"] + cnt["sign_evals"] + cnt["sigflip_evals"] + cnt["path_evals"] + cnt["vector_evals"] + cnt["roundtrip_evals"] +
				cnt["wrongpw_evals"] + cnt["baseline_evals"] + cnt["flip_evals"] + cnt["length_evals"] + cnt["fileflip_evals"]
			ev.Coverage["evaluations"] = evals
			ev.Coverage["fault_evaluations"] = cnt["flip_evals"] + cnt["length_evals"] + cnt["fileflip_evals"]
			dn := len(m.Sets["tamper_rejected_inputs"]) + len(m.Sets["valid_paths"]) + len(m.Sets["roundtrips"]) + len(m.Sets["addresses"]) + len(m.Sets["wrongpw_pairs"])
			ev.Coverage["distinct_nontrivial"] = dn
			if cnt["replay_mode"] > 0 || m.Incomplete {
				return
			}
			// vacuity guards
			var missing []string
			need := func(name string, min int64) {
				if cnt[name] < min {
					missing = append(missing, fmt.Sprintf("%s=%d<%d", name, cnt[name], min))
				}
			}
			need("roundtrip_evals", 60)
			need("derive_evals", 15*7)
			need("flip_evals_cipherData", 1)
			need("flip_evals_nonce", 96)
			need("flip_evals_salt", 128)
			need("length_evals", 1)
			need("fileflip_evals", 1)
			need("path_evals", 1000)
			// outcome guards only make sense when nothing but the (independent) wrong-nonce-length panic was reported
			other := 0
			for _, v := range m.Violations {
				if v.Key != "C19:decrypt-panic:nonce-length-not-12" {
					other++
				}
			}
			if other == 0 {
				need("tamper_rejected_flip", 1)
				need("roundtrip_ok", 60)
				need("manager_ok", 60)
				need("wrongpw_rejected", 60*5)
				need("derive_ok", 15*5)
				need("derive_refused_out_of_range", 15*2)
				need("path_valid_ok", 10)
				need("path_refused", 1000)
				need("fileflip_refused_by_read", 1)
				need("fileflip_fields_unchanged_decrypts", 1)
				need("tamper_rejected_fileflip", 1)
			}
			if dn < 2 {
				missing = append(missing, "distinct_nontrivial<2")
			}
			if len(missing) > 0 {
				sort.Strings(missing)
				panic("C19 vacuity guard: " + strings.Join(missing, ", "))
			}
		},
	})
}
