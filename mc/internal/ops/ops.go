// Package ops is a small operation language over a real node: transfers, receives, embedded-contract calls, momentums.
// Histories are lists of Op; applying an Op to a vnode.Node yields a short outcome string (deterministic).
package ops

import (
	"fmt"
	"math/big"
	"time"

	g "github.com/zenon-network/go-zenon/chain/genesis/mock"
	"github.com/zenon-network/go-zenon/chain/nom"
	"github.com/zenon-network/go-zenon/common/types"
	"github.com/zenon-network/go-zenon/vm/constants"
	"github.com/zenon-network/go-zenon/wallet"

	"verifmc/internal/vnode"
)

type Op struct {
	K string `json:"k"` // kind
	// generic small-integer arguments, meaning depends on kind
	A int    `json:"a,omitempty"` // actor (index into Users)
	B int    `json:"b,omitempty"` // counterparty / variant
	T int    `json:"t,omitempty"` // token index
	V int64  `json:"v,omitempty"` // amount selector or value
	S string `json:"s,omitempty"` // free string (method variant)
}

func (o Op) String() string {
	s := o.K
	if o.A != 0 || o.B != 0 || o.T != 0 || o.V != 0 || o.S != "" {
		s += fmt.Sprintf("(%d,%d,%d,%d", o.A, o.B, o.T, o.V)
		if o.S != "" {
			s += "," + o.S
		}
		s += ")"
	}
	return s
}

func Hist(ops []Op) string {
	s := ""
	for i, o := range ops {
		if i > 0 {
			s += " "
		}
		s += o.String()
	}
	return s
}

// Users are the accounts histories act with. Only User1..5 and Pillar1..8 hold balances (ZNN and QSR) and fused plasma
// in the mock genesis; User6..10 are empty accounts without plasma (useful as pure receivers).
// Index 0..4 = User1..5, 5..9 = Pillar4..8 (funded keys that are not registered pillars), 10..12 = Pillar1..3 (the
// registered, producing pillars), 13..17 = User6..10 (empty).
var Users = []*wallet.KeyPair{g.User1, g.User2, g.User3, g.User4, g.User5, g.Pillar4, g.Pillar5, g.Pillar6, g.Pillar7, g.Pillar8,
	g.Pillar1, g.Pillar2, g.Pillar3, g.User6, g.User7, g.User8, g.User9, g.User10}

var Tokens = []types.ZenonTokenStandard{types.ZnnTokenStandard, types.QsrTokenStandard}

func Big(v int64) *big.Int { return big.NewInt(v) }

// OldestPending returns the oldest unreceived send addressed to addr as of the frontier momentum store (confirmed sends
// only), or nil.
func OldestPending(n *vnode.Node, addr types.Address, skip int) *types.Hash {
	st := n.Chain.GetFrontierMomentumStore()
	hashes, err := st.GetAccountMailbox(addr).GetUnreceivedAccountBlockHashes(16)
	if err != nil {
		return nil
	}
	// drop those already received by an unconfirmed block in the pool
	acc := n.Chain.GetFrontierAccountStore(addr)
	var pending []types.Hash
	for _, h := range hashes {
		if !acc.IsReceived(h) {
			pending = append(pending, h)
		}
	}
	if skip >= len(pending) {
		return nil
	}
	return &pending[skip]
}

// Apply executes op on node n and returns an outcome string. It never panics on repository errors: those are outcomes.
func Apply(n *vnode.Node, o Op) (out string) {
	defer func() {
		if r := recover(); r != nil {
			out = fmt.Sprintf("PANIC:%v", r)
		}
	}()
	switch o.K {
	case "M": // produce the next momentum, skipping o.V slots first
		created, err := n.Produce(int(o.V))
		if err != nil {
			return "err:" + short(err)
		}
		nm, nb := 0, 0
		for _, c := range created {
			if c.Momentum != nil {
				nm++
			} else {
				nb++
			}
		}
		return fmt.Sprintf("m%d/b%d", nm, nb)
	case "Mt": // produce the next momentum in the first slot of the NEXT election tick (the rest of the current tick is missed)
		gm, _ := n.Chain.GetFrontierMomentumStore().GetMomentumByHeight(1)
		slot := int(n.Frontier().Timestamp.Sub(*gm.Timestamp) / (10 * time.Second))
		nc := int(constants.ConsensusConfig.NodeCount)
		skip := (slot/nc+1)*nc - slot - 1
		if _, err := n.Produce(skip); err != nil {
			return "err:" + short(err)
		}
		return fmt.Sprintf("skipped%d", skip)
	case "Mo": // momentum only (no contract auto-receives afterwards), skipping o.V slots first
		if err := n.ProduceMomentumOnly(int(o.V)); err != nil {
			return "err:" + short(err)
		}
		return "ok"
	case "T": // transfer: A -> B, token T, amount V
		b, err := n.Send(Users[o.A].Address, Users[o.B].Address, Tokens[o.T], Big(o.V), nil)
		return res(b, err)
	case "R": // receive oldest pending send of A (skip B)
		h := OldestPending(n, Users[o.A].Address, o.B)
		if h == nil {
			return "nopending"
		}
		b, err := n.Receive(Users[o.A].Address, *h)
		return res(b, err)
	case "Call":
		c, ok := Calls[o.S]
		if !ok {
			panic("unknown call " + o.S)
		}
		tmpl := c(o)
		b, err := n.Submit(tmpl)
		return res(b, err)
	}
	if f, ok := Extra[o.K]; ok {
		return f(n, o)
	}
	panic("unknown op " + o.K)
}

// Extra holds additional op kinds registered by checks.
var Extra = map[string]func(n *vnode.Node, o Op) string{}

func res(b *nom.AccountBlock, err error) string {
	if err != nil {
		return "err:" + short(err)
	}
	return "ok"
}

func short(err error) string {
	s := err.Error()
	if len(s) > 60 {
		s = s[:60]
	}
	return s
}

// Calls is the table of named embedded-contract calls; filled by calls.go.
var Calls = map[string]func(o Op) *nom.AccountBlock{}
