package c18

import (
	"fmt"
	"math/big"

	g "github.com/zenon-network/go-zenon/chain/genesis/mock"
	"github.com/zenon-network/go-zenon/chain/nom"
	"github.com/zenon-network/go-zenon/common/types"
	"github.com/zenon-network/go-zenon/vm/constants"
	"github.com/zenon-network/go-zenon/vm/embedded/definition"

	"github.com/zenon-network/go-zenon/wallet"

	"verifmc/internal/ops"
	"verifmc/internal/vnode"
	"verifmc/internal/xs"
	"verifmc/props/c10"
)

// The four chain histories of C18. All are deterministic scripts over the mock genesis.
//
//	empty    genesis only
//	ledger   ~40 account blocks on User1 (sends / receives with User2), token issue + mint + burn (descendant blocks,
//	         non-ZNN token standards), unreceived sends to User3 / User6, unconfirmed blocks of User1 and User4 in the pool
//	embedded sporks (accelerator spork activated), tokens of several owners, stakes, fusions, sentinels, accelerator
//	         projects, > 300 momentums spread over several 1 h epochs (reward / pillar epoch histories)
//	long     1100 momentums (more than one full page of RpcMaxPageSize), thorough: > RpcMaxPageSize accelerator projects
//	bridge   bridge-and-liquidity spork active (administrator prefix of C10's bridge family), more wrap and unwrap requests
//	         than RpcMaxPageSize to several destinations / recipients (some redeemed, one revoked), liquidity stakes
var chainNames = []string{"empty", "ledger", "embedded", "long", "bridge"}

type builder struct {
	n    *vnode.Node
	name string
}

func (b *builder) fail(what string, err interface{}) {
	panic(fmt.Sprintf("C18 chain %q: %s: %v", b.name, what, err))
}

func (b *builder) M(skip int) {
	if _, err := b.n.Produce(skip); err != nil {
		b.fail("produce", err)
	}
}
func (b *builder) Ms(k int) {
	for i := 0; i < k; i++ {
		b.M(0)
	}
}
func (b *builder) submit(what string, t *nom.AccountBlock) *nom.AccountBlock {
	blk, err := b.n.Submit(t)
	if err != nil {
		b.fail(what, err)
	}
	return blk
}
func (b *builder) send(from, to types.Address, zts types.ZenonTokenStandard, amount int64) *nom.AccountBlock {
	return b.submit("send", &nom.AccountBlock{BlockType: nom.BlockTypeUserSend, Address: from, ToAddress: to, TokenStandard: zts, Amount: big.NewInt(amount)})
}
func (b *builder) call(from, to types.Address, zts types.ZenonTokenStandard, amount *big.Int, data []byte) *nom.AccountBlock {
	return b.submit("call", &nom.AccountBlock{BlockType: nom.BlockTypeUserSend, Address: from, ToAddress: to, TokenStandard: zts, Amount: new(big.Int).Set(amount), Data: data})
}
func (b *builder) receiveAll(addr types.Address) int {
	k := 0
	for {
		h := ops.OldestPending(b.n, addr, 0)
		if h == nil {
			return k
		}
		if _, err := b.n.Receive(addr, *h); err != nil {
			b.fail("receive", err)
		}
		k++
		if k > 10000 {
			b.fail("receive", "does not terminate")
		}
	}
}

func zexp(v int64) *big.Int { return new(big.Int).Mul(big.NewInt(v), big.NewInt(g.Zexp)) }

var (
	u1, u2, u3, u4, u5, u6 = g.User1.Address, g.User2.Address, g.User3.Address, g.User4.Address, g.User5.Address, g.User6.Address
	p1addr                 = g.Pillar1.Address
	// an address nobody ever used
	unknownAddr = types.Address{0, 0xc1, 0x80, 1, 2, 3, 4, 5, 6, 7, 8, 9, 10, 11, 12, 13, 14, 15, 16, 17}
)

func issueToken(b *builder, owner types.Address, name, sym string, total, max int64, mintable bool) {
	b.call(owner, types.TokenContract, types.ZnnTokenStandard, constants.TokenIssueAmount,
		definition.ABIToken.PackMethodPanic(definition.IssueMethodName, name, sym, "zenon.network", big.NewInt(total), big.NewInt(max), uint8(2), mintable, true, false))
}

func buildChain(c *xs.Ctx, name string) *vnode.Node {
	n := vnode.New(vnode.Options{Dir: c.TempDir()})
	b := &builder{n: n, name: name}
	switch name {
	case "empty":
	case "ledger":
		buildLedger(c, b)
	case "embedded":
		buildEmbedded(c, b)
	case "long":
		buildLong(c, b)
	case "bridge":
		buildBridge(c, b)
	default:
		panic("unknown chain " + name)
	}
	return n
}

func buildLedger(c *xs.Ctx, b *builder) {
	b.M(0)
	rounds := 12
	if c.Thorough() {
		rounds = 16
	}
	// User1 <-> User2 ping-pong: per round User1 gets one send and one receive block (plus the extras below)
	for r := 0; r < rounds; r++ {
		b.send(u1, u2, types.ZnnTokenStandard, int64(100+r))
		if r%3 == 0 {
			b.send(u1, u2, types.QsrTokenStandard, int64(7+r)) // two blocks of one account in one momentum
		}
		b.M(0)
		b.receiveAll(u2)
		b.send(u2, u1, types.ZnnTokenStandard, int64(50+r))
		b.M(r % 2) // now and then an empty slot
		b.receiveAll(u1)
	}
	// token issue (contract receive with a descendant mint block), then a transfer and a burn of the new token
	issueToken(b, u1, "alpha", "ALP", 1000, 2000, true)
	b.Ms(2)
	b.receiveAll(u1)
	b.M(0)
	st := b.n.Chain.GetFrontierAccountStore(types.TokenContract).Storage()
	toks, err := definition.GetTokenInfoList(st)
	if err != nil {
		b.fail("token list", err)
	}
	var alp *types.ZenonTokenStandard
	for _, t := range toks {
		if t.TokenSymbol == "ALP" {
			z := t.TokenStandard
			alp = &z
		}
	}
	if alp == nil {
		b.fail("token issue", "ALP not found")
	}
	b.send(u1, u2, *alp, 10)
	b.call(u1, types.TokenContract, *alp, big.NewInt(5), definition.ABIToken.PackMethodPanic(definition.BurnMethodName))
	b.call(u1, types.TokenContract, types.ZnnTokenStandard, big.NewInt(0), definition.ABIToken.PackMethodPanic(definition.MintMethodName, *alp, big.NewInt(33), u4))
	b.Ms(2)
	b.receiveAll(u2)
	// a call that the contract refuses and refunds (contract send block back to the user)
	b.call(u2, types.SentinelContract, types.ZnnTokenStandard, constants.SentinelZnnRegisterAmount, definition.ABISentinel.PackMethodPanic(definition.RegisterSentinelMethodName))
	b.Ms(2)
	b.receiveAll(u2)
	b.M(0)
	// unreceived: sends to User3 (has plasma, never receives) and to User6
	nUnrecv := 7
	if c.Thorough() {
		nUnrecv = 60 // more than one full page of the unreceived list (50)
	}
	for i := 0; i < nUnrecv; i++ {
		from := []types.Address{u1, u2, u4, u5}[i%4]
		b.send(from, u3, types.ZnnTokenStandard, int64(1+i))
		if i%8 == 7 {
			b.M(0)
		}
	}
	b.send(u2, u6, types.QsrTokenStandard, 9)
	// a zero-amount send naming a token standard nobody ever issued (accepted by the node: nothing is moved)
	b.send(u5, u2, types.NewZenonTokenStandard([]byte("a token nobody ever issued")), 0)
	b.Ms(2)
	// unconfirmed blocks stay in the pool: 3 of User1 (one of them receives nothing new: plain sends), 2 of User4
	b.send(u1, u2, types.ZnnTokenStandard, 1)
	b.send(u1, u5, types.QsrTokenStandard, 2)
	b.send(u1, u3, types.ZnnTokenStandard, 3)
	b.receiveAll(u4)
	b.send(u4, u1, types.ZnnTokenStandard, 4)
}

func sporkCreate(b *builder, name string) {
	b.call(g.Spork.Address, types.SporkContract, types.ZnnTokenStandard, big.NewInt(0), definition.ABISpork.PackMethodPanic(definition.SporkCreateMethodName, name, "description of "+name))
}

// activateAccelerator creates and activates the accelerator spork on this chain and points the process-global spork id
// at it (the worker process owns types.AcceleratorSpork / types.ImplementedSporksMap).
func activateAccelerator(b *builder) {
	sporkCreate(b, "spork-accelerator")
	b.Ms(2)
	sp := definition.GetAllSporks(b.n.Chain.GetFrontierAccountStore(types.SporkContract).Storage())
	if len(sp) != 1 {
		b.fail("spork create", fmt.Sprintf("%d sporks", len(sp)))
	}
	id := sp[0].Id
	b.call(g.Spork.Address, types.SporkContract, types.ZnnTokenStandard, big.NewInt(0), definition.ABISpork.PackMethodPanic(definition.SporkActivateMethodName, id))
	b.Ms(2)
	types.AcceleratorSpork.SporkId = id
	types.ImplementedSporksMap[id] = true
	b.Ms(int(constants.SporkMinHeightDelay) + 2)
}

func createProject(b *builder, owner types.Address, name string) {
	b.call(owner, types.AcceleratorContract, types.ZnnTokenStandard, constants.ProjectCreationAmount,
		definition.ABIAccelerator.PackMethodPanic(definition.CreateProjectMethodName, name, "description "+name, "zenon.network", big.NewInt(100), big.NewInt(1000)))
}

func buildEmbedded(c *xs.Ctx, b *builder) {
	b.M(0)
	activateAccelerator(b)
	for i := 0; i < 3; i++ {
		sporkCreate(b, fmt.Sprintf("spork-extra-%d", i))
		b.M(0)
	}
	// tokens: 3 of User1, 2 of User2, 1 of User3 (plus ZNN / QSR owned by contracts)
	issueToken(b, u1, "alpha", "ALP", 1000, 2000, true)
	issueToken(b, u2, "beta", "BET", 5, 5, false)
	b.Ms(2)
	issueToken(b, u1, "gamma", "GAM", 77, 770, true)
	issueToken(b, u3, "delta", "DEL", 1, 1000000, true)
	b.Ms(2)
	issueToken(b, u1, "epsilon", "EPS", 10, 10, false)
	issueToken(b, u2, "zeta", "ZET", 9, 99, true)
	b.Ms(2)
	// stakes: User1 x5 (different durations, different momentums), User2 x2 in ONE momentum with equal duration (tie in
	// the documented sort key), User4 x1
	for i := 0; i < 5; i++ {
		b.call(u1, types.StakeContract, types.ZnnTokenStandard, zexp(int64(10+i)), definition.ABIStake.PackMethodPanic(definition.StakeMethodName, int64(5-i)*constants.StakeTimeUnitSec))
		b.M(0)
	}
	b.call(u2, types.StakeContract, types.ZnnTokenStandard, zexp(20), definition.ABIStake.PackMethodPanic(definition.StakeMethodName, int64(constants.StakeTimeMinSec)))
	b.call(u2, types.StakeContract, types.ZnnTokenStandard, zexp(21), definition.ABIStake.PackMethodPanic(definition.StakeMethodName, int64(constants.StakeTimeMinSec)))
	b.call(u4, types.StakeContract, types.ZnnTokenStandard, zexp(30), definition.ABIStake.PackMethodPanic(definition.StakeMethodName, int64(2*constants.StakeTimeUnitSec)))
	b.Ms(2)
	// fusions: User2 -> {User6, User7, User8}, twice User6 in different momentums, User3 -> User9
	for i, to := range []types.Address{g.User6.Address, g.User7.Address, g.User8.Address, g.User6.Address} {
		b.call(u2, types.PlasmaContract, types.QsrTokenStandard, zexp(int64(50+i)), definition.ABIPlasma.PackMethodPanic(definition.FuseMethodName, to))
		if i%2 == 1 {
			b.M(0)
		}
	}
	b.call(u3, types.PlasmaContract, types.QsrTokenStandard, zexp(40), definition.ABIPlasma.PackMethodPanic(definition.FuseMethodName, g.User9.Address))
	b.Ms(2)
	// sentinels: User1, User2, Pillar6, Pillar7 deposit QSR and register; pillars: Pillar4, Pillar5 deposit QSR and register
	sentinels := []types.Address{u1, u2, g.Pillar6.Address, g.Pillar7.Address}
	for _, u := range sentinels {
		b.call(u, types.SentinelContract, types.QsrTokenStandard, constants.SentinelQsrDepositAmount, definition.ABISentinel.PackMethodPanic(definition.DepositQsrMethodName))
	}
	for _, kp := range []*wallet.KeyPair{g.Pillar4, g.Pillar5} {
		b.call(kp.Address, types.PillarContract, types.QsrTokenStandard, zexp(190000), definition.ABIPillars.PackMethodPanic(definition.DepositQsrMethodName))
	}
	b.Ms(2)
	for _, u := range sentinels {
		b.call(u, types.SentinelContract, types.ZnnTokenStandard, constants.SentinelZnnRegisterAmount, definition.ABISentinel.PackMethodPanic(definition.RegisterSentinelMethodName))
	}
	b.call(g.Pillar4.Address, types.PillarContract, types.ZnnTokenStandard, constants.PillarStakeAmount,
		definition.ABIPillars.PackMethodPanic(definition.RegisterMethodName, g.Pillar4Name, g.Pillar4.Address, g.Pillar4.Address, uint8(0), uint8(100)))
	b.Ms(2)
	b.call(g.Pillar5.Address, types.PillarContract, types.ZnnTokenStandard, constants.PillarStakeAmount,
		definition.ABIPillars.PackMethodPanic(definition.RegisterMethodName, g.Pillar5Name, g.Pillar5.Address, g.Pillar5.Address, uint8(10), uint8(90)))
	b.Ms(2)
	// delegation changes
	b.call(u1, types.PillarContract, types.ZnnTokenStandard, big.NewInt(0), definition.ABIPillars.PackMethodPanic(definition.DelegateMethodName, g.Pillar2Name))
	b.call(u5, types.PillarContract, types.ZnnTokenStandard, big.NewInt(0), definition.ABIPillars.PackMethodPanic(definition.UndelegateMethodName))
	b.Ms(2)
	// accelerator projects: 2 in one momentum (equal LastUpdateTimestamp), then one per momentum
	createProject(b, u1, "proj-a")
	createProject(b, u2, "proj-b")
	b.Ms(2)
	for i := 0; i < 4; i++ {
		createProject(b, []types.Address{u1, u2}[i%2], fmt.Sprintf("proj-%d", i))
		b.Ms(2)
	}
	// several epochs of 1 h: momentums 130 s apart until the contracts' update height (UpdateMinNumMomentums = 300) has
	// passed and more than 10 h of chain time have elapsed; the next producer events run the epoch updates
	for b.n.Height() < 320 {
		b.M(12)
	}
	b.Ms(6)
	// two of the four sentinels are revoked (registry entries stay in storage, flagged): listings of the active ones are
	// cut out of a registry that also holds inactive entries
	for _, u := range []types.Address{u1, g.Pillar6.Address} {
		b.call(u, types.SentinelContract, types.ZnnTokenStandard, big.NewInt(0), definition.ABISentinel.PackMethodPanic(definition.RevokeSentinelMethodName))
	}
	b.Ms(2)
	revoked := 0
	for _, s := range definition.GetAllSentinelInfo(b.n.Chain.GetFrontierAccountStore(types.SentinelContract).Storage()) {
		if s.RevokeTimestamp != 0 {
			revoked++
		}
	}
	if revoked != 2 {
		panic(fmt.Sprintf("harness: embedded chain: %d revoked sentinels, expected 2", revoked))
	}
	for _, u := range []types.Address{u1, u2, u3, u4, u5} {
		b.receiveAll(u)
	}
	b.Ms(3)
}

func buildLong(c *xs.Ctx, b *builder) {
	if c.Thorough() {
		// more accelerator projects than RpcMaxPageSize
		b.M(0)
		activateAccelerator(b)
		users := []types.Address{u1, u2, u3, u4, u5}
		const nProjects = 1030
		for i := 0; i < nProjects; i++ {
			createProject(b, users[i%len(users)], fmt.Sprintf("p%04d", i))
			if i%50 == 49 {
				b.Ms(2)
			}
		}
		b.Ms(3)
	}
	for b.n.Height() < 1100 {
		b.M(0)
	}
}

// bridge chain: destinations of wrap requests and (tx hash, log index) of unwrap request i
var bridgeDests = []string{c10.BridgeEvmDest, "0x00000000000000000000000000000000000c1801", "0x00000000000000000000000000000000000c1802"}

func bridgeUnwrapID(i int) (types.Hash, uint32) {
	var h types.Hash
	h[0] = 0xc1
	h[1] = 0x18
	h[30] = byte(i >> 8)
	h[31] = byte(i)
	return h, uint32(i%7) + 65536*uint32(i%3) // log indices on both sides of 2^16
}

const nBridgeRequests = 1030 // more than RpcMaxPageSize

func buildBridge(c *xs.Ctx, b *builder) {
	c10.Setup()
	b.M(0)
	if out := c10.BridgeSetup(b.n); out != "ok" {
		b.fail("bridge set-up", out)
	}
	users := []types.Address{u1, u2, u3, u4}
	ok := func(what, out string) {
		if out != "ok" {
			b.fail(what, out)
		}
	}
	for i := 0; i < nBridgeRequests; i++ {
		ok("wrap", c10.SubmitWrap(b.n, users[i%len(users)], int64(100+i%13), bridgeDests[(i/3)%len(bridgeDests)]))
		tx, log := bridgeUnwrapID(i)
		ok("unwrap", c10.SubmitUnwrap(b.n, users[(i+1)%len(users)], tx, log, users[(i/5)%len(users)], int64(1+i%9)))
		if i%40 == 39 {
			b.Ms(2)
		}
	}
	b.Ms(4)
	// some requests redeemed (past the redeem delay of the pair), one revoked, the rest pending
	for _, i := range []int{0, 1, 7, 500} {
		tx, log := bridgeUnwrapID(i)
		ok("redeem", c10.SubmitRedeem(b.n, u3, tx, log))
	}
	tx, log := bridgeUnwrapID(2)
	ok("revoke", c10.SubmitRevokeUnwrap(b.n, tx, log))
	b.Ms(2)
	// liquidity stakes: several per user with different durations (expiration order differs from creation order), two
	// with the same duration in one momentum (tie on the expiration time)
	for _, st := range []struct {
		a     types.Address
		zts   types.ZenonTokenStandard
		v     int64
		units int
	}{{u1, types.ZnnTokenStandard, 5000, 6}, {u1, types.QsrTokenStandard, 700, 2}, {u2, types.ZnnTokenStandard, 1000, 3}} {
		ok("liquidity stake", c10.SubmitLiquidityStake(b.n, st.a, st.zts, st.v, st.units))
	}
	b.Ms(2)
	ok("liquidity stake", c10.SubmitLiquidityStake(b.n, u1, types.ZnnTokenStandard, 1500, 4))
	ok("liquidity stake", c10.SubmitLiquidityStake(b.n, u1, types.QsrTokenStandard, 1600, 4))
	ok("liquidity stake", c10.SubmitLiquidityStake(b.n, u3, types.QsrTokenStandard, 10, 1))
	b.Ms(3)
	for _, u := range users {
		b.receiveAll(u)
	}
	b.Ms(2)
	// the chain must hold what it is meant to hold, otherwise the lists below are vacuous
	bst := b.n.Chain.GetFrontierAccountStore(types.BridgeContract).Storage()
	if w, err := definition.GetWrapTokenRequests(bst); err != nil || len(w) != nBridgeRequests+1 {
		b.fail("bridge chain", fmt.Sprintf("%d wrap requests (%v)", len(w), err))
	}
	if u, err := definition.GetUnwrapTokenRequests(bst); err != nil || len(u) != nBridgeRequests {
		b.fail("bridge chain", fmt.Sprintf("%d unwrap requests (%v)", len(u), err))
	}
	if l, _, _, err := definition.GetLiquidityStakeListByAddress(b.n.Chain.GetFrontierAccountStore(types.LiquidityContract).Storage(), u1); err != nil || len(l) != 4 {
		b.fail("bridge chain", fmt.Sprintf("%d liquidity stakes of user 1 (%v)", len(l), err))
	}
}
