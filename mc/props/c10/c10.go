// Package c10 — locked funds are fully backed and released only to the entitled party, on time.
//
// Per contract family (stake; plasma fusions; sentinel collateral + QSR deposits; pillar QSR deposits) all histories up
// to a depth bound over deposits, withdrawal attempts by owner / stranger / beneficiary, before and after maturity,
// repeated, with unknown ids, failing calls and momentums (= time) are executed on a real node with lock periods shrunk
// to a few momentums. After every transition an auditor (audit.go) recomputes the liabilities from the ledger alone
// and checks, at the confirmed ledger and at the pool view:
//
//	ledger-derived liabilities == liabilities recorded in contract storage <= contract balance   (per contract, per token)
//	every payout is matched by an entitlement (right party, not before the lock allows, not twice, right amount)
//	a matured withdrawal by the entitled party pays out.
package c10

import (
	"encoding/json"
	"fmt"
	"math/big"
	"time"

	g "github.com/zenon-network/go-zenon/chain/genesis/mock"
	"github.com/zenon-network/go-zenon/chain/nom"
	"github.com/zenon-network/go-zenon/common/db"
	"github.com/zenon-network/go-zenon/common/types"
	"github.com/zenon-network/go-zenon/vm/constants"
	"github.com/zenon-network/go-zenon/vm/embedded/definition"

	"verifmc/internal/hx"
	"verifmc/internal/ledger"
	"verifmc/internal/ops"
	"verifmc/internal/vnode"
	"verifmc/internal/xs"
)

var M = ops.Op{K: "M"}

func (a *audit) store(contract types.Address) db.DB {
	if a.v.Pool {
		return a.n.Chain.GetFrontierAccountStore(contract).Storage()
	}
	return a.n.Chain.GetFrontierMomentumStore().GetAccountStore(contract).Storage()
}

func shrinkLocks() {
	constants.StakeTimeUnitSec = 20
	constants.StakeTimeMinSec = 20
	constants.StakeTimeMaxSec = 240
	constants.FuseExpiration = 2
	constants.SentinelLockTimeWindow = 30
	constants.SentinelRevokeTimeWindow = 20
	constants.PillarEpochLockTime = 30
	constants.PillarEpochRevokeTime = 20
}

var pillarNames = []string{g.Pillar1Name, g.Pillar2Name, g.Pillar3Name, "TEST-pillar-four"}

// nthEntry returns the id (send hash) of the B-th successful deposit call with selector selDeposit made to `contract`,
// in chain order (confirmed ledger), or an unknown hash.
func nthDeposit(n *vnode.Node, contract types.Address, method4 string, k int) types.Hash {
	v := ledger.WithPool(n, ledger.Confirmed(n)) // pool view: an entry is addressable as soon as its receive block exists
	a := newAudit(n, v)
	i := 0
	for _, rc := range a.receives(contract) {
		if rc.sel4 == method4 && len(rc.d) == 0 {
			if i == k {
				return rc.s.Hash
			}
			i++
		}
	}
	return types.HexToHashPanic("00000000000000000000000000000000000000000000000000000000000000ee")
}

func init() {
	// Cancel stake: user A cancels the B-th stake entry ever created (whoever owns it)
	ops.Extra["CancelStake"] = func(n *vnode.Node, o ops.Op) string {
		id := nthDeposit(n, types.StakeContract, sel(definition.ABIStake.PackMethodPanic, definition.StakeMethodName, int64(0)), o.B)
		_, err := n.Submit(&nom.AccountBlock{BlockType: nom.BlockTypeUserSend, Address: ops.Users[o.A].Address, ToAddress: types.StakeContract,
			TokenStandard: types.ZnnTokenStandard, Amount: big.NewInt(0), Data: definition.ABIStake.PackMethodPanic(definition.CancelStakeMethodName, id)})
		if err != nil {
			return "err:" + err.Error()
		}
		return "ok"
	}
	// Cancel fuse: user A cancels the B-th fusion created by a Fuse call in this history
	ops.Extra["CancelFuse"] = func(n *vnode.Node, o ops.Op) string {
		id := nthDeposit(n, types.PlasmaContract, sel(definition.ABIPlasma.PackMethodPanic, definition.FuseMethodName, types.ZeroAddress), o.B)
		_, err := n.Submit(&nom.AccountBlock{BlockType: nom.BlockTypeUserSend, Address: ops.Users[o.A].Address, ToAddress: types.PlasmaContract,
			TokenStandard: types.ZnnTokenStandard, Amount: big.NewInt(0), Data: definition.ABIPlasma.PackMethodPanic(definition.CancelFuseMethodName, id)})
		if err != nil {
			return "err:" + err.Error()
		}
		return "ok"
	}
	ops.Calls["pillar-deposit-znn"] = func(o ops.Op) *nom.AccountBlock {
		return &nom.AccountBlock{BlockType: nom.BlockTypeUserSend, Address: ops.Users[o.A].Address, ToAddress: types.PillarContract,
			TokenStandard: types.ZnnTokenStandard, Amount: big.NewInt(o.V * 100000000), Data: definition.ABIPillars.PackMethodPanic(definition.DepositQsrMethodName)}
	}
	// CRalter: the receive block for the front of a contract's inbox arrives from the network before the node made it itself,
	// with the recipient of its first descendant send rewritten (every hash field as the honest block has it)
	ops.Extra["CRalter"] = func(n *vnode.Node, o ops.Op) (out string) {
		defer func() {
			if r := recover(); r != nil {
				out = "panic"
			}
		}()
		for _, ca := range []types.Address{types.SentinelContract, types.StakeContract, types.PlasmaContract, types.PillarContract} {
			acc := n.Chain.GetFrontierAccountStore(ca)
			hd := acc.SequencerFront(n.Chain.GetFrontierMomentumStore().GetAccountMailbox(ca))
			if hd == nil {
				continue
			}
			send, err := n.Chain.GetFrontierMomentumStore().GetAccountBlockByHash(hd.Hash)
			if err != nil || send == nil {
				continue
			}
			ex, err := n.Sup.GenerateAutoReceive(send)
			if err != nil || ex == nil || len(ex.Transaction.Block.DescendantBlocks) == 0 {
				continue
			}
			b := vnode.CloneBlock(ex.Transaction.Block)
			stranger := ops.Users[8].Address
			if b.DescendantBlocks[0].ToAddress == stranger {
				stranger = ops.Users[9].Address
			}
			b.DescendantBlocks[0].ToAddress = stranger
			if err, pan := n.AddAccountBlocks([]*nom.AccountBlock{b}); err != nil || pan != nil {
				return "refused"
			}
			return "ACCEPTED"
		}
		return "nothing-to-alter"
	}
	// pillar collateral: A = caller, B = index into pillarNames
	ops.Calls["pillar-register"] = func(o ops.Op) *nom.AccountBlock {
		u := ops.Users[o.A].Address
		return &nom.AccountBlock{BlockType: nom.BlockTypeUserSend, Address: u, ToAddress: types.PillarContract,
			TokenStandard: types.ZnnTokenStandard, Amount: new(big.Int).Set(constants.PillarStakeAmount),
			Data: definition.ABIPillars.PackMethodPanic(definition.RegisterMethodName, pillarNames[o.B], u, u, uint8(0), uint8(100))}
	}
	ops.Calls["pillar-revoke"] = func(o ops.Op) *nom.AccountBlock {
		return &nom.AccountBlock{BlockType: nom.BlockTypeUserSend, Address: ops.Users[o.A].Address, ToAddress: types.PillarContract,
			TokenStandard: types.ZnnTokenStandard, Amount: big.NewInt(0), Data: definition.ABIPillars.PackMethodPanic(definition.RevokeMethodName, pillarNames[o.B])}
	}
	ops.Calls["pillar-update"] = func(o ops.Op) *nom.AccountBlock { // same producer and reward address, other percentages
		u := ops.Users[o.A].Address
		return &nom.AccountBlock{BlockType: nom.BlockTypeUserSend, Address: u, ToAddress: types.PillarContract,
			TokenStandard: types.ZnnTokenStandard, Amount: big.NewInt(0),
			Data: definition.ABIPillars.PackMethodPanic(definition.UpdatePillarMethodName, pillarNames[o.B], u, u, uint8(10), uint8(90))}
	}
	ops.Calls["sentinel-withdraw-qsr"] = func(o ops.Op) *nom.AccountBlock {
		return &nom.AccountBlock{BlockType: nom.BlockTypeUserSend, Address: ops.Users[o.A].Address, ToAddress: types.SentinelContract,
			TokenStandard: types.ZnnTokenStandard, Amount: big.NewInt(0), Data: definition.ABISentinel.PackMethodPanic(definition.WithdrawQsrMethodName)}
	}

	xs.Register(&xs.Check{
		ID:     "C10",
		Level:  "model_checking",
		Shards: func(tier string) int { return 16 },
		Budget: func(tier string) time.Duration {
			if tier == "thorough" {
				return 25 * time.Minute
			}
			return 4 * time.Minute
		},
		Assumptions: []string{
			"mock genesis, live-network regime; lock periods shrunk (stake unit 20 s, fusion expiration 2 momentums, sentinel lock/revoke windows 30 s / 20 s) — the release logic is parametric in these constants",
			"families covered: stake, plasma fusions, sentinel collateral and QSR deposit, pillar QSR deposit, pillar collateral (Register / Revoke / UpdatePillar on genesis pillars and a newly registered one; pillar windows 30 s / 20 s), HTLC (spork created and activated by the base prefix, SporkMinHeightDelay shrunk to 2), liquidity stakes and bridge unwrap requests (spork, bridge and liquidity contract initialised by the base prefix with administrator delays shrunk to 2 / 1 momentums; non-owned ZNN pair with redeem delay 2; TSS key of the repository's tests)",
			"liabilities are recomputed from the ledger alone by replaying each contract's receive blocks (audit.go)",
		},
		Run: run,
		Finish: func(tier string, m *xs.Result, ev *xs.Evidence) {
			ev.Coverage["states"] = m.Counters["states"]
			ev.Coverage["transitions"] = m.Counters["transitions"]
			ev.Coverage["traces_validated_against_impl"] = m.Counters["histories"]
		},
	})
}

// Family / Setup / Families: the deposit-and-withdrawal alphabets are also explored by C01 under the supply oracle.
type Family struct {
	Name  string
	Alpha []ops.Op
	Bases []hx.Base
}

// Setup applies the process-global configuration the families rely on (shrunk lock periods, spork and bridge operations).
func Setup() {
	shrinkLocks()
	initHtlcOps()
	initBridgeOps()
}

func Families(thorough bool) []Family {
	var out []Family
	for _, f := range families(thorough) {
		out = append(out, Family{f.name, f.alpha, f.bases})
	}
	return out
}

type family struct {
	name  string
	alpha []ops.Op
	bases []hx.Base
}

func families(thorough bool) []family {
	stake := family{name: "stake", alpha: []ops.Op{
		M,
		{K: "Call", S: "stake", A: 1, V: 10, B: 1},
		{K: "Call", S: "stake", A: 2, V: 20, B: 2},
		{K: "CancelStake", A: 1, B: 0},
		{K: "CancelStake", A: 2, B: 0}, // stranger (or owner, depending on who created entry 0)
		{K: "CancelStake", A: 2, B: 1},
		{K: "CancelStake", A: 1, B: 7},           // unknown id
		{K: "Call", S: "stake-qsr", A: 1, V: 10}, // deposit attempt in the wrong token
		{K: "Call", S: "stake-collect", A: 1},
	}}
	plasma := family{name: "plasma", alpha: []ops.Op{
		M,
		{K: "Call", S: "fuse", A: 0, B: 1, V: 50}, // user 0 fuses for user 1
		{K: "Call", S: "fuse", A: 1, B: 1, V: 20}, // user 1 for itself
		{K: "CancelFuse", A: 0, B: 0},
		{K: "CancelFuse", A: 1, B: 0}, // beneficiary of fusion 0 is not its owner
		{K: "CancelFuse", A: 1, B: 1},
		{K: "CancelFuse", A: 0, B: 7},
		{K: "Call", S: "fuse-znn", A: 2, B: 2, V: 50}, // deposit attempt in the wrong token
		{K: "CancelFuse", A: 2, B: 2},                 // ... and its withdrawal (third fusion created, if the attempt was taken)
	}}
	sent := family{name: "sentinel", alpha: []ops.Op{
		M,
		{K: "Call", S: "sentinel-deposit-qsr", A: 5, V: 50000},
		{K: "Call", S: "sentinel-deposit-qsr", A: 5, V: 10},
		{K: "Call", S: "sentinel-deposit-qsr", A: 6, V: 30000},
		{K: "Call", S: "sentinel-register", A: 5},
		{K: "Call", S: "sentinel-register", A: 6},
		{K: "Call", S: "sentinel-revoke", A: 5},
		{K: "Call", S: "sentinel-revoke", A: 6},
		{K: "Call", S: "sentinel-withdraw-qsr", A: 5},
		{K: "Call", S: "sentinel-withdraw-qsr", A: 6},
	}}
	pillar := family{name: "pillar-qsr", alpha: []ops.Op{
		M,
		{K: "Call", S: "pillar-deposit-qsr", A: 1, V: 10},
		{K: "Call", S: "pillar-deposit-qsr", A: 2, V: 7},
		{K: "Call", S: "pillar-withdraw-qsr", A: 1},
		{K: "Call", S: "pillar-withdraw-qsr", A: 2},
		{K: "Call", S: "pillar-withdraw-qsr", A: 3},
		{K: "Call", S: "pillar-deposit-znn", A: 3, V: 10}, // deposit attempt in the wrong token
	}}
	// pillar collateral: the three genesis pillars (owners = users 10..12, registered at genesis time: with the shrunk
	// windows they can be revoked while the acknowledged momentum's time is 30..49 s modulo 50) and a fourth one that user 5
	// (Pillar4's key: 16000 ZNN, 200000 QSR) can register after depositing the 150000 QSR registration cost
	coll := family{name: "pillar-collateral", alpha: []ops.Op{
		M,
		{K: "Call", S: "pillar-revoke", A: 10, B: 0},  // owner
		{K: "Call", S: "pillar-revoke", A: 11, B: 0},  // stranger (owner of another pillar)
		{K: "Call", S: "pillar-update", A: 10, B: 0},  // owner changes the reward percentages
		{K: "Call", S: "pillar-register", A: 5, B: 3}, // with or without the deposit
		{K: "Call", S: "pillar-revoke", A: 5, B: 3},
		{K: "Call", S: "pillar-deposit-qsr", A: 5, V: 150000},
		{K: "Call", S: "pillar-withdraw-qsr", A: 5},
	}}
	for _, f := range []*family{&stake, &plasma, &sent, &pillar, &coll} {
		f.bases = []hx.Base{{Name: f.name + "/genesis"}}
	}
	coll.bases = append(coll.bases,
		// the genesis pillars' revoke window is about to open (next momentum: t = 30 s)
		hx.Base{Name: "pillar-collateral/window-opens", Prefix: []ops.Op{M, M}},
		// a fourth pillar registered (t = 30 s), its own window opens three momentums later
		hx.Base{Name: "pillar-collateral/registered", Prefix: []ops.Op{
			{K: "Call", S: "pillar-deposit-qsr", A: 5, V: 150000}, M, M, {K: "Call", S: "pillar-register", A: 5, B: 3}, M, M, M,
		}},
	)
	// non-initial states: an entry that is already mature, one that is not, one already released
	stake.bases = append(stake.bases, hx.Base{Name: "stake/entries", Prefix: []ops.Op{
		{K: "Call", S: "stake", A: 1, V: 10, B: 1}, M, M, {K: "Call", S: "stake", A: 2, V: 20, B: 6}, M, M, M,
	}})
	plasma.bases = append(plasma.bases, hx.Base{Name: "plasma/entries", Prefix: []ops.Op{
		{K: "Call", S: "fuse", A: 0, B: 1, V: 50}, M, M, M, M, {K: "Call", S: "fuse", A: 1, B: 1, V: 20}, M,
	}})
	sent.bases = append(sent.bases, hx.Base{Name: "sentinel/registered", Prefix: []ops.Op{
		{K: "Call", S: "sentinel-deposit-qsr", A: 5, V: 50010}, M, M, {K: "Call", S: "sentinel-register", A: 5}, M,
	}})
	pillar.bases = append(pillar.bases, hx.Base{Name: "pillar-qsr/deposited", Prefix: []ops.Op{
		{K: "Call", S: "pillar-deposit-qsr", A: 1, V: 10}, M, M,
	}})
	// relayed contract receives: a send is confirmed by a momentum whose producer did not get to the inboxes (Mo), then the
	// contract's receive block reaches the node from the network with the recipient of its refund / withdrawal rewritten
	// (all hash fields kept): "released only to the entitled party" must not depend on who relayed the block
	relay := family{name: "relayed-receive", alpha: []ops.Op{
		M, {K: "Mo"}, {K: "CRalter"},
		{K: "Call", S: "sentinel-register", A: 5},     // without the deposit: refund
		{K: "Call", S: "sentinel-withdraw-qsr", A: 5}, // withdrawal of a deposit
	}, bases: []hx.Base{
		{Name: "relayed-receive/refund-pending", Prefix: []ops.Op{{K: "Call", S: "sentinel-register", A: 5}, {K: "Mo"}}},
		{Name: "relayed-receive/withdrawal-pending", Prefix: []ops.Op{{K: "Call", S: "sentinel-deposit-qsr", A: 5, V: 10}, M, M, {K: "Call", S: "sentinel-withdraw-qsr", A: 5}, {K: "Mo"}}},
	}}
	return append([]family{stake, plasma, sent, pillar, coll, relay, htlcFamily()}, bridgeFamilies()...)
}

func knownAddrs() []types.Address {
	var out []types.Address
	for _, u := range ops.Users {
		out = append(out, u.Address)
	}
	return out
}

func check(r *xs.Result, s *hx.Step) bool {
	conf := ledger.Confirmed(s.Node)
	pool := ledger.WithPool(s.Node, conf)
	ok := true
	for _, v := range []*ledger.View{conf, pool} {
		view := "confirmed ledger"
		if v.Pool {
			view = "pool view"
		}
		a := newAudit(s.Node, v)
		bal := func(c types.Address, z types.ZenonTokenStandard) *big.Int {
			if ac := v.Accounts[c]; ac != nil && ac.Balances[z] != nil {
				return ac.Balances[z]
			}
			return new(big.Int)
		}
		type row struct {
			name          string
			ref, sto, bal *big.Int
		}
		var rows []row
		rows = append(rows, row{"stake/ZNN", a.stake(), a.stakeStorage(), bal(types.StakeContract, types.ZnnTokenStandard)})
		rows = append(rows, row{"plasma/QSR", a.plasma(), a.plasmaStorage(knownAddrs()), bal(types.PlasmaContract, types.QsrTokenStandard)})
		sz, sq := a.qsrAndSentinel(types.SentinelContract)
		stz, stq := a.sentinelStorage()
		rows = append(rows, row{"sentinel/ZNN", sz, stz, bal(types.SentinelContract, types.ZnnTokenStandard)})
		rows = append(rows, row{"sentinel/QSR", sq, new(big.Int).Add(stq, a.qsrStorage(types.SentinelContract, knownAddrs())), bal(types.SentinelContract, types.QsrTokenStandard)})
		pz, pq := a.qsrAndSentinel(types.PillarContract)
		rows = append(rows, row{"pillar/ZNN", pz, a.pillarStorageZnn(), bal(types.PillarContract, types.ZnnTokenStandard)})
		rows = append(rows, row{"pillar/QSR", pq, a.qsrStorage(types.PillarContract, knownAddrs()), bal(types.PillarContract, types.QsrTokenStandard)})
		for z, l := range a.htlc() {
			// the htlc contract holds nothing but locked deposits: balance must equal the liabilities exactly
			b := bal(types.HtlcContract, z)
			rows = append(rows, row{"htlc/" + z.String(), l, l, b})
			if l.Cmp(b) != 0 {
				a.bad("htlc:balance-differs-from-liabilities", "htlc contract holds %v of %v but owes %v", b, z, l)
			}
		}
		for z, l := range a.liquidity() {
			rows = append(rows, row{"liquidity/" + z.String(), l, l, bal(types.LiquidityContract, z)})
		}
		a.bridge()
		rep := map[string]interface{}{"base": s.Base, "history": s.History}
		for _, p := range a.problems {
			r.Violate("C10:"+p.key, hx.Describe(s)+" ["+view+"]: "+p.msg, rep)
			ok = false
		}
		for _, rw := range rows {
			if rw.ref.Cmp(rw.sto) != 0 {
				r.Violate("C10:"+rw.name+":storage-liabilities-differ-from-ledger", hx.Describe(s)+fmt.Sprintf(" [%s]: %s liabilities derived from the ledger %v, recorded in storage %v", view, rw.name, rw.ref, rw.sto), rep)
				ok = false
			}
			if rw.sto.Cmp(rw.bal) > 0 || rw.ref.Cmp(rw.bal) > 0 {
				r.Violate("C10:"+rw.name+":not-backed", hx.Describe(s)+fmt.Sprintf(" [%s]: %s owes %v (storage %v) but holds %v", view, rw.name, rw.ref, rw.sto, rw.bal), rep)
				ok = false
			}
		}
		if !v.Pool {
			r.Count("payouts_audited", int64(a.payouts))
			r.Count("refusals_audited", int64(a.refused))
		}
	}
	return ok
}

func run(c *xs.Ctx, r *xs.Result) {
	shrinkLocks()
	initHtlcOps()
	initBridgeOps()
	if c.Replay != nil {
		var rep struct {
			Base    string   `json:"base"`
			History []ops.Op `json:"history"`
		}
		if err := json.Unmarshal(c.Replay, &rep); err != nil {
			panic(err)
		}
		for _, f := range families(true) {
			for _, b := range f.bases {
				if b.Name != rep.Base {
					continue
				}
				n := vnode.New(vnode.Options{Dir: c.TempDir()})
				for _, o := range b.Prefix {
					ops.Apply(n, o)
				}
				var h []ops.Op
				for i, o := range rep.History {
					out := ops.Apply(n, o)
					h = append(h, o)
					check(r, &hx.Step{Base: b.Name, History: h, Op: o, Outcome: out, Node: n, Depth: i + 1})
					r.Count("transitions", 1)
				}
				n.Destroy()
				r.Count("states", 1)
				r.Count("histories", 1)
			}
		}
		return
	}
	depth := 3
	if c.Thorough() {
		depth = 4
	}
	for _, f := range families(c.Thorough()) {
		e := &hx.Explorer{Ctx: c, Res: r, Bases: f.bases, Alphabet: f.alpha, Depth: depth, SnapshotBases: true,
			OnBase: func(b hx.Base, n *vnode.Node) {
				check(r, &hx.Step{Base: b.Name, Node: n, Op: ops.Op{K: "base"}})
			},
			Check: func(s *hx.Step) bool { return check(r, s) },
		}
		e.Run()
		if r.Incomplete {
			return
		}
	}
}
