package main

import (
	"fmt"
	"math/big"
	"os"

	"github.com/zenon-network/go-zenon/chain/nom"
	"github.com/zenon-network/go-zenon/common/types"
	"github.com/zenon-network/go-zenon/vm/constants"
	"github.com/zenon-network/go-zenon/vm/embedded/definition"

	"verifmc/internal/ops"
	"verifmc/internal/vnode"
)

func main() {
	dir, _ := os.MkdirTemp("/dev/shm", "scratch")
	defer os.RemoveAll(dir)
	vnode.SmallConsensus(2)
	constants.MomentumsPerEpoch = 6
	constants.RewardTimeLimit = 10
	constants.UpdateMinNumMomentums = 2
	n := vnode.New(vnode.Options{Dir: dir + "/n"})
	M := ops.Op{K: "M"}
	seq := []ops.Op{M, M, M, {K: "M", V: 80}, M, M, M, M, M, M, M, M}
	for _, o := range seq {
		out := ops.Apply(n, o)
		st := n.Chain.GetFrontierMomentumStore().GetAccountStore(types.LiquidityContract).Storage()
		le, _ := definition.GetLastEpochUpdate(st)
		// minted to liquidity
		zn := new(big.Int)
		cnt := 0
		ac := n.Chain.GetFrontierMomentumStore().GetAccountStore(types.LiquidityContract)
		for h := uint64(1); h <= ac.Identifier().Height; h++ {
			b, _ := ac.ByHeight(h)
			if b.BlockType == nom.BlockTypeContractReceive {
				for _, d := range b.DescendantBlocks {
					if d.ToAddress == types.TokenContract {
						cnt++
					}
				}
			}
		}
		bal, _ := ac.GetBalance(types.ZnnTokenStandard)
		fmt.Println(o, "->", out, "height", n.Height(), "liquidity lastEpoch", le.LastEpoch, "mint blocks", cnt, "znn balance", bal, zn)
	}
	z, q := constants.LiquidityRewardForEpoch(0)
	fmt.Println("per epoch", z, q)
}
