#!/usr/bin/env python3
"""Print a markdown table 'as built' from MANIFEST.json and the evidence files (optionally a second evidence
directory holding thorough-tier results): per property the level, the deciding technique, and the measured coverage."""
import json, os, sys

root = os.path.dirname(os.path.dirname(os.path.abspath(__file__)))
man = json.load(open(os.path.join(root, "MANIFEST.json")))
thorough_dir = sys.argv[1] if len(sys.argv) > 1 else None

KEYS = ["states", "transitions", "traces_validated_against_impl", "evaluations", "distinct_nontrivial",
        "sched_executions", "crash_points", "child_kills", "histories", "sequences", "shapes"]


def cov(path):
    if not os.path.exists(path):
        return "-"
    e = json.load(open(path))
    c = e.get("coverage", {})
    parts = []
    for k in KEYS:
        if k in c and c[k]:
            parts.append("%s=%s" % (k, c[k]))
    parts.append("exhaustive=%s" % str(c.get("exhaustive")).lower())
    parts.append("%.0f s" % e.get("wall_s", 0))
    return ", ".join(parts)


print("| id | level | quick (evidence/<id>.json) |" + (" thorough |" if thorough_dir else ""))
print("|---|---|---|" + ("---|" if thorough_dir else ""))
for ch in man["checks"]:
    pid = ch["property_id"]
    row = "| %s | %s | %s |" % (pid, ch["level_claimed"]["category"], cov(os.path.join(root, "evidence", pid + ".json")))
    if thorough_dir:
        row += " %s |" % cov(os.path.join(thorough_dir, pid + ".json"))
    print(row)
