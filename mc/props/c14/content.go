package c14

import (
	"fmt"

	"github.com/zenon-network/go-zenon/chain"
	"github.com/zenon-network/go-zenon/chain/nom"
	"github.com/zenon-network/go-zenon/common/types"

	"verifmc/internal/ops"
	"verifmc/internal/vnode"
	"verifmc/internal/xs"
)

// Part B — momentum content offered for production never splits a contract's batch and never exceeds the limit.
// A real pool is built (user blocks of several accounts + contract batches = refund send + contract receive, created by
// the real producer path). The order in which accountPool.GetAllUncommittedAccountBlocks concatenates the per-account
// groups depends on Go map iteration, so the harness enumerates ALL orders of the groups itself and calls the real
// filter (chain.VerifFilterBlocksToCommit, overlay re-export of accountPool.filterBlocksToCommit) on each.

func permutations(n int, f func([]int)) {
	p := make([]int, n)
	for i := range p {
		p[i] = i
	}
	var rec func(k int)
	rec = func(k int) {
		if k == n {
			f(p)
			return
		}
		for i := k; i < n; i++ {
			p[k], p[i] = p[i], p[k]
			rec(k + 1)
			p[k], p[i] = p[i], p[k]
		}
	}
	rec(0)
}

type contentCase struct {
	Users     []int // blocks per user account (users 0..)
	Batches   []int // refund batches per contract (stake, plasma)
	WantLimit bool
}

func contentCases(thorough bool) []contentCase {
	var out []contentCase
	totals := []int{0, 1, 97, 98, 99, 100, 101}
	if thorough {
		totals = []int{0, 1, 50, 95, 96, 97, 98, 99, 100, 101, 102, 130}
	}
	for _, u := range totals {
		for _, b := range [][]int{{0, 0}, {1, 0}, {2, 0}, {1, 1}, {2, 2}} {
			// spread the user blocks over 3 accounts
			a := u / 3
			users := []int{a, a, u - 2*a}
			out = append(out, contentCase{Users: users, Batches: b})
		}
	}
	return out
}

func runContent(c *xs.Ctx, r *xs.Result) {
	cases := contentCases(c.Thorough())
	for ci, cc := range cases {
		if !c.Mine(ci) {
			continue
		}
		if c.Expired() {
			r.Incomplete = true
			return
		}
		runContentCase(c, r, cc)
		r.Count("content_cases", 1)
	}
}

func runContentCase(c *xs.Ctx, r *xs.Result, cc contentCase) {
	n := vnode.New(vnode.Options{Dir: c.TempDir()})
	defer n.Destroy()
	// contract batches = contract send + contract receive created by the real producer path:
	//   contract 0 (sentinel): Register without a QSR deposit is accepted at send time and refunded on receive;
	//   contract 1 (pillar): WithdrawQsr after a DepositQsr pays the deposit back through a descendant send.
	depositors := []int{0, 1}
	for i := 0; i < cc.Batches[1]; i++ {
		if out := ops.Apply(n, ops.Op{K: "Call", S: "pillar-deposit-qsr", A: depositors[i], V: 10}); out != "ok" {
			panic("deposit refused: " + out)
		}
	}
	if cc.Batches[1] > 0 {
		if _, err := n.Produce(0); err != nil {
			panic(err)
		}
		if _, err := n.Produce(0); err != nil { // confirms the contract receives of the deposits
			panic(err)
		}
	}
	for i := 0; i < cc.Batches[0]; i++ {
		if out := ops.Apply(n, ops.Op{K: "Call", S: "sentinel-register", A: 5 + i}); out != "ok" {
			panic("sentinel register refused: " + out)
		}
	}
	for i := 0; i < cc.Batches[1]; i++ {
		if out := ops.Apply(n, ops.Op{K: "Call", S: "pillar-withdraw-qsr", A: depositors[i]}); out != "ok" {
			panic("withdraw refused: " + out)
		}
	}
	if _, err := n.Produce(0); err != nil { // confirms the calls; the producer then pools the contract receives
		panic(err)
	}
	for ui, k := range cc.Users {
		for i := 0; i < k; i++ {
			if _, err := n.Send(ops.Users[2+ui].Address, ops.Users[13].Address, types.ZnnTokenStandard, ops.Big(int64(1+i)), nil); err != nil {
				panic(err)
			}
		}
	}
	addrs := chain.VerifPoolAddresses(n.Chain)
	var groups [][]*nom.AccountBlock
	total := 0
	for _, a := range addrs {
		g := n.Chain.GetUncommittedAccountBlocksByAddress(a)
		if len(g) > 0 {
			groups = append(groups, g)
			total += len(g)
		}
	}
	wantBatches := 0
	for _, k := range cc.Batches {
		wantBatches += k
	}
	nb := 0
	for _, g := range groups {
		for _, b := range g {
			if b.BlockType == nom.BlockTypeContractReceive && len(b.DescendantBlocks) > 0 {
				nb++
			}
		}
	}
	if nb != wantBatches {
		panic(fmt.Sprintf("content case %+v: expected %d contract batches in the pool, found %d", cc, wantBatches, nb))
	}
	limit := chain.MaxAccountBlocksInMomentum
	rep := map[string]interface{}{"part": "content", "case": cc}
	permutations(len(groups), func(p []int) {
		var list []*nom.AccountBlock
		for _, gi := range p {
			list = append(list, groups[gi]...)
		}
		got := chain.VerifFilterBlocksToCommit(n.Chain, list)
		r.Count("content_orders", 1)
		if len(got) > limit {
			r.Violate("C14:content:exceeds-limit", fmt.Sprintf("case %+v order %v: %d blocks offered, limit %d", cc, p, len(got), limit), rep)
		}
		if total > limit && len(got) < total {
			r.Count("content_limit_bites", 1)
		}
		// per account the offered blocks are a prefix of the pooled chain
		taken := map[types.Address]int{}
		for _, b := range got {
			taken[b.Address]++
		}
		for _, g := range groups {
			k := taken[g[0].Address]
			for i := 0; i < k; i++ {
				found := false
				for _, b := range got {
					if b.Hash == g[i].Hash {
						found = true
					}
				}
				if !found {
					r.Violate("C14:content:gap-in-account-chain", fmt.Sprintf("case %+v order %v: account %v offers %d blocks but not its block #%d", cc, p, g[0].Address, k, i), rep)
					break
				}
			}
		}
		// batches are never split: every contract send is followed (same account, contiguous) by the receive that owns it,
		// and every receive's descendants are all present right before it
		for i, b := range got {
			if b.BlockType == nom.BlockTypeContractSend {
				j := i + 1
				for j < len(got) && got[j].BlockType == nom.BlockTypeContractSend && got[j].Address == b.Address {
					j++
				}
				if j >= len(got) || got[j].BlockType != nom.BlockTypeContractReceive || got[j].Address != b.Address {
					r.Violate("C14:content:batch-split:send-without-receive", fmt.Sprintf("case %+v order %v: contract send %v@%d offered without the receive that created it", cc, p, b.Address, b.Height), rep)
					break
				}
				owned := false
				for _, d := range got[j].DescendantBlocks {
					if d.Hash == b.Hash {
						owned = true
					}
				}
				if !owned {
					r.Violate("C14:content:batch-split:foreign-send", fmt.Sprintf("case %+v order %v: contract send %v@%d is not a descendant of the receive that follows it", cc, p, b.Address, b.Height), rep)
					break
				}
			}
			if b.BlockType == nom.BlockTypeContractReceive {
				for k, d := range b.DescendantBlocks {
					pos := i - len(b.DescendantBlocks) + k
					if pos < 0 || got[pos].Hash != d.Hash {
						r.Violate("C14:content:batch-split:receive-without-descendants", fmt.Sprintf("case %+v order %v: contract receive %v@%d offered without its descendant #%d right before it", cc, p, b.Address, b.Height, k), rep)
						break
					}
				}
			}
		}
	})
	r.Add("content_totals", fmt.Sprintf("%d blocks/%d batches/%d groups", total, nb, len(groups)))
}
