package c18

import (
	"fmt"
	"sort"
	"time"

	"github.com/zenon-network/go-zenon/chain/nom"
	"github.com/zenon-network/go-zenon/common/types"
	"github.com/zenon-network/go-zenon/rpc/api"
	"github.com/zenon-network/go-zenon/vm/embedded/definition"

	"verifmc/internal/xs"
)

// checkPoints: the non-paged ledger queries over all addresses (known, unknown, contract), all stored hashes plus unknown
// ones, and timestamps around every momentum.
var pointSeq int

func checkPoints(c *xs.Ctx, r *xs.Result, ci *chainIndex) {
	n := ci.n
	ledger := api.NewLedgerApi(&zAdapter{n})
	viol := func(method, key, what string) {
		r.Violate("C18:"+method+":"+key, fmt.Sprintf("chain %q %s: %s", ci.name, method, what), map[string]interface{}{"tier": curTier, "part": "a-point", "cell": cellSpec{Chain: ci.name}})
	}
	guard := func(method string, f func()) {
		defer func() {
			if p := recover(); p != nil {
				viol(method, "panic", fmt.Sprintf("panicked: %v", p))
			}
		}()
		r.Count("a_evaluations", 1)
		r.Count("a_point_queries", 1)
		pointSeq++
		r.Add("nontrivial", digest([]byte(fmt.Sprintf("p|%s|%s|%d", ci.name, method, pointSeq))))
		f()
	}
	tokens := map[types.ZenonTokenStandard]bool{}
	tl0, err := definition.GetTokenInfoList(n.Chain.GetFrontierAccountStore(types.TokenContract).Storage())
	if err != nil {
		panic(err)
	}
	for _, t := range tl0 {
		tokens[t.TokenStandard] = true
	}
	addrs := []types.Address{u1, u2, u3, u4, u5, u6, unknownAddr, types.TokenContract, types.StakeContract, types.PillarContract, types.AcceleratorContract, types.BridgeContract, {}}
	for _, a := range addrs {
		a := a
		acc := n.Chain.GetFrontierAccountStore(a)
		fr, err := acc.Frontier()
		if err != nil {
			panic(err)
		}
		guard("ledger.getFrontierAccountBlock", func() {
			got, err := ledger.GetFrontierAccountBlock(a)
			switch {
			case err != nil:
				viol("ledger.getFrontierAccountBlock", "error-on-valid-input", fmt.Sprintf("%v: %v", a, err))
			case fr == nil && got != nil, fr != nil && got == nil:
				viol("ledger.getFrontierAccountBlock", "mismatch", fmt.Sprintf("%v: store frontier %v, rpc %v", a, fr != nil, got != nil))
			case fr != nil && rpcBlockID(got) != ci.blockID(fr):
				viol("ledger.getFrontierAccountBlock", "mismatch", fmt.Sprintf("%v: store %s rpc %s", a, ci.blockID(fr), rpcBlockID(got)))
			}
			if fr == nil {
				r.Add("paging_cases", "ledger.getFrontierAccountBlock|none")
			} else {
				r.Add("paging_cases", "ledger.getFrontierAccountBlock|block")
			}
		})
		guard("ledger.getAccountInfoByAddress", func() {
			got, err := ledger.GetAccountInfoByAddress(a)
			if err != nil || got == nil {
				viol("ledger.getAccountInfoByAddress", "error-on-valid-input", fmt.Sprintf("%v: %v", a, err))
				return
			}
			h := uint64(0)
			if fr != nil {
				h = fr.Height
			}
			if got.AccountHeight != h || got.Address != a {
				viol("ledger.getAccountInfoByAddress", "mismatch", fmt.Sprintf("%v: height store %d rpc %d", a, h, got.AccountHeight))
			}
			bm, err := acc.GetBalanceMap()
			if err != nil {
				panic(err)
			}
			// balances are reported for the token standards that exist in the token contract's storage
			nb := 0
			for zts, bal := range bm {
				bi := got.BalanceInfoMap[zts]
				if !tokens[zts] {
					if bi != nil {
						viol("ledger.getAccountInfoByAddress", "mismatch", fmt.Sprintf("%v: balance reported for non-existent token %v", a, zts))
					}
					continue
				}
				nb++
				if bi == nil || bi.Balance.Cmp(bal) != 0 || bi.TokenInfo == nil || bi.TokenInfo.ZenonTokenStandard != zts {
					viol("ledger.getAccountInfoByAddress", "mismatch", fmt.Sprintf("%v: balance of %v store %v rpc %+v", a, zts, bal, bi))
				}
			}
			if len(got.BalanceInfoMap) != nb {
				viol("ledger.getAccountInfoByAddress", "mismatch", fmt.Sprintf("%v: %d balances in store, %d in rpc", a, nb, len(got.BalanceInfoMap)))
			}
			r.Add("paging_cases", fmt.Sprintf("ledger.getAccountInfoByAddress|%d-balances", len(bm)))
		})
	}
	// every block (descendants included) by hash
	var all []*nom.AccountBlock
	var walk func(b *nom.AccountBlock)
	walk = func(b *nom.AccountBlock) {
		all = append(all, b)
		for _, d := range b.DescendantBlocks {
			walk(d)
		}
	}
	for _, b := range ci.allBlocks {
		walk(b)
	}
	for _, b := range all {
		b := b
		guard("ledger.getAccountBlockByHash", func() {
			got, err := ledger.GetAccountBlockByHash(b.Hash)
			conf := ci.confirmed[b.Hash] > 0
			switch {
			case err != nil:
				viol("ledger.getAccountBlockByHash", "error-on-valid-input", fmt.Sprintf("%v: %v", b.Hash, err))
			case conf && got == nil:
				viol("ledger.getAccountBlockByHash", "mismatch", fmt.Sprintf("confirmed block %v not returned", b.Hash))
			case got != nil && rpcBlockID(got) != ci.blockID(b):
				viol("ledger.getAccountBlockByHash", "mismatch", fmt.Sprintf("%v: store %s rpc %s", b.Hash, ci.blockID(b), rpcBlockID(got)))
			}
			if got != nil {
				// the paired block, when present, is the stored block that receives / is received
				if p := got.PairedAccountBlock; p != nil && b.BlockType != nom.BlockTypeGenesisReceive {
					if nom.IsSendBlock(b.BlockType) && p.FromBlockHash != b.Hash {
						viol("ledger.getAccountBlockByHash", "paired-mismatch", fmt.Sprintf("%v: paired block %v does not receive it", b.Hash, p.Hash))
					}
					if !nom.IsSendBlock(b.BlockType) && p.Hash != b.FromBlockHash {
						viol("ledger.getAccountBlockByHash", "paired-mismatch", fmt.Sprintf("%v: paired block %v is not the received block %v", b.Hash, p.Hash, b.FromBlockHash))
					}
				}
				r.Add("paging_cases", fmt.Sprintf("ledger.getAccountBlockByHash|type%d-paired%v-conf%v", b.BlockType, got.PairedAccountBlock != nil, got.ConfirmationDetail != nil))
			}
		})
	}
	unknownHashes := []types.Hash{{}, {0xff, 1, 2, 3}}
	if len(ci.momentums) > 0 {
		unknownHashes = append(unknownHashes, ci.momentums[len(ci.momentums)-1].Momentum.Hash) // a momentum hash is not an account block hash
	}
	if len(all) > 0 {
		h := all[0].Hash
		h[31] ^= 1
		unknownHashes = append(unknownHashes, h)
	}
	for _, h := range unknownHashes {
		h := h
		guard("ledger.getAccountBlockByHash", func() {
			got, err := ledger.GetAccountBlockByHash(h)
			if err != nil || got != nil {
				viol("ledger.getAccountBlockByHash", "unknown-hash", fmt.Sprintf("%v: result %v err %v", h, got != nil, err))
			}
			r.Add("paging_cases", "ledger.getAccountBlockByHash|unknown")
		})
	}
	// momentums by hash, frontier, before time
	for _, d := range ci.momentums {
		m := d.Momentum
		guard("ledger.getMomentumByHash", func() {
			got, err := ledger.GetMomentumByHash(m.Hash)
			if err != nil || got == nil || rpcMomentumID(got) != momentumID(m) {
				viol("ledger.getMomentumByHash", "mismatch", fmt.Sprintf("height %d: err %v", m.Height, err))
			}
		})
	}
	for _, h := range append(unknownHashes[:2:2], func() []types.Hash {
		if len(all) > 0 {
			return []types.Hash{all[0].Hash}
		}
		return nil
	}()...) {
		h := h
		guard("ledger.getMomentumByHash", func() {
			got, err := ledger.GetMomentumByHash(h)
			if got != nil {
				viol("ledger.getMomentumByHash", "unknown-hash", fmt.Sprintf("%v: returned a momentum (err %v)", h, err))
			}
			if err != nil {
				r.Add("paging_cases", "ledger.getMomentumByHash|unknown-error")
			} else {
				r.Add("paging_cases", "ledger.getMomentumByHash|unknown-null")
			}
		})
	}
	guard("ledger.getFrontierMomentum", func() {
		got, err := ledger.GetFrontierMomentum()
		f := ci.momentums[len(ci.momentums)-1].Momentum
		if err != nil || got == nil || rpcMomentumID(got) != momentumID(f) {
			viol("ledger.getFrontierMomentum", "mismatch", fmt.Sprintf("err %v", err))
		}
	})
	// GetMomentumBeforeTime: the latest momentum whose timestamp is strictly before t
	ts := map[int64]bool{0: true, -1: true, 1: true}
	for i, d := range ci.momentums {
		if len(ci.momentums) > 200 && i > 20 && i < len(ci.momentums)-20 && i%37 != 0 {
			continue
		}
		u := d.Momentum.Timestamp.Unix()
		ts[u-1], ts[u], ts[u+1], ts[u+5] = true, true, true, true
	}
	last := ci.momentums[len(ci.momentums)-1].Momentum.Timestamp.Unix()
	ts[last+1000000] = true
	ts[1<<33] = true
	var tl []int64
	for t := range ts {
		tl = append(tl, t)
	}
	sort.Slice(tl, func(i, j int) bool { return tl[i] < tl[j] })
	for _, t := range tl {
		t := t
		var want *nom.Momentum
		for _, d := range ci.momentums {
			if d.Momentum.Timestamp.Unix() < t {
				want = d.Momentum
			}
		}
		type res struct {
			got *api.Momentum
			err error
			pan interface{}
		}
		call := func() chan res {
			ch := make(chan res, 1)
			go func() {
				var x res
				defer func() {
					if p := recover(); p != nil {
						x.pan = p
					}
					ch <- x
				}()
				x.got, x.err = ledger.GetMomentumBeforeTime(t)
			}()
			return ch
		}
		r.Count("a_evaluations", 1)
		r.Count("a_point_queries", 1)
		var x res
		answered := false
		for attempt := 0; attempt < 2 && !answered; attempt++ {
			select {
			case x = <-call():
				answered = true
			case <-time.After(60 * time.Second):
			}
		}
		switch {
		case !answered:
			viol("ledger.getMomentumBeforeTime", "no-answer", fmt.Sprintf("t=%d: no answer within 60 s, twice", t))
		case x.pan != nil:
			viol("ledger.getMomentumBeforeTime", "panic", fmt.Sprintf("t=%d: %v", t, x.pan))
		case x.err != nil:
			viol("ledger.getMomentumBeforeTime", "error-on-valid-input", fmt.Sprintf("t=%d: %v", t, x.err))
		case want == nil && x.got != nil, want != nil && x.got == nil:
			viol("ledger.getMomentumBeforeTime", "mismatch", fmt.Sprintf("t=%d: want momentum %v, got %v", t, want != nil, x.got != nil))
		case want != nil && rpcMomentumID(x.got) != momentumID(want):
			viol("ledger.getMomentumBeforeTime", "mismatch", fmt.Sprintf("t=%d: want height %d, got height %d", t, want.Height, x.got.Height))
		}
		if want == nil {
			r.Add("paging_cases", "ledger.getMomentumBeforeTime|none")
		} else if want.Height == ci.frontierH {
			r.Add("paging_cases", "ledger.getMomentumBeforeTime|frontier")
		} else {
			r.Add("paging_cases", "ledger.getMomentumBeforeTime|inner")
		}
	}
}
