package main

import (
	_ "verifmc/props/c01"
	_ "verifmc/props/c02"
	_ "verifmc/props/c03"
	_ "verifmc/props/c04"
	_ "verifmc/props/c05"
	_ "verifmc/props/c06"
	_ "verifmc/props/c07"
	_ "verifmc/props/c08"
	_ "verifmc/props/c09"
	_ "verifmc/props/c10"
	_ "verifmc/props/c11"
	_ "verifmc/props/c12"
	_ "verifmc/props/c13"
	_ "verifmc/props/c14"
	_ "verifmc/props/c15"
	_ "verifmc/props/c16"
	_ "verifmc/props/c17"
	_ "verifmc/props/c18"
	_ "verifmc/props/c19"
	_ "verifmc/props/c20"

	"verifmc/internal/xs"
)

func main() { xs.Main() }
