#!/usr/bin/env python3
"""tools/splice_asbuilt.py [thorough evidence dir] - regenerate the 'as built' table of DESIGN.md between its markers."""
import subprocess, sys, os
root = os.path.dirname(os.path.dirname(os.path.abspath(__file__)))
args = [sys.executable, os.path.join(root, "tools", "asbuilt_table.py")] + sys.argv[1:2]
table = subprocess.run(args, check=True, capture_output=True, text=True).stdout.strip()
p = os.path.join(root, "DESIGN.md")
s = open(p).read()
b, e = "<!-- ASBUILT-BEGIN -->", "<!-- ASBUILT-END -->"
i, j = s.index(b) + len(b), s.index(e)
open(p, "w").write(s[:i] + "\n" + table + "\n" + s[j:])
print("spliced", len(table.splitlines()), "lines")
