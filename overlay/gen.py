#!/usr/bin/env python3
"""Generates /verif/.work/overlay.json from /repo's *current* working tree:
 1. every file below /verif/overlay/files/<rel> is mapped onto /repo/<rel> (virtual packages and export files);
 2. every non-test .go file of the listed repository packages that imports "sync" is copied with that import rewritten
    to the vsync shim (globbed at generation time, so a change that adds a mutex to another file is still owned)."""
import json, os, re, sys
REPO='/repo'; ROOT='/verif/overlay/files'
# Optional (used by tools/mutcheck.sh only): a directory holding modified copies of repository files (same relative
# paths) that take the place of /repo's, and alternative output locations, so that a candidate change can be checked
# without touching /repo.
OVERRIDE=os.environ.get('VERIF_OVERRIDE_DIR')
OUT=os.environ.get('VERIF_OVERLAY_DIR','/verif/.work/overlay')
OUT_JSON=os.environ.get('VERIF_OVERLAY_JSON','/verif/.work/overlay.json')
def srcpath(p):
    if OVERRIDE:
        q=os.path.join(OVERRIDE, os.path.relpath(p, REPO))
        if os.path.exists(q): return q
    return p
SYNC_DIRS=['chain','common','common/db','consensus','pillar','rpc/api/subscribe']
os.makedirs(OUT, exist_ok=True)
replace={}
for d,_,fs in os.walk(ROOT):
    for f in fs:
        src=os.path.join(d,f); rel=os.path.relpath(src,ROOT)
        replace[os.path.join(REPO,rel)]=src
pat=re.compile(r'^(\s*)"sync"\s*$', re.M)
# Go map iteration order is a source of nondeterminism the schedule explorer has to own: the two loops over the
# account pool's per-address map (rebuild, GetAllUncommittedAccountBlocks) take per-address locks in iteration order.
# In the checker's build they iterate in sorted order (one of the orders the real code can take); if the source no
# longer has that shape the rewrite is skipped and the explorer's divergence handling covers it.
MAP_ORDER={'chain/account_pool.go': [
  (re.compile(r'(\tfor address := range ap\.managers \{\n\t\taddresses = append\(addresses, address\)\n\t\})'), r'\1\n\tverifSortAddresses(addresses)'),
  (re.compile(r'\tfor address := range ap\.managers \{\n(\t\tblocks = append\(blocks, ap\.getUncommittedAccountBlocksByAddress\(address\)\.\.\.\))'), r'\tfor _, address := range verifSortedAddresses(ap.managers) {\n\1'),
]}
n=0
for d in SYNC_DIRS:
    dd=os.path.join(REPO,d)
    if not os.path.isdir(dd): continue
    for f in sorted(os.listdir(dd)):
        if not f.endswith('.go') or f.endswith('_test.go'): continue
        p=os.path.join(dd,f)
        if p in replace: continue
        s=open(srcpath(p)).read()
        if not pat.search(s): continue
        s2=pat.sub(r'\1sync "github.com/zenon-network/go-zenon/common/vsync"', s, count=1)
        for rx,rep in MAP_ORDER.get(os.path.join(d,f), []):
            s2=rx.sub(rep, s2, count=1)
        o=os.path.join(OUT, d.replace('/','__')+'__'+f)
        if not os.path.exists(o) or open(o).read()!=s2:
            open(o,'w').write(s2)
        replace[p]=o; n+=1
if OVERRIDE:
    for d,_,fs in os.walk(OVERRIDE):
        for f in fs:
            q=os.path.join(d,f); p=os.path.join(REPO, os.path.relpath(q, OVERRIDE))
            if p not in replace: replace[p]=q
tmp=OUT_JSON+'.tmp.%d'%os.getpid()
json.dump({"Replace":replace}, open(tmp,'w'), indent=1)
os.replace(tmp,OUT_JSON)
print(f"overlay: {len(replace)} files ({n} sync rewrites)", file=sys.stderr)
