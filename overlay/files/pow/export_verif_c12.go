package pow

// Exported wrappers for the C12 check (no logic): the verifier-side threshold computation and comparison.

func VerifC12TargetByDifficulty(difficulty uint64) [8]byte { return getTargetByDifficulty(difficulty) }
func VerifC12GreaterDifficulty(x, y []byte) bool           { return greaterDifficulty(x, y) }
