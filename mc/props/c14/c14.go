// Package c14 — unconfirmed pool: one consistent chain per account, safe under concurrency.
//
// Part A (c14.go): explicit-state BFS over pool operation sequences on a real node (add / competing add / forced add /
// stale add / orphan add / momentum inserts confirming different subsets / rollback) against a list-per-account
// reference model, plus invariants evaluated independently of the reference on every state.
// Part B (content.go): momentum content offered for production — all orders of the per-account groups of a real pool
// straddling the 100-block limit with contract batches.
// Part C (sched.go): schedule exploration under the controlled scheduler (inserter vs readers, producing pillar vs
// sync InsertChain at the same height, rollback vs readers).
package c14

import (
	"bytes"
	"encoding/json"
	"fmt"
	"sort"
	"strings"
	"time"

	"github.com/zenon-network/go-zenon/chain"
	"github.com/zenon-network/go-zenon/chain/nom"
	"github.com/zenon-network/go-zenon/common/types"

	"verifmc/internal/ops"
	"verifmc/internal/vnode"
	"verifmc/internal/xs"
)

var M = ops.Op{K: "M"}

// ---------------------------------------------------------------------------------------------------------------------
// block / momentum family

type family struct {
	base    []*nom.DetailedMomentum // heights 2..H
	blocks  map[string]*nom.AccountBlock
	names   []string
	moms    map[string]*nom.DetailedMomentum // competing momentums at height H+1
	mnames  []string
	H       uint64
	confA   types.HashHeight // confirmed frontier of account a after base
	confB   types.HashHeight
	addrA   types.Address
	addrB   types.Address
	basePl  uint64
	content map[string][]string // momentum name -> block names it confirms
}

func gen(n *vnode.Node, from, to int, amount int64, fusedMul uint64, base uint64) *nom.AccountBlock {
	t := &nom.AccountBlock{BlockType: nom.BlockTypeUserSend, Address: ops.Users[from].Address, ToAddress: ops.Users[to].Address,
		TokenStandard: types.ZnnTokenStandard, Amount: ops.Big(amount)}
	if fusedMul > 1 {
		t.FusedPlasma = base * fusedMul
	}
	tx, err := n.Generate(t)
	if err != nil {
		panic(err)
	}
	return tx.Block
}

func insertOwn(n *vnode.Node, b *nom.AccountBlock) {
	if err, pan := n.AddAccountBlocks([]*nom.AccountBlock{vnode.CloneBlock(b)}); err != nil || pan != nil {
		panic(fmt.Sprintf("family construction: %v %v", err, pan))
	}
}

func buildFamily(c *xs.Ctx) *family {
	f := &family{blocks: map[string]*nom.AccountBlock{}, moms: map[string]*nom.DetailedMomentum{}, content: map[string][]string{}}
	f.addrA, f.addrB = ops.Users[0].Address, ops.Users[1].Address
	// scratch node 0: before the base block of account a exists, generate its would-be competitor ("Xold")
	s0 := vnode.New(vnode.Options{Dir: c.TempDir()})
	probe := gen(s0, 0, 2, 1, 1, 0)
	f.basePl = probe.BasePlasma
	f.blocks["Xold"] = gen(s0, 0, 2, 99, 3, f.basePl) // competitor of the block confirmed at the base height, high plasma
	ops.Apply(s0, ops.Op{K: "T", A: 0, B: 2, V: 50})  // B0: confirmed block of account a
	ops.Apply(s0, M)
	ops.Apply(s0, M)
	f.H = s0.Height()
	f.base = s0.Range(2, f.H)
	f.confA = s0.Chain.GetFrontierAccountStore(f.addrA).Identifier()
	f.confB = s0.Chain.GetFrontierAccountStore(f.addrB).Identifier()
	// candidates at the first unconfirmed height
	f.blocks["X1"] = gen(s0, 0, 2, 1, 1, f.basePl)
	f.blocks["X1h"] = gen(s0, 0, 2, 2, 2, f.basePl)
	f.blocks["X1e"] = gen(s0, 0, 2, 3, 1, f.basePl)
	f.blocks["Y1"] = gen(s0, 1, 2, 1, 1, f.basePl)
	f.blocks["Y1h"] = gen(s0, 1, 2, 2, 2, f.basePl)
	s0.Destroy()
	mk := func(pool []string, gens map[string][3]int64, mname string, confirm bool) {
		s := vnode.New(vnode.Options{Dir: c.TempDir()})
		defer s.Destroy()
		if _, err, pan := s.InsertChain(vnode.CloneBatch(f.base)); err != nil || pan != nil {
			panic(fmt.Sprintf("%v %v", err, pan))
		}
		for _, b := range pool {
			insertOwn(s, f.blocks[b])
		}
		var gnames []string
		for name := range gens {
			gnames = append(gnames, name)
		}
		sort.Strings(gnames)
		for _, name := range gnames {
			g := gens[name]
			f.blocks[name] = gen(s, int(g[0]), 2, g[1], uint64(g[2]), f.basePl)
		}
		if mname != "" {
			if _, err := s.Produce(0); err != nil {
				panic(err)
			}
			f.moms[mname] = s.Detailed(s.Height())
			f.content[mname] = pool
		}
	}
	// X2 (child of X1) carries three times the base plasma: a competitor for X1's height with twice the base plasma (X1h)
	// beats X1 but not X1's newest pooled descendant, so a rule that compares with the wrong incumbent decides differently
	mk([]string{"X1"}, map[string][3]int64{"X2": {0, 4, 3}}, "Ma", true)
	mk([]string{"X1h"}, map[string][3]int64{"X2h": {0, 5, 1}}, "Mb", true)
	mk([]string{"X1", "X2", "Y1"}, nil, "Mc", true)
	mk(nil, nil, "Me", true)
	for n := range f.blocks {
		f.names = append(f.names, n)
	}
	sort.Strings(f.names)
	for n := range f.moms {
		f.mnames = append(f.mnames, n)
	}
	sort.Strings(f.mnames)
	return f
}

// ---------------------------------------------------------------------------------------------------------------------
// reference model

type acct struct {
	conf types.HashHeight // confirmed frontier
	pool []string         // names of pooled blocks, in chain order
}

type model struct {
	f      *family
	a      map[types.Address]*acct
	height uint64 // momentum height
	tipMom string // name of the momentum at H+1, "" if none
}

func newModel(f *family) *model {
	return &model{f: f, height: f.H, a: map[types.Address]*acct{f.addrA: {conf: f.confA}, f.addrB: {conf: f.confB}}}
}

func (m *model) blockAt(ac *acct, h uint64) (string, *nom.AccountBlock) {
	for _, n := range ac.pool {
		if b := m.f.blocks[n]; b.Height == h {
			return n, b
		}
	}
	return "", nil
}

func (m *model) tip(ac *acct) types.HashHeight {
	if len(ac.pool) == 0 {
		return ac.conf
	}
	return m.f.blocks[ac.pool[len(ac.pool)-1]].Identifier()
}

func better(x, y *nom.AccountBlock) bool {
	// higher TotalPlasma/BasePlasma ratio wins, then smaller hash
	l, r := x.TotalPlasma*y.BasePlasma, y.TotalPlasma*x.BasePlasma
	if l != r {
		return l > r
	}
	return bytes.Compare(x.Hash.Bytes(), y.Hash.Bytes()) < 0
}

// add returns whether the reference accepts block `name` (force = forced insertion)
func (m *model) add(name string, force bool) bool {
	b := m.f.blocks[name]
	ac := m.a[b.Address]
	if b.Height <= ac.conf.Height {
		return false // a confirmed block is never displaced
	}
	prev := b.Previous()
	if prev == m.tip(ac) {
		ac.pool = append(ac.pool, name)
		return true
	}
	if cur, cb := m.blockAt(ac, b.Height); cb != nil {
		if cur == name {
			return true // already there
		}
		// parent must be the block below
		var below types.HashHeight
		if b.Height == ac.conf.Height+1 {
			below = ac.conf
		} else if _, pb := m.blockAt(ac, b.Height-1); pb != nil {
			below = pb.Identifier()
		}
		if below != prev {
			return false
		}
		if !force && !better(b, cb) {
			return false
		}
		var np []string
		for _, n := range ac.pool {
			if m.f.blocks[n].Height < b.Height {
				np = append(np, n)
			}
		}
		ac.pool = append(np, name)
		return true
	}
	return false // unknown parent
}

func (m *model) insertMomentum(name string) bool {
	if m.height != m.f.H {
		// a momentum at H+1 is already there: re-delivering it changes nothing, an equally long competitor is refused
		return m.tipMom == name
	}
	for _, bn := range m.f.content[name] {
		b := m.f.blocks[bn]
		ac := m.a[b.Address]
		if cur, _ := m.blockAt(ac, b.Height); cur != bn {
			if !m.add(bn, true) {
				panic("reference: momentum content not applicable: " + bn)
			}
		}
	}
	for _, bn := range m.f.content[name] {
		b := m.f.blocks[bn]
		ac := m.a[b.Address]
		ac.conf = b.Identifier()
		var np []string
		for _, n := range ac.pool {
			if m.f.blocks[n].Height > b.Height {
				np = append(np, n)
			}
		}
		ac.pool = np
	}
	m.height++
	m.tipMom = name
	return true
}

func (m *model) key() string {
	var sb strings.Builder
	fmt.Fprintf(&sb, "%d:%s|", m.height, m.tipMom)
	for _, ad := range []types.Address{m.f.addrA, m.f.addrB} {
		fmt.Fprintf(&sb, "%d:%s|", m.a[ad].conf.Height, strings.Join(m.a[ad].pool, ","))
	}
	return sb.String()
}

// ---------------------------------------------------------------------------------------------------------------------

type pop struct {
	K string `json:"k"` // A add | F force | I insert momentum | D delete (rollback one momentum)
	N string `json:"n"`
}

func (o pop) String() string { return o.K + ":" + o.N }
func popsString(os []pop) string {
	var s []string
	for _, o := range os {
		s = append(s, o.String())
	}
	return strings.Join(s, " ")
}

func forceAdd(n *vnode.Node, b *nom.AccountBlock) (err error, pan interface{}) {
	defer func() {
		if r := recover(); r != nil {
			pan = r
		}
	}()
	ins := n.Chain.AcquireInsert("c14 force add")
	defer ins.Unlock()
	if p := n.Chain.GetPatch(b.Address, b.Identifier()); p != nil {
		return nil, nil
	}
	tx, err := n.Sup.ApplyBlock(vnode.CloneBlock(b))
	if err != nil {
		return err, nil
	}
	return n.Chain.ForceAddAccountBlockTransaction(ins, tx), nil
}

// checkInvariants: independent of the reference — per account the pooled blocks form one chain extending the confirmed
// frontier.
func checkInvariants(n *vnode.Node, f *family) string {
	for _, ad := range []types.Address{f.addrA, f.addrB} {
		st := n.Chain.GetFrontierMomentumStore().GetAccountStore(ad).Identifier()
		prev := st
		for _, b := range n.Chain.GetUncommittedAccountBlocksByAddress(ad) {
			if b.Height != prev.Height+1 || b.PreviousHash != prev.Hash {
				return fmt.Sprintf("account %v: pooled block at height %d (prev %v) does not extend %v", ad, b.Height, b.PreviousHash, prev)
			}
			prev = b.Identifier()
		}
	}
	return ""
}

func observePool(n *vnode.Node, f *family) string {
	var sb strings.Builder
	fmt.Fprintf(&sb, "%d|", n.Height())
	for _, ad := range []types.Address{f.addrA, f.addrB} {
		st := n.Chain.GetFrontierMomentumStore().GetAccountStore(ad).Identifier()
		fmt.Fprintf(&sb, "%d:", st.Height)
		for _, b := range n.Chain.GetUncommittedAccountBlocksByAddress(ad) {
			name := "?"
			for nm, fb := range f.blocks {
				if fb.Hash == b.Hash {
					name = nm
				}
			}
			sb.WriteString(name + ",")
		}
		sb.WriteString("|")
	}
	return sb.String()
}

func modelPool(m *model) string {
	var sb strings.Builder
	fmt.Fprintf(&sb, "%d|", m.height)
	for _, ad := range []types.Address{m.f.addrA, m.f.addrB} {
		fmt.Fprintf(&sb, "%d:", m.a[ad].conf.Height)
		for _, n := range m.a[ad].pool {
			sb.WriteString(n + ",")
		}
		sb.WriteString("|")
	}
	return sb.String()
}

// execute replays path on a fresh node + fresh model; returns model key or a violation.
func execute(c *xs.Ctx, f *family, path []pop) (m *model, vkey, vwhat string) {
	n := vnode.New(vnode.Options{Dir: c.TempDir(), NoPillars: true})
	defer n.Destroy()
	if _, err, pan := n.InsertChain(vnode.CloneBatch(f.base)); err != nil || pan != nil {
		panic(fmt.Sprintf("%v %v", err, pan))
	}
	m = newModel(f)
	for i, o := range path {
		var err error
		var pan interface{}
		var want bool
		switch o.K {
		case "A":
			err, pan = n.AddAccountBlocks([]*nom.AccountBlock{vnode.CloneBlock(f.blocks[o.N])})
			want = m.add(o.N, false)
		case "F":
			err, pan = forceAdd(n, f.blocks[o.N])
			want = m.add(o.N, true)
		case "I":
			_, err, pan = n.InsertChain(vnode.CloneBatch([]*nom.DetailedMomentum{f.moms[o.N]}))
			want = m.insertMomentum(o.N)
		case "D":
			ins := n.Chain.AcquireInsert("c14 rollback")
			err = n.Chain.RollbackTo(ins, f.base[len(f.base)-1].Momentum.Identifier())
			ins.Unlock()
			want = true
			// the statement says nothing about the pool content after a rollback: adopt what the node holds, provided the
			// invariants hold (checked below)
			m.height = f.H
			m.tipMom = ""
			m.a[f.addrA] = &acct{conf: f.confA}
			m.a[f.addrB] = &acct{conf: f.confB}
			for _, ad := range []types.Address{f.addrA, f.addrB} {
				for _, b := range n.Chain.GetUncommittedAccountBlocksByAddress(ad) {
					for nm, fb := range f.blocks {
						if fb.Hash == b.Hash {
							m.a[ad].pool = append(m.a[ad].pool, nm)
						}
					}
				}
			}
		}
		at := fmt.Sprintf("ops [%s], after op %d (%v)", popsString(path), i, o)
		if pan != nil {
			return m, "pool-op-panics:" + o.K, fmt.Sprintf("%s: panic %v", at, pan)
		}
		if (err == nil) != want {
			kind := map[bool]string{true: "refused-but-reference-accepts", false: "accepted-but-reference-refuses"}[want]
			return m, kind + ":" + o.K + ":" + o.N, fmt.Sprintf("%s: node err=%v, reference accepts=%v", at, err, want)
		}
		if inv := checkInvariants(n, f); inv != "" {
			return m, "pool-not-a-single-chain", fmt.Sprintf("%s: %s", at, inv)
		}
		if got, wantS := observePool(n, f), modelPool(m); got != wantS {
			return m, "pool-differs-from-reference:" + o.K, fmt.Sprintf("%s: node %s reference %s", at, got, wantS)
		}
	}
	return m, "", ""
}

func enabledOps(f *family, m *model, quick bool) []pop {
	var out []pop
	for _, n := range f.names {
		out = append(out, pop{"A", n})
	}
	for _, n := range []string{"X1", "X1e", "Y1", "Xold", "X2h"} {
		out = append(out, pop{"F", n})
	}
	for _, n := range f.mnames {
		out = append(out, pop{"I", n})
	}
	if m.height > f.H {
		out = append(out, pop{"D", ""})
	}
	return out
}

func runSequential(c *xs.Ctx, r *xs.Result, only []pop) {
	f := buildFamily(c)
	if only != nil {
		_, k, w := execute(c, f, only)
		if k != "" {
			r.Violate("C14:seq:"+k, w, map[string]interface{}{"part": "seq", "ops": only})
		}
		r.Count("seq_transitions", int64(len(only)))
		r.Count("seq_states", 1)
		return
	}
	depth := 4
	if c.Thorough() {
		depth = 6
	}
	type item struct{ path []pop }
	seen := map[string]bool{newModel(f).key(): true}
	frontier := []item{{nil}}
	idx := 0
	for d := 0; d < depth && len(frontier) > 0; d++ {
		var nxt []item
		for _, it := range frontier {
			mp, _ := executeModelOnly(f, it.path)
			for _, o := range enabledOps(f, mp, !c.Thorough()) {
				idx++
				// the BFS order and the seen set are identical in every shard (they depend on the reference only); the
				// real executions are split over the shards
				path := append(append([]pop{}, it.path...), o)
				m2, ok := executeModelOnly(f, path)
				mine := c.Mine(idx)
				if mine {
					if c.Expired() {
						r.Incomplete = true
						return
					}
					_, k, w := execute(c, f, path)
					r.Count("seq_transitions", 1)
					r.Add("seq_op_kinds", o.K)
					if k != "" {
						r.Violate("C14:seq:"+k, w, map[string]interface{}{"part": "seq", "ops": path})
						continue
					}
				}
				_ = ok
				key := m2.key()
				if !seen[key] {
					seen[key] = true
					if mine {
						r.Count("seq_states", 1)
						r.Sample(map[string]string{"part": "seq", "ops": popsString(path), "state": key})
					}
					nxt = append(nxt, item{path})
				}
			}
		}
		frontier = nxt
	}
	if c.Shard == 0 {
		r.Count("seq_reference_states", int64(len(seen)))
	}
}

// executeModelOnly runs the reference alone (used to enumerate the state space identically in every shard).
func executeModelOnly(f *family, path []pop) (*model, bool) {
	m := newModel(f)
	for _, o := range path {
		switch o.K {
		case "A":
			m.add(o.N, false)
		case "F":
			m.add(o.N, true)
		case "I":
			m.insertMomentum(o.N)
		case "D":
			m.height = f.H
			m.tipMom = ""
			m.a[f.addrA] = &acct{conf: f.confA}
			m.a[f.addrB] = &acct{conf: f.confB}
		}
	}
	return m, true
}

var _ chain.Chain

func init() {
	xs.Register(&xs.Check{
		ID:     "C14",
		Level:  "model_checking",
		Shards: func(tier string) int { return 16 },
		Budget: func(tier string) time.Duration {
			if tier == "thorough" {
				return 25 * time.Minute
			}
			return 4 * time.Minute
		},
		Assumptions: []string{
			"mock genesis; block family: per account candidates at two unconfirmed heights (base plasma, higher plasma ratio, equal ratio/other hash), a competitor of a confirmed block, orphans; four competing momentums confirming different subsets",
			"after a rollback the statement does not fix the pool content: the node's pool is adopted as reference there, provided it is a single chain per account extending the confirmed frontier",
			"schedule exploration: scheduling points at every mutex acquisition of chain, common/db, pillar, consensus and before every leveldb write of Add/Pop; weak-memory effects are left to the separate free-running -race pass",
		},
		Run: run,
		Finish: func(tier string, m *xs.Result, ev *xs.Evidence) {
			ev.Coverage["states"] = m.Counters["seq_states"] + m.Counters["content_cases"] + m.Counters["sched_executions"]
			ev.Coverage["transitions"] = m.Counters["seq_transitions"] + m.Counters["content_orders"] + m.Counters["sched_points"]
			ev.Coverage["traces_validated_against_impl"] = m.Counters["seq_transitions"] + m.Counters["content_orders"] + m.Counters["sched_executions"]
		},
	})
}

func run(c *xs.Ctx, r *xs.Result) {
	if c.Replay != nil {
		var rep struct {
			Part     string `json:"part"`
			Ops      []pop  `json:"ops"`
			Scenario string `json:"scenario"`
			Schedule []int  `json:"schedule"`
		}
		if err := json.Unmarshal(c.Replay, &rep); err != nil {
			panic(err)
		}
		switch rep.Part {
		case "seq":
			runSequential(c, r, rep.Ops)
		case "sched":
			replaySched(c, r, rep.Scenario, rep.Schedule)
		case "race":
			runRacePass(c, r)
		default:
			runContent(c, r)
		}
		return
	}
	runSequential(c, r, nil)
	runContent(c, r)
	runSched(c, r)
	if c.Shard == 0 {
		runRacePass(c, r)
	}
}
